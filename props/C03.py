"""C03 — assembly is the exact scatter-add of element contributions, for any numbering.

1. build coq/lib + coq/model (EFModel.C03_Csr / C03_Assembly / C03_Exec: hand-written Gallina model of
   dof numbering, rows/cols layouts, the cached CSR reduction map, __Assemble_csr, Assembly())
2. compile coq/props/C03/*.v: theorems for ALL connectivities / dof_n / values / op histories
3. correspondence: generated op sequences (1-3 element groups, None slots, dof_n 1..6, complex
   stream, Ndof / mesh / cache changes) run on REAL EasyFEA simulation objects (corr/C03_impl.py)
   and on the model (vm_compute in generated cases files); CSR triples and the cached maps are
   compared exactly; node-renumbering runs are compared with the permuted original
4. on any mismatch: the property's own predicate (independent dense loop) decides whether the
   implementation violates the property (failing input + replay) or only the model tie broke.
"""
import concurrent.futures
import json
import os
import re

from vlib import common

ELEM = {"POINT": 1, "SEG2": 2, "SEG3": 3, "TRI3": 3, "QUAD4": 4, "TETRA4": 4, "TRI6": 6}
IMPL = os.path.join(common.VERIF, "corr", "C03_impl.py")


# --------------------------------------------------------------------------------------
# generation
# --------------------------------------------------------------------------------------
def gen_mesh(rng, gid0, perm=None):
    ngroups = rng.choice([1, 1, 2, 2, 3])
    types = rng.sample(sorted(ELEM), ngroups)
    maxn = max(ELEM[t] for t in types)
    Nn = rng.randint(max(2, maxn - 1), maxn + 4)
    groups = []
    for k, et in enumerate(types):
        nPe = ELEM[et]
        Ne = rng.choice([1, 1, 2, 2, 3, 4])
        conn = []
        for _ in range(Ne):
            if Nn >= nPe and rng.random() < 0.9:
                conn.append(rng.sample(range(Nn), nPe))
            else:  # degenerate element (repeated node): still a valid scatter-add input
                conn.append([rng.randrange(Nn) for _ in range(nPe)])
        groups.append({"gid": gid0 + k, "type": et, "nPe": nPe, "connect": conn})
    return {"Nn": Nn, "groups": groups}


def all_groups(m):
    return m["groups"] + m.get("user_groups", [])


def gen_user_groups(rng, mesh, gid0):
    """groups a user subclass builds itself (boundary / convective edges ...): NOT groups of the mesh, new
    objects per variant.  Variants: A; same element type and element count but another connectivity;
    another element count; the same connectivity as A in a new object."""
    Nn = mesh["Nn"]
    et = rng.choice([t for t in sorted(ELEM) if ELEM[t] <= Nn and ELEM[t] <= 4])
    nPe = ELEM[et]
    Ne = rng.randint(1, 3)

    def conn(k):
        return [rng.sample(range(Nn), nPe) for _ in range(k)]
    a = conn(Ne)
    b = conn(Ne)
    variants = [a, b, conn(Ne + 1), [list(e) for e in a], conn(Ne)]
    return [{"gid": gid0 + i, "type": et, "nPe": nPe, "connect": c, "user": True} for i, c in enumerate(variants)]


def gen_values(rng, n, cplx):
    if cplx and rng.random() < 0.6:
        return [[rng.randint(-9, 9), rng.randint(-9, 9)] for _ in range(n)]
    return [rng.randint(-9, 9) for _ in range(n)]


def gen_table(rng, mesh, dof_n, cplx):
    gs = list(mesh["groups"])
    rng.shuffle(gs)
    k = rng.choice([0, 1, 1, 2, 2, 3, 3])
    gs = gs[:k]
    # some slots absent for every group (e.g. no M), some absent for some groups only
    dead = [rng.random() < 0.25 for _ in range(4)]
    if mesh.get("user_groups") and rng.random() < 0.8:
        gs.insert(rng.randint(0, len(gs)), rng.choice(mesh["user_groups"]))
    table = []
    for g in gs:
        Ne, n = len(g["connect"]), g["nPe"] * dof_n
        four = []
        for si in range(4):
            if dead[si] or rng.random() < 0.25:
                four.append(None)
            else:
                four.append(gen_values(rng, Ne * n * (n if si < 3 else 1), cplx))
        table.append([g["gid"], four])
    return table


def gen_case(rng, cid, tier):
    cplx = rng.random() < 0.25
    nmesh = rng.choice([1, 2, 2])
    meshes, gid = [], 1
    for _ in range(nmesh):
        m = gen_mesh(rng, gid)
        gid += len(m["groups"])
        meshes.append(m)
    if rng.random() < 0.45:
        for m in meshes:
            m["user_groups"] = gen_user_groups(rng, m, gid)
            gid += len(m["user_groups"])
    maxn = max(g["nPe"] for m in meshes for g in all_groups(m))
    cap = max(1, min(6, 12 // maxn))
    dof_n = [rng.randint(1, cap), rng.randint(1, cap)]
    cur = 0
    history = [0]          # simu's list of meshes (indices into meshes)
    ops = []
    nops = rng.randint(3, 8 if tier == "quick" else 12)
    last_table = None
    for _ in range(nops):
        r = rng.random()
        if r < 0.5 or not ops:
            pt = rng.randrange(2)
            if last_table is not None and last_table[0] == (pt, cur) and rng.random() < 0.35:
                # same contributing groups, new values: the cached pattern is reused
                table = [[gid_, [None if x is None else gen_values(rng, len(x), cplx) for x in four]]
                         for gid_, four in last_table[1]]
                ug = {g["gid"]: g for g in meshes[cur].get("user_groups", [])}
                for ent in table:
                    if ent[0] in ug and rng.random() < 0.7:
                        # the user subclass hands over a NEW group object this time (same type; same or another
                        # connectivity / element count): the map cached for the previous object must not be used
                        g = rng.choice(list(ug.values()))
                        Ne, n = len(g["connect"]), g["nPe"] * dof_n[pt]
                        ent[0] = g["gid"]
                        ent[1] = [None if x is None else gen_values(rng, Ne * n * (n if si < 3 else 1), cplx) for si, x in enumerate(ent[1])]
            else:
                table = gen_table(rng, meshes[cur], dof_n[pt], cplx)
            last_table = ((pt, cur), table)
            ops.append({"op": "assembly", "pt": pt, "table": table})
            if rng.random() < 0.25 and table:
                # the user modifies the returned matrices in place; the same key is assembled again right after
                ops[-1]["mutate"] = [rng.choice(["data", "elim", "indices", "indptr", "setdiag", "imul", "sort", None, None]) for _ in range(4)]
                ops.append({"op": "assembly", "pt": pt, "table": [[g_, [None if x is None else gen_values(rng, len(x), cplx) for x in four]] for g_, four in table]})
        elif r < 0.58:
            ops.append({"op": "clear"})
        elif r < 0.68:
            cur = rng.randrange(nmesh)
            history.append(cur)
            ops.append({"op": "setmesh", "mesh": cur})
        elif r < 0.80:
            ops.append({"op": "addlag", "pt": rng.randrange(2)})
        elif r < 0.88:
            pt = rng.randrange(2)
            nd = meshes[cur]["Nn"] * dof_n[pt]
            dd = [rng.randrange(nd) for _ in range(rng.randint(1, 3))]
            if rng.random() < 0.4:
                dd.append(rng.choice(dd))      # a dof entered twice counts once in Ndof
            ops.append({"op": "adddir", "pt": pt, "dofs": dd})
        elif r < 0.93:
            ops.append({"op": "bcinit"})
        else:
            ops.append({"op": "needupdate"})
    conn = {str(g["gid"]): g["connect"] for m in meshes for g in all_groups(m)}
    nPe = {str(g["gid"]): g["nPe"] for m in meshes for g in all_groups(m)}
    return {"id": cid, "complex": cplx, "meshes": meshes, "mesh0": 0, "dof_n": dof_n, "ops": ops,
            "conn": conn, "nPe": nPe}


LAYOUTS = ["F", "T", "neg", "negl", "strided"]


def add_layouts(rng, case):
    """memory layout / array class of every element array handed to the assembly (same logical values)"""
    def pick(four):
        out = []
        for x in four:
            if x is None or rng.random() < 0.45:
                out.append(None)
            else:
                out.append(("fe:" if rng.random() < 0.5 else "") + rng.choice(LAYOUTS + ["C"]))
        return out
    if case.get("kcmf"):
        case["layouts"] = {str(g): pick(four) for table in case["tables"] for g, four in table}
        return
    for op in case["ops"]:
        if op["op"] == "assembly":
            op["layouts"] = {str(g): pick(four) for g, four in op["table"]}


def gen_kcmf(rng, cid):
    """one problem type; two meshes (the second one a renumbering of the first with the same Nn, or another mesh);
    fixed element arrays per mesh; the active mesh changes through the mesh setter and Set_Iter, back and forth;
    Get_K_C_M_F is read after the changes"""
    m0 = gen_mesh(rng, 1)
    gid = 1 + len(m0["groups"])
    if rng.random() < 0.6:
        p = list(range(m0["Nn"]))
        rng.shuffle(p)
        m1 = {"Nn": m0["Nn"], "groups": [{"gid": gid + i, "type": g["type"], "nPe": g["nPe"], "connect": [[p[x] for x in e] for e in g["connect"]]}
                                           for i, g in enumerate(m0["groups"])]}
    else:
        m1 = gen_mesh(rng, gid)
    meshes = [m0, m1]
    maxn = max(g["nPe"] for m in meshes for g in m["groups"])
    d = rng.randint(1, max(1, min(4, 12 // maxn)))
    tables = []
    for m in meshes:
        table = []
        for g in m["groups"]:
            Ne, n = len(g["connect"]), g["nPe"] * d
            table.append([g["gid"], [gen_values(rng, Ne * n * n, False), None if rng.random() < 0.5 else gen_values(rng, Ne * n * n, False),
                                     None if rng.random() < 0.7 else gen_values(rng, Ne * n * n, False), None if rng.random() < 0.3 else gen_values(rng, Ne * n, False)]])
        rng.shuffle(table)
        tables.append(table)
    cur, saved = 0, []
    tab_of_mesh = [0, 1]       # index (into tables) of the element arrays currently valid for each mesh
    ops = [{"op": "get", "expect_mesh": 0, "table_idx": 0}]
    for _ in range(rng.randint(4, 9)):
        r = rng.random()
        if r < 0.25:
            ops.append({"op": "save"})
            saved.append(cur)
        elif r < 0.5 and saved:
            i = rng.randrange(len(saved))
            cur = saved[i]
            ops.append({"op": "setiter", "iter": i, "mesh": cur})
        elif r < 0.75:
            cur = rng.randrange(2)
            ops.append({"op": "setmesh", "mesh": cur})
        elif r < 0.82:
            ops.append({"op": "needupdate"})
        elif r < 0.88:
            ops.append({"op": "clear"})
        else:
            # the model changes: new element arrays for the active mesh (same groups and slots), Need_Update fired
            tables.append([[g_, [None if x is None else gen_values(rng, len(x), False) for x in four]] for g_, four in tables[tab_of_mesh[cur]]])
            tab_of_mesh[cur] = len(tables) - 1
            ops.append({"op": "retable", "mesh": cur, "table_idx": tab_of_mesh[cur]})
        if ops[-1]["op"] in ("setiter", "setmesh", "needupdate", "retable") and rng.random() < 0.4:
            # an assembly interrupted by an exception raised in the user's Construct_local_matrix_system (caught by the
            # harness): it must leave nothing behind that makes the next, repaired, read wrong
            ops.append({"op": "failget"})
        if ops[-1]["op"] in ("setiter", "setmesh", "retable", "failget") and rng.random() < 0.9 or rng.random() < 0.3:
            ops.append({"op": "get", "expect_mesh": cur, "table_idx": tab_of_mesh[cur]})
    ops.append({"op": "get", "expect_mesh": cur, "table_idx": tab_of_mesh[cur]})
    # the user mutates the returned matrices in place: later results (same state, and after Need_Update) must not change
    MUT = ["data", "elim", "indices", "indptr", "setdiag", "imul", "resize", "sort", None]
    out = []
    for o in ops:
        out.append(o)
        if o["op"] == "get" and rng.random() < 0.5:
            o["mutate"] = [rng.choice(MUT) for _ in range(4)]
            out.append({"op": "get", "expect_mesh": o["expect_mesh"], "table_idx": o["table_idx"]})
            if rng.random() < 0.5:
                out.append({"op": "needupdate"})
                out.append({"op": "get", "expect_mesh": o["expect_mesh"], "table_idx": o["table_idx"]})
    ops = out
    conn = {str(g["gid"]): g["connect"] for m in meshes for g in m["groups"]}
    nPe = {str(g["gid"]): g["nPe"] for m in meshes for g in m["groups"]}
    return {"id": cid, "kcmf": True, "complex": False, "meshes": meshes, "mesh0": 0, "dof_n": [d], "tables": tables, "ops": ops,
            "conn": conn, "nPe": nPe}


def renumbered(case, rng, cid):
    """the same case with every mesh's nodes renumbered by a random permutation"""
    perms = []
    new = json.loads(json.dumps(case))
    new["id"] = cid
    for m in new["meshes"]:
        p = list(range(m["Nn"]))
        rng.shuffle(p)
        perms.append(p)
        for g in all_groups(m):
            g["connect"] = [[p[n] for n in e] for e in g["connect"]]
    new["conn"] = {str(g["gid"]): g["connect"] for m in new["meshes"] for g in all_groups(m)}
    for op in new["ops"]:
        if op["op"] == "adddir":
            pass  # only the number of distinct dofs matters for Ndof
    return new, perms


# --------------------------------------------------------------------------------------
# Coq emission
# --------------------------------------------------------------------------------------
def zl(xs):
    return "[" + ";".join(str(int(x)) for x in xs) + "]"


def zll(xss):
    return "[" + ";".join(zl(x) for x in xss) + "]"


def vals(x, cplx):
    if x is None:
        return "None"
    if cplx:
        ps = [(v[0], v[1]) if isinstance(v, list) else (v, 0) for v in x]
        return "(Some [" + ";".join("(%d,%d)" % p for p in ps) + "])"
    return "(Some " + zl(x) + ")"


def emit_defs(case):
    cid, cplx = case["id"], case["complex"]
    V = "(Z*Z)" if cplx else "Z"
    env = "[" + ";".join("(%d,%s)" % (g["gid"], zll(g["connect"])) for m in case["meshes"] for g in all_groups(m)) + "]"
    ops = []
    for op in case["ops"]:
        k = op["op"]
        if k == "assembly":
            tb = "[" + ";".join("(%d,(%s,%s,%s,%s))" % ((gid,) + tuple(vals(x, cplx) for x in four)) for gid, four in op["table"]) + "]"
            ops.append("OAssembly %s %d %d %s" % (V, op["pt"], case["dof_n"][op["pt"]], tb))
        elif k == "get":      # Get_K_C_M_F after the changes = Assembly() of the active mesh with its element arrays
            tb = "[" + ";".join("(%d,(%s,%s,%s,%s))" % ((gid,) + tuple(vals(x, cplx) for x in four)) for gid, four in case["tables"][op["table_idx"]]) + "]"
            ops.append("OAssembly %s 0 %d %s" % (V, case["dof_n"][0], tb))
        elif k in ("retable", "failget"):   # new element arrays + Need_Update / an assembly that did not complete: mesh, cache, Ndof unchanged
            ops.append("ONeedUpdate %s" % V)
        elif k == "setiter":  # Set_Iter -> __Update_mesh(index of the mesh of that iteration)
            ops.append("OUpdateMesh %s env_%d %d" % (V, cid, case["meshes"][op["mesh"]]["Nn"]))
        elif k == "save":
            ops.append("ONeedUpdate %s" % V)   # Save_Iter does not touch mesh, cache or Ndof
        elif k == "clear":
            ops.append("OClear %s" % V)
        elif k == "setmesh":
            ops.append("OSetMesh %s env_%d %d" % (V, cid, case["meshes"][op["mesh"]]["Nn"]))
        elif k == "addlag":
            ops.append("OAddBc %s (BLag %d)" % (V, op["pt"]))
        elif k == "adddir":
            ops.append("OAddBc %s (BDir %d %s)" % (V, op["pt"], zl(op["dofs"])))
        elif k == "bcinit":
            ops.append("OBcInit %s" % V)
        elif k == "needupdate":
            ops.append("ONeedUpdate %s" % V)
    s = "Definition env_%d := env_of %s.\n" % (cid, env)
    s += "Definition ops_%d : list (op %s) := [%s].\n" % (cid, V, ";\n  ".join(ops))
    return s


def emit_case(case, res):
    cid, cplx = case["id"], case["complex"]
    expected = "[" + ";".join(zll([x for slot in a["out"] for x in slot]) for a in res["assemblies"]) + "]"
    cache = "[" + ";".join("((%d,%s,%d,%s),%s)" % (e["key"][0], "true" if e["key"][1] else "false", e["key"][2], zl(e["key"][3]), zll(e["val"]))
                           for e in res["cache"]) + "]"
    fn = "check_case_C" if cplx else "check_case_Z"
    s = emit_defs(case)
    s += "Eval vm_compute in (%d, %s env_%d %d ops_%d\n %s\n %s).\n" % (cid, fn, cid, case["meshes"][case["mesh0"]]["Nn"], cid, expected, cache)
    return s


HEADER = """From Coq Require Import ZArith List. Import ListNotations. Open Scope Z_scope.
From EFModel Require Import C03_Csr C03_Assembly C03_Exec.
Set Printing Width 1000000. Set Printing Depth 1000000.
"""

_RES = re.compile(r"=\s*\((\d+),\s*\((true|false),\s*(true|false),\s*(\[.*?\])\)\)\s*:", re.S)


def parse_keys(txt):
    txt = txt.replace("\n", " ")
    return [[int(v) for v in re.findall(r"-?\d+", grp)] for grp in re.findall(r"\[([^\[\]]*)\]", txt)] if txt.strip() != "[]" else []


# --------------------------------------------------------------------------------------
REPLAY = r'''
import json, sys, subprocess, os
case = json.loads(%(case)r)
here = os.environ.get("PYTHONPATH", "").split(os.pathsep)
script = [os.path.join(p, "corr", "C03_impl.py") for p in here if os.path.exists(os.path.join(p, "corr", "C03_impl.py"))][0]
p = subprocess.run([sys.executable, script], input=json.dumps({"cases": [case]}), capture_output=True, text=True)
res = json.loads(p.stdout[p.stdout.rindex("@@JSON@@") + 8:].split("\n", 1)[0])["results"][0]
if res.get("error"):
    print("implementation raised:", res["error"]); sys.exit(1)
pf = res["prop_fail"]
if pf:
    print("Assembly #%%d slot %%s differs from the dense scatter-add of the element arrays" %% (pf["assembly_index"], pf["slot"]))
    print("observed (real part):", pf["impl"]); print("expected (real part):", pf["dense"]); sys.exit(1)
expected = %(expected)r
if expected is not None:
    got = [a["out"] for a in res["assemblies"]]
    if got != expected:
        print("CSR triples differ from the model prediction"); print("observed:", got); print("expected:", expected); sys.exit(1)
print("no violation: every assembled slot equals the dense scatter-add"); sys.exit(0)
'''


def shrink_case(case, upto_op):
    c = json.loads(json.dumps(case))
    c["ops"] = c["ops"][: upto_op + 1]
    return c


def split_obl(ctx, name, nbad, ntotal, detail=""):
    """one obligation per case: the passing cases are discharged, the failing ones are not"""
    nbad = min(nbad, ntotal)
    if ntotal - nbad > 0:
        ctx.obligation(name, True, "%d cases" % (ntotal - nbad), n=ntotal - nbad)
    if nbad > 0 or ntotal == 0:
        ctx.obligation(name, nbad == 0 and ntotal > 0, detail, n=max(1, nbad))


def run(ctx):
    ctx.assumptions += [
        "the Gallina model (coq/model/C03_*.v) is a faithful transcription of __Assemble_csr/__Get_csr_map/Assembly/_Get_assembly_e/Get_rows_e/Get_columns_e (checked by exact comparison on every generated case of this run)",
        "scipy csr_matrix((ones,(rows,cols))).sort_indices() yields the sorted distinct (row,col) pattern; np.searchsorted/np.bincount semantics (compared on every case)",
        "python object identity of _GroupElem as cache-key component: a group object is never mutated in place (connect is private and copied on read)",
        "float arithmetic is exact on the generated integer data (|values| <= 9, < 100 summands)",
        "index arithmetic: the theorems are over unbounded Z; C03_int64_keys_exact shows the code's wrapping int64 key arithmetic equals it when Ndof^2 < 2^63 (the dtype actually used by numpy is observed only through the large-index correspondence cases)",
    ]
    ok_static, log = ctx.ensure_static()
    if not ok_static:
        ctx.obligation("static-lib", False, log[-1500:])
        ctx.violation("static-lib-build", "coq/lib or coq/model does not build", {"log": log[-3000:]}, found_input=False)
        return
    files = ctx.copy_props("C03/C03_theorems.v")
    for extra in ("C03_renumber.v", "C03_bounds.v", "C03_layout.v"):
        if os.path.exists(os.path.join(common.COQ, "props", "C03", extra)):
            files += ctx.copy_props("C03/" + extra)
    r = ctx.coq(files, timeout=600)
    ctx.sample({"theorem": "C03_assembly_after_any_history: forall env0 Nn0 ops pt dof_n t, ops_ok s0 ops -> 0 < dof_n -> table_ok (run s0 ops) t -> each of K,C,M,F returned by Assembly satisfies forall r c in range, csr_get X r c = dense scatter-add of the present groups' entries",
                "proof": "induction over op lists with the cache invariant; refinement via sorted-unique keys / searchsorted / bincount lemmas"})
    if not r.ok:
        ctx.violation("proof-broken:" + str(r.failed_file), "theorem file %s no longer checks" % r.failed_file,
                      {"obligation": r.failed_file, "log": r.log[-3000:]}, found_input=False)

    correspondence(ctx)
    big_index(ctx)
    magnitudes(ctx)


def correspondence(ctx):
    rng = ctx.rng
    ncases = 150 if ctx.tier == "quick" else 2400
    nren = 30 if ctx.tier == "quick" else 300
    cases = [gen_case(rng, i, ctx.tier) for i in range(ncases)]
    for c in cases:
        add_layouts(rng, c)
    ren = []
    for j in range(nren):
        base = cases[rng.randrange(ncases)]
        new, perms = renumbered(base, rng, ncases + j)
        ren.append((base["id"], new, perms))
    nk = 30 if ctx.tier == "quick" else 300
    kcmf = [gen_kcmf(rng, ncases + nren + j) for j in range(nk)]
    for c in kcmf:
        add_layouts(rng, c)
    allcases = cases + [x[1] for x in ren] + kcmf
    byid = {c["id"]: c for c in allcases}

    # ---- implementation ----
    chunks = [allcases[i::3] for i in range(3)]

    def run_impl(chunk):
        return ctx.impl_python(IMPL, input=json.dumps({"cases": chunk}), timeout=1500)
    results = {}
    with concurrent.futures.ThreadPoolExecutor(3) as ex:
        for rc, out, err in ex.map(run_impl, chunks):
            if rc != 0:
                ctx.obligation("corr:impl-run", False, err[-1500:])
                ctx.violation("corr:impl-crash", "implementation-side harness failed: " + (err.strip().splitlines()[-1][:300] if err.strip() else "rc=%d" % rc),
                              {"stderr": err[-3000:]}, found_input=False)
                return
            for res in json.loads(out[out.rindex("@@JSON@@") + 8:].split("\n", 1)[0])["results"]:
                results[res["id"]] = res
    ctx.log("implementation ran %d cases" % len(results))

    dist = {"ops": {}, "groups_per_table": {}, "dof_n": {}, "complex_cases": 0, "none_slots": 0, "present_slots": 0,
            "assemblies": 0, "cache_hits_expected": 0, "elem_types": {}}
    # ---- property predicate on the implementation (independent dense loop), errors ----
    bad_impl = []
    for cid, res in results.items():
        case = byid[cid]
        if res.get("error"):
            bad_impl.append((cid, "raised " + res["error"], None))
        elif res["prop_fail"]:
            pf = res["prop_fail"]
            bad_impl.append((cid, "Assembly #%d slot %s is not the dense scatter-add" % (pf["assembly_index"], pf["slot"]), pf))
    seen_keys = set()
    for cid, what, pf in sorted(bad_impl, key=lambda t: t[0]):
        case = byid[cid]
        if not pf:
            key = "assembly-raises"
        elif case.get("kcmf") and pf.get("alias"):
            key = "returned-matrices-alias-internal-state"
            what = "Get_K_C_M_F #%d: %s" % (pf["assembly_index"], pf["impl"])
        elif case.get("kcmf") and any(o["op"] == "failget" for o in case["ops"][:pf["op_index"]]) and pf.get("active_mesh") == pf.get("expected_mesh"):
            key = "assembly-not-scatter-add:after-interrupted-assembly"
            what = "Get_K_C_M_F #%d slot %s is not the scatter-add of the CURRENT element arrays after an assembly that was interrupted by an exception (ops %s): the failed call left state behind (stale matrices served)" % (
                pf["assembly_index"], pf["slot"], [o["op"] for o in case["ops"][:pf["op_index"] + 1]])
        elif case.get("kcmf") and any(o.get("mutate") for o in case["ops"][:pf["op_index"]]) and pf.get("active_mesh") == pf.get("expected_mesh"):
            key = "assembly-not-scatter-add:after-mutating-returned-matrices"
            what = "Get_K_C_M_F #%d slot %s is not the scatter-add after the user modified previously RETURNED matrices in place (%s): returned objects alias internal state (stored matrices / cached pattern)" % (
                pf["assembly_index"], pf["slot"], [o.get("mutate") for o in case["ops"][:pf["op_index"]] if o.get("mutate")])
        elif case.get("kcmf"):
            key = "assembly-not-scatter-add:active-mesh-history"
            what = "Get_K_C_M_F #%d slot %s is not the scatter-add for the active mesh (active mesh %s, expected %s) after %s" % (
                pf["assembly_index"], pf["slot"], pf.get("active_mesh"), pf.get("expected_mesh"), [o["op"] for o in case["ops"][:pf["op_index"] + 1]])
        elif pf.get("alias_assembly") or any(o.get("mutate") for o in case["ops"][:pf["op_index"]]):
            key = "assembly-results-alias-cached-pattern"
            what += "; the matrices returned by an earlier Assembly() call were modified in place by the user (%s): results of Assembly() share index arrays with each other / with the cached reduction map" % [o.get("mutate") for o in case["ops"][:pf["op_index"] + 1] if o.get("mutate")]
        elif pf.get("contiguous_ok"):
            key = "assembly-not-scatter-add:array-layout"
            lay = case["ops"][pf["op_index"]].get("layouts")
            what += "; the SAME values given as C-contiguous ndarrays assemble correctly: the result depends on the memory layout / array class of the element arrays (layouts %s)" % json.dumps(lay)
        else:
            key = "assembly-not-scatter-add"
        if key in seen_keys:
            continue
        seen_keys.add(key)
        small = shrink_case(case, pf["op_index"]) if pf else case
        ctx.violation(key, "case %d (dof_n=%s, complex=%s): %s" % (cid, case["dof_n"], case["complex"], what),
                      {"replay_py": REPLAY % dict(case=json.dumps(small), expected=None), "case": small, "detail": pf}, found_input=True)
    split_obl(ctx, "corr:impl-satisfies-dense-predicate", len(bad_impl), len(results), "; ".join("%d %s" % (c, w) for c, w, _ in bad_impl[:5]))

    # ---- model (vm_compute) ----
    per_file = 40
    ids = sorted(results)
    ids = [i for i in ids if not results[i].get("error")]
    files = []
    for k in range(0, len(ids), per_file):
        body = HEADER + "\n".join(emit_case(byid[i], results[i]) for i in ids[k:k + per_file])
        files.append(("cases_%03d.v" % (k // per_file), body))

    def run_coq(fb):
        return fb[0], ctx.coq_eval(fb[0], fb[1], timeout=900)
    verdict = {}
    model_keys = {}
    with concurrent.futures.ThreadPoolExecutor(3) as ex:
        for fname, (rc, out) in ex.map(run_coq, files):
            if rc != 0:
                ctx.obligation("corr:model-eval:" + fname, False, out[-1500:])
                ctx.violation("corr:model-eval", "generated cases file %s does not compile" % fname, {"log": out[-3000:]}, found_input=False)
                return
            for m in _RES.finditer(out):
                cid = int(m.group(1))
                verdict[cid] = (m.group(2) == "true", m.group(3) == "true")
                model_keys[cid] = sorted(parse_keys(m.group(4)))
    ctx.checker_cmds.append("coqc -Q coq/lib EFLib -Q coq/model EFModel build/C03/cases_*.v (Eval vm_compute in check_case_{Z,C} ...)")
    missing = [i for i in ids if i not in verdict]
    ctx.obligation("corr:all-cases-evaluated", not missing, "missing %s" % missing[:5])
    if missing:
        ctx.violation("corr:parse", "model verdict missing for cases %s" % missing[:5], {}, found_input=False)

    out_bad = [i for i in ids if i in verdict and not verdict[i][0]]
    cache_bad = [i for i in ids if i in verdict and not verdict[i][1]]
    keyset_diff = 0
    for i in ids:
        if i in verdict:
            ik = sorted([e["key"][0], 1 if e["key"][1] else 0, e["key"][2]] + e["key"][3] for e in results[i]["cache"])
            if ik != model_keys[i]:
                keyset_diff += 1
    split_obl(ctx, "corr:csr-triples-equal-model", len(out_bad), len(ids), "cases %s" % out_bad[:8])
    split_obl(ctx, "corr:impl-cache-entries-are-fresh-maps", len(cache_bad), len(ids), "cases %s" % cache_bad[:8])
    ctx.cov["cache_keyset_differs_from_model_cases"] = keyset_diff
    unreadable = sum(results[i].get("cache_unreadable", 0) for i in ids)
    ctx.obligation("corr:impl-cache-layout-readable", unreadable == 0, "%d cache entries with an unexpected key/value layout" % unreadable)
    if unreadable and not bad_impl:
        ctx.violation("corr:cache-layout", "the private reduction-map cache no longer has the key layout (dof_n, isMatrix, Ndof, groups): the cache-soundness tie cannot be checked", {}, found_input=False)
    already = {c for c, _, _ in bad_impl}
    for i in (out_bad + cache_bad)[:3]:
        if i in already:
            continue
        case = byid[i]
        # the implementation satisfies the dense predicate on this case (else reported above): only the tie broke
        rc, out = ctx.coq_eval("diag_%d.v" % i, HEADER + emit_defs(case)
                               + "Eval vm_compute in (%s env_%d %d ops_%d).\n" % ("model_outputs_C" if case["complex"] else "model_outputs_Z", i, case["meshes"][0]["Nn"], i))
        ctx.violation("corr:model-vs-impl", "case %d: %s differ between model and implementation although the implementation's matrices equal the dense scatter-add (representation changed: pattern order / cached map); the model tie no longer checks" % (i, "CSR triples" if i in out_bad else "cached reduction maps"),
                      {"case": case, "impl": results[i], "model_outputs": out[-4000:],
                       "replay_py": REPLAY % dict(case=json.dumps(case), expected=None)},
                      found_input=False)

    # ---- renumbering equivariance on the implementation ----
    ren_bad = []
    for base_id, new, perms in ren:
        a, b = results.get(base_id), results.get(new["id"])
        if not a or not b or a.get("error") or b.get("error") or a.get("prop_fail") or b.get("prop_fail"):
            continue        # a case that already violates the scatter-add predicate is reported under that key
        why = check_renumbering(byid[base_id], new, perms, a, b)
        if why:
            ren_bad.append((new["id"], why))
    split_obl(ctx, "corr:renumbering-equivariance", len(ren_bad), len(ren), "; ".join("%d %s" % x for x in ren_bad[:3]))
    for cid, why in ren_bad[:2]:
        ctx.violation("renumbering", "case %d: %s" % (cid, why), {"case": byid[cid], "replay_py": REPLAY % dict(case=json.dumps(byid[cid]), expected=None)}, found_input=True)

    # ---- coverage ----
    for c in allcases:
        if c["id"] not in results:
            continue
        dist["complex_cases"] += 1 if c["complex"] else 0
        hits = set()
        cur = 0
        for op in c["ops"]:
            dist["ops"][op["op"]] = dist["ops"].get(op["op"], 0) + 1
            if op["op"] == "get":
                dist["get_kcmf"] = dist.get("get_kcmf", 0) + 1
                ctx.note_case("kcmf:%d:%d" % (c["id"], dist["get_kcmf"]), traces=1)
            for lay in (op.get("layouts") or {}).values():
                for code in lay:
                    if code:
                        dist.setdefault("layouts", {})[code] = dist.setdefault("layouts", {}).get(code, 0) + 1
            if op["op"] == "assembly":
                dist["assemblies"] += 1
                dist["groups_per_table"][len(op["table"])] = dist["groups_per_table"].get(len(op["table"]), 0) + 1
                d = c["dof_n"][op["pt"]]
                dist["dof_n"][d] = dist["dof_n"].get(d, 0) + 1
                for _, four in op["table"]:
                    for x in four:
                        if x is None:
                            dist["none_slots"] += 1
                        else:
                            dist["present_slots"] += 1
                ugids = {g["gid"] for m in c["meshes"] for g in m.get("user_groups", [])}
                if any(g in ugids for g, _ in op["table"]):
                    dist["assemblies_with_user_group"] = dist.get("assemblies_with_user_group", 0) + 1
                nz = sum(1 for _, four in op["table"] for x in four if x is not None)
                sig = (op["pt"], tuple((g, tuple(x is not None for x in four)) for g, four in op["table"]))
                ctx.note_case(None if nz == 0 else "%d:%s:%s" % (c["id"], d, hash(str(op["table"])) & 0xffffffff), traces=1)
        for m in c["meshes"]:
            for g in m["groups"]:
                dist["elem_types"][g["type"]] = dist["elem_types"].get(g["type"], 0) + 1
    ctx.cov["rule"] = "op sequences drawn from ctx.rng; one evaluation per Assembly() call; non-trivial = at least one present slot; distinct by (case, dof_n, table content)"
    ctx.cov["input_distribution"] = dist
    ctx.cov["cases"] = len(results)
    ctx.cov["renumbered_pairs"] = len(ren)
    ex = next((c for c in cases if len(c["ops"]) <= 4), cases[0])
    ctx.sample({"case": {k: ex[k] for k in ("id", "complex", "dof_n", "meshes")}, "ops": [o if o["op"] != "assembly" else {"op": "assembly", "pt": o["pt"], "table": [[g, ["None" if x is None else "%d values" % len(x) for x in four]] for g, four in o["table"]]} for o in ex["ops"]]})


# --------------------------------------------------------------------------------------
# large-index cases: the model is over unbounded Z, the code over fixed-width integers
# --------------------------------------------------------------------------------------
def gen_big(rng, cid):
    dof_n = rng.randint(2, 6)
    Ndof_min = rng.choice([47000, 70000, 70000, 100000])
    Nn = Ndof_min // dof_n + rng.randint(1, 50)
    types = rng.sample(["SEG2", "SEG3", "TRI3", "QUAD4"], rng.choice([1, 2]))
    groups = []
    for k, et in enumerate(types):
        nPe = ELEM[et]
        conn = []
        for _ in range(rng.randint(1, 3)):
            # high-numbered nodes (keys beyond 2^31) mixed with low and mid ones
            pool = [Nn - 1 - rng.randrange(40) for _ in range(nPe)] + [rng.randrange(40) for _ in range(2)] + [rng.randrange(Nn)]
            e = []
            while len(e) < nPe:
                x = rng.choice(pool)
                if x not in e:
                    e.append(x)
            conn.append(e)
        groups.append({"gid": 1 + k, "type": et, "nPe": nPe, "connect": conn})
    mesh = {"Nn": Nn, "groups": groups}
    ops = []
    for i in range(rng.randint(2, 3)):
        if i == 1 and rng.random() < 0.5:
            ops.append({"op": "addlag", "pt": 0})
        gs = list(groups)
        rng.shuffle(gs)
        table = []
        for g in gs[:rng.randint(1, len(gs))]:
            Ne, n = len(g["connect"]), g["nPe"] * dof_n
            table.append([g["gid"], [gen_values(rng, Ne * n * n, False), None if rng.random() < 0.5 else gen_values(rng, Ne * n * n, False),
                                     None, None if rng.random() < 0.3 else gen_values(rng, Ne * n, False)]])
        ops.append({"op": "assembly", "pt": 0, "table": table})
    return {"id": cid, "big": True, "complex": False, "meshes": [mesh], "mesh0": 0, "dof_n": [dof_n, dof_n], "ops": ops,
            "conn": {str(g["gid"]): g["connect"] for g in groups}, "nPe": {str(g["gid"]): g["nPe"] for g in groups}}


_BIG = re.compile(r"=\s*\((\d+),\s*(\d+),\s*(true|false)\)\s*:")


def big_index(ctx):
    rng = ctx.rng
    n = 6 if ctx.tier == "quick" else 40
    cases = [gen_big(rng, 900000 + i) for i in range(n)]
    rc, out, err = ctx.impl_python(IMPL, input=json.dumps({"cases": cases}), timeout=900)
    if rc != 0 or "@@JSON@@" not in out:
        ctx.obligation("corr-big:impl-run", False, err[-1500:])
        ctx.violation("corr:impl-crash", "implementation-side harness failed on the large-index cases: " + (err.strip().splitlines()[-1][:300] if err.strip() else "rc=%d" % rc), {"stderr": err[-3000:]}, found_input=False)
        return
    results = {r["id"]: r for r in json.loads(out[out.rindex("@@JSON@@") + 8:].split("\n", 1)[0])["results"]}
    bad = []
    body = HEADER
    nslots = 0
    for c in cases:
        res = results[c["id"]]
        Nn, d = c["meshes"][0]["Nn"], c["dof_n"][0]
        if res.get("error"):
            bad.append((c, "raised " + res["error"], None))
            continue
        if res["prop_fail"]:
            pf = res["prop_fail"]
            bad.append((c, "Ndof=%d: Assembly #%d slot %s is not the scatter-add of the element arrays: %s" % (pf["Ndof"], pf["assembly_index"], pf["slot"], pf["impl"]), pf))
        nlag, k = 0, 0
        for op in c["ops"]:
            if op["op"] == "addlag":
                nlag += 1
                continue
            A = res["assemblies"][k]
            Ndof = Nn * d + nlag
            if A["Ndof"] != Ndof and not res["prop_fail"]:
                bad.append((c, "Ndof %d, expected %d" % (A["Ndof"], Ndof), None))
            for si in range(4):
                pres = [(g, four[si]) for g, four in op["table"] if four[si] is not None]
                if not pres:
                    continue
                gs = "[" + ";".join(zll(c["conn"][str(g)]) for g, _ in pres) + "]"
                data = [v for _, x in pres for v in x]
                body += "Eval vm_compute in (%d, %d, big_check %s %d %d %s %s %s).\n" % (
                    c["id"], 4 * k + si, "true" if si < 3 else "false", Ndof, d, gs, zl(data), zll(A["out"][si]))
                nslots += 1
                ctx.note_case("big:%d:%d:%d" % (c["id"], k, si))
            k += 1
    for c, what, pf in bad[:2]:
        small = shrink_case(c, pf["op_index"]) if pf else c
        ctx.violation("assembly-not-scatter-add:large-index" if pf else "assembly-raises:large-index",
                      "large-index case %d (Nn=%d, dof_n=%d): %s" % (c["id"], c["meshes"][0]["Nn"], c["dof_n"][0], what),
                      {"replay_py": REPLAY % dict(case=json.dumps(small), expected=None), "case": small, "detail": pf}, found_input=True)
    split_obl(ctx, "corr-big:impl-satisfies-scatter-add-predicate", len(bad), len(cases), "; ".join(w for _, w, _ in bad[:3]))
    rc, out = ctx.coq_eval("cases_big.v", body, timeout=600)
    if rc != 0:
        ctx.obligation("corr-big:model-eval", False, out[-1500:])
        ctx.violation("corr:model-eval", "generated file cases_big.v does not compile", {"log": out[-3000:]}, found_input=False)
        return
    verdicts = [(int(m.group(1)), int(m.group(2)), m.group(3) == "true") for m in _BIG.finditer(out)]
    wrong = [(a, b) for a, b, ok in verdicts if not ok]
    split_obl(ctx, "corr-big:triples-and-inv-equal-model", len(wrong) + (nslots - len(verdicts)), nslots, "slots %s" % wrong[:5])
    badids = {c["id"] for c, _, _ in bad}
    for cid, slot in wrong[:1]:
        if cid in badids:
            continue
        c = [x for x in cases if x["id"] == cid][0]
        ctx.violation("corr:model-vs-impl:large-index", "large-index case %d assembly %d slot %s: (row, col, value) triples or the cached inv differ from the model although the matrix equals the scatter-add" % (cid, slot // 4, "KCMF"[slot % 4]),
                      {"case": c, "replay_py": REPLAY % dict(case=json.dumps(c), expected=None)}, found_input=False)
    ctx.cov["large_index_cases"] = len(cases)
    ctx.cov["large_index_Ndof"] = sorted(c["meshes"][0]["Nn"] * c["dof_n"][0] for c in cases)
    ctx.cov["large_index_slots_compared"] = nslots


def gen_contrast(rng, cid):
    """one assembly whose element values m * 2^e mix magnitudes differing by 2^54 (1.8e16) and more, at tiny or huge
    overall scale; optionally complex; random memory layouts"""
    cplx = rng.random() < 0.3
    mesh = gen_mesh(rng, 1)
    maxn = max(g["nPe"] for g in mesh["groups"])
    d = rng.randint(1, max(1, min(3, 12 // maxn)))
    base_e = rng.choice([-200, -90, -60, -30, 0, 30, 90, 200])
    table = []
    for g in mesh["groups"]:
        Ne, n = len(g["connect"]), g["nPe"] * d
        ge = base_e + rng.choice([0, 54, -54, 70, -70, 110])

        def vals(k):
            out = []
            for _ in range(k):
                e = ge + rng.choice([0, 0, 0, 20, -20, 54, -54, 60])
                m = rng.randint(-9, 9)
                if cplx and rng.random() < 0.5:
                    out.append([[m, e], [rng.randint(-9, 9), ge + rng.choice([0, 54, -54])]])
                else:
                    out.append([m, e])
            return out
        table.append([g["gid"], [vals(Ne * n * n), None if rng.random() < 0.5 else vals(Ne * n * n), None, None if rng.random() < 0.4 else vals(Ne * n)]])
    rng.shuffle(table)
    conn = {str(g["gid"]): g["connect"] for g in mesh["groups"]}
    nPe = {str(g["gid"]): g["nPe"] for g in mesh["groups"]}
    c = {"id": cid, "contrast": True, "complex": cplx, "meshes": [mesh], "mesh0": 0, "dof_n": [d], "table": table,
         "shifts": [rng.choice([-60, -30, 40, 100])], "ops": [], "conn": conn, "nPe": nPe}
    c["layouts"] = {str(g): [None if x is None or rng.random() < 0.5 else ("fe:" if rng.random() < 0.5 else "") + rng.choice(LAYOUTS) for x in four] for g, four in table}
    return c


def magnitudes(ctx):
    rng = ctx.rng
    n = 24 if ctx.tier == "quick" else 300
    cases = [gen_contrast(rng, 800000 + i) for i in range(n)]
    rc, out, err = ctx.impl_python(IMPL, input=json.dumps({"cases": cases}), timeout=900)
    if rc != 0 or "@@JSON@@" not in out:
        ctx.obligation("corr-mag:impl-run", False, err[-1500:])
        ctx.violation("corr:impl-crash", "implementation-side harness failed on the magnitude cases: " + (err.strip().splitlines()[-1][:300] if err.strip() else "rc=%d" % rc), {"stderr": err[-3000:]}, found_input=False)
        return
    results = {r["id"]: r for r in json.loads(out[out.rindex("@@JSON@@") + 8:].split("\n", 1)[0])["results"]}
    bad = []
    for c in cases:
        res = results[c["id"]]
        if res.get("error"):
            bad.append((c, "raised " + res["error"]))
        elif res["prop_fail"]:
            bad.append((c, "slot %s: %s" % (res["prop_fail"]["slot"], res["prop_fail"]["impl"])))
        ctx.note_case("mag:%d" % c["id"])
    split_obl(ctx, "corr-mag:coefficientwise-relative-and-exact-rescaling", len(bad), len(cases), "; ".join(w for _, w in bad[:2])[:600])
    if bad:
        c, what = bad[0]
        ctx.violation("assembly-not-scatter-add:magnitude", "magnitude case %d (values m*2^e with contrasts >= 2^54 inside one assembly, complex=%s): %s (%d cases)" % (c["id"], c["complex"], what[:500], len(bad)),
                      {"replay_py": REPLAY % dict(case=json.dumps(c), expected=None), "case": c}, found_input=True)
    ctx.cov["magnitude_cases"] = len(cases)


def check_renumbering(base, new, perms, ra, rb):
    """P A P^T: dense(new)[phat(r), phat(c)] == dense(base)[r, c] for every assembly, exactly."""
    import numpy as np
    # current mesh per assembly
    cur = 0
    k = 0
    for op in base["ops"]:
        if op["op"] == "setmesh":
            cur = op["mesh"]
        if op["op"] != "assembly":
            continue
        A, B = ra["assemblies"][k], rb["assemblies"][k]
        k += 1
        if A["Ndof"] != B["Ndof"]:
            return "Ndof differs after renumbering"
        d = base["dof_n"][op["pt"]]
        p = perms[cur]
        N = A["Ndof"]
        ph = list(range(N))
        for n in range(len(p)):
            for j in range(d):
                ph[n * d + j] = p[n] * d + j
        for si in range(4):
            ncol = N if si < 3 else 1
            DA, DB = dense(A["out"][si], N, ncol, base["complex"]), dense(B["out"][si], N, ncol, base["complex"])
            for r in range(N):
                for c in range(ncol):
                    if DA[r][c] != DB[ph[r]][ph[c] if si < 3 else 0]:
                        return "assembly %d slot %s: entry (%d,%d)=%s but renumbered (%d,%d)=%s" % (k - 1, "KCMF"[si], r, c, DA[r][c], ph[r], ph[c] if si < 3 else 0, DB[ph[r]][ph[c] if si < 3 else 0])
    return None


def dense(triple, N, ncol, cplx):
    data, indices, indptr = triple
    if cplx:
        data = [(data[2 * i], data[2 * i + 1]) for i in range(len(data) // 2)]
    D = [[(0, 0) if cplx else 0 for _ in range(ncol)] for _ in range(N)]
    for r in range(N):
        for s in range(indptr[r], indptr[r + 1]):
            c = indices[s]
            if cplx:
                D[r][c] = (D[r][c][0] + data[s][0], D[r][c][1] + data[s][1])
            else:
                D[r][c] += data[s]
    return D
