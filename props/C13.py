"""C13 -- user-written weak forms assemble the same matrices as the built-in operators.

1. translator/forms.py reads (ast, fail-closed) the activation loops, the Assemble row/column
   sources, Field.__call__ / Field.grad / Sym_Grad -> Gen_Forms.v
2. Coq (coq/props/C13): grammar of forms + denotational semantics, form_semantics_bilinear
   (induction on the AST), loop_is_gram_matrix, form_* = built-in operators entrywise for all
   N, dN, weights, Assemble = scatter_add; two files state what the source must do
   (LinearForm.Assemble rows/columns; Field.__call__ honours the active dof).
3. correspondence (corr/c13_impl.py): random forms from the grammar as Python closures and as
   ASTs evaluated with the model semantics, on several element types; named forms vs built-in
   operators; LinearForm; Simulations.WeakForms vs Thermal / Elastic.
"""
import json
import os

from translator import forms as T_forms
from translator import c13_builtins as T_bi
from translator.pyexpr import TranslateError
from vlib import common

REPLAY = r'''
import sys
from corr import c13_impl
bad = c13_impl.replay(%(seed)d, %(tier)r, %(cid)r)
print("%%d failing comparison(s) for case %%s" %% (len(bad), %(cid)r))
sys.exit(1 if bad else 0)
'''


def run(ctx):
    ctx.assumptions += [
        "translator/forms.py reduces the activation loops, Assemble, Field.__call__/grad and Sym_Grad to canonical effect trees (single-assignment locals inlined, loop variables renamed) and requires equality with a reference body (fail-closed: any other shape is reported as a broken translation)",
        "the model semantics used by the correspondence is a numpy transcription of dlin/dform/integrate_e of C13_forms.v (not extracted code)",
        "one element at a time: all FeArray operations are elementwise in the leading (Ne, nPg) axes (property C12)",
        "Coq 8.16.1 kernel; stdlib real-number axioms as listed in trusted_base",
        "floating point: dyadic node coordinates, comparisons at 1e-10 relative to the largest entry",
    ]
    ok_static, log = ctx.ensure_static()
    if not ok_static:
        ctx.log("note: coq/lib or coq/model does not build at the moment; C13 uses the stdlib only, continuing")
    import concurrent.futures
    pool = concurrent.futures.ThreadPoolExecutor(max_workers=1)
    harness = pool.submit(ctx.impl_python, os.path.join(common.VERIF, "corr", "c13_impl.py"), (), 1500,
                          json.dumps({"seed": ctx.seed, "tier": ctx.tier}))     # runs while the proofs compile
    try:
        res = T_forms.translate(ctx.repo)
    except (TranslateError, SyntaxError, OSError) as ex:
        ctx.obligation("translate", False, str(ex))
        ctx.violation("translate", "translator rejected the source: %s" % ex, {"construct": str(ex)}, found_input=False)
        res = None
    if res is not None:
        ctx.obligation("translate", True, json.dumps(res))
        ctx.cov["translated_facts"] = res
        open(os.path.join(ctx.build, "Gen_Forms.v"), "w").write(T_forms.emit_coq(res))
    ctx.copy_props("C13/C13_forms.v", "C13/C13_builtins.v", "C13/C13_assemble.v", "C13/C13_linear.v", "C13/C13_fieldcall.v")
    r1 = ctx.coq(["C13_forms.v", "C13_builtins.v"], timeout=900)
    ra = rl = rf = None
    if res is not None:
        rg = ctx.coq(["Gen_Forms.v"], timeout=120)
        if rg.ok:
            ra = ctx.coq(["C13_assemble.v"], timeout=300)
            rl = ctx.coq(["C13_linear.v"], timeout=300) if ra.ok else None
            rf = ctx.coq(["C13_fieldcall.v"], timeout=300)
    # built-in operators regenerated from their einsum / matmul expressions, and the thermal corollary
    rb = rt = rel = None
    try:
        bi = T_bi.translate(ctx.repo)
        ctx.obligation("translate:builtins", True, "; ".join("%s := %s" % (k, v[:90]) for k, v in bi["ops"].items()))
        ctx.cov["translated_builtins"] = bi["ops"]
        open(os.path.join(ctx.build, "Gen_Builtins.v"), "w").write(T_bi.emit_coq(bi))
        ctx.copy_props("C13/C13_builtins_gen.v", "C13/C13_thermal.v")
        if r1.ok and ctx.coq(["Gen_Builtins.v"], timeout=120).ok:
            rb = ctx.coq(["C13_builtins_gen.v"], timeout=600)
            if rb.ok and ok_static:
                rt = ctx.coq(["C13_thermal.v"], timeout=300)
                ctx.copy_props("C13/C13_elastic.v")
                rel = ctx.coq(["C13_elastic.v"], timeout=300)
            elif rb.ok:
                ctx.log("note: EFLib not built at the moment; C13_thermal.v (needs EFLib.C02_QuadForm) skipped")
    except (TranslateError, SyntaxError, OSError) as ex:
        ctx.obligation("translate:builtins", False, str(ex))
        ctx.violation("translate:builtins", "translator rejected the built-in operators' source: %s (form_* = source operator theorems are not re-proved; the correspondence still runs)" % ex,
                      {"construct": str(ex)}, found_input=False)
    ctx.sample({"theorem": "loop_is_gram_matrix : forall f x y, sum_i sum_j x i * integrate_e f i j * y j = sum_p w p * dform f p (fsum nd x p) (fsum nd y p)",
                "proof": "form_semantics_bilinear (induction on the form AST) + exchange of finite sums"})
    # ---- correspondence ------------------------------------------------------------------
    req = {"seed": ctx.seed, "tier": ctx.tier}
    rcode, out, err = harness.result()
    pool.shutdown()
    cases = []
    if rcode != 0 or "@@JSON@@" not in out:
        ctx.obligation("corr:harness", False, (err or out)[-1500:])
        ctx.violation("corr:impl-crash", "the implementation-side harness failed: %s" % ((err.strip().splitlines() or ["rc=%d" % rcode])[-1][:200]),
                      {"stderr": err[-3000:]}, found_input=False)
    else:
        cases = json.loads(out.split("@@JSON@@")[1])["cases"]
    kinds = {}
    for c in cases:
        kinds[c["kind"]] = kinds.get(c["kind"], 0) + 1
        ctx.note_case("%s|%s" % (c["id"], c["what"]))
    ctx.cov["corr_case_kinds"] = kinds
    ctx.cov["corr_forms_sample"] = [c["form"] for c in cases if c["kind"] == "integrate"][:12]
    bad = [c for c in cases if not c["ok"]]
    ctx.obligation("corr:forms-vs-model-and-builtins", not bad and bool(cases),
                   "%d failing; first: %s" % (len(bad), "; ".join("%s %s" % (c["id"], c["detail"][:80]) for c in bad[:4])))
    if cases:
        c0 = [c for c in cases if c["kind"] == "integrate"][:1] or cases[:1]
        ctx.sample({"corr_case": c0[0]})

    def rep(c):
        return {"replay_py": REPLAY % dict(seed=ctx.seed, tier=ctx.tier, cid=c["id"]), "form": c["form"], "impl_observation": c["detail"]}

    lin_bad = [c for c in bad if c["kind"] == "linear-assemble"]
    call_flag_bad = (rf is not None and not rf.ok) or (res is not None and not res["call_uses_dof"])
    vec_bad = [c for c in bad if c["tag"] == "vector-val" and c["kind"] != "linear-assemble"
               and call_flag_bad]        # attribute to Field.__call__ only when the source itself ignores the active dof
    other = [c for c in bad if c not in lin_bad and c not in vec_bad]
    # LinearForm.Assemble
    if (rl is not None and not rl.ok) or lin_bad or (res is not None and (res["lin_rows"], res["lin_cols"]) != ("AssemblyE", "Zeros")):
        what = "LinearForm.Assemble builds rows from %s and columns from %s; an (Ndof,1) vector needs the assembly vector (one row per local dof) and column 0" % (
            (res or {}).get("lin_rows"), (res or {}).get("lin_cols"))
        if lin_bad:
            ctx.violation("LinearForm.Assemble:rows-columns", what + " -- on the implementation: %s" % lin_bad[0]["detail"][:200], dict(rep(lin_bad[0]), theorem="linear_assemble_sources"), found_input=True)
        else:
            ctx.violation("LinearForm.Assemble:rows-columns", what, {"theorem": "linear_assemble_sources", "log": (rl.log[-1500:] if rl else "")}, found_input=False)
    # Field.__call__
    if (rf is not None and not rf.ok) or vec_bad:
        what = "Field.__call__ returns the bare shape function whatever the active dof, so for vector fields u.dot(v) couples all dofs (form_uv <> UV) and f.v cannot select a component"
        if vec_bad:
            pick = ([c for c in vec_bad if "form_uv" in c["what"]] or vec_bad)[0]
            ctx.violation("Field.__call__:ignores-active-dof", what + " -- %s: %s" % (pick["id"], pick["detail"][:200]), dict(rep(pick), theorem="field_call_uses_active_dof / form_uv_eq_UV_vector"), found_input=True)
        else:
            ctx.violation("Field.__call__:ignores-active-dof", what, {"theorem": "field_call_uses_active_dof", "log": rf.log[-1500:]}, found_input=False)
    star = [c for c in other if c["kind"].endswith("scalar-star-product")]
    other = [c for c in other if c not in star]
    if star:
        ctx.violation("BiLinearForm:scalar-star-product", "BiLinearForm(lambda u, v: u * v) on a scalar field (what the built-ins express as UV) fails: a scalar Field's value is a 1-vector "
                      "(1, nPg, 1), so the integrated values are (Ne, 1) and `data[:, i, j] = values_e` cannot store them -- %s: %s" % (star[0]["id"], star[0]["detail"][:160]),
                      rep(star[0]), found_input=True)
    seen = set()
    for c in other:
        key = "corr:%s:%s" % (c["id"], c["kind"])
        if c["id"].startswith("shared:"):
            # one key per role pairing (thickness / matrix / call number vary inside it)
            parts = c["id"].split(":")
            key = "corr:shared:%s" % (parts[2] if len(parts) > 2 else parts[-1])
        if key in seen:
            continue
        seen.add(key)
        ctx.violation(key, "%s (%s): %s" % (c["what"], c["form"][:120], c["detail"][:300]), rep(c), found_input=(c["kind"] != "harness"))
    for r, f in ((r1, "C13_forms/builtins"), (ra, "C13_assemble.v"), (rb, "C13_builtins_gen.v"), (rt, "C13_thermal.v"), (rel, "C13_elastic.v")):
        if r is not None and not r.ok:
            ctx.violation("proof-broken:%s" % (r.failed_file or f), "theorem file %s no longer checks" % (r.failed_file or f), {"log": r.log[-3000:]}, found_input=False)
