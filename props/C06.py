"""C06 — shape functions interpolate; derivative tables are the true derivatives.

1. translate the element/Hermite tables from ctx.repo (ast, fail-closed) -> Gen_Elems.v, Gen_Hermite.v
2. compile them with the static theorem files coq/props/C06/*.v (theorems over R, all points)
3. correspondence: the lambdas the *running* implementation returns, evaluated at dyadic
   points, against the exact value of the translated trees (guards the translator)
4. if 2 or 3 failed: search a concrete (element, table, entry, point) where the property fails
   and write a replay that exhibits it on the real lambdas.
"""
import itertools
import json
import math
import os
from fractions import Fraction as F

from translator import elems as T_elems, hermite as T_herm, pyexpr
from translator.pyexpr import TranslateError
from vlib import common

TABS = ["_N", "_dN", "_ddN", "_dddN", "_ddddN"]
HTABS = ["_Hermitian_N", "_Hermitian_dN", "_Hermitian_ddN", "_Hermitian_dddN"]
HTOL = F(1, 10**12)


def grid(dim, lo=-2, hi=3):
    return [list(map(F, p)) for p in itertools.product(range(lo, hi + 1), repeat=dim)]


def monomials(dim, order):
    return [v for v in itertools.product(range(order + 1), repeat=dim) if sum(v) <= order]


def mono_val(v, pt):
    r = F(1)
    for a, x in zip(v, pt):
        r *= x ** a
    return r


# --------------------------------------------------------------------------------------
# python-side search on the translated trees (exact): returns list of (key, what, replay)
# --------------------------------------------------------------------------------------
REPLAY_LAGR = r'''
import sys, numpy as np
from fractions import Fraction as F
from EasyFEA.FEM._group_elem import GroupElemFactory
from EasyFEA.FEM._utils import ElemType
et = getattr(ElemType, %(elem)r)
gid, nPe, dim = GroupElemFactory.DICT_ELEMTYPE[et][:3]
g = GroupElemFactory.GROUP_CLASS_MAP[et](gid, np.arange(nPe).reshape(1, -1), np.zeros((nPe, 3)))
kind = %(kind)r
pt = [float(F(x)) for x in %(pt)r]
N = np.asarray(g._N(), dtype=object)
if kind == "kronecker":
    i, j = %(i)d, %(j)d
    node = g.Get_Local_Coords()[j]
    v = N[i, 0](*node)
    print("N_%%d(node %%d) =" %% (i, j), v, "expected", 1.0 if i == j else 0.0)
    sys.exit(1 if abs(v - (1.0 if i == j else 0.0)) > 1e-9 else 0)
if kind == "pou":
    s = sum(N[i, 0](*pt) for i in range(nPe))
    print("sum_i N_i(%%s) =" %% pt, s, "expected 1")
    sys.exit(1 if abs(s - 1) > 1e-9 else 0)
if kind == "reproduce":
    v = %(mono)r
    m = lambda p: float(np.prod([p[a] ** v[a] for a in range(dim)]))
    nodes = g.Get_Local_Coords()
    s = sum(m(nodes[i]) * N[i, 0](*pt) for i in range(nPe))
    print("sum_i m(x_i) N_i(pt) =", s, "m(pt) =", m(pt), "monomial exponents", v)
    sys.exit(1 if abs(s - m(pt)) > 1e-9 * max(1, abs(m(pt))) else 0)
if kind == "deriv":
    k, i, d = %(k)d, %(i)d, %(d)d
    names = ["_N", "_dN", "_ddN", "_dddN", "_ddddN"]
    prev = np.asarray(getattr(g, names[k - 1])(), dtype=object)
    nxt = np.asarray(getattr(g, names[k])(), dtype=object)
    f = prev[i, 0 if k == 1 else d]
    h = 1e-4
    e = np.zeros(dim); e[d] = h
    p = np.array(pt)
    fd = (f(*(p + e)) - f(*(p - e))) / (2 * h)
    tv = nxt[i, d](*pt)
    print("%%s[%%d][%%d](%%s) = %%r ; central difference of %%s = %%r" %% (names[k], i, d, pt, tv, names[k - 1], fd))
    sys.exit(1 if abs(tv - fd) > 1e-5 * max(1.0, abs(fd)) else 0)
if kind == "raises":
    try:
        getattr(g, %(table)r)()
    except Exception as ex:
        print("table", %(table)r, "raises", type(ex).__name__, ex); sys.exit(1)
    sys.exit(0)
'''

REPLAY_HERM = r'''
import sys, numpy as np
from fractions import Fraction as F
from EasyFEA.FEM._group_elem import GroupElemFactory
from EasyFEA.FEM._utils import ElemType
from EasyFEA.FEM.Elems import _beam
name = %(elem)r
k = int(name[-1])
gid, nPe, dim = GroupElemFactory.DICT_ELEMTYPE[getattr(ElemType, "SEG%%d" %% k)][:3]
g = getattr(_beam, name)(gid, np.arange(nPe).reshape(1, -1), np.zeros((nPe, 3)))
names = ["_Hermitian_N", "_Hermitian_dN", "_Hermitian_ddN", "_Hermitian_dddN"]
kind = %(kind)r
x = float(F(%(x)r))
fi = %(i)d
if kind == "herm_interp":
    f = np.asarray(g._Hermitian_N(), dtype=object).ravel()[fi]
    df = np.asarray(g._Hermitian_dN(), dtype=object).ravel()[fi]
    h = 1e-5
    val, slope = f(x), (f(x + h) - f(x - h)) / (2 * h)
    print("function", fi, "at node x=", x, "value", val, "slope(fd)", slope, "targets", %(tv)r, %(ts)r)
    bad = abs(val - %(tv)r) > 1e-9 or abs(slope - %(ts)r) > 1e-6
    sys.exit(1 if bad else 0)
if kind == "herm_deriv":
    t = %(k)d
    f = np.asarray(getattr(g, names[t - 1])(), dtype=object).ravel()[fi]
    df = np.asarray(getattr(g, names[t])(), dtype=object).ravel()[fi]
    h = 1e-4
    fd = (f(x + h) - f(x - h)) / (2 * h)
    print(names[t], fi, "at", x, "=", df(x), "; central difference of", names[t - 1], "=", fd)
    sys.exit(1 if abs(df(x) - fd) > 1e-5 * max(1, abs(fd)) else 0)
'''


def search_lagrange(E):
    found = []
    for name, r in E.items():
        dim, order, nPe = r["dim"], r["order"], r["nPe"]
        N = [row[0] for row in r["tables"]["_N"]]
        nodes = r["nodes"]
        pts = grid(dim, -1, 2)
        # kronecker
        for i, j in itertools.product(range(nPe), range(nPe)):
            v = pyexpr.ev(N[i], nodes[j])
            if v != (1 if i == j else 0):
                found.append(("kronecker:%s" % name, "%s: N_%d(node %d) = %s, expected %d (%s line %d)" % (name, i, j, v, i == j, r["file"], r["lines"]["_N"]),
                              {"replay_py": REPLAY_LAGR % dict(elem=name, kind="kronecker", pt=[], i=i, j=j, mono=[], k=0, d=0, table=""),
                               "model_value": str(v), "element": name, "i": i, "j": j}))
                break
        # partition of unity
        for p in pts:
            s = sum(pyexpr.ev(n, p) for n in N)
            if s != 1:
                found.append(("pou:%s" % name, "%s: sum_i N_i(%s) = %s, expected 1" % (name, [str(x) for x in p], s),
                              {"replay_py": REPLAY_LAGR % dict(elem=name, kind="pou", pt=[str(x) for x in p], i=0, j=0, mono=[], k=0, d=0, table=""),
                               "model_value": str(s), "element": name}))
                break
        # reproduction
        done = False
        for v in monomials(dim, order):
            for p in pts:
                s = sum(mono_val(v, nodes[i]) * pyexpr.ev(N[i], p) for i in range(nPe))
                if s != mono_val(v, p):
                    found.append(("reproduce:%s" % name, "%s: interpolant of monomial %s at %s is %s, monomial is %s" % (name, list(v), [str(x) for x in p], s, mono_val(v, p)),
                                  {"replay_py": REPLAY_LAGR % dict(elem=name, kind="reproduce", pt=[str(x) for x in p], i=0, j=0, mono=list(v), k=0, d=0, table=""),
                                   "element": name, "monomial": list(v)}))
                    done = True
                    break
            if done:
                break
        # derivative tables
        for k in range(1, 5):
            prev, nxt = r["tables"][TABS[k - 1]], r["tables"][TABS[k]]
            if nxt is None:
                found.append(("raises:%s:%s" % (name, TABS[k]), "%s.%s falls back to _Init_Functions(%d) which raises for order %d" % (name, TABS[k], k, order),
                              {"replay_py": REPLAY_LAGR % dict(elem=name, kind="raises", pt=[], i=0, j=0, mono=[], k=k, d=0, table=TABS[k]), "element": name}))
                break
            if prev is None:
                break
            bad = None
            for i in range(nPe):
                for d in range(dim):
                    src = prev[i][0 if k == 1 else d]
                    dt = pyexpr.deriv(src, d + 1)
                    for p in pts:
                        a, b = pyexpr.ev(nxt[i][d], p), pyexpr.ev(dt, p)
                        if a != b:
                            bad = (i, d, p, a, b)
                            break
                    if bad:
                        break
                if bad:
                    break
            if bad:
                i, d, p, a, b = bad
                found.append(("deriv:%s:%s" % (name, TABS[k]),
                              "%s.%s[%d][%d] at %s is %s but d/dx%d of %s[%d] is %s (%s line %d)" % (name, TABS[k], i, d, [str(x) for x in p], a, d + 1, TABS[k - 1], i, b, r["file"], r["lines"][TABS[k]]),
                              {"replay_py": REPLAY_LAGR % dict(elem=name, kind="deriv", pt=[str(x) for x in p], i=i, j=0, mono=[], k=k, d=d, table=TABS[k]),
                               "element": name, "table": TABS[k], "entry": [i, d], "point": [str(x) for x in p], "table_value": str(a), "true_derivative": str(b)}))
    return found


def search_hermite(H):
    found = []
    for name, r in H.items():
        nodes = r["nodes"]
        N = r["tables"]["_Hermitian_N"]
        for k, Nk in enumerate(N):
            bad = None
            for j, x in enumerate(nodes):
                tv = F(1) if k == 2 * j else F(0)
                ts = F(1, 2) if k == 2 * j + 1 else F(0)
                v = pyexpr.ev(Nk, [x])
                s = pyexpr.ev(pyexpr.deriv(Nk, 1), [x])
                if abs(v - tv) > HTOL or abs(s - ts) > HTOL:
                    bad = (j, x, v, s, tv, ts)
                    break
            if bad:
                j, x, v, s, tv, ts = bad
                found.append(("herm_interp:%s" % name, "%s: function %d at node %d (x=%s): value %s slope %s, expected %s / %s" % (name, k, j, x, float(v), float(s), tv, ts),
                              {"replay_py": REPLAY_HERM % dict(elem=name, kind="herm_interp", x=str(x), i=k, k=0, tv=float(tv), ts=float(ts)), "element": name}))
                break
        for t in range(1, 4):
            prev, nxt = r["tables"][HTABS[t - 1]], r["tables"][HTABS[t]]
            bad = None
            for i in range(len(nxt)):
                dt = pyexpr.deriv(prev[i], 1)
                for x in [F(a, 2) for a in range(-4, 5)]:
                    a, b = pyexpr.ev(nxt[i], [x]), pyexpr.ev(dt, [x])
                    if a != b:
                        bad = (i, x, a, b)
                        break
                if bad:
                    break
            if bad:
                i, x, a, b = bad
                found.append(("herm_deriv:%s:%s" % (name, HTABS[t]), "%s.%s[%d](%s) = %s but the derivative of %s[%d] is %s" % (name, HTABS[t], i, x, a, HTABS[t - 1], i, b),
                              {"replay_py": REPLAY_HERM % dict(elem=name, kind="herm_deriv", x=str(x), i=i, k=t, tv=0.0, ts=0.0), "element": name}))
    return found


# --------------------------------------------------------------------------------------
def correspondence(ctx, E, H):
    """translated trees vs the lambdas of the running implementation."""
    rng = ctx.rng
    npts = 6 if ctx.tier == "quick" else 40

    def dy(dim):
        return [[F(rng.randint(-16, 24), 16) for _ in range(dim)] for _ in range(npts)]
    pts = {d: dy(d) for d in (1, 2, 3)}
    req = {"points": {str(d): [[float(x) for x in p] for p in pts[d]] for d in pts}}
    rc, out, err = ctx.impl_python(os.path.join(common.VERIF, "corr", "impl_tables.py"), input=json.dumps(req), timeout=600)
    if rc != 0:
        ctx.obligation("corr:impl_tables", False, err[-1500:])
        ctx.violation("corr:impl-crash", "the implementation-side table evaluation failed: " + err.strip().splitlines()[-1][:200] if err.strip() else "rc=%d" % rc,
                      {"stderr": err[-3000:]}, found_input=False)
        return
    impl = json.loads(out)
    mism = []
    nvals = 0
    dist = {}
    for name, r in E.items():
        im = impl["lagrange"].get(name)
        if im is None:
            mism.append((name, "missing in implementation"))
            continue
        # local coords
        for a, b in zip(sum(r["nodes"], []), sum(im["local_coords"], [])):
            if abs(float(a) - b) > 1e-15:
                mism.append((name, "local coords %s vs %s" % (a, b)))
        if (im["dim"], im["order"], im["nPe"]) != (r["dim"], r["order"], r["nPe"]):
            mism.append((name, "dim/order/nPe"))
        for t in TABS:
            mt, it = r["tables"][t], im[t]
            if mt is None or "raises" in it:
                if not (mt is None and "raises" in it):
                    mism.append((name, "%s: model %s impl %s" % (t, "raises" if mt is None else "table", it.get("raises", "table"))))
                continue
            vals = it["values"]
            if len(vals) != len(mt) or any(len(a) != len(b) for a, b in zip(vals, mt)):
                mism.append((name, "%s: shape" % t))
                continue
            for i, row in enumerate(mt):
                for d, tree in enumerate(row):
                    for p, iv in zip(pts[r["dim"]], vals[i][d]):
                        mv = pyexpr.ev(tree, p)
                        nvals += 1
                        if abs(float(mv) - iv) > 1e-11 * max(1.0, abs(float(mv))):
                            mism.append((name, "%s[%d][%d] at %s: model %s impl %r" % (t, i, d, [str(x) for x in p], mv, iv)))
                        ctx.note_case(None if mv == 0 else "%s:%s:%d:%d" % (name, t, i, d))
            dist[name + t] = len(mt)
    for name, r in H.items():
        im = impl["hermite"].get(name)
        for t in HTABS:
            vals = im[t].get("values")
            flat = [v[0] for v in vals] if vals else None
            if flat is None or len(flat) != len(r["tables"][t]):
                mism.append((name, "%s shape/raises" % t))
                continue
            for i, tree in enumerate(r["tables"][t]):
                for p, iv in zip(pts[1], flat[i]):
                    mv = pyexpr.ev(tree, p)
                    nvals += 1
                    if abs(float(mv) - iv) > 1e-10 * max(1.0, abs(float(mv))):
                        mism.append((name, "%s[%d] at %s: model %s impl %r" % (t, i, p, mv, iv)))
                    ctx.note_case(None if mv == 0 else "%s:%s:%d" % (name, t, i))
    ctx.cov["corr_values_compared"] = nvals
    ctx.cov["corr_points_per_dim"] = npts
    ctx.obligation("corr:tables-vs-live-lambdas", not mism, "; ".join("%s %s" % m for m in mism[:5]))
    ctx.sample({"corr_point_3d": [str(x) for x in pts[3][0]], "HEXA8._N[0]": str(pyexpr.ev(E["HEXA8"]["tables"]["_N"][0][0], pts[3][0]))})
    if mism:
        ctx.violation("corr:translator-vs-impl", "translated tables disagree with the live lambdas: %s %s" % mism[0],
                      {"mismatches": ["%s %s" % m for m in mism[:20]]}, found_input=False)


# --------------------------------------------------------------------------------------
# evaluation layer: Get_N_pg ... Get_dN_e_pg, Hermitian *_pg / *_e_pg (layouts, Gauss points,
# inverse Jacobian, scaling of the slope functions by the element length)
# --------------------------------------------------------------------------------------
def _finv(M):
    """exact inverse of a small Fraction matrix"""
    n = len(M)
    A = [list(map(F, r)) + [F(int(i == j)) for j in range(n)] for i, r in enumerate(M)]
    for c in range(n):
        piv = next(r for r in range(c, n) if A[r][c] != 0)
        A[c], A[piv] = A[piv], A[c]
        A[c] = [x / A[c][c] for x in A[c]]
        for r in range(n):
            if r != c and A[r][c] != 0:
                A[r] = [x - A[r][c] * y for x, y in zip(A[r], A[c])]
    return [r[n:] for r in A]


REPLAY_EVAL = r'''
import json, os, subprocess, sys
req = json.loads(%(req)r)
items = json.loads(%(items)r)
p = subprocess.run([sys.executable, %(script)r], input=json.dumps(req), capture_output=True, text=True, env=os.environ)
if p.returncode != 0:
    print(p.stderr[-800:]); sys.exit(1)
out = json.loads(p.stdout)
bad = 0
for nav, exp, scale in items:
    v = out
    ab = False
    try:
        for k in nav:
            if k == "abs":
                ab = True
            else:
                v = v[k]
    except Exception as ex:
        print(nav, "not available:", ex); bad += 1; continue
    if ab:
        v = abs(v)
    ok = abs(v - exp) <= 1e-10 * max(1.0, abs(exp), scale)
    print(nav, "implementation", v, "exact", exp, "OK" if ok else "DIFFERS")
    bad += (not ok)
sys.exit(1 if bad else 0)
'''


def eval_layer(ctx, E, H):
    rng = ctx.rng
    maps, fr = {}, {}
    for name, r in E.items():
        dim = r["dim"]
        while True:
            A = [[F(rng.randint(-6, 6), 4) for _ in range(dim)] for _ in range(dim)]
            if name.startswith(("QUAD", "HEXA", "PRISM", "SEG")) or rng.random() < 0.5:
                # also exercise pure scalings (where the code's convention for second derivatives applies)
                pass
            det = None
            try:
                Ai = _finv(A)
            except StopIteration:
                continue
            break
        b = [F(rng.randint(-8, 8), 2) for _ in range(dim)]
        kk = rng.choice([F(3), F(1, 2), F(5, 4), F(2)])
        maps[name] = {"A": [[float(x) for x in row] for row in A], "b": [float(x) for x in b], "k": float(kk)}
        fr[name] = (A, Ai, b, kk)
    herm = {}
    for name in H:
        a = F(rng.randint(-8, 8), 4)
        L = F(rng.randint(1, 12), 4)
        kk = rng.choice([F(3), F(1, 2), F(5, 4), F(2)])
        herm[name] = [float(a), float(a + L), float(kk)]
        fr[name] = (a, L, kk)
    rc, out, err = ctx.impl_python(os.path.join(common.VERIF, "corr", "impl_eval.py"),
                                   input=json.dumps({"maps": maps, "herm": herm}), timeout=600)
    if rc != 0:
        ctx.obligation("corr:evaluation-layer", False, err[-1200:])
        ctx.violation("corr:eval-impl-crash", "implementation-side evaluation of the tables failed: " + ((err.strip().splitlines() or ["?"])[-1][:200]),
                      {"stderr": err[-3000:]}, found_input=False)
        return
    impl = json.loads(out)
    bad = {}
    n = 0

    def cmp(key, got, exp, scale=1.0, nav=None):
        nonlocal n
        n += 1
        if got is None or abs(got - float(exp)) > 1e-10 * max(1.0, abs(float(exp)), scale):
            bad.setdefault(key, []).append((got, str(exp), nav, float(exp), scale))

    names = ["_N", "_dN", "_ddN", "_dddN", "_ddddN"]
    getters = ["N_pg", "dN_pg", "ddN_pg", "dddN_pg", "ddddN_pg"]
    for name, r in E.items():
        dim, nPe = r["dim"], r["nPe"]
        A, Ai, b, kk = fr[name]
        # evaluator on the tabulated local coordinates (as returned, possibly integer arrays)
        for t in names:
            got = impl["lagrange"][name]["at_nodes"][t]
            tab = r["tables"][t]
            if "raises" in got or tab is None:
                if not ("raises" in got and tab is None):
                    bad.setdefault("%s:at_nodes:%s:raises" % (name, t), []).append((str(got)[:80], "table" if tab else "raises", None, 0.0, 1.0))
                continue
            for p_, pt in enumerate(r["nodes"]):
                for c in range(len(tab[0])):
                    for i in range(nPe):
                        try:
                            g_ = got["v"][p_][c][i]
                        except (IndexError, TypeError):
                            g_ = None
                        cmp("%s:at_nodes:%s" % (name, t), g_, pyexpr.ev(tab[i][c], pt), nav=["lagrange", name, "at_nodes", t, "v", p_, c, i])
        # second use after an in-place rescaling of the coordinates by kk
        for mt, dd in impl["lagrange"][name]["rescaled"].items():
            pts2 = [[F(int(x[0]), int(x[1])) for x in p] for p in impl["lagrange"][name][mt]["gauss"]]
            got = dd["dN_e_pg"]
            if "v" in got:
                for p_, pt in enumerate(pts2):
                    gxi = [[pyexpr.ev(r["tables"]["_dN"][i][c], pt) for i in range(nPe)] for c in range(dim)]
                    for k_ in range(dim):
                        for i in range(nPe):
                            exp = sum(Ai[k_][c] * gxi[c][i] for c in range(dim)) / kk
                            try:
                                g_ = got["v"][0][p_][k_][i]
                            except (IndexError, TypeError):
                                g_ = None
                            cmp("%s:%s:dN_e_pg:after-rescale" % (name, mt), g_, exp, scale=max(abs(float(x)) for row in Ai for x in row) / float(kk),
                                nav=["lagrange", name, "rescaled", mt, "dN_e_pg", "v", 0, p_, k_, i])
            else:
                bad.setdefault("%s:%s:dN_e_pg:after-rescale:raises" % (name, mt), []).append((got.get("raises"), "array", None, 0.0, 1.0))
        for mt, d in impl["lagrange"][name].items():
            if mt in ("at_nodes", "rescaled"):
                continue
            pts = [[F(int(x[0]), int(x[1])) for x in p] for p in d["gauss"]]
            for t, gname in zip(names, getters):
                got = d[gname]
                tab = r["tables"][t]
                if "raises" in got or tab is None:
                    if not ("raises" in got and tab is None):
                        bad.setdefault("%s:%s:%s:raises" % (name, mt, gname), []).append((str(got)[:80], "table" if tab else "raises"))
                    continue
                v = got["v"]
                ncol = len(tab[0])
                for p, pt in enumerate(pts):
                    for c in range(ncol):
                        for i in range(nPe):
                            try:
                                g_ = v[p][c][i]
                            except (IndexError, TypeError):
                                g_ = None
                            cmp("%s:%s:%s" % (name, mt, gname), g_, pyexpr.ev(tab[i][c], pt), nav=["lagrange", name, mt, gname, "v", p, c, i])
            # block-diagonal repetition
            for rep in (2, 3):
                got = d["N_pg_rep%d" % rep]
                if "v" in got:
                    v = got["v"]
                    for p, pt in enumerate(pts):
                        for rr in range(rep):
                            for col in range(rep * nPe):
                                exp = pyexpr.ev(r["tables"]["_N"][col // rep][0], pt) if col % rep == rr else F(0)
                                try:
                                    g_ = v[p][rr][col]
                                except (IndexError, TypeError):
                                    g_ = None
                                cmp("%s:%s:N_pg_rep%d" % (name, mt, rep), g_, exp, nav=["lagrange", name, mt, "N_pg_rep%d" % rep, "v", p, rr, col])
                else:
                    bad.setdefault("%s:%s:N_pg_rep%d:raises" % (name, mt, rep), []).append((got.get("raises"), "array"))
            # physical gradients on the affine image x = xi A + b : grad_x N_i = A^-1 grad_xi N_i
            got = d["dN_e_pg"]
            if "v" in got:
                v = got["v"][0]
                for p, pt in enumerate(pts):
                    gxi = [[pyexpr.ev(r["tables"]["_dN"][i][c], pt) for i in range(nPe)] for c in range(dim)]
                    for k in range(dim):
                        for i in range(nPe):
                            exp = sum(Ai[k][c] * gxi[c][i] for c in range(dim))
                            try:
                                g_ = v[p][k][i]
                            except (IndexError, TypeError):
                                g_ = None
                            cmp("%s:%s:dN_e_pg" % (name, mt), g_, exp, scale=max(abs(float(x)) for row in Ai for x in row), nav=["lagrange", name, mt, "dN_e_pg", "v", 0, p, k, i])
            else:
                bad.setdefault("%s:%s:dN_e_pg:raises" % (name, mt), []).append((got.get("raises"), "array"))
            # jacobian = |det A| at every point ; weighted jacobian = w_p |det A|
            detA = A[0][0] if dim == 1 else (A[0][0] * A[1][1] - A[0][1] * A[1][0] if dim == 2 else
                    sum(A[0][i] * (A[1][(i + 1) % 3] * A[2][(i + 2) % 3] - A[1][(i + 2) % 3] * A[2][(i + 1) % 3]) for i in range(3)))
            gj = d["jacobian_e_pg"]
            gw = d["wJ_e_pg"]
            ws = [F(int(x[0]), int(x[1])) for x in d["weights"]]
            if "v" in gj and "v" in gw:
                for p in range(len(pts)):
                    cmp("%s:%s:jacobian" % (name, mt), abs(gj["v"][0][p]), abs(detA), nav=["lagrange", name, mt, "jacobian_e_pg", "v", 0, p, "abs"])
                    cmp("%s:%s:weightedJacobian" % (name, mt), gw["v"][0][p], ws[p] * abs(detA), nav=["lagrange", name, mt, "wJ_e_pg", "v", 0, p])
        ctx.note_case("eval:" + name)
    for name, r in H.items():
        a, L, kk = fr[name]
        d = impl["hermite"][name]
        pts = [F(int(p[0][0]), int(p[0][1])) for p in d["gauss"]]
        for k, t in enumerate(["N", "dN", "ddN", "dddN"]):
            tab = r["tables"]["_Hermitian_" + t]
            for form in ("pg", "e_pg"):
                got = d["%s_%s" % (t, form)]
                if "v" not in got:
                    bad.setdefault("%s:%s_%s:raises" % (name, t, form), []).append((got.get("raises"), "array"))
                    continue
                v = got["v"] if form == "pg" else got["v"][0]
                for p, pt in enumerate(pts):
                    for f_, tree in enumerate(tab):
                        exp = pyexpr.ev(tree, [pt])
                        if form == "e_pg":
                            exp = exp * (F(2) / L) ** k * (L if f_ % 2 == 1 else 1)
                        try:
                            g_ = v[p][0][f_]
                        except (IndexError, TypeError):
                            g_ = None
                        cmp("%s:Hermitian_%s_%s" % (name, t, form), g_, exp, scale=float((F(2) / L) ** k * max(L, 1)),
                            nav=["hermite", name, "%s_%s" % (t, form), "v"] + ([p, 0, f_] if form == "pg" else [0, p, 0, f_]))
        # second use after the segment was rescaled in place: new length kk * L
        pts_h = [F(int(p[0][0]), int(p[0][1])) for p in d["gauss"]]
        L2 = kk * L
        for k, t in enumerate(["N", "dN", "ddN", "dddN"]):
            got = d["rescaled"]["%s_e_pg" % t]
            if "v" not in got:
                bad.setdefault("%s:%s_e_pg:after-rescale:raises" % (name, t), []).append((got.get("raises"), "array", None, 0.0, 1.0))
                continue
            for p, pt in enumerate(pts_h):
                for f_, tree in enumerate(r["tables"]["_Hermitian_" + t]):
                    exp = pyexpr.ev(tree, [pt]) * (F(2) / L2) ** k * (L2 if f_ % 2 == 1 else 1)
                    try:
                        g_ = got["v"][0][p][0][f_]
                    except (IndexError, TypeError):
                        g_ = None
                    cmp("%s:Hermitian_%s_e_pg:after-rescale" % (name, t), g_, exp, scale=float((F(2) / L2) ** k * max(L2, 1)),
                        nav=["hermite", name, "rescaled", "%s_e_pg" % t, "v", 0, p, 0, f_])
        ctx.note_case("eval:" + name)
    ctx.cov["eval_layer_values_compared"] = n
    ctx.obligation("corr:evaluation-layer (Get_*_pg layouts, dN_e_pg on affine images, Hermitian *_e_pg scaling)", not bad,
                   "; ".join("%s %s" % (k, v[0]) for k, v in list(bad.items())[:4]))
    for key, v in list(bad.items())[:12]:
        ctx.violation("eval:" + key, "evaluation layer %s: implementation %r, exact value from the translated table %s (%d entries differ)" % (key, v[0][0], v[0][1], len(v)),
                      {"key": key, "first": [x[:2] for x in v[:3]], "maps": maps.get(key.split(":")[0]), "herm": herm.get(key.split(":")[0]),
                       "replay_py": REPLAY_EVAL % dict(req=json.dumps({"maps": {k_: m_ for k_, m_ in maps.items() if k_ == key.split(":")[0]},
                                                                      "herm": {k_: m_ for k_, m_ in herm.items() if k_ == key.split(":")[0]}}),
                                                       items=json.dumps([[x[2], x[3], x[4]] for x in v[:20] if x[2] is not None]),
                                                       script=os.path.join(common.VERIF, "corr", "impl_eval.py"))}, True)


# --------------------------------------------------------------------------------------
# implementation-only search (no translated model needed): Kronecker at the element's own local
# coordinates, partition of unity, and every derivative table against an exact 13-point
# differentiation stencil of the previous table (exact for polynomials of degree <= 12).
# Runs on every tree; it is what still produces a concrete failing input when the translator
# rejects the source.
# --------------------------------------------------------------------------------------
def _stencil(order, n=6):
    xs = [F(k) for k in range(-n, n + 1)]
    m = len(xs)
    M = [[x ** r for x in xs] + [F(math.factorial(order)) if r == order else F(0)] for r in range(m)]
    for c in range(m):
        piv = next(r for r in range(c, m) if M[r][c] != 0)
        M[c], M[piv] = M[piv], M[c]
        M[c] = [v / M[c][c] for v in M[c]]
        for r in range(m):
            if r != c and M[r][c] != 0:
                M[r] = [a - M[r][c] * b for a, b in zip(M[r], M[c])]
    return [float(M[r][m]) for r in range(m)]


REPLAY_LIVE = r"""
import json, os, subprocess, sys
req = json.loads(%(req)r)
p = subprocess.run([sys.executable, %(script)r], input=json.dumps(req), capture_output=True, text=True, env=os.environ)
if p.returncode != 0:
    print(p.stderr[-800:]); sys.exit(1)
im = json.loads(p.stdout)[%(fam)r][%(elem)r]
kind = %(kind)r
if kind == "kron":
    v = im["N_at_nodes"]["values"][%(i)d][0][%(j)d]; e = 1.0 if %(i)d == %(j)d else 0.0
elif kind == "shape":
    t = im[%(t)r]["values"]; v = float(len(t)) if all(len(r) == %(d)d for r in t) else -1.0; e = %(e)r
elif kind == "pou":
    t = im[%(t)r]["values"]; v = sum(t[i][%(d)d][0] for i in range(len(t))); e = %(e)r
else:
    w = %(w)r; prev = im[%(tprev)r]["values"][%(i)d][%(d)d]; v = im[%(t)r]["values"][%(i)d][%(d)d][%(c)d]
    e = sum(a * b for a, b in zip(w, prev)) / %(h)r
print(kind, %(elem)r, "implementation", v, "expected", e)
sys.exit(1 if abs(v - e) > %(tol)r * max(1.0, abs(e)) else 0)
"""


def live_search(ctx):
    rng = ctx.rng
    H_ = 0.125
    w1 = _stencil(1)
    script = os.path.join(common.VERIF, "corr", "impl_tables.py")
    base = {d: [float(F(rng.randint(-8, 12), 16)) for _ in range(d)] for d in (1, 2, 3)}
    # points per dimension: for each direction d the 13 stencil points base + k h e_d ; the centre is index 6
    pts = {}
    for dim in (1, 2, 3):
        L = []
        for d in range(dim):
            for k in range(-6, 7):
                q = list(base[dim]); q[d] += k * H_; L.append(q)
        pts[dim] = L
    req = {"points": {str(d): pts[d] for d in pts}}
    rc, out, err = ctx.impl_python(script, input=json.dumps(req), timeout=600)
    if rc != 0:
        return None
    impl = json.loads(out)
    found = []
    nchk = 0

    def rep(**kw):
        dflt = dict(req=json.dumps(req), script=script, i=0, j=0, d=0, c=6, t="_N", tprev="_N", e=0.0, w=w1, h=H_, tol=1e-7)
        dflt.update(kw)
        return {"replay_py": REPLAY_LIVE % dflt, "element": kw["elem"]}
    for name, im in impl["lagrange"].items():
        dim = im["dim"]
        kn = im["N_at_nodes"].get("values")
        if kn:
            for i, row in enumerate(kn):
                for j, v in enumerate(row[0]):
                    nchk += 1
                    if abs(v - (1.0 if i == j else 0.0)) > 1e-9:
                        found.append(("live:kronecker:%s" % name, "%s._N[%d] at its node %d = %r" % (name, i, j, v), rep(fam="lagrange", elem=name, kind="kron", i=i, j=j, tol=1e-9)))
                        break
        for ti, t in enumerate(TABS):
            vals = im[t].get("values")
            if not vals:
                continue
            nchk += 1
            if len(vals) != im["nPe"] or any(len(row) != (1 if ti == 0 else dim) for row in vals):
                found.append(("live:shape:%s:%s" % (name, t), "%s.%s() has %d rows x %s columns, expected nPe = %d rows x %d (all element types evaluated in one process, in the factory's order)" % (
                    name, t, len(vals), sorted({len(row) for row in vals}), im["nPe"], 1 if ti == 0 else dim),
                    rep(fam="lagrange", elem=name, kind="shape", t=t, e=float(im["nPe"]), d=(1 if ti == 0 else dim), tol=0.0)))
                continue
            for d in range(len(vals[0])):
                c = (d if ti > 0 else 0) * 13 + 6
                # table entry [i][d] is a d-derivative: its centre on line d ; _N has one column, use line 0
                tot = sum(vals[i][d][c] for i in range(len(vals)))
                e = 1.0 if ti == 0 else 0.0
                nchk += 1
                if abs(tot - e) > 1e-9 * max(1.0, max(abs(vals[i][d][c]) for i in range(len(vals)))):
                    found.append(("live:partition:%s:%s" % (name, t), "%s: sum of %s[:, %d] at %s = %r (expected %r)" % (name, t, d, pts[dim][c], tot, e),
                                  rep(fam="lagrange", elem=name, kind="pou", t=t, d=d, e=e, tol=1e-9)))
                if ti == 0:
                    continue
                prevv = im[TABS[ti - 1]].get("values")
                if not prevv:
                    continue
                bad = None
                for i in range(len(vals)):
                    pd_ = 0 if ti == 1 else d
                    line = prevv[i][pd_][d * 13:(d + 1) * 13]
                    ex = sum(a * b for a, b in zip(w1, line)) / H_
                    nchk += 1
                    if abs(vals[i][d][c] - ex) > 1e-7 * max(1.0, abs(ex)):
                        bad = (i, vals[i][d][c], ex)
                        break
                if bad:
                    found.append(("live:derivative:%s:%s" % (name, t), "%s.%s[%d][%d] at %s = %r but differentiating %s gives %r" % (name, t, bad[0], d, pts[dim][c], bad[1], TABS[ti - 1], bad[2]),
                                  rep(fam="lagrange", elem=name, kind="deriv", t=t, tprev=TABS[ti - 1], i=bad[0], d=d, c=c)))
    for name, im in impl["hermite"].items():
        for ti in range(1, len(HTABS)):
            vals, prevv = im[HTABS[ti]].get("values"), im[HTABS[ti - 1]].get("values")
            if not vals or not prevv:
                continue
            for i in range(len(vals)):
                ex = sum(a * b for a, b in zip(w1, prevv[i][0][:13])) / H_
                nchk += 1
                if abs(vals[i][0][6] - ex) > 1e-7 * max(1.0, abs(ex)):
                    found.append(("live:derivative:%s:%s" % (name, HTABS[ti]), "%s.%s[%d] at %s = %r but differentiating %s gives %r" % (name, HTABS[ti], i, pts[1][6], vals[i][0][6], HTABS[ti - 1], ex),
                                  rep(fam="hermite", elem=name, kind="deriv", t=HTABS[ti], tprev=HTABS[ti - 1], i=i, d=0, c=6)))
                    break
    ctx.cov["live_search_checks"] = nchk
    return found


def run(ctx):
    ctx.assumptions += [
        "translator/elems.py, translator/hermite.py map the accepted Python expression grammar to PExpr Q faithfully (checked against the live lambdas at random dyadic points on every run)",
        "Coq 8.16.1 kernel + vm_compute; stdlib real-number axioms as listed in trusted_base",
        "derivative statements are relative to the formal derivative pd of EFLib.PolyQ (linked to Coquelicot's is_derive in EFLib.Deriv when that file is present)",
    ]
    ok_static, log = ctx.ensure_static()
    if not ok_static:
        ctx.obligation("static-lib", False, log[-1500:])
        ctx.violation("static-lib-build", "coq/lib or coq/model does not build", {"log": log[-3000:]}, found_input=False)
        return
    try:
        E = T_elems.read_elems(ctx.repo)
        H = T_herm.read_hermite(ctx.repo, E)
    except (TranslateError, SyntaxError, OSError) as ex:
        ctx.obligation("translate", False, str(ex))
        ctx.violation("translate", "translator rejected the source: %s" % ex, {"construct": str(ex)}, found_input=False)
        for key, what, rep in (live_search(ctx) or []):
            ctx.violation(key, what, rep, found_input=True)
        return
    ctx.obligation("translate", True, "%d Lagrange elements, %d Hermite families" % (len(E), len(H)))
    nl = sum(len(t) * len(t[0]) for r in E.values() for t in r["tables"].values() if t)
    ctx.cov["translated_lambdas"] = nl + sum(len(t) for r in H.values() for t in r["tables"].values())
    open(os.path.join(ctx.build, "Gen_Elems.v"), "w").write(T_elems.emit_coq(E))
    open(os.path.join(ctx.build, "Gen_Hermite.v"), "w").write(T_herm.emit_coq(H))
    ctx.copy_props("C06/C06_lagrange.v", "C06/C06_hermite.v")
    extra = []
    if os.path.exists(os.path.join(common.COQ, "props", "C06", "C06_derive.v")):
        ctx.copy_props("C06/C06_derive.v")
        extra = ["C06_derive.v"]
    r1 = ctx.coq(["Gen_Elems.v", "C06_lagrange.v"] + extra, timeout=600)
    hextra = []
    if os.path.exists(os.path.join(common.COQ, "props", "C06", "C06_hermite_derive.v")):
        ctx.copy_props("C06/C06_hermite_derive.v")
        hextra = ["C06_hermite_derive.v"]
    r2 = ctx.coq(["Gen_Hermite.v", "C06_hermite.v"] + hextra, timeout=600)
    ctx.sample({"theorem": "C06_partition_of_unity : forall e, In e all_elems -> forall l : list R, Rsum (map (Reval l) (eN e)) = 1",
                "proof": "vm_compute of the regenerated tables through Qnorm_sound"})
    proof_ok = r1.ok and r2.ok
    if not proof_ok:
        ctx.log("proof obligations broke; searching a concrete failing input")
        found = search_lagrange(E) + search_hermite(H)
        for key, what, rep in found:
            ctx.violation(key, what, rep, found_input=True)
        if not found:
            bad = r1 if not r1.ok else r2
            ctx.violation("proof-broken:" + str(bad.failed_file), "theorem file %s no longer checks and no failing point was found" % bad.failed_file,
                          {"obligation": bad.failed_file, "log": bad.log[-3000:]}, found_input=False)
    correspondence(ctx, E, H)
    eval_layer(ctx, E, H)
    live = live_search(ctx)
    ctx.obligation("live:implementation-only Kronecker / partition / derivative-stencil search finds nothing", live == [], "%s" % (live if live is None else [k for k, _, _ in live][:5]))
    for key, what, rep in (live or []):
        ctx.violation(key, what, rep, found_input=True)
    if ctx.tier == "thorough" and proof_ok:
        ctx.coqchk(["C06_lagrange", "C06_hermite"] + [x[:-2] for x in extra + hextra])
    if ctx.tier == "thorough":
        # exhaustive python-side sweep as an independent cross-check of the Coq decision
        found = search_lagrange(E) + search_hermite(H)
        ctx.obligation("thorough:python-exact-sweep", not found or not proof_ok, "agreement between Coq decision and exact python sweep")
        if found and proof_ok:
            ctx.violation("sweep-vs-coq", "python exact sweep finds %s but Coq proofs passed" % found[0][1], found[0][2], True)
