"""C12 — FeArray = per-element, per-Gauss-point tensor operation.

1. translate Det/Inv/_KeepsFeAxes/_dot_subscript/_ddot_subscript/einsum literals of ctx.repo's
   _linalg.py (ast, fail-closed) -> Gen_Linalg.v
2. compile the property theorems (coq/props/C12/*.v) against the hand-written model
   (coq/model/C12_*.v) and the generated file
3. correspondence: generated FeArray / Field expressions on integer/dyadic arrays are run on the
   implementation (corr/C12_impl.py) and on the model (vm_compute in generated case files);
   result kind, shape and every value must agree exactly
4. every disagreement is re-examined with an independent per-(e,p) loop oracle on plain numpy
   arrays (the property's own predicate) and written as an executable replay.
"""
import json
import os
import re
from concurrent.futures import ThreadPoolExecutor

from translator import C12_linalg as T_lin
from translator import C12_field as T_fld
from translator.pyexpr import TranslateError
from vlib import common

BIN = {0: "add", 1: "sub", 2: "mul", 3: "div", 4: "maximum", 5: "minimum", 6: "greater", 7: "less_equal", 8: "equal",
       9: "less", 10: "greater_equal", 11: "not_equal"}
UN = {0: "negative", 1: "absolute", 2: "square"}
RED = {0: "sum", 1: "prod", 2: "max", 3: "min", 4: "mean"}
FEK = ("fe", "field")


# ---------------------------------------------------------------------------------------
# generator
# ---------------------------------------------------------------------------------------
def prod(l):
    r = 1
    for x in l:
        r *= x
    return r


class Gen:
    def __init__(self, rng, cap):
        self.rng = rng
        self.cap = cap

    def env(self):
        rng = self.rng
        self.coll = rng.random() < 0.55
        self.base = rng.choice([1, 2, 2, 3, 3, 3, 4])

    def d(self):
        return self.base if self.coll else self.rng.choice([1, 2, 3, 4])

    def ints(self, n, pool=None):
        rng = self.rng
        if pool is not None:
            return [rng.choice(pool) for _ in range(n)]
        return [rng.randint(-4, 5) for _ in range(n)]

    def operand(self, kind, shape, pool=None):
        if kind == "scalar":
            return {"k": "scalar", "shape": [], "data": self.ints(1, pool)}
        return {"k": kind, "shape": list(shape), "data": self.ints(prod(shape), pool)}

    def lead(self, Ne, nPg, exact=False):
        """finite element axes of one FeArray operand, drawn independently for EVERY operand:
        full field (Ne, nPg), per-element (Ne, 1), per-Gauss-point (1, nPg) or constant (1, 1).
        Two operands therefore meet in all 16 pairings, size-1 axes on different sides included
        (the operation's (Ne, nPg) is then the numpy broadcast of the two, equal to neither)."""
        r = self.rng.random()
        if r < 0.46:
            return [Ne, nPg]
        if r < 0.64:
            return [Ne, 1]
        if r < 0.82:
            return [1, nPg]
        return [1, 1]

    def derive(self, u, full=False):
        rng = self.rng
        k = len(u) if (full or rng.random() < 0.45) else rng.randint(0, len(u))
        s = u[len(u) - k:]
        return [1 if rng.random() < 0.12 else x for x in s]

    # -- elementwise -----------------------------------------------------------------
    def ufunc2(self):
        rng = self.rng
        pairs = [("fe", "plain"), ("plain", "fe"), ("fe", "scalar"), ("scalar", "fe"), ("fe", "fe"),
                 ("field", "scalar"), ("scalar", "field"), ("field", "plain"), ("plain", "field"),
                 ("field", "fe"), ("fe", "field"), ("fe", "plain"), ("plain", "fe")]
        kx, ky = rng.choice(pairs)
        anyfield = "field" in (kx, ky)
        code = rng.choice([0, 1, 1, 2, 3, 3] if anyfield else [0, 1, 1, 2, 3, 3, 4, 5, 6, 7, 8, 9, 10, 11])
        how = "operator" if (anyfield or code in (0, 1, 2, 3, 6, 7, 8, 9, 10, 11) and rng.random() < 0.7) else "np"
        if code in (4, 5):
            how = "np"
        r = rng.choice([0, 1, 1, 2, 2, 2, 3, 4])
        u = [self.d() for _ in range(r)]
        Ne, nPg = self.d(), self.d()
        first = True
        ops = []
        for k in (kx, ky):
            pool = [1, 2, 4, -1, -2, -4, [1, 2], [-1, 2]] if (code == 3 and not first) else None
            if k in FEK:
                s = self.derive(u)
                ops.append(self.operand(k, self.lead(Ne, nPg, exact=first) + s, pool))
            elif k == "plain":
                ops.append(self.operand(k, self.derive(u), pool))
            else:
                ops.append(self.operand(k, [], pool))
            first = False
        if rng.random() < 0.07:   # an incompatible tensor axis: the error branch
            o = ops[1] if ops[1]["shape"] else ops[0]
            if o["shape"]:
                i = len(o["shape"]) - 1 - rng.randint(0, min(1, len(o["shape"]) - 1))
                o["shape"][i] = o["shape"][i] + 1 if o["shape"][i] > 1 else 5
                o["data"] = self.ints(prod(o["shape"]), [1, 2, -1, 4] if code == 3 else None)
        return {"op": "ufunc2", "code": code, "how": how, "args": ops}

    def ufunc1(self):
        rng = self.rng
        r = rng.choice([0, 1, 2, 3])
        s = [self.d() for _ in range(r)]
        return {"op": "ufunc1", "code": rng.choice([0, 1, 2]), "how": rng.choice(["operator", "np"]) if True else "np",
                "args": [self.operand("fe", [self.d(), self.d()] + s)]}

    # -- contractions ------------------------------------------------------------------
    def contract(self):
        rng = self.rng
        fam = rng.choice(["matmul", "matmul", "matmul", "dot", "ddot"])
        if fam == "matmul":
            kx = rng.choice(["fe", "fe", "fe", "field", "plain", "plain", "scalar"])
        else:
            kx = rng.choice(["fe", "fe", "fe", "field"])
        ky = rng.choice(["fe", "fe", "plain", "plain", "field", "scalar"] if kx in FEK else ["fe", "fe", "field"])
        ranks = [1, 1, 2, 2, 2, 4, 0, 3] if fam != "ddot" else [2, 2, 2, 4, 4, 1, 0, 3]
        r1, r2 = rng.choice(ranks), rng.choice(ranks)
        if kx == "scalar":
            r1 = 0
        if ky == "scalar":
            r2 = 0
        s1 = [self.d() for _ in range(r1)]
        s2 = [self.d() for _ in range(r2)]
        nc = 2 if fam == "ddot" else 1
        if rng.random() < 0.9 and r1 >= nc and r2 >= nc:   # consistent contraction axes
            for i in range(nc):
                s2[i] = s1[r1 - nc + i]
        Ne, nPg = self.d(), self.d()
        ops = []
        for first, (k, s) in ((True, (kx, s1)), (False, (ky, s2))):
            if k in FEK:
                ops.append(self.operand(k, self.lead(Ne, nPg, exact=first) + s))
            else:
                ops.append(self.operand(k, s if k == "plain" else []))
        return {"op": fam, "args": ops}

    def einsum(self):
        rng = self.rng
        tmpl = rng.choice([([[0], [0]], []), ([[0, 1], [1, 2]], [0, 2]), ([[0, 1], [0, 1]], []), ([[0], [1]], [0, 1]),
                           ([[0, 1], [1]], [0]), ([[0, 1, 2, 3], [2, 3]], [0, 1]), ([[0]], [0]), ([[0, 0]], []),
                           ([[0, 1]], [1, 0]), ([[0, 1], [0, 1]], [0, 1]), ([[], [0, 1]], [0, 1]), ([[0, 1], [2, 3]], [0, 1, 2, 3])])
        labs, out = tmpl
        size = {}
        Ne, nPg = self.d(), self.d()
        kinds = rng.choice([("fe", "fe"), ("fe", "plain"), ("plain", "fe"), ("fe", "fe")])[:len(labs)]
        if len(labs) == 1:
            kinds = ("fe",)
        ops = []
        for k, l in zip(kinds, labs):
            core = []
            for x in l:
                size.setdefault(x, self.d())
                core.append(1 if rng.random() < 0.06 else size[x])
            if k == "fe":
                ops.append(self.operand("fe", self.lead(Ne, nPg, exact=not ops) + core))
            else:
                batch = [] if rng.random() < 0.7 else rng.choice([[Ne, nPg], [nPg], [1, 1]])
                ops.append(self.operand("plain", batch + core))
        return {"op": "einsum", "labels": labs, "out": out, "args": ops}

    # -- transposes, trace, det, inv ----------------------------------------------------
    def transposes(self):
        rng = self.rng
        if rng.random() < 0.6:
            r = rng.choice([0, 1, 2, 2, 3, 3, 4])
            return {"op": "T", "args": [self.operand("fe", [self.d(), self.d()] + [self.d() for _ in range(r)])]}
        r = rng.choice([2, 2, 3, 4])
        k = rng.choice(["fe", "fe", "plain"])
        lead = [self.d(), self.d()] if k == "fe" else []
        return {"op": "Transpose", "args": [self.operand(k, lead + [self.d() for _ in range(r)])]}

    def unimodular(self, n):
        rng = self.rng
        m = [[0] * n for _ in range(n)]
        for i in range(n):
            m[i][i] = rng.choice([1, -1, 2, 1, -2, 4])
        for _ in range(rng.randint(0, 2 * n)):
            i, j = rng.randrange(n), rng.randrange(n)
            if i != j:
                c = rng.choice([1, -1, 2, -2])
                if rng.random() < 0.5:
                    m[i] = [a + c * b for a, b in zip(m[i], m[j])]
                else:
                    for row in m:
                        row[i] += c * row[j]
        return m

    def matfun(self):
        rng = self.rng
        op = rng.choice(["Trace", "Det", "Det", "Inv", "Inv"])
        n = rng.choice([1, 2, 2, 3, 3, 3, 4]) if op != "Trace" else rng.choice([1, 2, 3, 4])
        k = rng.choice(["fe", "fe", "fe", "plain"])
        if k == "fe":
            Ne, nPg = (n, n) if self.coll else (self.d(), self.d())
            batch = [Ne, nPg] + ([n if self.coll else self.d()] if rng.random() < 0.25 else [])
        else:
            batch = rng.choice([[], [], [self.d()], [n, n]])
        nb = prod(batch)
        data = []
        for _ in range(nb):
            m = self.unimodular(n) if op == "Inv" else [[rng.randint(-3, 4) for _ in range(n)] for _ in range(n)]
            data += [x for row in m for x in row]
        c = {"op": op, "args": [{"k": k, "shape": batch + [n, n], "data": data}]}
        if n > 3 and op != "Trace":
            # delegated to numpy.linalg by the source: compared with the exact Leibniz / adjugate
            # oracle only, to 1e-10 (LAPACK on small integer matrices)
            c["tol"] = 1e-10
        return c

    # -- reducers -----------------------------------------------------------------------
    def reduce(self):
        rng = self.rng
        r = rng.choice([0, 1, 1, 2, 2, 3])
        s = [self.d(), self.d()] + [self.d() for _ in range(r)]
        nd = len(s)
        code = rng.choice([0, 0, 0, 1, 2, 3, 4, 4])
        t = rng.random()
        if t < 0.1:
            axis = None
        elif t < 0.65:
            a = rng.randrange(nd)
            axis = [a if rng.random() < 0.5 else a - nd]
        else:
            k = rng.randint(1, min(3, nd))
            axes = rng.sample(range(nd), k)
            if rng.random() < 0.5:   # tensor axes only
                axes = [a for a in axes if a >= 2] or [nd - 1]
                if nd == 2:
                    axes = [rng.randrange(2)]
            axis = [a if rng.random() < 0.5 else a - nd for a in axes]
        pool = [1, -1, 1, 1, -1, 2] if code == 1 else None
        how = rng.choice(["method", "np"])
        if code == 4:
            # mean: entries are multiples of the number of averaged entries, so the mean is an exact integer
            red = range(nd) if axis is None else [a % nd for a in axis]
            cnt = prod([s[a] for a in set(red)])
            pool = [cnt * v for v in (-3, -1, 0, 1, 2, 4)]
        c = {"op": "reduce", "code": code, "axis": axis, "how": how, "kw": rng.random() < 0.7,
             "tuple": bool(axis is not None and (len(axis) > 1 or rng.random() < 0.3)),
             "args": [self.operand("fe", s, pool)]}
        if c["tuple"] is False and axis is not None and len(axis) != 1:
            c["tuple"] = True
        return c

    # -- np.where -------------------------------------------------------------------------
    def where(self):
        rng = self.rng
        r = rng.choice([0, 1, 2, 2, 3])
        full = [self.d(), self.d()] + [self.d() for _ in range(r)]
        ck = rng.choice(["fe", "fe", "plain"])
        cshape = full if rng.random() < 0.8 else full[:2]
        if ck == "fe":
            cshape = self.lead(full[0], full[1]) + cshape[2:]
        cond = self.operand(ck, cshape, [0, 1])
        ops = [cond]
        for _ in range(2):
            k = rng.choice(["fe", "fe", "scalar", "plain"])
            if k == "fe":
                ops.append(self.operand("fe", self.lead(full[0], full[1]) + full[2:]))
            elif k == "scalar":
                ops.append(self.operand("scalar", []))
            else:
                j = rng.randint(0, len(full))
                ops.append(self.operand("plain", self.derive(full[len(full) - j:], full=True)))
        if not any(o["k"] == "fe" for o in ops):
            ops[1] = self.operand("fe", full)
        return {"op": "where", "args": ops}

    # -- FeArray.broadcast -----------------------------------------------------------------
    def broadcast(self):
        rng = self.rng
        Ne, nPg = self.d(), self.d()
        td = rng.choice([0, 0, 1, 2, 2])
        tail = [self.d() for _ in range(td)]
        t = rng.random()
        if t < 0.1:
            v = self.operand("scalar", [])
        else:
            lead = rng.choice([[], [Ne], [nPg], [Ne, nPg], [Ne, nPg], [Ne], [self.d()], [self.d(), self.d()], [Ne, nPg, self.d()]])
            if rng.random() < 0.1 and td:
                tail = tail[1:]
            k = "fe" if (len(lead + tail) >= 2 and rng.random() < 0.25) else "plain"
            v = self.operand(k, lead + tail)
        return {"op": "broadcast", "Ne": Ne, "nPg": nPg, "td": td, "args": [v]}

    # -- TensorProd ---------------------------------------------------------------------------
    def tensorprod(self):
        rng = self.rng
        r = rng.choice([1, 2, 2, 2])
        sym = r == 2 and rng.random() < 0.6
        kinds = rng.choice([("fe", "fe"), ("fe", "fe"), ("fe", "fe"), ("plain", "plain"), ("fe", "plain"), ("plain", "fe")])
        n = self.d()
        Ne, nPg = self.d(), self.d()
        ops = []
        for k in kinds:
            s = [n if (sym or rng.random() < 0.6) else self.d() for _ in range(r)]
            if rng.random() < 0.06:
                s[-1] = s[-1] + 1          # incompatible / different sizes
            ops.append(self.operand(k, (self.lead(Ne, nPg) if k == "fe" else []) + s))
        nd = None if rng.random() < 0.8 else r
        return {"op": "TensorProd", "sym": sym, "nd": nd, "args": ops}

    # -- Norm / Normalize: data whose Euclidean lengths are exact ---------------------------------
    def _sliced(self, shape, axis, pow2):
        """integer data such that every slice along `axis` (or the whole array when axis is None)
        has an integer Euclidean length; pow2: the length is 0 or a power of two"""
        rng = self.rng
        total = prod(shape)
        data = [0] * total
        if axis is None:
            if total:
                a, b = rng.choice([(3, 4), (5, 12), (0, 2), (6, 8)])
                idx = rng.sample(range(total), min(2, total))
                data[idx[0]] = a if len(idx) == 2 else 5
                if len(idx) == 2:
                    data[idx[1]] = b
            return data
        n = shape[axis]
        inner = prod(shape[axis + 1:])
        for outer in range(prod(shape[:axis])):
            for inn in range(inner):
                if pow2:
                    if n == 4 and rng.random() < 0.4:
                        sl = [rng.choice([1, -1]) * rng.choice([1, 2]) for _ in range(4)]
                        m = abs(sl[0])
                        sl = [m * (1 if v > 0 else -1) for v in sl]
                    else:
                        sl = [0] * n
                        if rng.random() < 0.8:
                            sl[rng.randrange(n)] = rng.choice([1, -1, 2, -2, 4, -4])
                else:
                    sl = [0] * n
                    pair = rng.choice([(3, 4), (-3, 4), (5, 12), (6, -8), (0, 5), (8, 15), (0, 0)])
                    pos = rng.sample(range(n), min(2, n))
                    if len(pos) == 2:
                        sl[pos[0]], sl[pos[1]] = pair
                    else:
                        sl[pos[0]] = rng.choice([0, 2, -3])
                for i, v in enumerate(sl):
                    data[(outer * n + i) * inner + inn] = v
        return data

    def norms(self):
        rng = self.rng
        r = rng.choice([1, 1, 2, 2, 3])
        k = rng.choice(["fe", "fe", "fe", "plain"])
        shape = ([self.d(), self.d()] if k == "fe" else []) + [self.d() for _ in range(r)]
        nd = len(shape)
        op = rng.choice(["Norm", "Normalize", "Normalize"])
        t = rng.random()
        if op == "Norm" and t < 0.1:
            axis = None
        elif t < 0.8 or k == "plain":
            a = rng.randrange(2 if k == "fe" else 0, nd)      # a tensor axis
            axis = a if rng.random() < 0.4 else a - nd
        else:
            a = rng.randrange(0, 2)                            # an (Ne, nPg) axis
            axis = a if rng.random() < 0.5 else a - nd
        j = None if axis is None else (axis if axis >= 0 else axis + nd)
        if op == "Norm" and r >= 2 and rng.random() < 0.3:     # Frobenius norm of the trailing matrix
            flat = shape[:-2] + [shape[-2] * shape[-1]]
            return {"op": "Norm", "axis": [-2, -1] if rng.random() < 0.5 else [nd - 2, nd - 1],
                    "args": [{"k": k, "shape": shape, "data": self._sliced(flat, len(flat) - 1, False)}]}
        exact = op == "Norm" or rng.random() < 0.6             # Normalize: power-of-two lengths -> exact quotients
        c = {"op": op, "axis": axis, "args": [{"k": k, "shape": shape, "data": self._sliced(shape, j, op == "Normalize" and exact)}]}
        if not exact:
            c["model"] = False                                   # quotients like 3/5: compared with the loop oracle only
        return c

    # -- oracle-only families: numpy functions routed through the protocols ------------------------
    def arrayfn(self):
        rng = self.rng
        which = rng.choice(["concat", "stack", "swapaxes", "linalg", "linalg", "reducekd", "reducekd", "inplace", "inplace", "out"])
        Ne, nPg = self.d(), self.d()
        if which in ("concat", "stack"):
            r = rng.choice([1, 1, 2, 3])
            s = [self.d() for _ in range(r)]
            nd = 2 + r + (1 if which == "stack" else 0)
            a = rng.randrange(2, nd)
            ops = []
            for i in range(rng.choice([2, 2, 3])):
                si = list(s)
                if which == "concat":
                    si[a - 2] = self.d()
                ops.append(self.operand("fe", [Ne, nPg] + si))
            return {"op": which, "axis": a if rng.random() < 0.5 else a - nd, "args": ops}
        if which == "swapaxes":
            r = rng.choice([2, 3])
            s = [self.d() for _ in range(r)]
            a, b = rng.sample(range(2, 2 + r), 2)
            return {"op": "swapaxes", "axes": [a, b - (2 + r)], "args": [self.operand("fe", [Ne, nPg] + s)]}
        if which == "linalg":
            fn = rng.choice(["inv", "det", "solve"])
            n = rng.choice([1, 2, 2, 3, 3])
            lead = self.lead(Ne, nPg)
            data = []
            for _ in range(prod(lead)):
                data += [x for row in self.unimodular(n) for x in row]
            ops = [{"k": "fe", "shape": lead + [n, n], "data": data}]
            if fn == "solve":
                ops.append(self.operand("fe", lead + [n, rng.choice([1, 2])]))
            return {"op": "linalg", "fn": fn, "args": ops, "model": False, "tol": 1e-10}
        if which == "reducekd":
            c = self.reduce()
            c["keepdims"] = True
            return c
        # in-place operators and out=
        code = rng.choice([0, 1, 2, 3])
        r = rng.choice([0, 1, 2, 2])
        s = [self.d() for _ in range(r)]
        x = self.operand("fe", [Ne, nPg] + s)
        yk = rng.choice(["scalar", "plain", "fe", "fe"])
        pool = [1, 2, 4, -1, -2, -4] if code == 3 else None
        if yk == "scalar":
            y = self.operand("scalar", [], pool)
        elif yk == "plain":
            y = self.operand("plain", self.derive(s) if rng.random() < 0.85 else [self.d()] + s, pool)
        else:
            y = self.operand("fe", self.lead(Ne, nPg) + self.derive(s), pool)
        if which == "inplace":
            return {"op": "inplace", "code": code, "args": [x, y]}
        return {"op": "out", "code": code, "args": [x, y], "out_shape": [Ne, nPg] + s, "out_kind": rng.choice(["fe", "plain"])}

    FAMILIES = [("ufunc2", 30), ("contract", 22), ("reduce", 9), ("einsum", 6), ("where", 5),
                ("transposes", 5), ("matfun", 5), ("broadcast", 5), ("ufunc1", 2),
                ("tensorprod", 7), ("norms", 6), ("arrayfn", 10)]

    def case(self, cid):
        rng = self.rng
        names = [n for n, w in self.FAMILIES for _ in range(w)]
        for _ in range(200):
            self.env()
            fam = rng.choice(names)
            c = getattr(self, fam)()
            sizes = [prod(o["shape"]) for o in c["args"]]
            est = max(sizes + [1])
            if c["op"] in ("matmul", "dot", "ddot", "einsum") and len(c["args"]) == 2:
                fe = [o for o in c["args"] if o["k"] in FEK]
                lead = max([prod(o["shape"][:2]) for o in fe] + [1])
                est = max(est, prod(c["args"][0]["shape"]) * prod(c["args"][1]["shape"]) // max(lead, 1))
            if c["op"] == "TensorProd":
                est = max(est, prod(c["args"][0]["shape"]) * prod(c["args"][1]["shape"][-2:]))
            if c["op"] in ("ufunc2", "where"):
                est = max(est, result_size_guess([o["shape"] for o in c["args"]], [o["k"] for o in c["args"]]))
            if est <= self.cap:
                if scalable(c) and rng.random() < 0.12:
                    c = scale_case(c, rng.choice(SCALE_EXPONENTS))
                c["id"] = cid
                c["coll"] = self.coll
                return c
        raise RuntimeError("generator could not produce a small enough case")


def directed_cases():
    """a fixed set of small cases run on every check, so each defect family / each translated
    formula is exercised deterministically (non-symmetric data, Ne = nPg = dim collisions)"""
    C = []

    def fe(shape, data=None, k="fe"):
        n = prod(shape)
        return {"k": k, "shape": list(shape), "data": data or [(3 * i * i + 2 * i + 1) % 7 - 2 for i in range(n)]}

    def pl(shape, data=None):
        n = prod(shape)
        return {"k": "plain", "shape": list(shape), "data": data or [(5 * i + 1) % 6 - 1 for i in range(n)]}

    def sc(v):
        return {"k": "scalar", "shape": [], "data": [v]}
    # Field operators x side x other kind
    for code in (0, 1, 2, 3):
        pool = [2, 4, 1, -2]
        for other in (sc(4), {"k": "plain", "shape": [3], "data": [2, 4, -1]}, fe([1, 2, 3], [1, 2, 4, -1, 2, -4])):
            f = fe([1, 2, 3], [1, 2, 4, -2, 1, 4], k="field")
            C.append({"op": "ufunc2", "code": code, "how": "operator", "args": [f, other]})
            C.append({"op": "ufunc2", "code": code, "how": "operator", "args": [other, f]})
    for other in (pl([3]), pl([3, 3]), fe([2, 2, 3]), fe([2, 2, 3, 3])):
        f = fe([1, 2, 3], k="field")
        C.append({"op": "matmul", "args": [f, other]})
        C.append({"op": "matmul", "args": [other, f]})
    # every accepted rank pair of @ / dot / ddot, collision sizes, both plain and field right operands,
    # and plain LEFT operands for @
    for r1 in (1, 2, 4):
        for r2 in (1, 2, 4):
            n = 2
            for yk in ("fe", "plain"):
                x = fe([n, n] + [n] * r1)
                y = fe([n, n] + [n] * r2) if yk == "fe" else pl([n] * r2)
                C.append({"op": "matmul", "args": [x, y]})
                C.append({"op": "dot", "args": [x, y]})
                if r1 >= 2 and r2 >= 2:
                    C.append({"op": "ddot", "args": [x, y]})
            C.append({"op": "matmul", "args": [pl([n] * r1), fe([n, n] + [n] * r2)]})
    C.append({"op": "matmul", "args": [pl([3, 3]), fe([3, 3, 3])]})
    C.append({"op": "matmul", "args": [pl([3, 3]), fe([2, 4, 3])]})
    # reducers on every axis (positive and negative), method and function
    for how in ("method", "np"):
        for a in (0, 1, 2, 3, -1, -2, -3, -4):
            C.append({"op": "reduce", "code": 0, "axis": [a], "how": how, "kw": True, "tuple": False, "args": [fe([2, 2, 2, 2])]})
        C.append({"op": "reduce", "code": 0, "axis": [2, 3], "how": how, "kw": True, "tuple": True, "args": [fe([2, 2, 2, 2])]})
        C.append({"op": "reduce", "code": 0, "axis": [1, 2], "how": how, "kw": True, "tuple": True, "args": [fe([2, 2, 2, 2])]})
        C.append({"op": "reduce", "code": 2, "axis": None, "how": how, "kw": True, "tuple": False, "args": [fe([2, 2, 2])]})
        C.append({"op": "reduce", "code": 4, "axis": [-1], "how": how, "kw": True, "tuple": False, "args": [fe([2, 2, 2, 2], [2 * ((3 * i) % 7 - 3) for i in range(16)])]})
        C.append({"op": "reduce", "code": 4, "axis": [2, 3], "how": how, "kw": True, "tuple": True, "args": [fe([2, 2, 2, 2], [4 * ((5 * i) % 7 - 3) for i in range(16)])]})
        C.append({"op": "reduce", "code": 4, "axis": [1], "how": how, "kw": True, "tuple": False, "args": [fe([2, 2, 2, 2], [2 * ((3 * i) % 5 - 2) for i in range(16)])]})
    # Det / Inv / Trace on non-symmetric integer matrices (det = +-1, +-2)
    mats = {1: [2], 2: [2, 1, 3, 2], 3: [1, 2, 0, 0, 1, 3, 1, 0, 2]}
    for n, m in mats.items():
        for op in ("Det", "Inv", "Trace"):
            C.append({"op": op, "args": [{"k": "plain", "shape": [n, n], "data": m}]})
            mt = [m[j * n + i] for i in range(n) for j in range(n)]     # transpose: same determinant (a power of 2)
            C.append({"op": op, "args": [{"k": "fe", "shape": [n, n, n, n], "data": sum([m if b % 2 == 0 else mt for b in range(n * n)], [])}]})
    m4 = [1, 2, 0, 1, 0, 1, 3, 0, 1, 0, 2, 1, 0, 0, 1, 1]
    m5 = [1, 0, 2, 0, 1, 0, 1, 0, 3, 0, 1, 0, 1, 0, 2, 0, 1, 0, 1, 0, 0, 0, 1, 0, 2]
    for n, m in ((4, m4), (5, m5)):
        for op in ("Det", "Inv"):
            C.append({"op": op, "args": [{"k": "fe", "shape": [2, 1, n, n], "data": m + [m[j * n + i] for i in range(n) for j in range(n)]}], "tol": 1e-10})
            C.append({"op": op, "args": [{"k": "plain", "shape": [n, n], "data": m}], "tol": 1e-10})
    # wrap: results whose shape looks like a field but is not on the (Ne, nPg) axes
    C.append({"op": "einsum", "labels": [[0, 1]], "out": [1, 0], "args": [fe([2, 2, 2, 2])]})
    C.append({"op": "where", "args": [fe([2, 2], [0, 1, 1, 0]), fe([2, 2]), sc(0)]})
    C.append({"op": "where", "args": [pl([3, 3, 3], [i % 2 for i in range(27)]), fe([1, 1, 3]), sc(0)]})
    # all 16 pairings of finite element axes (Ne,nPg) / (Ne,1) / (1,nPg) / (1,1) on the two
    # operands, through every two-operand path: elementwise ufunc, @ (np.matmul gufunc for
    # matrix-matrix, einsum otherwise), dot, ddot, np.einsum, np.where -- with Ne != nPg and with
    # the collision Ne = nPg = dim
    for Ne, nPg, n in ((3, 2, 2), (2, 2, 2)):
        leads = ([Ne, nPg], [Ne, 1], [1, nPg], [1, 1])
        for la in leads:
            for lb in leads:
                A, B = fe(la + [n, n]), fe(lb + [n, n])
                va, vb = fe(la + [n]), fe(lb + [n])
                C.append({"op": "matmul", "args": [A, B]})
                C.append({"op": "matmul", "args": [A, vb]})
                C.append({"op": "matmul", "args": [va, B]})
                C.append({"op": "dot", "args": [va, vb]})
                C.append({"op": "ddot", "args": [A, B]})
                C.append({"op": "ufunc2", "code": 1, "how": "operator", "args": [A, vb]})
                C.append({"op": "ufunc2", "code": 4, "how": "np", "args": [va, B]})
                C.append({"op": "einsum", "labels": [[0, 1], [1, 2]], "out": [0, 2], "args": [A, B]})
                C.append({"op": "einsum", "labels": [[0], [1]], "out": [0, 1], "args": [va, vb]})
                C.append({"op": "where", "args": [fe(la + [n], [i % 2 for i in range(prod(la) * n)]), vb, sc(0)]})
                C.append({"op": "where", "args": [fe(la + [n], [(i // 2) % 2 for i in range(prod(la) * n)]), fe(la + [n]), vb]})
    # TensorProd: vector x vector, matrix x matrix plain and symmetrised, DIFFERENT non-symmetric
    # operands, all pairings of finite element axes, plain x plain, mixed (raises)
    for Ne, nPg, n in ((3, 2, 2), (2, 2, 2)):
        leads = ([Ne, nPg], [Ne, 1], [1, nPg], [1, 1])
        for la in leads:
            for lb in leads:
                A = fe(la + [n, n])
                B = fe(lb + [n, n], [(7 * i * i + 3 * i + 2) % 9 - 3 for i in range(prod(lb) * n * n)])
                C.append({"op": "TensorProd", "sym": True, "nd": None, "args": [A, B]})
                C.append({"op": "TensorProd", "sym": False, "nd": None, "args": [A, B]})
                C.append({"op": "TensorProd", "sym": False, "nd": None, "args": [fe(la + [n]), fe(lb + [n + 1], [(5 * i + 2) % 7 - 2 for i in range(prod(lb) * (n + 1))])]})
    for sym in (True, False):
        C.append({"op": "TensorProd", "sym": sym, "nd": None, "args": [pl([3, 3], [1, 2, 0, 0, 1, 3, 1, 0, 2]), pl([3, 3], [2, 0, 1, 1, 1, 0, 0, 3, 1])]})
        C.append({"op": "TensorProd", "sym": sym, "nd": 2, "args": [fe([2, 2, 3, 3]), fe([2, 2, 3, 3], [(11 * i + 4) % 8 - 3 for i in range(36)])]})
        C.append({"op": "TensorProd", "sym": sym, "nd": None, "args": [fe([2, 2, 2, 2]), pl([2, 2])]})
    C.append({"op": "TensorProd", "sym": False, "nd": None, "args": [pl([3], [1, 2, 3]), pl([3], [4, 0, -1])]})
    # Norm / Normalize on every axis; Transpose of rank 2 and 4
    v = {"k": "fe", "shape": [2, 2, 2], "data": [3, 4, 0, 5, -6, 8, 12, 5]}
    w = {"k": "fe", "shape": [2, 2, 2], "data": [3, 4, 4, 3, 4, 3, 3, 4]}
    z = {"k": "fe", "shape": [2, 2, 2], "data": [0, 4, -2, 0, 0, 0, 1, 0]}
    for a in (-1, 2):
        C.append({"op": "Norm", "axis": a, "args": [v]})
        C.append({"op": "Normalize", "axis": a, "args": [z]})
        C.append({"op": "Normalize", "axis": a, "args": [v], "model": False})
    for a in (0, 1, -2, -3, None):
        C.append({"op": "Norm", "axis": a, "args": [w if a is not None else {"k": "fe", "shape": [2, 2, 2], "data": [3, 0, 0, 0, 0, 4, 0, 0]}]})
    C.append({"op": "Norm", "axis": [-2, -1], "args": [{"k": "fe", "shape": [2, 2, 2, 2], "data": [3, 0, 0, 4, 1, 1, 1, 1, 0, 0, 0, 0, 2, 4, 4, 8]}]})
    C.append({"op": "Norm", "axis": [1, 2], "args": [{"k": "fe", "shape": [2, 2, 2], "data": [3, 0, 0, 4, 1, 1, 1, 1]}]})
    C.append({"op": "Transpose", "args": [fe([2, 2, 2, 3])]})
    C.append({"op": "Transpose", "args": [fe([2, 2, 2, 2, 2, 3])]})
    C.append({"op": "T", "args": [fe([2, 2, 2, 2, 2, 3])]})
    # array functions along tensor axes, keepdims, in-place and out= (oracle-only), and the
    # shape-coincidence probes of __wrap: axes 0/1 moved while Ne = nPg (= stack size)
    a3, b3 = fe([2, 2, 3]), fe([2, 2, 3], [(4 * i + 1) % 5 - 2 for i in range(12)])
    for ax in (2, -1):
        C.append({"op": "concat", "axis": ax, "args": [a3, b3]})
        C.append({"op": "stack", "axis": ax, "args": [a3, b3]})
    C.append({"op": "stack", "axis": 0, "args": [a3, b3]})
    C.append({"op": "stack", "axis": 0, "args": [fe([3, 2, 2]), fe([3, 2, 2])]})
    C.append({"op": "swapaxes", "axes": [0, 1], "args": [a3]})
    C.append({"op": "swapaxes", "axes": [0, 1], "args": [fe([3, 2, 2])]})
    C.append({"op": "swapaxes", "axes": [2, 3], "args": [fe([2, 2, 2, 3])]})
    for how in ("method", "np"):
        for axis in ([2, 3], [-1], [1], [0, 2], None):
            C.append({"op": "reduce", "code": 0, "axis": axis, "how": how, "kw": True, "tuple": bool(axis and len(axis) > 1), "keepdims": True,
                      "args": [fe([2, 2, 2, 2])]})
    um = [2, 1, 3, 2, 1, 0, 1, 1, 1, 2, 0, 1, 1, 1, -1, 2]
    C.append({"op": "linalg", "fn": "inv", "args": [{"k": "fe", "shape": [2, 2, 2, 2], "data": um}], "model": False, "tol": 1e-10})
    C.append({"op": "linalg", "fn": "det", "args": [{"k": "fe", "shape": [2, 2, 2, 2], "data": um}], "model": False, "tol": 1e-10})
    C.append({"op": "linalg", "fn": "solve", "args": [{"k": "fe", "shape": [2, 1, 2, 2], "data": um[:8]}, fe([1, 2, 2, 1])], "model": False, "tol": 1e-10})
    for code in (0, 1, 2, 3):
        for y in (sc(2), pl([2], [1, 2]), fe([1, 1, 2], [2, 4]), fe([2, 2], [1, 2, 4, -1]), pl([2, 2, 2], [1, 2, 4, 1, 2, 4, 1, 2])):
            C.append({"op": "inplace", "code": code, "args": [fe([2, 2, 2, 2]), y]})
            for ok in ("fe", "plain"):
                C.append({"op": "out", "code": code, "args": [fe([2, 2, 2, 2]), y], "out_shape": [2, 2, 2, 2], "out_kind": ok})
    # FeArray.broadcast: every leading-axes class for tensor_ndim 0, 1, 2, with Ne = nPg = tensor
    # dimension collisions (a bare constant tensor shaped (Ne, nPg), a (Ne,) vector with tensor_ndim=1)
    for Ne, nPg in ((2, 2), (3, 2), (3, 3)):
        for td in (0, 1, 2):
            tails = [[Ne, nPg][:td], [nPg, Ne][:td], [4, 3][:td]] if td else [[]]
            for tail in tails:
                for lead in ([], [Ne], [nPg], [Ne, nPg], [nPg, Ne], [5], [Ne, nPg, 2]):
                    shp = lead + tail
                    C.append({"op": "broadcast", "Ne": Ne, "nPg": nPg, "td": td, "args": [pl(shp) if shp else {"k": "plain", "shape": [], "data": [3]}]})
            C.append({"op": "broadcast", "Ne": Ne, "nPg": nPg, "td": td, "args": [sc(3)]})
            C.append({"op": "broadcast", "Ne": Ne, "nPg": nPg, "td": td, "args": [fe([Ne, nPg] + [Ne, nPg][:td])]})
            if td == 2:
                C.append({"op": "broadcast", "Ne": Ne, "nPg": nPg, "td": td, "args": [pl([Ne])]})      # rank below tensor_ndim
    # every numpy reduction FUNCTION of the reference list, called as np.<f>(fe, axis=...), on
    # shape-collision fields (Ne = nPg = dim, nPg = dim): FeArray exactly when the reduced axes are
    # tensor axes, value = numpy's on the plain array (oracle-only)
    for fn in REFERENCE_REDUCERS:
        for shp in ([2, 2, 2], [3, 2, 2], [2, 2, 2, 2]):
            nd = len(shp)
            axes = [[0], [1], [-1], [1 - nd]] + ([[2, 3], [1, 3]] if nd == 4 and fn not in ("argmax", "argmin") else []) + [None]
            for ax in axes:
                C.append({"op": "npreduce", "fn": fn, "axis": ax, "args": [fe(shp, [(3 * i * i + i) % 5 - 1 for i in range(prod(shp))])], "model": False})
    C += dtype_cases()
    # SCALED TWINS (micro-/nano-scale Jacobians, huge moduli): the same matrices times 2**e.  Det must
    # scale by 2**(n e), Inv by 2**(-e), Norm by 2**e, Normalize not at all -- exactly
    twins = []
    for idx, c in enumerate(C):
        if c["op"] in ("Det", "Inv", "Trace", "linalg", "Norm", "Normalize") or \
                (c["op"] in ("TensorProd", "matmul", "ddot") and idx % 9 == 0):
            for e in SCALE_EXPONENTS:
                if (c["op"] in ("Det", "Inv", "linalg") and e != -30) or (c["op"] not in ("Det", "Inv", "linalg") and e == -30):
                    twins.append(scale_case(c, e))
    C += twins
    for i, c in enumerate(C):
        c["coll"] = True
    return C


# reduction functions numpy dispatches through __array_function__ whose result type must be read from
# `axis` (the implementation's _REDUCERS table must contain each of these function objects)
REFERENCE_REDUCERS = ("sum", "prod", "mean", "std", "var", "median", "average", "max", "min", "amax", "amin",
                      "all", "any", "argmax", "argmin")
# known NOT to be in the table on the checked-in tree (typed by result shape): listed for the report only
OTHER_NUMPY_REDUCERS = ("ptp", "nansum", "nanprod", "nanmax", "nanmin", "nanmean", "count_nonzero")


def dtype_cases():
    """dtype preservation (oracle-only family): int64 (also beyond 2**53), float32, complex128
    operands on either side of the operators and through the constructor paths"""
    C = []
    big = 2 ** 53 + 1

    def arr(k, shape, dt, seed=0):
        n = prod(shape)
        if dt == "complex128":
            data = [[(3 * i + seed) % 5 - 2, (2 * i + 1 + seed) % 7 - 3] for i in range(n)]
        elif dt == "bigint":
            data = [big + ((5 * i + seed) % 7) for i in range(n)]
        else:
            data = [(3 * i * i + 2 * i + 1 + seed) % 7 - 2 for i in range(n)]
        return {"k": k, "shape": list(shape), "data": data, "dtype": "int64" if dt == "bigint" else dt}

    def scal(dt):
        return {"k": "scalar", "shape": [], "data": [[2, -3]] if dt == "complex128" else [big if dt == "bigint" else 3],
                "dtype": "int64" if dt == "bigint" else dt}
    for dt in ("int64", "bigint", "float32", "complex128"):
        f = "float64"
        for sub in ("add", "sub", "mul"):
            if dt == "bigint" and sub == "mul":
                continue                      # int64 overflow is numpy's own business
            C.append({"op": "dtype", "sub": sub, "args": [arr("fe", [2, 2, 2], dt), arr("plain", [2], f, 1)]})
            C.append({"op": "dtype", "sub": sub, "args": [arr("plain", [2], dt, 1), arr("fe", [2, 2, 2], f)]})
            C.append({"op": "dtype", "sub": sub, "args": [arr("fe", [2, 2, 2], dt), arr("fe", [1, 2, 2], dt, 2)]})
            C.append({"op": "dtype", "sub": sub, "args": [scal(dt), arr("fe", [2, 2, 2], f)]})
            C.append({"op": "dtype", "sub": sub, "args": [arr("fe", [2, 2, 2], dt), scal("int64" if dt != "complex128" else dt)]})
        if dt != "bigint":
            C.append({"op": "dtype", "sub": "matmul", "args": [arr("fe", [2, 2, 2, 2], dt), arr("plain", [2], f, 1)]})
            C.append({"op": "dtype", "sub": "matmul", "args": [arr("plain", [2, 2], dt, 1), arr("fe", [2, 2, 2], f)]})      # __rmatmul__
            C.append({"op": "dtype", "sub": "matmul", "args": [arr("plain", [2, 2], dt, 1), arr("fe", [2, 2, 2, 2], dt)]})
            C.append({"op": "dtype", "sub": "matmul", "args": [arr("fe", [2, 2, 2, 2], dt), arr("fe", [2, 1, 2, 2], dt, 3)]})
            C.append({"op": "dtype", "sub": "dot", "args": [arr("fe", [2, 2, 2], dt), arr("fe", [2, 2, 2], dt, 4)]})
            C.append({"op": "dtype", "sub": "Trace", "args": [arr("fe", [2, 2, 2, 2], dt)]})
        for sub in ("T", "Transpose", "sum", "neg"):
            C.append({"op": "dtype", "sub": sub, "args": [arr("fe", [2, 2, 2, 2], dt)]})
        for sub in ("FeArray", "asfearray_bc"):
            C.append({"op": "dtype", "sub": sub, "args": [arr("plain", [2, 2, 2], dt)]})
            C.append({"op": "dtype", "sub": "asfearray_bc", "args": [arr("plain", [3], dt)]})
    for c in C:
        c["model"] = False
    return C


def scale_case(c, e):
    """SCALED TWIN: every operand's data multiplied by 2**e (the same power of two for all operands,
    so sums stay exact in floating point; products, determinants, inverses, norms then scale by
    exact powers of two as well).  Values become dyadic rationals [n, 2**-e]."""
    def sc(v):
        n, d = (v if isinstance(v, list) else (v, 1))
        if n == 0:
            return 0
        if e >= 0:
            n = n * 2 ** e
        else:
            d = d * 2 ** (-e)
        from math import gcd
        g = gcd(abs(n), d)
        n, d = n // g, d // g
        return n if d == 1 else [n, d]
    c = json.loads(json.dumps(c))
    for o in c["args"]:
        o["data"] = [sc(v) for v in o["data"]]
    c["scale_exp"] = e
    return c


SCALE_EXPONENTS = (-60, -30, -20, 40)


def scalable(c):
    """families whose result is an exact power-of-two multiple of the unscaled result"""
    if c["op"] == "reduce" and c["code"] == 1:
        return False          # prod over many entries would underflow
    if c["op"] == "where":
        return True
    return c["op"] not in ("broadcast",) or True


def result_size_guess(shapes, kinds):
    """upper bound of the broadcast result size under the FeArray alignment"""
    lead = [1, 1]
    tens = []
    for s, k in zip(shapes, kinds):
        t = s
        if k in FEK:
            lead = [max(a, b) for a, b in zip(lead, s[:2])]
            t = s[2:]
        tens.append(t)
    n = max([len(t) for t in tens] + [0])
    u = [1] * n
    for t in tens:
        for i, x in enumerate(t):
            j = n - len(t) + i
            u[j] = max(u[j], x)
    return prod(lead) * prod(u)


# ---------------------------------------------------------------------------------------
# Coq text of a case
# ---------------------------------------------------------------------------------------
def zlit(x):
    return "(%d)" % x if x < 0 else "%d" % x


def qlit(x):
    if isinstance(x, list):
        return "((%d)#%d)" % (x[0], x[1]) if x[0] < 0 else "(%d#%d)" % (x[0], x[1])
    return "((%d)#1)" % x if x < 0 else "(%d#1)" % x


def nlist(l):
    return "[" + "; ".join(str(x) for x in l) + "]"


def coq_operand(o):
    k = o["k"]
    ints = all(isinstance(x, int) for x in o["data"])
    if k == "scalar":
        return "(scZ %s%%Z)" % zlit(o["data"][0]) if ints else "(scQ %s%%Q)" % qlit(o["data"][0])
    nm = "pl" if k == "plain" else "fe"
    if ints:
        return "(%sZ %s [%s]%%Z)" % (nm, nlist(o["shape"]), "; ".join(zlit(x) for x in o["data"]))
    return "(%sQ %s [%s]%%Q)" % (nm, nlist(o["shape"]), "; ".join(qlit(x) for x in o["data"]))


def coq_expr(c):
    A = [coq_operand(o) for o in c["args"]]
    op = c["op"]
    if op == "ufunc2":
        return "EUfunc2 Q %d %s %s" % (c["code"], A[0], A[1])
    if op == "ufunc1":
        return "EUfunc1 Q %d %s" % (c["code"], A[0])
    if op in ("matmul", "dot", "ddot"):
        return "%s Q %s %s" % ({"matmul": "EMatmul", "dot": "EDot", "ddot": "EDdot"}[op], A[0], A[1])
    if op in ("T", "Transpose", "Trace", "Det", "Inv"):
        return "E%s Q %s" % (op, A[0])
    if op == "reduce" and not c.get("keepdims"):
        ax = "None" if c["axis"] is None else "(Some [%s]%%Z)" % "; ".join(zlit(a) for a in c["axis"])
        return "EReduce Q %d %s %s" % (c["code"], ax, A[0])
    if op == "einsum":
        return "EEinsum Q [%s] %s" % ("; ".join("(%s, %s)" % (nlist(l), a) for l, a in zip(c["labels"], A)), nlist(c["out"]))
    if op == "where":
        return "EWhere Q %s %s %s" % (A[0], A[1], A[2])
    if op == "broadcast":
        return "EBroadcast Q %s %d %d %d" % (A[0], c["Ne"], c["nPg"], c["td"])
    if op == "reduce" and c.get("keepdims"):
        ax = "None" if c["axis"] is None else "(Some [%s]%%Z)" % "; ".join(zlit(a) for a in c["axis"])
        return "EReduceKd Q %d %s %s" % (c["code"], ax, A[0])
    if op == "swapaxes":
        return "ESwapaxes Q %s%%Z %s%%Z %s" % (zlit(c["axes"][0]), zlit(c["axes"][1]), A[0])
    if op in ("concat", "stack"):
        return "%s Q %s%%Z [%s]" % ("EConcat" if op == "concat" else "EStack", zlit(c["axis"]), "; ".join(A))
    if op in ("inplace", "out"):
        oshape = c["args"][0]["shape"] if op == "inplace" else c["out_shape"]
        ofe = "true" if (op == "inplace" or c["out_kind"] == "fe") else "false"
        return "EOut Q %d %s %s %s %s" % (c["code"], A[0], A[1], nlist(oshape), ofe)
    if op == "TensorProd":
        return "ETensorProd Q %s %s %s %s" % ("true" if c["sym"] else "false", "None" if c.get("nd") is None else "(Some %d)" % c["nd"], A[0], A[1])
    if op == "Norm":
        ax = c["axis"]
        axl = None if ax is None else (ax if isinstance(ax, list) else [ax])
        return "ENorm Q %s %s" % ("None" if axl is None else "(Some [%s]%%Z)" % "; ".join(zlit(a) for a in axl), A[0])
    if op == "Normalize":
        return "ENormalize Q %s%%Z %s" % (zlit(c["axis"]), A[0])
    raise ValueError(op)


COQ_DT = {"int64": "I64", "float32": "F32", "float64": "F64", "complex64": "C64", "complex128": "C128"}


def coq_dtype_rule(c):
    def od(o):
        d = o.get("dtype", "float64")
        if o["k"] == "scalar":
            return {"i": "PyInt", "f": "PyFloat", "c": "PyComplex"}[d[0]]      # build_dt makes python int / float / complex
        return "(Arr %s)" % COQ_DT[d]
    if c["sub"] in ("add", "sub", "mul", "matmul", "dot"):
        return "binop_dtype %s %s" % (od(c["args"][0]), od(c["args"][1]))
    return "unop_dtype %s" % od(c["args"][0])


def strict_errors(c):
    """exception classes are compared only where _linalg.py documents them: FeArray operands
    (no Field delegation, no reflected numpy path)"""
    if c["op"] in ("dot", "ddot", "matmul"):
        return c["args"][0]["k"] == "fe" and c["args"][1]["k"] in ("fe", "plain", "scalar")
    return c["op"] in ("ufunc2", "einsum", "broadcast", "where")


def coq_obs(c, r):
    k = r["kind"]
    if k >= 10 and k < 20 and not strict_errors(c):
        k = 10
    if all(isinstance(x, int) for x in r["data"]):
        return "(obsZ %d %s [%s]%%Z)" % (k, nlist(r["shape"]), "; ".join(zlit(x) for x in r["data"]))
    return "(%d, %s, [%s]%%Q)" % (k, nlist(r["shape"]), "; ".join(qlit(x) for x in r["data"]))


HEADER = ("From Coq Require Import List Arith Bool ZArith QArith.\n"
          "From EFModel Require Import C12_FeShape C12_FeTensor C12_FeQ C12_FeDtype.\n"
          "From EFP Require Import Gen_Linalg.\nImport ListNotations.\nLocal Open Scope nat_scope.\n"
          "(* dims 1-3: the closed forms regenerated from _linalg.py; dims > 3 (numpy fallback in the source): the\n"
          "   generic Leibniz determinant / adjugate of C12_FeDetN, see coq/props/C12/C12_detn.v *)\n"
          "Definition detQ := det_ext gen_detQ.\nDefinition invQ := inv_ext gen_invQ.\n")


def case_key(c):
    ks = "/".join(o["k"] for o in c["args"])
    rk = "/".join(str(len(o["shape"]) - (2 if o["k"] in FEK else 0)) for o in c["args"])
    extra = ""
    if c["op"] in ("ufunc2", "ufunc1"):
        extra = (BIN if c["op"] == "ufunc2" else UN)[c["code"]] + ":" + c["how"]
    elif c["op"] == "reduce":
        extra = RED[c["code"]] + ":" + c["how"] + ":" + ("none" if c["axis"] is None else "fe-axes" if any((a if a >= 0 else a + len(c["args"][0]["shape"])) < 2 for a in c["axis"]) else "tensor-axes")
    elif c["op"] == "einsum":
        extra = json.dumps(c["labels"]) + json.dumps(c["out"])
    elif c["op"] == "broadcast":
        extra = "td%d" % c["td"]
    elif c["op"] == "npreduce":
        extra = c["fn"] + ":" + json.dumps(c["axis"])
    elif c["op"] == "dtype":
        extra = c["sub"] + ":" + "/".join(o.get("dtype", "") for o in c["args"])
    elif c["op"] == "TensorProd":
        extra = "sym%s:nd%s" % (c["sym"], c.get("nd"))
    elif c["op"] in ("Norm", "Normalize", "concat", "stack"):
        nd = len(c["args"][0]["shape"]) + (1 if c["op"] == "stack" else 0)
        axl = None if c["axis"] is None else (c["axis"] if isinstance(c["axis"], list) else [c["axis"]])
        extra = "none" if axl is None else ("fe-axis" if any((a if a >= 0 else a + nd) < 2 for a in axl) else "tensor-axis") + (":frobenius" if axl and len(axl) == 2 else "")
    elif c["op"] == "linalg":
        extra = c["fn"]
    elif c["op"] in ("inplace", "out"):
        extra = BIN[c["code"]] + ":" + c.get("out_kind", "")
    if c["op"] == "reduce" and c.get("keepdims"):
        extra += ":keepdims"
    return "%s|%s|%s|%s|%s" % (c["op"], extra, ks, rk, "coll" if c["coll"] else "free")


def violation_key(c):
    """specific key: defect family + operator + operand kinds/ranks"""
    op = c["op"]
    kinds = [o["k"] for o in c["args"]]
    ranks = [len(o["shape"]) - (2 if o["k"] in FEK else 0) for o in c["args"]]
    name = BIN[c["code"]] if op == "ufunc2" else op
    if op in ("ufunc2", "matmul") and "field" in kinds:
        side = "left" if kinds[0] == "field" else "right"
        other = kinds[1] if side == "left" else kinds[0]
        return "field-operator:%s:field-%s:other-%s" % (name, side, other)
    if op == "matmul" and kinds[0] in ("plain", "scalar") and kinds[1] == "fe":
        return "fearray-reflected-matmul:%s@fe" % kinds[0]
    if op == "npreduce":
        nd = len(c["args"][0]["shape"])
        cls = "none" if c["axis"] is None else ("fe-axes" if any((a if a >= 0 else a + nd) < 2 for a in c["axis"]) else "tensor-axes")
        return "np-reducer-typing:%s:%s" % (c["fn"], cls)
    if op == "dtype":
        return "dtype:%s:%s" % (c["sub"], "/".join("%s-%s" % (o["k"], o.get("dtype", "float64")) for o in c["args"]))
    if op == "Norm":
        nd = len(c["args"][0]["shape"])
        axl = None if c["axis"] is None else (c["axis"] if isinstance(c["axis"], list) else [c["axis"]])
        if kinds[0] == "fe" and (axl is None or any((a if a >= 0 else a + nd) < 2 for a in axl)):
            return "norm-typing:fe-axes-reduced"
    if op in ("stack", "swapaxes", "concat"):
        nd = len(c["args"][0]["shape"]) + (1 if op == "stack" else 0)
        ax = [c["axis"]] if "axis" in c else c["axes"]
        if any((a if a >= 0 else a + nd) < 2 for a in ax):
            return "array-function-wrap:shape-coincidence:%s" % op
    extra = ""
    if op == "TensorProd":
        extra = ":sym" if c["sym"] else ":plain-product"
    if op == "linalg":
        extra = ":" + c["fn"]
    if op in ("inplace", "out"):
        name = op + ":" + BIN[c["code"]]
    if op == "reduce":
        extra = ":" + RED[c["code"]] + ":" + c["how"] + (":keepdims" if c.get("keepdims") else "")
    if op == "einsum":
        extra = ":" + "".join(map(str, sum(c["labels"], []))) + ">" + "".join(map(str, c["out"]))
    if op == "broadcast":
        extra = ":td%d" % c["td"]
    return "corr:%s%s:%s:ranks-%s" % (name, extra, "/".join(kinds), "/".join(map(str, ranks)))


# ---------------------------------------------------------------------------------------
# replay: self-contained (uses corr/C12_impl.py from /verif for building operands)
# ---------------------------------------------------------------------------------------
REPLAY = r'''
import json, sys
import numpy as np
from corr import C12_impl as I
case = json.loads(%(case)r)
model = json.loads(%(model)r)      # what the Coq model evaluates to (kind, shape, values), if modelled
got, oracle, ok = I.check_case(case)
exp = oracle if oracle is not None else model
print("expression :", I.describe(case))
print("expected   : kind", exp["kind"], "shape", exp["shape"], exp.get("dtype", ""), "values", exp["data"][:24], "(per-(e,p) loop on plain numpy arrays)" if oracle is not None else "(Coq model)")
print("implementation: kind", got["kind"], "shape", got["shape"], got.get("dtype", ""), "values", got["data"][:24], got.get("note", ""))
bad = not I.same_any(exp, got, case)
print("VIOLATION reproduces" if bad else "no violation")
sys.exit(1 if bad else 0)
'''


def parse_obs_line(txt):
    """'(1, [1; 2], [(3%Z, 1%Z); ...])' -> dict"""
    m = re.match(r"\s*=?\s*\((\d+),\s*\[([^\]]*)\],\s*\[(.*)\]\)\s*$", txt, re.S)
    if not m:
        return None
    kind = int(m.group(1))
    shape = [int(x) for x in re.findall(r"\d+", m.group(2))]
    nums = [int(x) for x in re.findall(r"-?\d+", m.group(3).replace("%Z", ""))]
    data = []
    for i in range(0, len(nums) - 1, 2):
        n, d = nums[i], nums[i + 1]
        data.append(n if d == 1 else [n, d])
    return {"kind": kind, "shape": shape, "data": data}


def real_field_spec(rng):
    """tiny gmsh-free meshes for genuine Field objects"""
    tests = []
    tid = 0
    items = []
    meshes = [("SEG2", [[0, 0, 0], [1, 0, 0], [2, 0, 0]], [[0, 1], [1, 2]]),
              ("TRI3", [[0, 0, 0], [1, 0, 0], [0, 1, 0], [1, 1, 0]], [[0, 1, 2], [1, 3, 2]]),
              ("QUAD4", [[0, 0, 0], [1, 0, 0], [1, 1, 0], [0, 1, 0]], [[0, 1, 2, 3]])]
    for elem, coords, conn in meshes:
        tests = []
        for op in ("add", "sub", "mul", "div", "matmul"):
            for side in ("field-left", "field-right"):
                others = [{"k": "scalar", "shape": [], "data": [rng.choice([2, -2, 4])]},
                          {"k": "plain", "shape": [1], "data": [rng.choice([2, -2, 4])]},
                          {"k": "plain", "shape": [3], "data": [2, -1, 4]},
                          {"k": "plain", "shape": [2, 1], "data": [2, 4]}]
                for o in others:
                    if op == "matmul" and o["k"] == "scalar":
                        continue
                    tests.append({"id": tid, "op": op, "side": side, "other": o})
                    tid += 1
        items.append({"elem": elem, "coords": coords, "connect": conn, "node": rng.randrange(len(conn[0])), "tests": tests})
    return items


def field_sweep_spec(rng):
    """the (node, dof) sweep of the forms on the SAME Field objects: forms order (node-major, dof
    fastest, u outer / w inner), then a scrambled order that revisits states"""
    meshes = [("SEG2", [[0, 0, 0], [1, 0, 0], [2, 0, 0]], [[0, 1], [1, 2]], (1,)),
              ("TRI3", [[0, 0, 0], [1, 0, 0], [0, 1, 0], [1, 1, 0]], [[0, 1, 2], [1, 3, 2]], (1, 2)),
              ("QUAD4", [[0, 0, 0], [1, 0, 0], [1, 1, 0], [0, 1, 0]], [[0, 1, 2, 3]], (1, 2)),
              ("TETRA4", [[0, 0, 0], [1, 0, 0], [0, 1, 0], [0, 0, 1]], [[0, 1, 2, 3]], (1, 3))]
    items = []
    for elem, coords, conn, dofs in meshes:
        nPe = len(conn[0])
        for dof_n in dofs:
            single = [(n, d) for n in range(nPe) for d in range(dof_n)]
            states = [(a[0], a[1], b[0], b[1]) for a in single[:3] for b in single]      # forms order
            extra = [(rng.choice(single), rng.choice(single)) for _ in range(12)]
            states += [(a[0], a[1], b[0], b[1]) for a, b in extra]
            items.append({"elem": elem, "coords": coords, "connect": conn, "dof_n": dof_n, "states": states,
                          "vec": [2.0, -4.0, 0.5], "mat": [[1.0, 2.0, 0.0], [0.0, 1.0, 3.0], [4.0, 0.0, 1.0]]})
    return items


MISSING_REPLAY = r'''
import sys
import numpy as np
from EasyFEA.FEM import _linalg as L
fn = %(fn)r
fe = L.FeArray.asfearray(np.arange(8.).reshape(2, 2, 2))     # Ne = nPg = dim = 2
inside = getattr(np, fn) in L._REDUCERS
try:
    r = getattr(np, fn)(fe, axis=0)
    typed = type(r).__name__
except Exception as ex:
    typed = "raises " + type(ex).__name__
print("np.%%s in _REDUCERS: %%s ; np.%%s(fe(2,2,2), axis=0) is a %%s (must be a plain ndarray: the element axis was reduced)" %% (fn, inside, fn, typed))
bad = (not inside) or typed == "FeArray"
print("VIOLATION reproduces" if bad else "no violation")
sys.exit(1 if bad else 0)
'''


SWEEP_REPLAY = r'''
import json, sys
from corr import C12_impl as I
spec = json.loads(%(spec)r)
res = I.field_sweep_checks(spec)
for b in res["bad"][:6]:
    print("Field %%s dof_n=%%d, step %%d, (node_u, dof_u, node_w, dof_w) = %%s: %%s" %% (b["elem"], b["dof_n"], b["step"], b["state"], b["op"]))
    print("   implementation:", b.get("got", b.get("error")), " numpy on the field's Gauss-point values:", b["want"])
print("%%d of %%d evaluations differ" %% (len(res["bad"]), res["checks"]))
print("VIOLATION reproduces" if res["bad"] else "no violation")
sys.exit(1 if res["bad"] else 0)
'''


# ---------------------------------------------------------------------------------------
def correspondence(ctx, ncases, cap, per_file=400):
    gen = Gen(ctx.rng, cap)
    cases = directed_cases()
    ndirected = len(cases)
    for i, c in enumerate(cases):
        c["id"] = i
    cases += [gen.case(ndirected + i) for i in range(ncases - ndirected)]
    ncases = len(cases)
    ctx.cov["corr_directed_cases"] = ndirected
    ctx.cov["corr_scaled_twin_cases"] = sum(1 for c in cases if "scale_exp" in c)

    sweep_spec = field_sweep_spec(ctx.rng)
    req = {"cases": cases, "real_fields": real_field_spec(ctx.rng), "field_sweeps": sweep_spec,
           "reference_reducers": list(REFERENCE_REDUCERS) + list(OTHER_NUMPY_REDUCERS)}
    script = os.path.join(common.VERIF, "corr", "C12_impl.py")
    ctx.log("generated %d cases" % len(cases))
    rc, out, err = ctx.impl_python(script, input=json.dumps(req), timeout=900)
    ctx.log("implementation side done")
    if rc != 0:
        ctx.obligation("corr:impl-run", False, err[-1500:])
        ctx.violation("corr:impl-crash", "the implementation-side harness failed: " + (err.strip().splitlines()[-1][:200] if err.strip() else "rc=%d" % rc),
                      {"stderr": err[-3000:]}, found_input=False)
        return
    resp = json.loads(out)
    results = {r["id"]: r for r in resp["results"]}
    # ---- model side: generated case files, evaluated by vm_compute
    files = []
    # oracle-only cases (no Coq model) are decided on the implementation side; they are not written into
    # the case files.  The modelled cases are spread over three files (one per coqc worker, <= 500 each
    # in the quick tier)
    oracle_only = [c for c in cases if c.get("model") is False and c["op"] != "dtype" and not (c["op"] in ("Det", "Inv") and c.get("tol"))]
    oo_ids = set(c["id"] for c in oracle_only)
    coq_cases = [c for c in cases if c["id"] not in oo_ids]
    per_file = min(500, max(per_file, -(-len(coq_cases) // 3)))
    nfiles = max(1, -(-len(coq_cases) // per_file))
    for f0 in range(nfiles):
        body = HEADER
        for c in coq_cases[f0::nfiles]:          # round-robin: the heavy directed cases are spread evenly
            r = results[c["id"]]
            if c["op"] == "dtype":
                # values / type / shape: per-(e,p) numpy loop (implementation side); result dtype: the
                # promotion rule of the model (join-semilattice of C12_FeDtype) against numpy's dtype
                ok = "true" if r.get("oracle_ok") is True else "false"
                if r["kind"] < 10:
                    ok = "(%s && dt_opt_eqb (%s) %s)" % (ok, coq_dtype_rule(c), COQ_DT.get(r.get("dtype"), "I64 && false"))
                body += "Eval vm_compute in (%d, %s).\n" % (c["id"], ok)
            elif c["op"] in ("Det", "Inv") and c.get("tol") and r["kind"] < 10:
                # numpy.linalg fallback of the source (dim > 3): floats against the exact Leibniz / adjugate of the model
                body += "Eval vm_compute in (%d, agrees_tol (1 # 10000000000) detQ invQ (%s) %s).\n" % (c["id"], coq_expr(c), coq_obs(c, r))
            elif c.get("model") is False:
                # oracle-only family: decided by the independent per-(e,p) loop oracle on the implementation side
                body += "Eval vm_compute in (%d, %s).\n" % (c["id"], "true" if r.get("oracle_ok") is True else "false")
            elif r["kind"] >= 20:      # not an array at all (object array, NaN): cannot agree with any model value
                body += "Eval vm_compute in (%d, false).\n" % c["id"]
            else:
                body += "Eval vm_compute in (%d, agrees_err detQ invQ (%s) %s).\n" % (c["id"], coq_expr(c), coq_obs(c, r))
        files.append(("Cases_%03d.v" % f0, body))

    def run(fb):
        return fb[0], ctx.coq_eval(fb[0], fb[1], timeout=900)
    with ThreadPoolExecutor(max_workers=3) as ex:
        outs = list(ex.map(run, files))
    ctx.log("model side (vm_compute) done")
    verdict = {c["id"]: results[c["id"]].get("oracle_ok") is True for c in oracle_only}
    for fname, (rc, txt) in outs:
        if rc != 0:
            ctx.obligation("corr:coq-eval:" + fname, False, txt[-1500:])
            ctx.violation("corr:model-eval-failed", "the generated case file %s does not evaluate" % fname, {"log": txt[-3000:]}, found_input=False)
            return
        for m in re.finditer(r"=\s*\((\d+),\s*(true|false)\)", txt):
            verdict[int(m.group(1))] = m.group(2) == "true"
    ctx.checker_cmds.append("coqc (vm_compute) build/C12/Cases_*.v")
    bad = [c for c in cases if not verdict.get(c["id"], False) or results[c["id"]].get("oracle_ok") is False]
    ctx.cov["corr_oracle_only_cases"] = sum(1 for c in cases if c.get("model") is False)
    ctx.cov["corr_cases_with_independent_loop_oracle"] = sum(1 for c in cases if "oracle_ok" in results[c["id"]])
    ctx.cov["corr_model_agrees_but_oracle_disagrees"] = sum(1 for c in cases if verdict.get(c["id"], False) and results[c["id"]].get("oracle_ok") is False)
    dist = {}
    for c in cases:
        r = results[c["id"]]
        dist[c["op"]] = dist.get(c["op"], 0) + 1
        nontriv = r["kind"] < 10 and len(r["data"]) > 1
        ctx.note_case(case_key(c) if nontriv else None)
    ctx.cov["corr_cases_by_family"] = dist
    ctx.cov["rule"] = ("cases = 127 directed + random FeArray/Field expressions (props/C12.py Gen, all choices from ctx.rng): family, operator, "
                       "operand kinds and order, tensor ranks 0-4, sizes 1-4 with 55% collision mode (Ne = nPg = every dim); each is run on "
                       "the implementation and on the Coq model and compared exactly. A case is non-trivial when the implementation returns "
                       "an array with more than one value (not an error branch); distinct = distinct (family, operator/axis class/subscripts, "
                       "operand kinds, tensor ranks, collision-or-free) keys")
    ctx.cov["corr_collision_cases"] = sum(1 for c in cases if c["coll"])
    ctx.cov["corr_error_branch_cases"] = sum(1 for c in cases if results[c["id"]]["kind"] >= 10)
    ctx.cov["corr_values_compared"] = sum(len(results[c["id"]]["data"]) for c in cases)
    ctx.cov["corr_operand_kinds"] = sorted(set("/".join(o["k"] for o in c["args"]) for c in cases))
    if len(cases) - len(bad):
        ctx.obligation("corr:model-vs-implementation:agreeing-cases", True, "%d of %d cases agree exactly" % (len(cases) - len(bad), len(cases)), n=len(cases) - len(bad))
    if bad:
        ctx.obligation("corr:model-vs-implementation:disagreeing-cases", False, "%d of %d cases disagree" % (len(bad), len(cases)), n=len(bad))
    ctx.sample({"case": cases[0], "impl": {k: results[cases[0]["id"]][k] for k in ("kind", "shape")}, "agrees": verdict.get(cases[0]["id"])})
    # ---- genuine Field objects
    rbad = [t for t in resp.get("real_fields", []) if not same_obs(t["want"], t["got"])]
    ctx.cov["real_field_operator_checks"] = len(resp.get("real_fields", []))
    ctx.obligation("corr:real-Field-operators", not rbad, "%d of %d disagree with operator(other, field())" % (len(rbad), len(resp.get("real_fields", []))),
                   n=max(1, len(resp.get("real_fields", []))))
    miss = resp.get("missing_reducers")
    miss_ref = [m for m in (miss if miss is not None else ["<not reported>"]) if m in REFERENCE_REDUCERS or m.startswith("<")]
    ctx.cov["reducers_outside_the_dispatch_table"] = miss
    ctx.obligation("corr:_REDUCERS-contains-reference-list", not miss_ref, "missing: %s" % miss_ref, n=len(REFERENCE_REDUCERS))
    for m in miss_ref:
        ctx.violation("reducer-table-missing:%s" % m, "np.%s is not in _linalg._REDUCERS: np.%s(fe, axis=0 or 1) is then typed by the result shape, i.e. as a FeArray whenever the shape happens to start with (Ne, nPg)" % (m, m),
                      {"replay_py": MISSING_REPLAY % {"fn": m}}, found_input=True)
    sw = resp.get("field_sweeps") or {"checks": 0, "bad": [{"op": "harness", "elem": "-", "dof_n": 0, "step": 0, "state": [], "want": []}]}
    ctx.cov["field_sweep_evaluations"] = sw["checks"]
    ctx.obligation("corr:Field-(node,dof)-sweep", not sw["bad"], "%d of %d operator evaluations on swept Field objects differ from numpy on the Gauss-point values" % (len(sw["bad"]), sw["checks"]),
                   n=max(1, sw["checks"]))
    seen = set()
    for b in sw["bad"]:
        cls = ("evaluation" if b["op"] == "u()" else "field-field" if "w" in b["op"] else "matrix-product" if "@" in b["op"]
               else "array-operand" if "cv" in b["op"] else "scalar-operand")
        key = "field-sweep:%s:dof_n%d" % (cls, b["dof_n"])
        if key in seen:
            continue
        seen.add(key)
        item = [it for it in sweep_spec if it["elem"] == b["elem"] and it["dof_n"] == b["dof_n"]]
        ctx.violation(key, "%s Field with dof_n=%d, after moving to (node, dof) state %s (step %d of the sweep on the same object): `%s` differs from numpy on the field's Gauss-point values" % (
            b["elem"], b["dof_n"], b["state"], b["step"], b["op"]),
            {"replay_py": SWEEP_REPLAY % {"spec": json.dumps(item)}, "first_mismatch": b}, found_input=True)
    report(ctx, cases, results, bad, rbad)


def same_obs(a, b):
    if a["kind"] >= 10 and b["kind"] >= 10:
        return True
    return a["kind"] == b["kind"] and a.get("shape") == b.get("shape") and a.get("data") == b.get("data")


def report(ctx, cases, results, bad, rbad):
    if not bad and not rbad:
        return
    # group by key, smallest case first
    groups = {}
    for c in bad:
        groups.setdefault(violation_key(c), []).append(c)
    ctx.cov["corr_disagreeing_cases"] = len(bad)
    ctx.cov["corr_disagreement_keys"] = {k: len(v) for k, v in sorted(groups.items())}
    # representative per key: a case whose expected result is a value (not an error branch) if
    # there is one, then the directed cases, then the smallest
    def rep_rank(c):
        r = results[c["id"]]
        return (0 if r["kind"] < 10 or r["kind"] >= 20 else 1, 0 if c["id"] < ctx.cov.get("corr_directed_cases", 0) else 1,
                sum(len(o["data"]) for o in c["args"]))
    reps = {k: min(v, key=rep_rank) for k, v in groups.items()}
    # second pass: what does the model say for the representatives
    modelled = [c for c in reps.values() if c.get("model") is not False]
    body = HEADER + "".join("Eval vm_compute in observeZ detQ invQ (%s).\n" % coq_expr(c) for c in modelled)
    rc, txt = ctx.coq_eval("Cases_failed.v", body, timeout=600)
    chunks = [x for x in re.split(r"\n\s*:\s*nat \* list nat \* list \(Z \* Z\)\s*", txt) if x.strip()]
    parsed = [parse_obs_line(x.strip()) for x in chunks]
    mvs = {c["id"]: m for c, m in zip(modelled, parsed + [None] * len(modelled))}
    for key, c in reps.items():
        r = results[c["id"]]
        mv = (r.get("oracle") if r.get("oracle_ok") is False else None) or mvs.get(c["id"]) or {"kind": -1, "shape": [], "data": []}
        cc = {k: v for k, v in c.items() if k not in ("coll", "model", "scale_exp")}
        snippet = REPLAY % {"case": json.dumps(cc), "model": json.dumps(mv)}
        prc, pout, perr = common.sh([common.PY, "-c", snippet], timeout=120, cwd=ctx.build,
                                    env={"PYTHONPATH": ctx.repo + os.pathsep + common.VERIF, "MPLBACKEND": "Agg"})
        what = "%s on %s: implementation gives kind %s shape %s%s, the per-point tensor operation gives kind %s shape %s (%d such cases)" % (
            c["op"] + (":" + BIN[c["code"]] if c["op"] == "ufunc2" else ""),
            " , ".join("%s%s" % (o["k"], o["shape"]) for o in c["args"]), r["kind"], r["shape"],
            " [" + r["note"] + "]" if r.get("note") else "", mv["kind"], mv["shape"], len(groups[key]))
        ctx.violation(key, what, {"replay_py": snippet, "case": cc, "model_value": mv, "impl_value": {k: r[k] for k in ("kind", "shape", "data")},
                                  "obligation": "corr:model-vs-implementation", "replay_output": (pout + perr)[-1500:]},
                      found_input=(prc != 0))
    seen = set()
    for t in rbad:
        key = "real-field-operator:%s:%s:other-%s" % (t["op"], t["side"], "scalar" if t.get("other_kind") == "scalar" else "array")
        key = "real-field-operator:%s:%s" % (t["op"], t["side"])
        if key in seen:
            continue
        seen.add(key)
        ctx.violation(key, "%s Field, `%s` with the field on the %s: result differs from the same operator applied to field() (got kind %s, want kind %s)" % (
            t["elem"], t["op"], t["side"].split("-")[1], t["got"]["kind"], t["want"]["kind"]),
            {"replay_py": REAL_REPLAY % {"t": json.dumps(t)}, "test": t}, found_input=True)


REAL_REPLAY = r'''
import json, sys
from corr import C12_impl as I
t = json.loads(%(t)r)
meshes = {"SEG2": ([[0,0,0],[1,0,0],[2,0,0]], [[0,1],[1,2]]), "TRI3": ([[0,0,0],[1,0,0],[0,1,0],[1,1,0]], [[0,1,2],[1,3,2]]), "QUAD4": ([[0,0,0],[1,0,0],[1,1,0],[0,1,0]], [[0,1,2,3]])}
co, cn = meshes[t["elem"]]
# the test is re-run with the recorded operand; `other` is rebuilt from the recorded want/got kinds only if present
print("recorded: want", t["want"].get("kind"), t["want"].get("shape"), "got", t["got"].get("kind"), t["got"].get("shape"), t["got"].get("note", ""))
res = I.real_field_checks([{"elem": t["elem"], "coords": co, "connect": cn, "node": 0, "tests": [dict(t, other=t["other"])]}]) if "other" in t else []
bad = any(r["want"] != r["got"] and not (r["want"]["kind"] >= 10 and r["got"]["kind"] >= 10) for r in res) if res else True
for r in res: print("want", r["want"]); print("got ", r["got"])
print("VIOLATION reproduces" if bad else "no violation")
sys.exit(1 if bad else 0)
'''


TRANSLATE_REPLAY = r'''
import sys
from vlib import common
from translator import C12_linalg as T
errs = [e for e in T.generate(common.repo_path())[2] if e[0] == %(part)r]
for part, msg in errs:
    print("the translator (fail-closed) rejects the", part, "part of _linalg.py:", msg)
print("the property is no longer shown for this part (no failing input)" if errs else "translator accepts the source")
sys.exit(1 if errs else 0)
'''


def run(ctx):
    ctx.assumptions += [
        "the hand-written Gallina model coq/model/C12_*.v mirrors FeArray/Field dispatch; it is tied to the source by the exact differential correspondence run on every check (integer/dyadic data, exact float arithmetic) and by the regenerated Gen_Linalg.v",
        "numpy's own broadcasting, einsum and matmul are modelled (np_bcast, einsum, clip/bidx), not verified",
        "Coq 8.16.1 kernel + vm_compute; stdlib real-number axioms as listed in trusted_base for the Det/Inv theorems",
    ]
    ok_static, log = ctx.ensure_static()
    if not ok_static:
        ctx.obligation("static-lib", False, log[-1500:])
        ctx.violation("static-lib-build", "coq/lib or coq/model does not build", {"log": log[-3000:]}, found_input=False)
        return
    try:
        gen, info, terrs = T_lin.generate(ctx.repo)
    except (SyntaxError, OSError, TranslateError) as ex:
        ctx.obligation("translate", False, str(ex))
        ctx.violation("translate", "translator rejected _linalg.py: %s" % ex, {"construct": str(ex)}, found_input=False)
        gen, terrs = None, []
    for part, msg in terrs:
        ctx.obligation("translate:" + part, False, msg)
        ctx.violation("translate:" + part, "translator rejected the %s part of _linalg.py: %s" % (part, msg),
                      {"construct": msg, "replay_py": TRANSLATE_REPLAY % {"part": part}}, found_input=False)
    failed = []
    if gen is not None:
        ctx.obligation("translate", True, json.dumps(info))
        ctx.cov["translated"] = info
        open(os.path.join(ctx.build, "Gen_Linalg.v"), "w").write(gen)
        ctx.copy_props("C12/C12_linalg.v", "C12/C12_theorems.v", "C12/C12_theorems2.v", "C12/C12_field.v", "C12/C12_detn.v", "C12/C12_tensorprod.v")
        r0 = ctx.coq(["Gen_Linalg.v"], timeout=300)       # the case files and two theorem files need it
        if not r0.ok:
            failed.append(r0)

        # the theorem files are independent of each other: compile the groups side by side (<= 3 coqc)
        def grp_linalg():
            if not r0.ok:
                return []
            ra = ctx.coq(["C12_linalg.v"], timeout=900)
            rb = ctx.coq(["C12_detn.v"], timeout=600)
            return [r for r in (ra, rb) if not r.ok]

        def grp_theorems():
            r = ctx.coq(["C12_theorems.v"], timeout=900)
            return [] if r.ok else [r]

        def grp_tp_field():
            bad = []
            rt = ctx.coq(["C12_theorems2.v"], timeout=900)
            if not rt.ok:
                bad.append(rt)
            try:
                open(os.path.join(ctx.build, "Gen_TensorProd.v"), "w").write(T_lin.generate_tensorprod(ctx.repo))
                r4 = ctx.coq(["Gen_TensorProd.v", "C12_tensorprod.v"], timeout=300)
                if not r4.ok:
                    bad.append(r4)
            except (TranslateError, SyntaxError, OSError) as ex:
                ctx.obligation("translate:TensorProd", False, str(ex))
                ctx.violation("translate:TensorProd", "translator rejected TensorProd: %s" % ex, {"construct": str(ex)}, found_input=False)
            try:
                genf, finfo = T_fld.generate(ctx.repo)
                ctx.obligation("translate:_field.py", True, json.dumps(finfo))
                ctx.cov["translated_field"] = finfo
                open(os.path.join(ctx.build, "Gen_Field.v"), "w").write(genf)
                r3 = ctx.coq(["Gen_Field.v", "C12_field.v"], timeout=300)
                if not r3.ok:
                    bad.append(r3)
            except (TranslateError, SyntaxError, OSError) as ex:
                ctx.obligation("translate:_field.py", False, str(ex))
                ctx.violation("translate:_field.py", "translator rejected _field.py: %s" % ex, {"construct": str(ex)}, found_input=False)
            return bad
        with ThreadPoolExecutor(max_workers=3) as ex:
            for bad in ex.map(lambda g: g(), [grp_linalg, grp_theorems, grp_tp_field]):
                failed += bad
        for r in failed:
            ctx.log("proof obligations broke in %s" % r.failed_file)
        ctx.sample({"theorem": "C12_elementwise_pointwise", "statement": "forall V vbin op a c Ne nPg s, shape a = Ne::nPg::s -> (np_bcast s (shape c) = Some u -> fe op plain and plain op fe are FeArrays of shape Ne::nPg::u with res[e,p,K] = op(a[e,p,K|s], c[K|t]) in the written order) /\\ (None -> ValueError)", "assumptions": "closed under the global context"})
    n, cap = (1650, 1000) if ctx.tier == "quick" else (5250, 2500)
    nviol0 = len(ctx.violations)
    if gen is None:
        # the case files need the generated closed forms; without them only report the translator failure
        return
    correspondence(ctx, n, cap)
    if failed and len(ctx.violations) == nviol0:
        # a proof broke but neither the model correspondence nor the independent oracles found
        # a failing input: the property is no longer shown
        for r in failed:
            ctx.violation("proof-broken:" + str(r.failed_file), "theorem file %s no longer checks against the regenerated sources and no failing input was found" % r.failed_file,
                          {"obligation": r.failed_file, "log": r.log[-3000:]}, found_input=False)
