"""C14 -- after any sequence of changes a simulation behaves like a freshly built one.

1. translator/notify.py (ast, fail-closed) re-derives from ctx.repo which mutator notifies /
   clears what  -> Gen_Notify.v (`gen_table`)
2. coq/props/C14/C14_fresh.v: `table_ok gen_table = true` by computation, hence (theorems proved
   once in coq/model/C14_Cache_proofs.v for every table satisfying table_ok) for EVERY op list
   observe(run ops) = observe(fresh(cfg(run ops))), shared-model and staggered-flag theorems
3. when the table is not ok: for every failing entry the model witness (Coq, vm_compute) and its
   replay on the real code  -> violation with an executable replay
4. correspondence: random op sequences (<= 12 ops) on REAL Elastic / Thermal / Beam / PhaseField /
   HyperElastic simulations vs (a) a simulation built directly in the final configuration
   (values) and (b) the model's per-step prediction of the update flags under gen_table.
"""
import ast as pyast
import json
import os
import re
import subprocess

from translator import notify
from translator import C14_mutators as mutators
from vlib import common

IMPL = os.path.join(common.VERIF, "corr", "C14_impl.py")
MODEL_FILES = ["C14_Cache.v", "C14_Cache_proofs.v"]

FLAG_NAMES = {
    1: "t_param_need", 2: "t_model_notify", 3: "t_upd_model_need", 4: "t_upd_mesh_need", 5: "t_upd_mesh_clear",
    6: "t_init_sub_model", 7: "t_pf_sub_material", 8: "t_rho_need", 9: "t_ray_need",
    10: "t_mesh_clear.MTranslate", 11: "t_mesh_clear.MRotate", 12: "t_mesh_clear.MSymmetry", 13: "t_mesh_clear.MCoordSet",
    14: "t_mesh_notify.MTranslate", 15: "t_mesh_notify.MRotate", 16: "t_mesh_notify.MSymmetry", 17: "t_mesh_notify.MCoordSet",
    18: "t_meshset_need", 19: "t_meshset_sub", 20: "t_updmesh_need", 21: "t_bcinit", 22: "t_dirichlet", 23: "t_lagrange",
    24: "t_newton_need", 25: "t_pf_need_d", 26: "t_pf_need_u", 27: "t_pf_setiter_d", 28: "t_pf_setiter_u",
    29: "t_pf_dmg_inval_u", 30: "t_pf_el_inval_d", 31: "t_csr_key_groups", 32: "t_csr_key_ndof", 33: "t_mass_key_group",
    34: "t_model_cache_refresh", 35: "t_meshset_initsols", 36: "t_param_set_unconditional", 37: "t_meshset_keeps_old", 38: "t_param_get_copies"}

KEYS = {
    1: "no-need-update:_Parameter.__set__", 2: "no-notify:_IModel.Need_Update", 3: "no-need-update:_Simu._Update(model)",
    4: "no-need-update:_Simu._Update(mesh)", 5: "simu-cache-not-cleared-on-mesh-change:_Simu._Update",
    6: "no-subscribe:_Simu.__init__(model)", 7: "no-subscribe:sub-model(material/beams)", 8: "no-need-update:simu.rho",
    9: "no-need-update:Set_Rayleigh_Damping_Coefs",
    10: "group-cache-not-cleared:Mesh.Translate", 11: "group-cache-not-cleared:Mesh.Rotate",
    12: "group-cache-not-cleared:Mesh.Symmetry", 13: "group-cache-not-cleared:Mesh.coord-setter",
    14: "no-notify:Mesh.Translate", 15: "no-notify:Mesh.Rotate", 16: "no-notify:Mesh.Symmetry", 17: "no-notify:Mesh.coord-setter",
    18: "no-need-update:simu.mesh-setter", 19: "no-subscribe:simu.mesh-setter", 20: "no-need-update:Set_Iter(other-mesh)",
    21: "lagrange-resize:Bc_Init", 22: "lagrange-resize:add_dirichlet", 23: "no-need-update:_Bc_Add_Lagrange",
    24: "no-need-update:Newton-iteration", 25: "pf-flag:Need_Update(damage)", 26: "pf-flag:Need_Update(displacement)",
    27: "pf-flag:Set_Iter(damage)", 28: "pf-flag:Set_Iter(displacement)", 29: "pf-flag:damage-solve-keeps-Ku",
    30: "pf-flag:elastic-solve-keeps-Kd", 31: "cache-key:csr-map-without-groups", 32: "cache-key:csr-map-without-Ndof",
    33: "cache-key:mass-without-group", 34: "model-derived-cache-read-before-lazy-update",
    35: "solution-state-kept:simu.mesh-setter", 36: "no-need-update:same-array-reassigned:_Parameter.__set__",
    37: "unsubscribed-from-history-mesh:simu.mesh-setter", 38: "shared-array-edited-in-place:_Parameter.__get__"}

# ---- real-code replays of the model witnesses (same sequences as `witness` in C14_Cache.v) ------------
NS = {"op": "newsim", "m": 0}
GK = {"op": "getk", "i": 0}
GKD = {"op": "getk", "i": 0, "dmg": True}
SOLVE = {"op": "solve", "i": 0}
DIR2 = {"op": "dirichlet", "i": 0, "where": "left", "values": [0.0, 0.0]}
PULL = {"op": "dirichlet", "i": 0, "where": "right", "values": [0.002, 0.0]}
LOAD = {"op": "neumann", "i": 0, "where": "right", "values": [10.0, 0.0]}


def mv(kind, m=0):
    args = {"Translate": [0.3, -0.2, 0.0], "Rotate": [30.0], "Symmetry": [], "CoordSet": [2.0, 0.75]}[kind]
    return {"op": "move", "m": m, "kind": kind, "args": args}


NEWMESH = {"op": "newmesh", "nx": 3, "ny": 2, "lx": 1.5, "ly": 1.0}
BEAM_PRE = [NS, {"op": "dirichlet", "i": 0, "where": "clamp", "values": [0.0, 0.0, 0.0]},
            {"op": "lagrange", "i": 0, "where": "corner"}, {"op": "neumann", "i": 0, "where": "tip", "values": [1000.0]}]
HYP_PRE = [NS, DIR2, LOAD, {"op": "rho", "i": 0, "value": 500.0}, {"op": "algo", "i": 0, "kind": "hyperbolic", "dt": 0.05}]
PF_PRE = [NS, DIR2, PULL]

REAL_WITNESS = {
    1: ("Elastic", [NS, GK, {"op": "param", "name": "E", "value": 1234.0}]),
    7: ("PhaseField", PF_PRE + [GK, GKD, {"op": "param", "sub": True, "name": "E", "value": 1234.0}]),
    4: ("Elastic", [NS, GK, mv("Rotate")]),
    5: ("HyperElastic", HYP_PRE + [SOLVE, mv("CoordSet")]),
    8: ("Elastic", [NS, {"op": "algo", "i": 0, "kind": "hyperbolic", "dt": 0.1}, GK, {"op": "rho", "i": 0, "value": 7.0}]),
    9: ("Elastic", [NS, GK, {"op": "ray", "i": 0, "coefM": 0.1, "coefK": 0.2}]),
    10: ("Elastic", [NS, GK, mv("Translate")]), 11: ("Elastic", [NS, GK, mv("Rotate")]),
    12: ("Elastic", [NS, GK, mv("Symmetry")]), 13: ("Elastic", [NS, GK, mv("CoordSet")]),
    18: ("Elastic", [NS, NEWMESH, GK, {"op": "setmesh", "i": 0, "m": 1}]),
    19: ("Elastic", [NS, NEWMESH, {"op": "setmesh", "i": 0, "m": 1}, GK, mv("Rotate", 1)]),
    20: ("Elastic", [NS, {"op": "saveiter", "i": 0}, NEWMESH, {"op": "setmesh", "i": 0, "m": 1}, GK, {"op": "setiter", "i": 0, "j": 0}, {"op": "bcinit", "i": 0}]),
    21: ("Beam", BEAM_PRE + [GK, {"op": "bcinit", "i": 0}]),
    22: ("Beam", BEAM_PRE + [GK, {"op": "dirichlet", "i": 0, "where": "tip", "values": [0.0]}]),
    23: ("Beam", [NS, {"op": "dirichlet", "i": 0, "where": "clamp", "values": [0.0, 0.0, 0.0]}, GK, {"op": "lagrange", "i": 0, "where": "corner"}]),
    24: ("HyperElastic", [NS, DIR2, LOAD, SOLVE, {"op": "param", "name": "K", "value": 2.0e4}]),
    25: ("PhaseField", PF_PRE + [GKD, GK, {"op": "param", "name": "Gc", "value": 1.1}]),
    27: ("PhaseField", PF_PRE + [SOLVE, {"op": "saveiter", "i": 0}, PULL, SOLVE, GKD, GK, {"op": "setiter", "i": 0, "j": 0}]),
    29: ("PhaseField", PF_PRE + [SOLVE, GK, PULL, SOLVE]),  # first solve gives d = 0; the second one changes the damage
    30: ("PhaseField", PF_PRE + [SOLVE]),
    31: ("Elastic", [NS, NEWMESH, GK, {"op": "setmesh", "i": 0, "m": 1}]),
    32: ("Beam", [NS, {"op": "dirichlet", "i": 0, "where": "clamp", "values": [0.0, 0.0, 0.0]}, GK, {"op": "lagrange", "i": 0, "where": "corner"}]),
    33: ("HyperElastic", HYP_PRE + [NEWMESH, SOLVE, {"op": "setmesh", "i": 0, "m": 1}]),
}
SAME_NN = {"op": "newmesh", "nx": 2, "ny": 2, "lx": 2.0, "ly": 1.0}           # same node count / connectivity, other geometry
SAME_NN_TRI = {"op": "newmesh", "nx": 2, "ny": 2, "lx": 1.0, "ly": 1.0, "elem": "TRI3"}  # same node count, other element type
TH_PRE = [NS, {"op": "dirichlet", "i": 0, "where": "left", "values": [1.0]}, {"op": "algo", "i": 0, "kind": "parabolic", "dt": 0.05}]
REAL_WITNESS[35] = [{"type": "Thermal", "ops": TH_PRE + [SOLVE, SOLVE, nm, {"op": "setmesh", "i": 0, "m": 1}]} for nm in (SAME_NN, SAME_NN_TRI)] + \
                   [{"type": "Elastic", "ops": [NS, DIR2, LOAD, {"op": "algo", "i": 0, "kind": "hyperbolic", "dt": 0.05}, SOLVE, SOLVE, SAME_NN, {"op": "setmesh", "i": 0, "m": 1}]}]
# a mesh notification arriving while the simulation is ALREADY flagged must still clear the simulation cache
REAL_WITNESS[5] = [{"type": "HyperElastic", "ops": HYP_PRE + [SOLVE, mv("CoordSet")]},
                   {"type": "HyperElastic", "ops": HYP_PRE + [SOLVE, {"op": "param", "name": "K", "value": 3.1e4}, mv("CoordSet")]},
                   {"type": "HyperElastic", "ops": HYP_PRE + [SOLVE, {"op": "rho", "i": 0, "value": 650.0}, mv("CoordSet")]}]
IE_PRE = [NS, DIR2, {"op": "dirichlet", "i": 0, "where": "right", "values": [0.004, 0.0]}, SOLVE, {"op": "saveiter", "i": 0}]
IE_RELOAD = [DIR2, {"op": "dirichlet", "i": 0, "where": "right", "values": [0.002, 0.0]}]
REAL_WITNESS[35] += [
    {"type": "InElastic", "key": "internal-state-kept:InElastic:simu.mesh-setter", "ops": IE_PRE + [SAME_NN, {"op": "setmesh", "i": 0, "m": 1}] + IE_RELOAD},
    {"type": "InElastic", "key": "internal-state-kept:InElastic:simu.mesh-setter", "ops": IE_PRE + [NEWMESH, {"op": "setmesh", "i": 0, "m": 1}] + IE_RELOAD + [SOLVE]},
    {"type": "PhaseField", "key": "history-kept:PhaseField:simu.mesh-setter", "opts": {"split": "Amor"},
     "ops": [NS, DIR2, {"op": "dirichlet", "i": 0, "where": "right", "values": [0.01, 0.0]}, SOLVE, {"op": "saveiter", "i": 0}, SOLVE, {"op": "saveiter", "i": 0},
             SAME_NN, {"op": "setmesh", "i": 0, "m": 1}, DIR2, PULL, SOLVE]}]
EL_DYN2 = [{"op": "algo", "i": 0, "kind": "hyperbolic", "dt": 0.05}, {"op": "algo", "i": 1, "kind": "hyperbolic", "dt": 0.05}]
SHARED_RHO = [NS, {"op": "newsim", "m": 0}] + EL_DYN2 + [{"op": "rho_arr", "i": 0, "base": 7.8, "shared": True}, {"op": "rho_arr", "i": 1, "base": 7.8, "shared": True},
                                                        GK, {"op": "getk", "i": 1}]
REAL_WITNESS[38] = [{"type": "Elastic", "ops": SHARED_RHO + [{"op": "rho_aug", "i": 0, "factor": 3.0, "other": 1}, mv("Translate")]},
                    {"type": "Elastic", "ops": SHARED_RHO + [{"op": "rho_aug", "i": 0, "factor": 0.25, "plus": True, "other": 1}, mv("Rotate")]}]
REAL_WITNESS[37] = [{"type": "Elastic", "ops": [NS, DIR2, LOAD, SOLVE, {"op": "saveiter", "i": 0}, NEWMESH, {"op": "setmesh", "i": 0, "m": 1}, DIR2, LOAD, SOLVE,
                                                  {"op": "saveiter", "i": 0}, {"op": "setiter", "i": 0, "j": 0}, {"op": "bcinit", "i": 0}, GK, mv("Rotate", 0)]}]
REAL_WITNESS[36] = [{"type": "Elastic", "ops": [NS, {"op": "param_arr", "name": "E", "base": 1.0e5, "amp": 0.3, "freq": 1.0}, GK,
                                                  {"op": "param_arr", "name": "E", "base": 2.0e5, "amp": 0.2, "freq": 2.0, "same": True}]}]
REAL_WITNESS[34] = [{"type": "HyperElastic", "key": "simu-cache-key-incomplete:HyperElastic(thickness)",
                     "ops": HYP_PRE + [SOLVE, {"op": "param", "name": "thickness", "value": 1.75}]},
                    {"type": "InElastic", "key": "model-derived-cache:Behavior.__eigen-built-once",
                     "ops": IE_PRE + [{"op": "param", "sub": True, "name": "v", "value": 0.1}]}] + [{"type": "PhaseField", "opts": {"split": sp},
                     "ops": PF_PRE + [SOLVE, {"op": "param", "sub": True, "name": "v", "value": 0.1}]} for sp in ("He", "Zhang", "Stress", "AnisotStress")]
for _a, _b in ((2, 1), (3, 1), (6, 1), (14, 10), (15, 11), (16, 12), (17, 13), (26, 25), (28, 27)):
    REAL_WITNESS[_a] = REAL_WITNESS[_b]
REAL_WITNESS[14] = ("Elastic", [NS, GK, mv("Translate")])
REAL_WITNESS[15] = ("Elastic", [NS, GK, mv("Rotate")])
REAL_WITNESS[16] = ("Elastic", [NS, GK, mv("Symmetry")])
REAL_WITNESS[17] = ("Elastic", [NS, GK, mv("CoordSet")])

# coordinate changes that are tiny w.r.t. absolute / relative tolerances: a node moved by 1e-6, a nanometre-sized mesh
PERT = {"op": "move", "m": 0, "kind": "Perturb", "args": [0.5, 1.0e-6, -2.0e-6]}
for _i, _k in ((11, "Rotate"), (12, "Symmetry"), (13, "CoordSet"), (15, "Rotate"), (16, "Symmetry"), (17, "CoordSet")):
    REAL_WITNESS[_i] = [{"type": "Elastic", "ops": [NS, GK, mv(_k)]},
                        {"type": "Elastic", "opts": {"scale": 5.0e-9}, "ops": [NS, GK, mv(_k)]}] + \
                       ([{"type": "Elastic", "ops": [NS, GK, PERT]}] if _k == "CoordSet" else [])


def witness_cases(i):
    w = REAL_WITNESS[i]
    if isinstance(w, tuple):
        return [{"type": w[0], "ops": w[1]}]
    return w


REPLAY = r'''
import json, sys
from corr import C14_impl as H
case = json.loads(%(case)r)
print("simulation type:", case["type"], case.get("opts", {}))
for k, op in enumerate(case["ops"]):
    print("  op %%2d: %%s" %% (k, json.dumps(op)))
r = H.run_case(case)
if r["error"]:
    print("the op sequence RAISED at op %%d: %%s" %% (r["error"]["at"], r["error"]["what"]))
    far = r["error"].get("fresh_also_raises")
    print("the same op on a simulation freshly built in the configuration reached before it:", "raises too -> " + str(far) if far else "does not raise" if far is False else "undecided")
    print("expected: behaves like a simulation built directly in the final configuration")
    sys.exit(0 if far else 1)
print("update flags after each op:", r["flags"])
bad = False
for i, s in enumerate(r["sims"]):
    print("simulation %%d vs freshly built one: %%s" %% (i, "DIFFERENT -> " + s["detail"] if s["mismatch"] else "identical (rel diffs %%s)" %% s["rel"]))
    bad = bad or s["mismatch"]
exp = %(expflags)r
if exp is not None and r["flags"] and r["flags"] != exp:
    print("update flags differ from the expected ones:", exp)
    bad = bad or %(flagsmatter)r
print("expected: next matrices / solution / results identical (<= 1e-9 relative) to the fresh simulation")
sys.exit(1 if bad else 0)
'''


def replay_snippet(case, expflags=None, flagsmatter=False):
    return REPLAY % dict(case=json.dumps(case), expflags=expflags, flagsmatter=flagsmatter)


# ---- op translation to Coq ----------------------------------------------------------------------------------
KIND = {"Elastic": "KLin", "Thermal": "KLin", "Beam": "KLin", "PhaseField": "KPF", "HyperElastic": "KNonLin",
        "WeakForms": "KLin", "InElastic": "KNonLin"}
MOP = {"Translate": "MTranslate", "Rotate": "MRotate", "Symmetry": "MSymmetry", "CoordSet": "MCoordSet", "Perturb": "MCoordSet"}


def coq_op(typ, op):
    k = op["op"]
    b = lambda x: "true" if x else "false"
    if k == "newsim":
        return "ONewSim %s %d" % (KIND[typ], op["m"])
    if k == "newmesh":
        return "ONewMesh"
    if k == "param":
        return "OParam %s" % b(op.get("sub", False))
    if k == "assignC":
        return "OParam true"
    if k == "param_arr":
        return "OParamArr %s %s" % (b(op.get("sub", False)), b(op.get("same", False)))
    if k == "move":
        return "OMeshMove %d %s" % (op["m"], MOP[op["kind"]])
    if k == "georead":
        return "OGeoRead %d" % op["m"]
    i = op["i"]
    if k == "rho":
        return "ORho %d" % i
    if k == "rho_arr":
        return "ORho %d" % i
    if k == "rho_aug":
        return "ORhoAug %d %d" % (i, op["other"]) if op.get("other") is not None else "ORho %d" % i
    if k == "ray":
        return "ORay %d" % i
    if k == "setmesh":
        return "OSetMesh %d %d" % (i, op["m"])
    if k == "bcinit":
        return "OBcInit %d" % i
    if k == "dirichlet":
        return "ODirichlet %d 1%%N" % i
    if k == "neumann":
        return "ONeumann %d" % i
    if k == "lagrange":
        return "OLagrange %d" % i
    if k == "algo":
        return "OAlgo %d 1%%N" % i
    if k == "getk":
        return "OGetK %d %s" % (i, b(op.get("dmg", False)))
    if k == "solve":
        return "OSolve %d" % i
    if k == "saveiter":
        return "OSaveIter %d" % i
    if k == "setiter":
        return "OSetIter %d %d" % (i, op["j"])
    raise ValueError(k)


HDR = ("From Coq Require Import List Bool NArith Arith.\nImport ListNotations.\n"
       "From EFModel Require Import C14_Cache.\nFrom EFP Require Import Gen_Notify.\n")


def parse_evals(out):
    """values printed by successive `Eval vm_compute in ...` as python objects"""
    vals = []
    for chunk in re.split(r"^\s*= ", out, flags=re.M)[1:]:
        body = re.split(r"^\s*: ", chunk, flags=re.M)[0]
        txt = " ".join(body.split()).replace(";", ",").replace("true", "True").replace("false", "False").replace("%N", "").replace("%nat", "")
        vals.append(pyast.literal_eval(txt))
    return vals


def model_traces(ctx, cases, fname):
    """per case: list over ops of (flags per sim, stale sims) under gen_table"""
    res = []
    for lo in range(0, len(cases), 300):
        body = HDR
        for c in cases[lo:lo + 300]:
            body += "Eval vm_compute in (trace gen_table [%s] w0).\n" % "; ".join(coq_op(c["type"], o) for o in c["ops"])
        rc, out = ctx.coq_eval("%s_%d.v" % (fname, lo), body, timeout=600)
        if rc != 0:
            raise RuntimeError("model trace evaluation failed: " + out[-800:])
        vals = parse_evals(out)
        if len(vals) != len(cases[lo:lo + 300]):
            raise RuntimeError("model trace evaluation: %d values for %d cases" % (len(vals), len(cases[lo:lo + 300])))
        res += vals
    return res


def run_impl(ctx, cases):
    res = []
    for lo in range(0, len(cases), 200):
        rc, out, err = ctx.impl_python(IMPL, input=json.dumps({"cases": cases[lo:lo + 200]}), timeout=1500)
        if rc != 0:
            raise RuntimeError("implementation harness failed rc=%d: %s" % (rc, err[-1500:]))
        res += json.loads(out)["results"]
    return res


# ---- random op sequences -------------------------------------------------------------------------------------------
def gen_case(rng, typ, maxlen):
    ops = []
    opts = {}
    if typ == "PhaseField":
        # every energy split, the ones reading derived quantities cached on the material (He, Zhang, Stress, ...) included
        opts["split"] = rng.choice(["Bourdin", "Amor", "Miehe", "He", "He", "He", "He", "Stress", "Zhang", "AnisotStrain", "AnisotStress"])
    arrays = typ == "Elastic" and rng.random() < 0.3   # heterogeneous (one value per element) Young modulus
    has_arr = [False]
    if typ in ("Elastic", "Thermal", "Beam", "WeakForms") and rng.random() < 0.25:
        opts["vscale"] = 2.0 ** -40   # scaled twin: prescribed values and loads ~1e-12 (the problems are linear in them)
    if typ in ("Elastic", "Thermal") and not arrays and rng.random() < 0.35:
        opts["scale"] = rng.choice([1.0e-3, 1.0e-6, 5.0e-9, 2.0e-9])   # millimetre .. nanometre sized meshes (SI units)
    nsims = 2 if (typ in ("Elastic", "Thermal", "PhaseField") and rng.random() < 0.3 and not arrays) else 1
    nmesh = 1
    if nsims == 2 and rng.random() < 0.4:
        ops.append({"op": "newmesh", "nx": 3, "ny": 2, "lx": 1.25, "ly": 1.0})
        nmesh = 2
    st = []
    for i in range(nsims):
        m = 0 if i == 0 else rng.randrange(nmesh)
        ops.append({"op": "newsim", "m": m})
        st.append({"mesh": m, "dir": False, "solved": False, "iters": [], "dyn": False, "lag": False})
    dofv = {"Thermal": [1.0], "WeakForms": [1.0], "Beam": [0.0, 0.0, 0.0]}.get(typ, [0.0, 0.0])
    pv = lambda lo, hi: round(rng.uniform(lo, hi), 3)

    def ensure_dir(i):
        if not st[i]["dir"]:
            ops.append({"op": "dirichlet", "i": i, "where": "clamp" if typ == "Beam" else "left", "values": dofv})
            if typ == "PhaseField":
                ops.append({"op": "dirichlet", "i": i, "where": "right", "values": [pv(0.0005, 0.003), 0.0]})
            if typ == "HyperElastic":
                ops.append({"op": "neumann", "i": i, "where": "right", "values": [pv(1, 5), 0.0]})
            if typ == "InElastic":
                ops.append({"op": "dirichlet", "i": i, "where": "right", "values": [pv(0.0005, 0.004), 0.0]})
            st[i]["dir"] = True
        if typ == "Beam" and not st[i]["lag"]:
            # the two beams only share a duplicated node: without the connection the system is singular
            ops.append({"op": "lagrange", "i": i, "where": "corner"})
            st[i]["lag"] = True

    n = rng.randint(4, maxlen)
    # half of the sequences END with a mutation (after at least one evaluation), so that the final comparison is the
    # FIRST evaluation after a change: caches that are stale for one evaluation only are seen there
    tail = rng.random() < (0.7 if typ == "PhaseField" else 0.5)
    while len(ops) < n or tail:
        i = rng.randrange(nsims)
        s = st[i]
        if len(ops) >= n:
            tail = False
            if not s["solved"]:
                ensure_dir(i)
                ops.append({"op": "solve", "i": i})
                s["solved"] = True
        choices = ["param", "param", "move", "move", "getk", "solve", "solve", "bc", "rho", "georead", "saveiter", "setiter", "bcinit"]
        if typ == "Elastic":
            choices += ["ray", "algo"] + ([] if arrays else ["setmesh"])
        if typ in ("Thermal", "HyperElastic"):
            choices += ["algo", "setmesh"]
        if typ == "WeakForms":
            choices += ["algo"]
        if typ == "InElastic":
            choices += ["setmesh"]
        if typ == "PhaseField":
            choices += ["setmesh", "getkd"]
        if typ == "Beam":
            choices += ["lagrange", "lagrange", "bc"]
        c = rng.choice(choices)
        if len(ops) >= n:
            c = rng.choice(["param", "param", "move"])
        if c == "param":
            if typ == "Elastic" and arrays and rng.random() < 0.7:
                same = has_arr[0] and rng.random() < 0.5
                ops.append({"op": "param_arr", "name": "E", "base": pv(5e4, 3e5), "amp": pv(0.05, 0.4), "freq": pv(0.5, 3.0), "same": same})
                has_arr[0] = True
            elif typ == "WeakForms":
                ops.append({"op": "param", "name": "thickness", "value": pv(0.5, 3.0)})
            elif typ == "InElastic":
                if rng.random() < 0.7:
                    nm = rng.choice(["E", "v", "v"])
                    ops.append({"op": "param", "sub": True, "name": nm, "value": pv(1e5, 3e5) if nm == "E" else pv(0.1, 0.4)})
                else:
                    ops.append({"op": "param", "name": "thickness", "value": pv(0.5, 3.0)})
            elif typ == "Elastic":
                if arrays:
                    has_arr[0] = False
                nm = rng.choice(["E", "v", "thickness"])
                ops.append({"op": "param", "name": nm, "value": pv(1e3, 3e5) if nm == "E" else pv(0.1, 0.4) if nm == "v" else pv(0.5, 2.5)})
            elif typ == "Thermal":
                ops.append({"op": "param", "name": rng.choice(["k", "c", "thickness"]), "value": pv(0.5, 9.0)})
            elif typ == "PhaseField":
                if rng.random() < 0.65:
                    # v changes the SHAPE of C (E only scales it: scale-invariant derived quantities cannot see E)
                    nm = rng.choice(["E", "v", "v", "thickness"])
                    ops.append({"op": "param", "sub": True, "name": nm, "value": pv(1e3, 3e5) if nm == "E" else pv(0.1, 0.4) if nm == "v" else pv(0.5, 2.5)})
                else:
                    nm = rng.choice(["Gc", "l0"])
                    ops.append({"op": "param", "sub": False, "name": nm, "value": pv(0.5, 5.0) if nm == "Gc" else pv(0.2, 0.9)})
            elif typ == "HyperElastic":
                if rng.random() < 0.5:
                    ops.append({"op": "param", "name": "K", "value": pv(1e4, 9e4)})
                else:
                    ops.append({"op": "param", "name": "thickness", "value": pv(0.5, 2.5)})
            else:
                ops.append({"op": "param", "sub": True, "name": "E", "value": pv(1e10, 3e11)})
        elif c == "move":
            kinds = ["Translate", "Rotate", "Symmetry", "CoordSet", "CoordSet", "Perturb", "Perturb"]
            if typ == "Beam":
                kinds = ["Translate", "CoordSet"]  # keep the structure in its plane and orientation
            kind = rng.choice(kinds)
            m = rng.randrange(nmesh)
            args = {"Perturb": [rng.random(), rng.choice([-1, 1]) * 10 ** rng.uniform(-7, -5), rng.choice([-1, 1]) * 10 ** rng.uniform(-7, -5)],
                    "Translate": [pv(-1, 1), pv(-1, 1), 0.0], "Rotate": [float(rng.choice([30, 45, 60, 120]))], "Symmetry": [],
                    "CoordSet": [pv(0.6, 1.9), pv(0.6, 1.9)] if typ != "Beam" else [pv(0.8, 1.4)] * 2}[kind]
            ops.append({"op": "move", "m": m, "kind": kind, "args": args})
        elif c == "getk":
            if typ not in ("HyperElastic", "InElastic"):
                ops.append({"op": "getk", "i": i})
        elif c == "getkd":
            ops.append({"op": "getk", "i": i, "dmg": True})
        elif c == "solve":
            ensure_dir(i)
            ops.append({"op": "solve", "i": i})
            s["solved"] = True
        elif c == "bc":
            if rng.random() < 0.5:
                ensure_dir(i)
            else:
                if typ in ("Thermal", "WeakForms"):
                    vals = [pv(1, 9)]
                elif typ == "Beam":
                    vals = [pv(100, 2000)]
                else:
                    vals = [pv(-5, 5), pv(-5, 5)]
                ops.append({"op": "neumann", "i": i, "where": "tip" if typ == "Beam" else "top", "values": vals})
        elif c == "bcinit":
            ops.append({"op": "bcinit", "i": i})
            s["dir"] = False
            s["lag"] = False
        elif c == "lagrange":
            if not s["lag"]:
                ops.append({"op": "lagrange", "i": i, "where": "corner"})
                s["lag"] = True
            else:
                ops.append({"op": "dirichlet", "i": i, "where": "tip", "values": [0.0]})
        elif c == "rho":
            ops.append({"op": "rho", "i": i, "value": pv(0.5, 900.0)})
        elif c == "ray":
            ops.append({"op": "ray", "i": i, "coefM": pv(0, 1), "coefK": pv(0, 1e-3)})
        elif c == "algo":
            if typ in ("Thermal", "WeakForms"):
                a = rng.choice([{"kind": "elliptic"}, {"kind": "parabolic", "dt": pv(0.01, 0.5)}])
            else:
                a = rng.choice([{"kind": "elliptic"}, {"kind": "hyperbolic", "dt": pv(0.01, 0.1), "scheme": rng.choice(["newmark", "midpoint", "hht"])}])
            ops.append(dict(a, op="algo", i=i))
        elif c == "georead":
            ops.append({"op": "georead", "m": rng.randrange(nmesh)})
        elif c == "saveiter":
            if typ == "PhaseField" and not s["solved"]:
                continue
            ops.append({"op": "saveiter", "i": i})
            s["iters"].append(s["mesh"])
        elif c == "setiter":
            if s["iters"]:
                j = rng.randrange(len(s["iters"]))
                ops.append({"op": "setiter", "i": i, "j": j})
                if s["iters"][j] != s["mesh"]:
                    s["mesh"] = s["iters"][j]
                    ops.append({"op": "bcinit", "i": i})
                    s["dir"] = False
        elif c == "setmesh":
            if nmesh < 4:
                nm_ = {"op": "newmesh", "nx": rng.choice([2, 2, 3]), "ny": rng.choice([2, 2, 3]), "lx": pv(0.8, 1.6), "ly": pv(0.8, 1.6)}
                if rng.random() < 0.3:
                    nm_["elem"] = "TRI3"
                ops.append(nm_)
                nmesh += 1
                ops.append({"op": "setmesh", "i": i, "m": nmesh - 1})
                s["mesh"] = nmesh - 1
                s["dir"] = False
                s["lag"] = False
                s["solved"] = False
    # near-equal inputs must invalidate like large ones: some scalar parameter changes are 1e-6 relative / 1 ulp of the
    # CURRENT value (resolved by the harness); the flags are compared exactly, the values to 1e-9
    for o in ops:
        if o["op"] == "param" and not arrays and rng.random() < 0.25:
            o["near"] = rng.choice(["rel1e-6", "ulp"])
    # the final comparison solves: make the sequence itself well-posed so that the model sees every op
    for i in range(nsims):
        ensure_dir(i)
    return {"type": typ, "ops": ops, "opts": opts}


SPLITS = ["Bourdin", "Amor", "Miehe", "He", "Stress", "Zhang", "AnisotStrain", "AnisotStress"]


def systematic_cases():
    """first evaluation after ONE change, for every public parameter of every model (and every energy split):
    [constructor; boundary conditions; Solve (non-zero state); <parameter> = new value] then compare with fresh.
    Catches quantities cached on the observed models that are stale for one evaluation only."""
    out = []
    newval = {"E": 81234.5, "v": 0.12, "Gc": 4.4, "l0": 0.31, "k": 7.7, "c": 0.9, "K": 2.3e4, "thickness": 1.75}
    for sp in SPLITS:
        for sub, names in ((True, ["E", "v"] + (["thickness"] if sp == "Amor" else [])), (False, ["Gc", "l0"])):
            for nm in names:
                out.append({"type": "PhaseField", "opts": {"split": sp},
                            "ops": PF_PRE + [SOLVE, {"op": "param", "sub": sub, "name": nm, "value": newval[nm]}]})
    for nm, sub, val in (("E", True, 1.1e5), ("v", True, 0.12), ("thickness", False, 2.0)):
        out.append({"type": "InElastic", "opts": {}, "ops": IE_PRE + [{"op": "param", "sub": sub, "name": nm, "value": val}]})
    out.append({"type": "WeakForms", "opts": {}, "ops": [NS, {"op": "dirichlet", "i": 0, "where": "left", "values": [1.0]},
                {"op": "algo", "i": 0, "kind": "parabolic", "dt": 0.1}, SOLVE, {"op": "param", "name": "thickness", "value": 2.0}]})
    out.append({"type": "Elastic", "opts": {}, "ops": [NS, DIR2, LOAD, {"op": "param_arr", "name": "E", "base": 1.0e5, "amp": 0.3, "freq": 1.0}, SOLVE,
                {"op": "param_arr", "name": "E", "base": 2.0e5, "amp": 0.2, "freq": 2.0, "same": True}]})
    out.append({"type": "Elastic", "opts": {}, "ops": [NS, DIR2, LOAD, {"op": "param_arr", "name": "E", "base": 1.0e5, "amp": 0.3, "freq": 1.0}, SOLVE,
                {"op": "param_arr", "name": "E", "base": 2.0e5, "amp": 0.2, "freq": 2.0, "same": False}]})
    for nm in (SAME_NN, NEWMESH):
        out.append({"type": "InElastic", "opts": {}, "ops": IE_PRE + [nm, {"op": "setmesh", "i": 0, "m": 1}] + IE_RELOAD})
    EL_DYN = [NS, DIR2, LOAD, {"op": "rho", "i": 0, "value": 7.5}, {"op": "algo", "i": 0, "kind": "hyperbolic", "dt": 0.05}, SOLVE]
    for typ, names, pre in (("Elastic", ["E", "v", "thickness"], EL_DYN), ("Elastic", ["E", "v", "thickness"], [NS, DIR2, LOAD, SOLVE]),
                            ("HyperElastic", ["K", "thickness"], HYP_PRE + [SOLVE]),
                            ("Thermal", ["k", "c", "thickness"], [NS, {"op": "dirichlet", "i": 0, "where": "left", "values": [1.0]},
                                                     {"op": "algo", "i": 0, "kind": "parabolic", "dt": 0.1}, SOLVE]),
                            ("HyperElastic", ["K"], [NS, DIR2, LOAD, SOLVE]),
                            ("Beam", ["E"], BEAM_PRE + [SOLVE])):
        for nm in names:
            v = newval[nm] if typ != "Beam" else 1.1e11
            out.append({"type": typ, "opts": {}, "ops": pre + [{"op": "param", "sub": typ == "Beam", "name": nm, "value": v}]})
    for typ, pre in (("Elastic", EL_DYN), ("HyperElastic", HYP_PRE + [SOLVE]), ("Thermal", TH_PRE + [SOLVE])):
        out.append({"type": typ, "opts": {}, "ops": pre + [{"op": "rho", "i": 0, "value": 41.5}]})
    for typ, nm, sub, pre in (("Elastic", "E", False, [NS, DIR2, LOAD, SOLVE]), ("Elastic", "v", False, [NS, DIR2, LOAD, SOLVE]),
                              ("Thermal", "k", False, TH_PRE + [SOLVE]), ("PhaseField", "v", True, PF_PRE + [SOLVE]),
                              ("HyperElastic", "K", False, HYP_PRE + [SOLVE]), ("InElastic", "v", True, IE_PRE)):
        for near in ("rel1e-6", "ulp"):
            out.append({"type": typ, "opts": {"split": "He"} if typ == "PhaseField" else {},
                        "ops": pre + [{"op": "param", "sub": sub, "name": nm, "value": 0.0, "near": near}]})
    # ALIASING BETWEEN OBJECTS: the same ndarray handed to two simulations; every kind of modification applied to A
    # (assignment of a new array, `*=`, `+=`), then a re-assembly of both; A and B are compared with their fresh counterparts
    for modA in ({"op": "rho_arr", "i": 0, "base": 3.3}, {"op": "rho_aug", "i": 0, "factor": 3.0, "other": 1},
                 {"op": "rho_aug", "i": 0, "factor": 0.25, "plus": True, "other": 1}, {"op": "rho", "i": 0, "value": 5.5}):
        for last in (mv("Translate"), mv("CoordSet")):
            out.append({"type": "Elastic", "opts": {}, "ops": SHARED_RHO + [modA, last]})
    # two invalidating ops IN A ROW (no assembly in between), both orders, every pair of mutator kinds
    def muts(typ):
        m = {"param": {"op": "param", "sub": typ in ("Beam", "PhaseField"), "name": {"Thermal": "k", "HyperElastic": "K"}.get(typ, "E"),
                       "value": {"Thermal": 6.5, "HyperElastic": 3.3e4, "Beam": 1.3e11}.get(typ, 91234.0)},
             "rho": {"op": "rho", "i": 0, "value": 333.0},
             "coord": mv("CoordSet") if typ != "Beam" else {"op": "move", "m": 0, "kind": "CoordSet", "args": [1.2, 1.2]},
             "rotate": mv("Rotate") if typ != "Beam" else mv("Translate")}
        if typ == "Elastic":
            m["ray"] = {"op": "ray", "i": 0, "coefM": 0.3, "coefK": 2e-4}
        if typ != "Beam":
            m["setmesh"] = [SAME_NN, {"op": "setmesh", "i": 0, "m": 1}]
        return m
    pres = {"Elastic": [NS, DIR2, LOAD, {"op": "algo", "i": 0, "kind": "hyperbolic", "dt": 0.05}, SOLVE],
            "Thermal": TH_PRE + [SOLVE], "HyperElastic": HYP_PRE + [SOLVE], "PhaseField": PF_PRE + [SOLVE], "Beam": BEAM_PRE + [SOLVE]}
    for typ, pre in pres.items():
        m = muts(typ)
        for a in m:
            for b in m:
                if a == b or a == "setmesh":
                    continue   # (after a mesh replacement the other mutators act on a blank simulation: covered by b == setmesh)
                ops = list(pre)
                for x in (m[a], m[b]):
                    ops += x if isinstance(x, list) else [x]
                out.append({"type": typ, "opts": {"split": "Amor"} if typ == "PhaseField" else {}, "ops": ops})
    # mesh replaced by a DIFFERENT mesh with the SAME node count (scaled / other element type), state observed
    # before the next solve and after a time step
    for typ, pre in pres.items():
        if typ == "Beam":
            continue
        for nm in (SAME_NN, SAME_NN_TRI):
            out.append({"type": typ, "opts": {}, "ops": list(pre) + [SOLVE, nm, {"op": "setmesh", "i": 0, "m": 1}]})
    return out


# ---- coverage audit lists (translator/C14_mutators.py enumerates the public mutators from the source) ------------------------
# mutators that are ops / observations of the Coq model (by name: overrides in subclasses included)
MODELLED_MUTATORS = {
    "mesh (setter)", "Save_Iter", "Set_Iter", "Solve", "Get_K_C_M_F", "Need_Update", "Construct_local_matrix_system", "Result",
    "Solver_Set_Elliptic_Algorithm", "Solver_Set_Parabolic_Algorithm", "Solver_Set_Hyperbolic_Algorithm",   # OAlgo
    "add_neumann", "add_lineLoad", "add_surfLoad", "add_pressureLoad", "add_volumeLoad",                       # ONeumann
}
# reviewed: cannot influence the assembled system or the results (reason recorded in the evidence)
NEUTRAL_MUTATORS = {
    ("_Simu", "folder (setter)"): "where iterations are written (C15), not what is computed",
    ("_Simu", "solver (setter)"): "choice of the linear solver: read at every solve, nothing derived from it is cached",
    ("PhaseField", "Results_Set_Bc_Summary"): "text summary", ("PhaseField", "Results_Set_Iteration_Summary"): "text summary",
    ("PhaseField", "Get_lb_ub"): "bounds recomputed from the current damage at every call",
    ("PhaseField", "Results_dict_Energy"): "observation", ("InElastic", "Results_dict_Energy"): "observation",
    ("HyperElastic", "Solver_Set_Stress"): "read at every Newton assembly, which always reassembles (entry t_newton_need)",
    ("InElastic", "dt (setter)"): "read at every Newton assembly, which always reassembles",
    ("_HyperElastic", "Set_active_stress_vec"): "read at every Newton assembly; no simulation-level cache may depend on the model (entry 34)",
    ("HyperElasticState", "matrixType (setter)"): "transient evaluation object, not a model or a simulation",
    ("_Elastic", "Get_sqrt_C_S"): "fills the derived cache covered by entry t_model_cache_refresh",
}
# the CHECKED part of that review (translator/C14_mutators.neutral_argument, recomputed on every run): where the
# attributes the mutator writes are read.  unread = by no method reachable from the assembly / solve / result entry points
# (incl. what Solvers.py reads through `simu.<name>`); read-outside-assembly = never by Construct_local_matrix_system /
# Assembly, whose output is what the needUpdate flag caches; read-in-newton-assembly = by the assembly of a class whose
# __init__ selects the Newton algorithm (reassembled at every iteration: table entry t_newton_need);
# model-state-read-by-its-methods = a model / state object, reviewed only.  "read-in-cached-assembly" is never acceptable.
NEUTRAL_EXPECTED = {
    ("_Simu", "folder (setter)"): "read-outside-assembly", ("_Simu", "solver (setter)"): "read-outside-assembly",
    ("PhaseField", "Results_Set_Bc_Summary"): "unread", ("PhaseField", "Results_Set_Iteration_Summary"): "unread",
    ("PhaseField", "Get_lb_ub"): "read-outside-assembly", ("PhaseField", "Results_dict_Energy"): "read-outside-assembly",
    ("InElastic", "Results_dict_Energy"): "read-in-newton-assembly", ("HyperElastic", "Solver_Set_Stress"): "read-in-newton-assembly",
    ("InElastic", "dt (setter)"): "read-in-newton-assembly",
    ("_HyperElastic", "Set_active_stress_vec"): "model-state-read-by-its-methods",
    ("HyperElasticState", "matrixType (setter)"): "model-state-read-by-its-methods", ("_Elastic", "Get_sqrt_C_S"): "unread",
}
NEUTRAL_CLASSES = {"DIC"}   # not a _Simu: outside the harness (stated in docs)

# directed probes with their own key: behaviour that is specific to one simulation class (not expressible in the
# class-independent table); a value mismatch with the fresh simulation is reported under the probe's key
PROBES = [
    {"key": "unlisted-mutator:_Elastic.C (setter)", "type": "Elastic", "opts": {},
     "what": "direct assignment `mat.C = newC` through the public setter of the elastic law (stores the matrix, no notification)",
     "ops": [NS, DIR2, LOAD, SOLVE, {"op": "assignC", "factor": 0.5}]},
    {"key": "mesh-replacement-not-converted:Beam", "type": "Beam", "opts": {},
     "what": "simu.mesh = <mesh produced by the mesher> on a Beam simulation (the SEG groups are converted to beam elements only in __init__)",
     "ops": BEAM_PRE + [SOLVE, {"op": "newmesh", "lx": 1.5}, {"op": "setmesh", "i": 0, "m": 1}] + BEAM_PRE[1:]},
]


def warm_ops(typ, i):
    """ops that make simulation i hold every cache it can hold (assembled matrices, csr maps, mass blocks, geometric
    factors): boundary conditions, a time-dependent scheme for the Newton simulations, an assembly / a solve"""
    if typ == "Beam":
        bc = [{"op": "dirichlet", "i": i, "where": "clamp", "values": [0.0, 0.0, 0.0]}, {"op": "lagrange", "i": i, "where": "corner"},
              {"op": "neumann", "i": i, "where": "tip", "values": [1000.0]}]
    elif typ in ("Thermal", "WeakForms"):
        bc = [{"op": "dirichlet", "i": i, "where": "left", "values": [1.0]}]
    else:
        bc = [{"op": "dirichlet", "i": i, "where": "left", "values": [0.0, 0.0]}]
    if typ in ("PhaseField", "InElastic"):
        bc.append({"op": "dirichlet", "i": i, "where": "right", "values": [0.002, 0.0]})
    if typ == "HyperElastic":
        bc = [{"op": "rho", "i": i, "value": 300.0}, {"op": "algo", "i": i, "kind": "hyperbolic", "dt": 0.05}] + bc + \
             [{"op": "neumann", "i": i, "where": "right", "values": [3.0, 0.0]}]
    out = bc + [{"op": "solve", "i": i}]
    if KIND[typ] == "KLin":
        out.append({"op": "getk", "i": i})
    if typ == "PhaseField":
        out += [{"op": "getk", "i": i}, {"op": "getk", "i": i, "dmg": True}]
    return out


def op_variants(typ, op):
    """the op itself and, for an isometric mesh move (which leaves several cached quantities numerically valid), the
    non-isometric coordinate assignment on the same mesh"""
    out = [op]
    if op["op"] == "move" and op["kind"] in ("Translate", "Rotate", "Symmetry"):
        out.append({"op": "move", "m": op["m"], "kind": "CoordSet", "args": [1.2, 1.2] if typ == "Beam" else [1.7, 0.8]})
    return out


def failing_candidates(c, k):
    """candidate op sequences for a flag mismatch at op k of case c: the op (or its stronger variant) is made the LAST op,
    (A) right after every simulation was warmed up, (B) for objects a simulation is not using at that moment (a mesh of
    its history): after saving before each mesh replacement, restoring each saved iteration and warming up again"""
    typ, opts, ops = c["type"], c.get("opts", {}), c["ops"]
    opk = ops[k]
    nsim = sum(1 for o in ops[:k] if o["op"] == "newsim")
    cands = []
    warm_all = [x for i in range(nsim) for x in warm_ops(typ, i)]
    for v in op_variants(typ, opk):
        cands.append({"type": typ, "opts": opts, "ops": ops[:k] + [v]})
        cands.append({"type": typ, "opts": opts, "ops": ops[:k] + warm_all + [v]})
    # (B) history revisit; saved-iteration indices of the original ops are remapped after the inserted saves
    hist_ops, nsave, remap = [], {}, {}
    for o in ops[:k]:
        if o["op"] == "setmesh" and typ != "WeakForms":
            hist_ops += warm_ops(typ, o["i"]) + [{"op": "saveiter", "i": o["i"]}]
            nsave[o["i"]] = nsave.get(o["i"], 0) + 1
            hist_ops.append(o)
        elif o["op"] == "saveiter":
            remap.setdefault(o["i"], []).append(nsave.get(o["i"], 0))
            nsave[o["i"]] = nsave.get(o["i"], 0) + 1
            hist_ops.append(o)
        elif o["op"] == "setiter":
            m_ = remap.get(o["i"], [])
            hist_ops.append(dict(o, j=m_[o["j"]] if o["j"] < len(m_) else o["j"]))
        else:
            hist_ops.append(o)
    for i, n_ in nsave.items():
        for j in range(n_):
            for v in op_variants(typ, opk):
                cands.append({"type": typ, "opts": opts,
                              "ops": hist_ops + [{"op": "setiter", "i": i, "j": j}, {"op": "bcinit", "i": i}] + warm_ops(typ, i) + [v]})
    return cands[:16]


def shrink(ctx, case, still_bad):
    """greedy one-op-deletion shrink; still_bad(list of results) is evaluated on the harness output"""
    cur = case
    for _ in range(12):
        cands = []
        ndir = sum(1 for o in cur["ops"] if o["op"] == "dirichlet" and not o.get("damage"))
        for k, op in enumerate(cur["ops"]):
            if op["op"] == "newsim" or (op["op"] == "dirichlet" and ndir <= 1):
                continue
            cands.append({"type": cur["type"], "opts": cur.get("opts", {}), "ops": cur["ops"][:k] + cur["ops"][k + 1:]})
        if not cands:
            break
        try:
            res = run_impl(ctx, cands)
        except RuntimeError:
            break
        nxt = None
        for c, r in zip(cands, res):
            if still_bad(r):
                nxt = c
                break
        if nxt is None:
            break
        cur = nxt
    return cur


def is_bad(r):
    return bool(r["error"] and not r["error"].get("fresh_also_raises")) or any(s["mismatch"] and not s.get("harness_error") for s in r["sims"])


# ---- static build with a fallback when another property's file is broken ----------------------------------------------
def ensure_models(ctx):
    ok, log = ctx.ensure_static()
    if ok:
        return True, ""
    msgs = []
    for f in MODEL_FILES:
        src = os.path.join(common.MODEL, f)
        vo = src + "o"
        if os.path.exists(vo) and os.path.getmtime(vo) >= os.path.getmtime(src):
            continue
        rc, out, err = common.sh(["coqc"] + common.COQ_Q + [src], cwd=common.MODEL, timeout=600)
        if rc != 0:
            return False, (out + err)[-2000:]
        msgs.append("compiled %s directly" % f)
    ctx.log("shared static build is broken by another file; C14 model files are up to date (%s)" % "; ".join(msgs))
    ctx.cov["static_build_note"] = "shared coq/lib or coq/model did not build as a whole (unrelated file); the C14 model files were compiled on their own: " + log[-300:]
    return True, ""


# ---- main -------------------------------------------------------------------------------------------------------------------
def run(ctx):
    ctx.assumptions += [
        "the Gallina state machine coq/model/C14_Cache.v is a faithful abstraction of the cache / observer code (versions instead of values; checked per op by the correspondence harness: update flags after every op and final values vs a freshly built simulation)",
        "translator/notify.py classifies each mutator body correctly (ast; fail-closed on unknown shapes); its table is cross-checked against the running implementation by the flag predictions",
        "element mass matrices are invariant under Translate / Rotate / Symmetry (isometries), so only the coordinate setter invalidates the cached HyperElastic mass block (spot-checked numerically by the harness)",
        "direct assignment to groupElem.coord (a _GroupElem is not observable) is outside the modelled public alphabet; Mesh.coord is the public coordinate setter",
        "python object model, numpy/scipy, pickling, gmsh are trusted",
    ]
    ok, log = ensure_models(ctx)
    if not ok:
        ctx.obligation("static-lib", False, log[-1500:])
        ctx.violation("static-lib-build", "coq/model/C14_Cache*.v do not build", {"log": log[-3000:]}, found_input=False)
        return
    # 1. translate ------------------------------------------------------------------------------------------
    try:
        F, L = notify.derive(ctx.repo)
    except notify.TranslateError as ex:
        ctx.obligation("translate:notify", False, str(ex))
        ctx.violation("translate", "translator/notify.py rejected the source: %s" % ex, {"construct": str(ex)}, found_input=False)
        return
    open(os.path.join(ctx.build, "Gen_Notify.v"), "w").write(notify.emit_coq(F, L))
    ctx.obligation("translate:notify", True, "%d table entries derived from source" % len(notify.ORDER))
    ctx.cov["table"] = {k: v for k, v in F.items()}
    ctx.cov["table_source_lines"] = L
    r0 = ctx.coq(["Gen_Notify.v"], timeout=120, count=False)
    if not r0.ok:
        ctx.obligation("coqc:Gen_Notify.v", False, r0.log[-1500:])
        ctx.violation("gen-table", "generated table does not compile", {"log": r0.log[-3000:]}, found_input=False)
        return
    # 2. which entries fail, and does the model witness refute them ------------------------------------------------
    rc, out = ctx.coq_eval("C14_diag.v", HDR + "Eval vm_compute in (failing gen_table).\n"
                           "Eval vm_compute in (map (fun id => refutes gen_table (witness id)) (failing gen_table)).\n"
                           "Eval vm_compute in (table_ok gen_table).\n")
    if rc != 0:
        ctx.obligation("diag", False, out[-1500:])
        ctx.violation("diag", "model diagnostics do not evaluate", {"log": out[-3000:]}, found_input=False)
        return
    failing, refuted, tok = parse_evals(out)
    ctx.obligation("diag:failing-consistent-with-table_ok", (failing == []) == bool(tok), "failing=%s table_ok=%s" % (failing, tok))
    ctx.cov["failing_table_entries"] = [FLAG_NAMES[i] for i in failing]
    ctx.log("table entries failing the invariant's requirements:", [FLAG_NAMES[i] for i in failing])
    # 3. theorems ------------------------------------------------------------------------------------------------------
    ctx.copy_props("C14/C14_fresh.v")
    r1 = ctx.coq(["C14_fresh.v"], timeout=600)
    ctx.sample({"theorem": "C14_fresh_equiv : forall ops i s, nth_error (sims (run gen_table ops w0)) i = Some s -> observe gen_table (par w) (meshes w) s = observe gen_table (par w) (pristine (meshes w)) (fresh_sim s)",
                "proof": "table_ok gen_table = true by vm_compute on the regenerated table; invariant by induction over the op list (coq/model/C14_Cache_proofs.v)"})
    if r1.ok != (failing == []):
        ctx.obligation("theorem-file-vs-diag", False, "C14_fresh.v ok=%s but failing=%s" % (r1.ok, failing))
    # 4. replays for failing entries --------------------------------------------------------------------------------------
    if failing:
        alts = [(i, c) for i in failing for c in witness_cases(i)]
        try:
            allres = run_impl(ctx, [c for _, c in alts])
        except RuntimeError as ex:
            allres = None
            ctx.obligation("witness-replay", False, str(ex))
        for n, i in enumerate(failing):
            name, key = FLAG_NAMES[i], KEYS[i]
            src = L.get(name, "?")
            model_w = bool(refuted[n])
            mine = [(c, allres[k]) for k, (j, c) in enumerate(alts) if j == i] if allres is not None else []
            hits, seenk = [], set()
            for c, r in mine:
                kk = c.get("key", key)
                if is_bad(r) and kk not in seenk:
                    seenk.add(kk)
                    hits.append((c, r, kk))
            for c, r, key in hits:
                detail = r["error"]["what"] if r["error"] else "; ".join(s["detail"] for s in r["sims"] if s["mismatch"])
                ctx.violation(key, "%s (table entry %s, %s): after %s%s the simulation does not behave like a freshly built one: %s" % (
                    key, name, src, [o["op"] + (":" + o["kind"] if "kind" in o else "") for o in c["ops"]],
                    " (%s)" % c["opts"] if c.get("opts") else "", detail[:300]),
                    {"replay_py": replay_snippet(c), "table_entry": name, "source": src, "model_witness_refutes": model_w,
                     "ops": c["ops"], "opts": c.get("opts", {}), "impl": {"error": r["error"], "sims": r["sims"]}}, found_input=True)
            if not hits:
                c = witness_cases(i)[0]
                ctx.violation(key, "%s (table entry %s, %s): the invariant proof no longer goes through for this mutator; the model witness %s, but on the real code the %d witness sequence(s) tried give values identical to a fresh simulation" % (
                    key, name, src, "is stale" if model_w else "is not stale either", len(mine)),
                    {"replay_py": replay_snippet(c), "table_entry": name, "source": src, "obligation": "C14_table_ok", "ops": c["ops"]}, found_input=False)
    elif not r1.ok:
        ctx.violation("proof-broken:C14_fresh.v", "C14_fresh.v no longer checks although every table entry is as required", {"log": r1.log[-3000:]}, found_input=False)
    # 4a. coverage audit: every PUBLIC mutator of the observed classes is modelled, self-invalidating or reviewed-neutral ------
    try:
        aud = mutators.audit(ctx.repo)
    except (OSError, SyntaxError) as ex:
        aud = None
        ctx.obligation("audit:public-mutators", False, str(ex))
        ctx.violation("audit", "the public-mutator audit cannot parse the source: %s" % ex, {}, found_input=False)
    if aud is not None:
        counts = {"self-invalidating": 0, "modelled": 0, "neutral": 0, "unlisted": 0}
        unlisted = []
        for cname, d in aud.items():
            cshort = cname.split(" ")[0]
            for mname, info in d.items():
                if "Need_Update" in info["reaches"] or "_Notify" in info["reaches"]:
                    counts["self-invalidating"] += 1
                elif mname in MODELLED_MUTATORS or (cshort, mname) in MODELLED_MUTATORS:
                    counts["modelled"] += 1
                elif (cshort, mname) in NEUTRAL_MUTATORS or cshort in NEUTRAL_CLASSES:
                    counts["neutral"] += 1
                else:
                    counts["unlisted"] += 1
                    unlisted.append((cname, mname, info))
        # the checked argument behind each reviewed-neutral mutator
        args_ = {}
        for (c_, m_), exp in NEUTRAL_EXPECTED.items():
            got, attrs = mutators.neutral_argument(ctx.repo, c_, m_)
            args_["%s.%s" % (c_, m_)] = {"argument": got, "attributes": sorted(attrs)}
            present = any(c_ == cn.split(" ")[0] and m_ in d_ for cn, d_ in aud.items())
            if present and got != exp and not (exp != "unread" and got == "unread"):
                ctx.violation("neutral-mutator-argument-broken:%s.%s" % (c_, m_),
                              "the reviewed-neutral mutator %s.%s writes %s, which is now %s (the recorded argument was: %s)" % (c_, m_, sorted(attrs), got, exp),
                              {"mutator": m_, "class": c_, "obligation": "audit:neutral-arguments"}, found_input=False)
        ctx.cov["neutral_mutator_arguments"] = args_
        ctx.obligation("audit:neutral-arguments", not any(v_["key"].startswith("neutral-mutator-argument-broken") for v_ in ctx.violations), "%d arguments recomputed" % len(args_))
        ctx.cov["public_mutators"] = counts
        ctx.cov["public_mutators_neutral_reasons"] = {"%s.%s" % k_: v_ for k_, v_ in NEUTRAL_MUTATORS.items()}
        ctx.obligation("audit:public-mutators", not unlisted, "%s" % counts if not unlisted else "; ".join("%s.%s" % (c_, m_) for c_, m_, _ in unlisted[:6]))
        probe_keys = {p_["key"] for p_ in PROBES}
        for cname, mname, info in unlisted:
            key = "unlisted-mutator:%s.%s" % (cname.split(" ")[0], mname)
            if key in probe_keys:
                continue   # reported by its probe, with a failing input
            ctx.violation(key, "public mutator %s.%s (line %d) assigns state of the object but neither reaches Need_Update/_Notify nor is modelled by the notification table nor is in the reviewed list of neutral mutators (reaches: %s)" % (
                cname, mname, info["line"], info["reaches"]), {"mutator": mname, "class": cname, "obligation": "audit:public-mutators"}, found_input=False)
    # 4b. class-specific probes ------------------------------------------------------------------------------------------------
    try:
        pres = run_impl(ctx, [{"type": p_["type"], "opts": p_["opts"], "ops": p_["ops"]} for p_ in PROBES])
    except RuntimeError as ex:
        pres = []
        ctx.obligation("probes", False, str(ex)[-500:])
    for p_, r in zip(PROBES, pres):
        bad = is_bad(r)
        ctx.obligation("probe:" + p_["key"], not bad, "" if not bad else (r["error"]["what"] if r["error"] else "; ".join(s_["detail"] for s_ in r["sims"] if s_["mismatch"]))[:300])
        ctx.note_case("probe:" + p_["key"])
        if bad:
            detail = r["error"]["what"] if r["error"] else "; ".join(s_["detail"] for s_ in r["sims"] if s_["mismatch"])
            ctx.violation(p_["key"], "%s: does not behave like a freshly built simulation: %s" % (p_["what"], detail[:300]),
                          {"replay_py": replay_snippet({"type": p_["type"], "opts": p_["opts"], "ops": p_["ops"]}), "ops": p_["ops"]}, found_input=True)
    # 5. correspondence -------------------------------------------------------------------------------------------------------
    ncases = 150 if ctx.tier == "quick" else 1500
    weights = [("Elastic", 28), ("Thermal", 16), ("PhaseField", 18), ("HyperElastic", 10), ("Beam", 14), ("WeakForms", 7), ("InElastic", 7)]
    types = [t for t, w in weights for _ in range(w)]
    cases = [gen_case(ctx.rng, ctx.rng.choice(types), 12) for _ in range(ncases)]
    syst = systematic_cases()
    cases += syst
    ctx.cov["corr_systematic_cases"] = len(syst)
    try:
        impl = run_impl(ctx, cases)
        pred = model_traces(ctx, cases, "C14_cases")
    except RuntimeError as ex:
        ctx.obligation("corr:run", False, str(ex)[-1500:])
        ctx.violation("corr:harness", "correspondence harness failed: %s" % str(ex)[-300:], {"log": str(ex)[-3000:]}, found_input=False)
        return
    stats = {"explained_by_failing_entries": 0, "benign_value_coincidence": 0, "agree_fresh": 0, "flag_steps": 0, "errors": 0, "invalid_sequences": 0}
    dist = {}
    flag_bad, unexplained, harness_err = [], [], []
    for c, r, p in zip(cases, impl, pred):
        dist[c["type"]] = dist.get(c["type"], 0) + 1
        for ok_, ov_ in c.get("opts", {}).items():
            dist["%s=%s" % (ok_, ov_)] = dist.get("%s=%s" % (ok_, ov_), 0) + 1
        kinds = sorted(set(o["op"] for o in c["ops"]))
        # (b) flags after every op
        for k, fl in enumerate(r["flags"]):
            if c["type"] == "InElastic" and c["ops"][k]["op"] != "solve":
                continue   # the elastic law nested in a Behavior is not observed by the simulation (it reassembles at every Newton iteration)
            stats["flag_steps"] += 1
            if fl != [list(x) for x in p[k][0]]:
                flag_bad.append((c, k, fl, p[k][0]))
                break
        # (a) values
        if r["error"]:
            stats["errors"] += 1
            k = r["error"]["at"]
            stale_before = any(p[j][1] for j in range(max(0, k - 1), min(len(p), k + 1)))
            if r["error"].get("fresh_also_raises"):
                stats["invalid_sequences"] += 1   # the op raises on a freshly built simulation too
            elif stale_before and failing:
                stats["explained_by_failing_entries"] += 1
            else:
                unexplained.append((c, r, "raised at op %d: %s" % (k, r["error"]["what"])))
            ctx.note_case("%s:%s:error" % (c["type"], ",".join(kinds)))
            continue
        final_stale = set(p[-1][1]) if p else set()
        for i, s in enumerate(r["sims"]):
            if s.get("harness_error"):
                harness_err.append((c, s))
            elif s["mismatch"] and i not in final_stale:
                unexplained.append((c, r, "simulation %d: %s" % (i, s["detail"])))
            elif s["mismatch"]:
                stats["explained_by_failing_entries"] += 1
            elif i in final_stale:
                stats["benign_value_coincidence"] += 1
            else:
                stats["agree_fresh"] += 1
        ctx.note_case("%s:%s" % (c["type"], ",".join(kinds)))
    ctx.cov["corr_sequences"] = ncases
    ctx.cov["rule"] = ("op sequences (4..12 ops after the constructors, plus inserted boundary conditions) drawn from ctx.rng over the public mutators "
                       "valid for the simulation type (parameter sets with fresh values, Translate/Rotate/Symmetry/coord=, simu.mesh=, rho, Rayleigh, "
                       "Bc_Init/add_dirichlet/add_neumann/add_connection, time-scheme switches, Get_K_C_M_F, Solve, Save_Iter/Set_Iter), 1-2 simulations "
                       "sharing one model and possibly one mesh; a case counts as distinct non-trivial by (simulation type, set of op kinds used); "
                       "every case contains at least one mutator")
    ctx.cov["corr_type_distribution"] = dist
    ctx.cov["corr_op_length_max"] = max(len(c["ops"]) for c in cases)
    ctx.cov["corr_stats"] = stats
    ctx.cov["corr_tolerance"] = "1e-9 relative (both sides run the same float code on bitwise-equal inputs)"
    ctx.sample({"sequence": cases[0]["type"] + ": " + " ; ".join(coq_op(cases[0]["type"], o) for o in cases[0]["ops"]),
                "impl_flags": impl[0]["flags"], "model_flags": [list(map(list, x[0])) for x in pred[0]]})
    ctx.obligation("corr:flags-vs-model", not flag_bad, "%d flag vectors compared" % stats["flag_steps"] if not flag_bad else
                   "%s op %d: impl %s model %s" % (flag_bad[0][0]["type"], flag_bad[0][1], flag_bad[0][2], flag_bad[0][3]))
    ctx.obligation("corr:values-vs-fresh", not unexplained, "%d simulations identical to fresh, %d stale as predicted by failing entries, %d predicted stale but values coincide" % (
        stats["agree_fresh"], stats["explained_by_failing_entries"], stats["benign_value_coincidence"]) if not unexplained else unexplained[0][2])
    ctx.obligation("corr:harness-errors", not harness_err, harness_err[0][1]["detail"] if harness_err else "")
    seen = set()
    picked, pre_seen = [], set()
    for c, r, what in unexplained:
        lastk = tuple([o["op"] for o in c["ops"] if o["op"] not in ("newsim", "getk", "solve", "georead", "dirichlet", "neumann")][-2:])
        if (c["type"], lastk) in pre_seen:
            continue
        pre_seen.add((c["type"], lastk))
        picked.append((c, r, what))
    for c, r, what in picked[:8]:
        small = shrink(ctx, c, is_bad)
        last = [o["op"] + (":" + o["kind"] if "kind" in o else "") for o in small["ops"] if o["op"] not in ("newsim", "getk", "solve", "georead")][-2:]
        key = "stale-unexplained:%s:%s" % (c["type"], "+".join(last))
        if key in seen:
            continue
        seen.add(key)
        ctx.violation(key, "%s simulation differs from a freshly built one after %s, although the model (with the table derived from source) predicts a fresh state: %s" % (
            c["type"], [o["op"] for o in small["ops"]], what[:300]),
            {"replay_py": replay_snippet(small), "ops": small["ops"], "opts": small.get("opts", {}), "original_ops": c["ops"]}, found_input=True)
    for c, k, fl, pf in flag_bad[:3]:
        pre = {"type": c["type"], "opts": c.get("opts", {}), "ops": c["ops"][:k + 1]}
        key = "flag-prediction:%s:%s" % (c["type"], c["ops"][k]["op"])
        if key in seen:
            continue
        seen.add(key)
        # search: turn the broken flag prediction into a concrete failing op sequence (see failing_candidates)
        cands = failing_candidates(c, k)
        hit = None
        try:
            for cand, rr in zip(cands, run_impl(ctx, cands)):
                if is_bad(rr):
                    hit = (cand, rr)
                    break
        except RuntimeError:
            pass
        if hit is not None:
            small = shrink(ctx, hit[0], is_bad)
            opk = c["ops"][k]
            skey = "stale-after:%s:%s" % (c["type"], opk["op"] + (":" + opk["kind"] if "kind" in opk else ""))
            ctx.violation(skey, "the update flags of the %s simulation after `%s` differ from the model's prediction (%s vs %s) and the simulation then differs from a freshly built one after %s" % (
                c["type"], opk["op"], fl, [list(x) for x in pf], [o["op"] for o in small["ops"]]),
                {"replay_py": replay_snippet(small), "ops": small["ops"], "opts": small.get("opts", {})}, found_input=True)
            continue
        exp = None
        try:
            exp = [[list(y) for y in x[0]] for x in model_traces(ctx, [pre], "C14_flagcase")[0]]
        except RuntimeError:
            pass
        impl_more = all((not a) or b for fa, fb in zip(fl, [list(x) for x in pf]) for a, b in zip(fb, fa)) if KIND[c["type"]] != "KPF" else \
            all(a or (not b) for fa, fb in zip(fl, [list(x) for x in pf]) for a, b in zip(fb, fa))
        expl = ("the implementation only invalidates MORE than the model requires (over-invalidation costs an assembly, it cannot make a value stale)"
                if impl_more else "%d candidate sequences ending with this op (after warming up every cache, with the stronger variant of the op, and after re-visiting every saved configuration) all gave values identical to a fresh simulation" % len(cands))
        ctx.violation(key, "update flags of the %s simulation after op %d (%s) are %s, the model driven by the table derived from source predicts %s; %s" % (
            c["type"], k, c["ops"][k]["op"], fl, [list(x) for x in pf], expl),
            {"replay_py": replay_snippet(pre, expflags=exp, flagsmatter=True), "ops": pre["ops"]}, found_input=False)
    for c, s in harness_err[:2]:
        ctx.violation("corr:harness-exception:%s" % c["type"], "building the fresh reference failed: %s" % s["detail"], {"ops": c["ops"], "tb": s.get("tb", "")}, found_input=False)
