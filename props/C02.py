"""C02 — K symmetric PSD with exactly the physical kernel; M SPD with the right total.

1. regenerate Gen_Elems (shape tables), Gen_Gauss (running code's rules + factory), Gen_LinalgR
   (closed-form Det/Inv), Gen_Patches (two-element meshes from the translated reference elements)
2. compile the theorem files (algebra over R for all coordinates; rank decisions by vm_compute)
3. read the computed lists of element types whose patch kernel is larger than the rigid modes /
   whose mass rule is rank deficient -> one violation each, replayed on the real code
4. correspondence on the real pipeline: exact-rational element pipeline vs Get_F/invF/dN_e_pg/wJ,
   B layout, simu.Get_K_C_M_F() spectra and totals on patches, gmsh meshes, beams.
"""
import json
import os
import re
from fractions import Fraction as F

from translator import elems as T_elems, gauss as T_gauss, pyexpr, C02_patches as T_patch, C02_beamaxis as T_axis
from translator.pyexpr import TranslateError
from vlib import common

REF_MEASURE = {"SEG": F(2), "TRI": F(1, 2), "QUAD": F(4), "TETRA": F(1, 6), "HEXA": F(8), "PRISM": F(1)}
NRIGID = {("elastic", 2): 3, ("elastic", 3): 6, ("thermal", 1): 1, ("thermal", 2): 1, ("thermal", 3): 1}
PAR_E = {"E": 1.0, "v": 0.3, "planeStress": True, "thickness": 0.7, "rho": 1.3}
PAR_T = {"k": 2.0, "c": 3.0, "thickness": 0.7, "rho": 1.3}
SCALES = [1e-9, 1e-6, 1e3]      # nano, micro, kilo: every checked quantity is homogeneous in the length unit

REPLAY = r'''
import json, sys
from corr.C02_impl import run_case
case = json.loads(%(case)r)
check, expect = %(check)r, %(expect)r
r = run_case(case)
if "error" in r:
    print("case raises:", r["error"]); sys.exit(1)
bad = False
if check == "runs":
    print("the case runs without raising"); sys.exit(0)
K, M = r["K"], r["M"]
if check == "kernel":
    print("stiffness: %%d dofs, %%d eigenvalues below 1e-9*max (expected %%d rigid modes); first eigenvalues/max: %%s"
          %% (K["n"], K["n_below"], expect, [x / K["eig_max"] for x in K["first"][:10]]))
    bad = K["n_below"] != expect
elif check == "sym_psd":
    print("symmetry defect/|K| = %%.3e, min eigenvalue/max = %%.3e" %% (K["sym_defect"] / K["absmax"], K["eig_min"] / K["eig_max"]))
    bad = K["sym_defect"] > 1e-12 * K["absmax"] or K["eig_min"] < -1e-10 * K["eig_max"]
elif check == "mass_pd":
    print("mass/capacity matrix: smallest eigenvalue / largest = %%.3e (positive definite needs > 1e-10)" %% (M["eig_min"] / M["eig_max"]))
    bad = M["eig_min"] <= 1e-10 * M["eig_max"]
elif check == "mass_total":
    print("t'Mt per direction", r["M_dir"], "expected", expect)
    bad = any(abs(x - expect) > 1e-9 * abs(expect) for x in r["M_dir"])
elif check == "simu_mass":
    print("simu.mass =", r["mass_prop"], "independent sum_e coef_e*measure_e*thickness =", expect)
    bad = abs(r["mass_prop"] - expect) > 1e-9 * abs(expect)
elif check == "beam_moment":
    print("x'Mt =", r["M_moment"], "expected sum_e rho_e A int_e x dx =", expect, " element lengths", r["L_e"])
    bad = abs(r["M_moment"] - expect) > 1e-9 * abs(expect)
elif check == "beam_rigid":
    print("|K r|/(|K||r|) for each rigid translation and rotation:", r["rigid_residual"], " local frame |P'P - I| =", r["frame_orthonormality_defect"])
    bad = max(r["rigid_residual"]) > 1e-9
elif check == "beam_frame":
    print("local frame |P'P - I| =", r["frame_orthonormality_defect"])
    bad = r["frame_orthonormality_defect"] > 1e-12
elif check == "energy":
    print("u'Ku for a linear field", r["lin_energy"], "expected thickness*measure*density =", expect)
    bad = abs(r["lin_energy"] - expect) > 1e-9 * abs(expect)
sys.exit(1 if bad else 0)
'''


REPLAY_AXIS = r'''
import sys, numpy as np
from EasyFEA import Mesher, Models
from EasyFEA.Geoms import Domain, Point, Line
section = Mesher().Mesh_2D(Domain(Point(-0.1, -0.2), Point(0.1, 0.2)))
beam = Models.Beam.Isotropic(3, Line(Point(0, 0, 0), Point(*%(x)r)), section, 210.0, 0.3, yAxis=tuple(%(v)r))
d = float(np.dot(beam.xAxis, beam.yAxis))
P = np.asarray(beam._Calc_P())
print("xAxis", beam.xAxis, "stored yAxis", beam.yAxis, "dot =", d, " |P'P - I| =", np.abs(P.T @ P - np.eye(3)).max())
sys.exit(1 if abs(d) > 1e-12 else 0)
'''


def replay(case, check, expect):
    if expect is not None and not isinstance(expect, (int, str)):
        expect = float(expect)
    c = {k: v for k, v in case.items() if k not in ("label",)}
    return {"replay_py": REPLAY % dict(case=json.dumps(c), check=check, expect=expect), "check": check, "expected": expect}


# ----------------------------------------------------------------------------------------------
def frac_inv(M):
    n = len(M)
    A = [list(r) + [F(int(i == j)) for j in range(n)] for i, r in enumerate(M)]
    for c in range(n):
        p = next(r for r in range(c, n) if A[r][c] != 0)
        A[c], A[p] = A[p], A[c]
        piv = A[c][c]
        A[c] = [x / piv for x in A[c]]
        for r in range(n):
            if r != c and A[r][c] != 0:
                f = A[r][c]
                A[r] = [x - f * y for x, y in zip(A[r], A[c])]
    return [r[n:] for r in A]


def frac_det(M):
    n = len(M)
    if n == 1:
        return M[0][0]
    if n == 2:
        return M[0][0] * M[1][1] - M[0][1] * M[1][0]
    return (M[0][0] * (M[1][1] * M[2][2] - M[1][2] * M[2][1]) - M[0][1] * (M[1][0] * M[2][2] - M[1][2] * M[2][0])
            + M[0][2] * (M[1][0] * M[2][1] - M[1][1] * M[2][0]))


def exact_pipeline(rec, rule, Xe):
    """F, invF, dN_e_pg, wJ of one element in exact rationals: the composition of Get_F_e_pg /
    Inv / Get_dN_e_pg / Get_weightedJacobian_e_pg on the translated tables and dumped rule."""
    dim, nPe = rec["dim"], rec["nPe"]
    dNt = rec["tables"]["_dN"]
    out = {"F": [], "invF": [], "dN": [], "wJ": []}
    for p, w in zip(rule["pts"], rule["w"]):
        pt = [T_gauss.fr(x) for x in p]
        dn = [[pyexpr.ev(dNt[i][d], pt) for i in range(nPe)] for d in range(dim)]
        Fm = [[sum(dn[d][i] * Xe[i][n] for i in range(nPe)) for n in range(dim)] for d in range(dim)]
        iF = frac_inv(Fm)
        g = [[sum(iF[k][d] * dn[d][i] for d in range(dim)) for i in range(nPe)] for k in range(dim)]
        out["F"].append(Fm); out["invF"].append(iF); out["dN"].append(g)
        out["wJ"].append(T_gauss.fr(w) * abs(frac_det(Fm)))
    return out


def maxrel(exact, impl):
    import itertools

    def flat(x):
        if isinstance(x, (list, tuple)):
            for y in x:
                yield from flat(y)
        else:
            yield x
    a = [float(v) for v in flat(exact)]
    b = [float(v) for v in flat(impl)]
    if len(a) != len(b):
        return float("inf")
    sc = max([abs(v) for v in a] + [1e-300])
    return max(abs(x - y) for x, y in zip(a, b)) / sc


def parse_list(out, tag):
    m = re.search(r'\("%s",\s*\[(.*?)\]\s*\)' % tag, out, re.S)
    if not m:
        return None
    return re.findall(r'"([A-Z0-9]+)"', m.group(1))

def _avg(spec, w, e):
    """element average of a coefficient field on an affine element: sum_p v_ep w_p / sum_p w_p"""
    m, v = spec["mode"], spec["values"]
    if m == "scalar":
        return float(v)
    if m == "elem":
        return float(v[e])
    row = v if m == "gauss" else v[e]
    return sum(float(x) * wp for x, wp in zip(row, w)) / sum(w)


def grid_cases(ctx, factory):
    """non-uniform structured meshes with coefficient FIELDS (per element / per Gauss point / full),
    on meshes where Ne equals the number of Gauss points of the rule used and where it does not;
    2-D meshes embedded in 3-D (dim 2, inDim 3) with thickness != 1."""
    rng = ctx.rng
    import math

    def cuts(n, L):
        c = sorted(rng.uniform(0.15, 0.85) for _ in range(n - 1))
        c = [0.0] + [L * (0.1 + 0.8 * x) for x in c] + [L]
        return [round(x, 4) for x in c]

    def field(mode, Ne, nPg):
        f = lambda: round(rng.uniform(0.5, 6.0), 3)
        if mode == "scalar":
            return {"mode": mode, "values": f()}
        if mode == "elem":
            return {"mode": mode, "values": [f() for _ in range(Ne)]}
        if mode == "gauss":
            return {"mode": mode, "values": [f() for _ in range(nPg)]}
        return {"mode": mode, "values": [[f() for _ in range(nPg)] for _ in range(Ne)]}

    def rot():
        a, b = rng.uniform(0.3, 1.2), rng.uniform(0.3, 1.2)
        Rx = [[1, 0, 0], [0, math.cos(a), -math.sin(a)], [0, math.sin(a), math.cos(a)]]
        Rz = [[math.cos(b), -math.sin(b), 0], [math.sin(b), math.cos(b), 0], [0, 0, 1]]
        R = [[sum(Rx[i][k] * Rz[k][j] for k in range(3)) for j in range(3)] for i in range(3)]
        return {"R": R, "t": [rng.uniform(-1, 1) for _ in range(3)]}

    shapes = [("QUAD4", (2, 2, 0)), ("QUAD4", (3, 2, 0)), ("TRI6", (3, 1, 0)), ("TRI3", (2, 1, 0)), ("HEXA8", (2, 2, 2)), ("HEXA8", (3, 2, 1)),
              ("SEG2", (2, 0, 0)), ("SEG3", (3, 0, 0)), ("SEG3", (2, 0, 0)), ("SEG2", (5, 0, 0))]
    out = []
    for et, (nx, ny, nz) in shapes:
        mult = 2 if et in ("TRI3", "TRI6") else 1
        Ne = nx * max(ny, 1) * max(nz, 1) * mult
        nm, nr = factory[(et, "mass")]["npg"], factory[(et, "rigi")]["npg"]
        dim = 1 if ny == 0 else 2 if nz == 0 else 3
        base = {"kind": "grid", "elem": et, "xs": cuts(nx, 2.0), "ys": cuts(ny, 1.0) if ny else None, "zs": cuts(nz, 1.5) if nz else None,
                "label": "grid", "field_seed": rng.randrange(10**6), "shape": "Ne=%d,nPg_mass=%d,nPg_rigi=%d" % (Ne, nm, nr)}
        # a 1-D array whose length equals both Ne and nPg is per-ELEMENT by the library's own rule
        mass_modes = ["elem", "full"] + (["gauss"] if Ne != nm else [])
        rigi_modes = ["elem", "full"] + (["gauss"] if Ne != nr else [])
        for mm in mass_modes:
            base = dict(base, scale=(None if mm != "elem" else SCALES[len(out) % 3]))
            km = rng.choice(rigi_modes)
            th = round(rng.uniform(0.4, 1.8), 3)
            if dim >= 2:
                out.append(dict(base, phys="elastic", params={"v": 0.3, "planeStress": True, "thickness": th},
                                coefs={"rho": field(mm, Ne, nm), "E": field(rng.choice(["elem", "scalar"]), Ne, nr)}, modes="rho:%s" % mm))
            which = rng.choice(["rho", "c"])
            out.append(dict(base, phys="thermal", params={"thickness": th},
                            coefs={"rho": field(mm if which == "rho" else "scalar", Ne, nm), "c": field(mm if which == "c" else "scalar", Ne, nm), "k": field(km, Ne, nr)},
                            modes="%s:%s,k:%s" % (which, mm, km)))
        if dim == 2:
            # the same 2-D mesh as a tilted plate in 3-D (dim 2, inDim 3): the thickness still applies
            th = round(rng.uniform(0.4, 0.8), 3)
            for sc in [None] + SCALES:
                out.append(dict(base, phys="thermal", params={"thickness": th}, embed=rot(), label="grid-embedded" + ("" if sc is None else ":x%g" % sc), scale=sc,
                                coefs={"rho": field("scalar", Ne, nm), "c": field("elem", Ne, nm), "k": field("elem", Ne, nr)}, modes="c:elem,k:elem"))
        if dim == 1:
            for sc in [None] + SCALES:
                out.append(dict(base, phys="thermal", params={"thickness": 1.0}, embed=rot(), label="grid-embedded" + ("" if sc is None else ":x%g" % sc), scale=sc,
                                coefs={"rho": field("elem", Ne, nm), "c": field("scalar", Ne, nm), "k": field("elem", Ne, nr)}, modes="rho:elem,k:elem"))
    return out


def check_grid(ctx, c, r, factory):
    from corr.C02_impl import grid_data
    n = c["elem"]
    tag = "%s:%s:%s:%s:%s" % (c["label"], c["phys"], n, c["shape"], c["modes"])
    ctx.note_case(tag)
    X, conn, meas = grid_data(c)
    meas = meas * float(c.get("scale") or 1.0) ** r["dim"]
    wm = [T_gauss.fr(x) for x in factory[(n, "mass")]["w"]]
    wr = [T_gauss.fr(x) for x in factory[(n, "rigi")]["w"]]
    wm, wr = [float(x) for x in wm], [float(x) for x in wr]
    dim = r["dim"]
    th = c["params"].get("thickness", 1.0) if dim == 2 else 1.0
    co = c["coefs"]
    Ne = len(meas)
    okg = r["connect_same"] and r["Ne"] == Ne and abs(r["measure"] - float(sum(meas))) <= 1e-9 * float(sum(meas)) and (c.get("embed") is None or r["inDim"] == 3)
    ctx.obligation("grid mesh built as intended (%s)" % tag, okg, "measure %r vs %r, inDim %s" % (r["measure"], float(sum(meas)), r["inDim"]))
    if not okg:
        ctx.violation("grid-mesh:" + tag, "%s: mesh measure %r (exact %r) / element order / embedding differ from the generated grid" % (tag, r["measure"], float(sum(meas))), {"case": c}, True)
        return
    # INDEPENDENT totals: sum_e (element average of the coefficient) * measure_e * thickness
    if c["phys"] == "elastic":
        expM = th * sum(_avg(co["rho"], wm, e) * meas[e] for e in range(Ne))
        expE = th * sum(r["density_e"][e] * meas[e] for e in range(Ne))
    else:
        expM = th * sum(_avg(co["rho"], wm, e) * _avg(co["c"], wm, e) * meas[e] for e in range(Ne))
        expE = th * sum(_avg(co["k"], wr, e) * r["density_e"][e] * meas[e] for e in range(Ne))
    K, M = r["K"], r["M"]
    expM, expE = float(expM), float(expE)
    okm = all(abs(x - expM) <= 1e-9 * abs(expM) for x in r["M_dir"])
    ctx.obligation("coefficient field: sum of %s entries = sum_e coef_e*measure_e*thickness (%s)" % ("mass" if c["phys"] == "elastic" else "capacity", tag), okm, "%s vs %r" % (r["M_dir"], expM))
    if not okm:
        ctx.violation("coef-mass:" + tag, "%s: with a coefficient field the %s entries sum to %s per direction, independent sum_e coef_e*measure_e*thickness = %r" % (
            tag, "mass" if c["phys"] == "elastic" else "capacity", r["M_dir"], expM), replay(c, "mass_total", expM), True)
    oke = abs(r["lin_energy"] - expE) <= 1e-9 * abs(expE)
    ctx.obligation("coefficient field: u'Ku of a linear field = thickness*sum_e density_e*measure_e (%s)" % tag, oke, "%r vs %r" % (r["lin_energy"], expE))
    if not oke:
        ctx.violation("coef-energy:" + tag, "%s: u'Ku of a linear field is %r, independent thickness*sum_e coef_e*density*measure_e = %r" % (tag, r["lin_energy"], expE), replay(c, "energy", expE), True)
    if r.get("mass_prop") is not None:
        okp = abs(r["mass_prop"] - expM) <= 1e-9 * abs(expM)
        ctx.obligation("coefficient field: simu.mass (%s)" % tag, okp, "%r vs %r" % (r["mass_prop"], expM))
        if not okp:
            ctx.violation("coef-simu-mass:" + tag, "%s: simu.mass = %r, independent total %r" % (tag, r["mass_prop"], expM), replay(c, "simu_mass", expM), True)
    oks = K["sym_defect"] <= 1e-12 * K["absmax"] and K["eig_min"] >= -1e-10 * K["eig_max"] and M["sym_defect"] <= 1e-12 * M["absmax"] and M["eig_min"] > 1e-10 * M["eig_max"]
    ctx.obligation("coefficient field: K symmetric PSD, M/C symmetric positive definite (%s)" % tag, oks)
    if not oks:
        ctx.violation("coef-sympsd:" + tag, "%s: K not symmetric PSD or M/C not SPD with a positive coefficient field (K min %.2e, M min %.2e)" % (tag, K["eig_min"] / K["eig_max"], M["eig_min"] / M["eig_max"]), replay(c, "sym_psd", None), True)


def run(ctx):
    ctx.assumptions += [
        "theorems are over exact reals; the element matrix is the composition F = dN_pg@coord, invF = closed-form Inv (regenerated from _linalg.py), dN_e_pg = invF@dN_pg, B in the Kelvin-Mandel layout transcribed from Get_B_e_pg (layout checked against the running code on every element type)",
        "rank statements: (i) for the types listed in coverage.exact_rational_certificates (tier dependent) a fully proved chain — exact rational sample matrix of the pipeline, certificate L*A = I (mod 2^31-1) over Z, integer descent + rational lift (EFLib.C02_RankQ) — shows that every RATIONAL vector annihilated by all sample rows and vanishing on n_rigid pinned dofs is zero (rows are scaled by det F at their point and shear rows lack the factor 1/sqrt2: non-zero row scalings; extension from Q^n to R^n not formalised); (ii) for the remaining types/patches ranks are computed modulo 2^31-1 (EFLib.ModRank): a lower bound of the rational rank, that step not formalised",
        "'no spurious mode' is PROVED only on the generated two-element patches (reference-shaped and one distorted copy per type) and sampled by dense eigen-decomposition on the other generated meshes; symmetric/PSD/rigid-modes-in-kernel/mass-total are for all coordinates and all meshes (abstract assembly)",
        "mass positive definiteness: theorem x'Mx=0 <-> all N-samples vanish (weights>0, det J != 0) + modular rank nPe of the N-sample matrix; the step 'full column rank mod p => injective over R' is not formalised",
        "beams: theorem only for the yAxis re-orthogonalisation (regenerated from the setter) and for congruence K = T'K_loc T (symmetric/PSD/kernel transport); that the rigid-body modes are the kernel is correspondence (axis-aligned and inclined beams, default and user non-perpendicular yAxis, both theories, K*rigid mode = 0 per mode, translational mass per direction); C10 owns the beam operator model",
    ]
    ok_static, log = ctx.ensure_static()
    if not ok_static:
        ctx.obligation("static-lib", False, log[-1500:])
        ctx.violation("static-lib-build", "coq/lib or coq/model does not build", {"log": log[-3000:]}, found_input=False)
        return
    # ---------------- 1. regenerate ----------------
    rc, out, err = ctx.impl_python(os.path.join(common.VERIF, "corr", "impl_gauss.py"), timeout=300)
    if rc != 0:
        ctx.obligation("dump-gauss", False, err[-1500:])
        ctx.violation("dump-gauss", "cannot obtain the quadrature tables from the implementation: " + (err.strip().splitlines() or ["?"])[-1][:200], {"stderr": err[-3000:]}, found_input=False)
        return
    dump = json.loads(out)
    try:
        E = T_elems.read_elems(ctx.repo)
        from translator import C12_linalg as T_lin
        _, tree = T_lin._src(ctx.repo)
        lin_txt = ("(* GENERATED from EasyFEA/FEM/_linalg.py (Det, Inv closed forms) by translator/C12_linalg.py *)\n"
                   "From Coq Require Import List Arith ZArith QArith Reals.\nImport ListNotations.\nLocal Open Scope nat_scope.\n" + T_lin.emit_det_inv(T_lin.translate_det_inv(tree)))
        axis = T_axis.read_yaxis(ctx.repo)
        p2 = [T_patch.two_element_patch(n, r) for n, r in E.items()]
        pD = [T_patch.distort(p, ctx.rng) for p in p2]
    except (TranslateError, SyntaxError, OSError, KeyError) as ex:
        ctx.obligation("translate", False, str(ex))
        ctx.violation("translate", "translator rejected the source: %s" % ex, {"construct": str(ex)}, found_input=False)
        return
    for e in dump["errors"]:
        ctx.violation("factory-error:" + re.sub(r"\W+", "_", e)[:60], e, {"error": e}, found_input=True)
    W = lambda n, s: open(os.path.join(ctx.build, n), "w").write(s)
    W("Gen_Gauss.v", T_gauss.emit_coq(dump)); W("Gen_Elems.v", T_elems.emit_coq(E)); W("Gen_LinalgR.v", lin_txt)
    W("Gen_Patches.v", T_patch.emit_coq({"patches2": p2, "patchesD": pD}))
    W("Gen_BeamAxis.v", T_axis.emit_coq(axis))
    ctx.copy_props("C01/C01_tables.v", "C02/C02_kernel.v", "C02/C02_mass.v", "C02/C02_rank.v", "C02/C02_beam.v")
    r0 = ctx.coq(["Gen_Gauss.v", "Gen_Elems.v", "Gen_LinalgR.v", "Gen_Patches.v", "Gen_BeamAxis.v"], timeout=300, count=False)
    if not r0.ok:
        ctx.obligation("generated files compile", False, r0.log[-1500:])
        ctx.violation("gen-compile", "generated Coq tables do not compile", {"log": r0.log[-3000:]}, found_input=False)
        return
    # ---------------- 2. theorems ----------------
    proofs_ok = True
    # two independent compilation chains run concurrently (2 cores): algebra (C01_tables -> C02_kernel,
    # C02_mass, C02_beam) in a thread, rank decisions (C02_rank -> C02_exact) in the main thread
    import threading
    resA = {}

    def chain_a():
        for f in ("C01_tables.v", "C02_kernel.v", "C02_mass.v", "C02_beam.v"):
            resA[f] = ctx.coq([f], timeout=300)
            if not resA[f].ok and f == "C01_tables.v":
                break
    th_a = threading.Thread(target=chain_a)
    th_a.start()
    r_rank = ctx.coq(["C02_rank.v"], timeout=900)

    def report_broken(f, r):
        ctx.violation("proof-broken:" + f, "%s no longer checks against the regenerated tables: %s" % (f, r.log.strip().splitlines()[-1][:200] if r.log.strip() else "?"),
                      {"obligation": f, "log": r.log[-3000:]}, found_input=False)
    if not r_rank.ok:
        proofs_ok = False
        report_broken("C02_rank.v", r_rank)
    # exact-rational certificates (no "rank mod p" step): which types run depends on the tier
    allt = list(E)
    big = ("HEXA20", "HEXA27", "PRISM18")
    if ctx.tier == "thorough":
        plan = {"exact_mass": allt, "exact_th2": allt, "exact_el2": [n for n in allt if E[n]["dim"] >= 2],
                "exact_elD": [n for n in allt if E[n]["dim"] >= 2 and n not in big], "exact_thD": [n for n in allt if n not in big]}
    else:
        small = [n for n in allt if E[n]["nPe"] <= 8 or n in ("TETRA10",)]
        plan = {"exact_mass": [n for n in allt if n not in big], "exact_th2": small, "exact_el2": [n for n in small if E[n]["dim"] >= 2],
                "exact_elD": [], "exact_thD": []}
    # exact integer certificates L*A_Z = d*I (statement over the REALS); heavier: small types only
    if ctx.tier == "thorough":
        plan.update({"exactR_mass": [n for n in allt if n != "HEXA27"], "exactR_th2": [n for n in allt if E[n]["nPe"] <= 10 or n in ("PRISM15", "PRISM18")],
                     "exactR_el2": [n for n in ("TRI3", "TRI6", "QUAD4", "QUAD8", "TETRA4", "PRISM6", "HEXA8") if n in E]})
    else:
        plan.update({"exactR_mass": [n for n in ("SEG2", "SEG3", "SEG4", "TRI3", "TRI6", "QUAD4", "TETRA4", "PRISM6") if n in E],
                     "exactR_th2": [n for n in ("SEG2", "SEG3", "TRI3", "TRI6", "QUAD4", "TETRA4", "PRISM6") if n in E],
                     "exactR_el2": [n for n in ("TRI3", "QUAD4", "TETRA4", "PRISM6") if n in E]})
    W("Gen_ExactPlan.v", "(* GENERATED: element types whose rank statements are re-proved with exact rational certificates in this tier *)\n"
      "From Coq Require Import List String.\nImport ListNotations. Open Scope string_scope.\n" +
      "".join("Definition %s : list string := [%s].\n" % (k, "; ".join('"%s"' % n for n in v)) for k, v in plan.items()))
    ctx.copy_props("C02/C02_exact.v", "C02/C02_exactR.v")
    ctx.cov["exact_rational_certificates"] = plan
    if os.path.exists(os.path.join(ctx.build, "C02_rank.vo")):
        ctx.coq(["Gen_ExactPlan.v"], timeout=60, count=False)
        rx = ctx.coq(["C02_exact.v"], timeout=2400)
        if not rx.ok:
            proofs_ok = False
            ctx.violation("proof-broken:C02_exact.v", "C02_exact.v: an exact-rational kernel certificate no longer checks for a planned element type that passes the modular test: " + ((rx.log.strip().splitlines() or ["?"])[-1][:200]),
                          {"obligation": "C02_exact.v", "log": rx.log[-3000:], "plan": plan}, found_input=False)
    th_a.join()
    for f in ("C01_tables.v", "C02_kernel.v", "C02_mass.v"):
        if f in resA and not resA[f].ok:
            proofs_ok = False
            report_broken(f, resA[f])
    if os.path.exists(os.path.join(ctx.build, "C02_exact.vo")):
        rxr = ctx.coq(["C02_exactR.v"], timeout=2400)
        if not rxr.ok:
            proofs_ok = False
            ctx.violation("proof-broken:C02_exactR.v", "C02_exactR.v: an exact integer kernel certificate (statement over R) no longer checks for a planned element type: " + ((rxr.log.strip().splitlines() or ["?"])[-1][:200]),
                          {"obligation": "C02_exactR.v", "log": rxr.log[-3000:], "plan": plan}, found_input=False)
    rb = resA.get("C02_beam.v")
    if rb is not None and not rb.ok:
        # exact search: a rational fibre direction / user axis for which the stored axis is not orthogonal
        found = False
        for xv, vv in (([F(3, 5), F(4, 5), F(0)], [F(0), F(1), F(0)]), ([F(2, 3), F(1, 3), F(2, 3)], [F(1, 3), F(2, 3), F(2, 3)]),
                       ([F(3, 5), F(4, 5), F(0)], [F(1, 3), F(2, 3), F(2, 3)])):
            for bi, br in enumerate(axis["branches"]):
                d = sum(pyexpr.ev(t, xv + vv + [F(1)] * axis["nscale"]) * x for t, x in zip(br, xv))
                if d != 0 and not found:
                    found = True
                    ctx.violation("beam-yaxis-orthogonality", "_Beam.yAxis setter (branch %d, line %d): for fibre direction %s and yAxis value %s the stored vertical axis is not perpendicular to the fibre (un-normalised dot product %s): the local frame of inclined beams is not orthonormal" % (
                        bi, axis["line"], [str(x) for x in xv], [str(x) for x in vv], d),
                        {"replay_py": REPLAY_AXIS % dict(x=[float(5 * x) for x in xv], v=[float(x) for x in vv])}, True)
        if not found:
            ctx.violation("proof-broken:C02_beam.v", "C02_beam.v no longer checks; the exact search found no failing axis", {"obligation": "C02_beam.v", "log": rb.log[-3000:]}, found_input=False)
    factory = {(f["elem"], f["matrix"]): f for f in dump["factory"]}
    # ---------------- 3. computed deficiency lists ----------------
    kernel_dim = {}
    body = ("From Coq Require Import List String.\nFrom EFLib Require Import ElemDefs QuadDefs C02_ModPipe.\nFrom EFP Require Import Gen_Elems Gen_Gauss Gen_Patches C02_rank.\nImport ListNotations.\nOpen Scope string_scope.\n"
            + "".join('Eval vm_compute in ("%s", %s).\n' % (t, t) for t in ("deficient_el2", "deficient_elD", "deficient_th2", "deficient_thD", "deficient_mass"))
            + "Eval vm_compute in single_elastic.\nEval vm_compute in mass_table.\n"
            + "".join('Eval vm_compute in ("ranks_%s_%s", map (fun e => match lookup (ename e) "rigi", find_patch %s (ename e) with Some r, Some pa => (ename e, patch_rank %s e r pa, patch_ndof %s e pa) | _, _ => (ename e, None, 0%%nat) end) (filter (applicable %s) all_elems)).\n'
                      % (k, l, l, k, k, k) for k in ("Elastic", "Thermal") for l in (("patches2", "patchesD") if ctx.tier == "thorough" else ("patches2",))))
    lists = {}
    if os.path.exists(os.path.join(ctx.build, "C02_rank.vo")):
        rc, outp = ctx.coq_eval("C02_print.v", body, timeout=600)
        txt = re.sub(r"\s+", " ", outp).replace("%nat", "")
        for t in ("deficient_el2", "deficient_elD", "deficient_th2", "deficient_thD", "deficient_mass"):
            lists[t] = parse_list(txt, t)
        for k in ("Elastic", "Thermal"):
            for l in ("patches2", "patchesD"):
                seg = txt.split('"ranks_%s_%s"' % (k, l))
                if len(seg) > 1:
                    for m in re.finditer(r'\("([A-Z0-9]+)", (Some (\d+)|None), (\d+)\)', seg[1].split('("ranks_')[0]):
                        if m.group(3) is not None:
                            kernel_dim[(k.lower(), l, m.group(1))] = int(m.group(4)) - int(m.group(3))
        single = {m.group(1): (int(m.group(2)), int(m.group(3)), int(m.group(4)), int(m.group(5)), int(m.group(6)))
                  for m in re.finditer(r'\("([A-Z0-9]+)", (\d+), Some (\d+), Some (\d+), (\d+), (\d+)\)', txt)}
        ctx.cov["single_element_elastic"] = {n: {"npg": v[0], "rank_mod_p": v[1], "rows": v[2], "ndof": v[3], "n_rigid": v[4], "n_spurious": v[3] - v[4] - v[1]} for n, v in single.items()}
        ctx.cov["computed_deficient_lists"] = lists
        if any(v is None for v in lists.values()):
            ctx.obligation("read computed lists", False, outp[-1500:])
            ctx.violation("coq-eval", "could not read the computed deficiency lists from Coq", {"log": outp[-3000:]}, found_input=False)
    pj = {("patches2", p["elem"]): p for p in p2}
    pj.update({("patchesD", p["elem"]): p for p in pD})
    for t, (phys, l, lab) in {"deficient_el2": ("elastic", "patches2", "ref2"), "deficient_elD": ("elastic", "patchesD", "dist2"),
                              "deficient_th2": ("thermal", "patches2", "ref2"), "deficient_thD": ("thermal", "patchesD", "dist2")}.items():
        names = lists.get(t) or []
        for n in E:
            if phys == "elastic" and E[n]["dim"] < 2:
                continue
            ctx.obligation("kernel = rigid modes on the two-element %s patch (%s, %s)" % (lab, phys, n), n not in names and proofs_ok and t in lists and lists[t] is not None)
        for n in names:
            case = dict(T_patch.to_json(pj[(l, n)]), kind="patch", phys=phys, params=PAR_E if phys == "elastic" else PAR_T)
            kd = kernel_dim.get((phys, l, n))
            nr = NRIGID[(phys, E[n]["dim"])]
            ctx.violation("spurious:%s:%s:%s" % (phys, lab, n),
                          "%s: with the rule selected for stiffness integrals (%d points) the assembled two-element %s patch has a kernel of dimension %s (mod-p rank bound) instead of the %d rigid modes — spurious zero-energy modes" % (
                              n, factory[(n, "rigi")]["npg"], "reference" if lab == "ref2" else "distorted", ">= %d" % kd if kd is not None else "?", nr),
                          replay(case, "kernel", nr), True)
    for n in E:
        ctx.obligation("mass rule has full N-sample rank (%s)" % n, lists.get("deficient_mass") is not None and n not in lists["deficient_mass"])
    for n in lists.get("deficient_mass") or []:
        case = dict(T_patch.to_json(pj[("patches2", n)]), kind="patch", phys="thermal" if E[n]["dim"] == 1 else "elastic", params=PAR_T if E[n]["dim"] == 1 else PAR_E)
        ctx.violation("mass-rank:%s" % n,
                      "%s: the rule selected for mass integrals has %d points for %d nodes (N-sample rank < nPe): the consistent mass/capacity matrix is singular" % (n, factory[(n, "mass")]["npg"], E[n]["nPe"]),
                      replay(case, "mass_pd", None), True)

    # ---------------- 4. correspondence ----------------
    cases = []
    for l, lab, ps in (("patches2", "ref2", p2), ("patchesD", "dist2", pD)):
        for p in ps:
            j = T_patch.to_json(p)
            cases.append(dict(j, kind="patch", phys="thermal", params=PAR_T, label=lab, plist=l))
            if p["dim"] >= 2:
                cases.append(dict(j, kind="patch", phys="elastic", params=PAR_E, label=lab, plist=l))
    for p in pD:
        cases.append(dict(T_patch.to_json(p), kind="layout", label="layout"))
    for p in pD:
        if p["dim"] >= 2:
            nrm = [1.0, 0.0, 0.0] if p["dim"] == 3 else [0.6, 0.8, 0.0]
            j = T_patch.to_json(p)
            sc = SCALES[len(cases) % 3]
            ops = [["signed_jacobian"], ["mirror", nrm], ["scale", sc], ["signed_jacobian"], ["measure"]]
            cases.append(dict(j, kind="patch", phys="elastic", params=PAR_E, label="dist2-mirror", plist=None, ops=ops))
            cases.append(dict(j, kind="patch", phys="thermal", params=PAR_T, label="dist2-mirror", plist=None, ops=ops))
    quick = ctx.tier != "thorough"
    gm = [("TRI3", 2), ("QUAD8", 2), ("TRI10", 2), ("TETRA4", 3), ("HEXA8", 3), ("PRISM6", 3), ("SEG3", 1)] if quick else \
        [(n, E[n]["dim"]) for n in E]
    for rep in range(1 if quick else 2):
        for et, dim in gm:
            big = E[et]["nPe"] > 10
            c = {"kind": "gmsh", "elem": et, "dim": dim, "L": 2.0, "H": 1.0, "D": 1.0, "layers": 1 if big else 2,
                 "size": (1.01 if big else 0.6) if dim == 3 else (0.7 if big else 0.45), "perm_seed": ctx.rng.randrange(10**6),
                 "field_seed": ctx.rng.randrange(10**6), "label": "gmsh"}
            A = [[1 + ctx.rng.uniform(-.2, .2) if i == j else ctx.rng.uniform(-.3, .3) for j in range(dim)] for i in range(dim)]
            c["A"], c["b"] = A, [ctx.rng.uniform(-1, 1) for _ in range(dim)]
            for phys in (["thermal"] if dim == 1 else ["elastic", "thermal"] if (rep == 0 and not quick) or et in ("TRI3", "TETRA4") else ["elastic"]):
                base = dict(c, phys=phys, params=PAR_E if phys == "elastic" else PAR_T)
                cases.append(base)
                if dim == 1:
                    continue
                # interleavings: mirrored copy (det J < 0) with point location / signed-Jacobian getter
                # calls BEFORE the first assembly; rotated copy
                import math
                def unit(d):
                    v = [ctx.rng.gauss(0, 1) for _ in range(d)] + [0.0] * (3 - d)
                    nv = math.sqrt(sum(x * x for x in v))
                    return [x / nv for x in v]
                # ... and scaled twins: the same mesh converted to another length unit through the coordinate setter
                s1, s2 = SCALES[len(cases) % 3], SCALES[(len(cases) + 1) % 3]
                cases.append(dict(base, label="gmsh-mirror", scale=s1, ops=[["mirror", unit(dim)], ["scale", s1], ["evaluate"], ["signed_jacobian"], ["measure"]]))
                cases.append(dict(base, label="gmsh-rot", scale=s2, ops=[["signed_jacobian"], ["scale", s2], ["rotate", ctx.rng.uniform(10, 170), [0.0, 0.0, 1.0] if dim == 2 else unit(3)], ["evaluate"]]))
    for et in ("SEG2", "SEG3", "SEG4", "SEG5"):
        for bd in (1, 2, 3):
            for timo in (False, True):
                cases.append({"kind": "beam", "elem": et, "beamDim": bd, "timo": timo, "L": 10.0, "n": 3, "b": 0.3, "h": 0.5,
                              "E": 210.0, "v": 0.3, "rho": 2.0, "label": "beam", "orient": "x-axis"})
    # inclined beams (generic directions), default and user-supplied non-perpendicular yAxis
    for et in (("SEG2", "SEG3") if quick else ("SEG2", "SEG3", "SEG4", "SEG5")):
        for bd in (2, 3):
            for timo in (False, True):
                for ya in ("default", "user"):
                    p1 = [ctx.rng.uniform(-1, 1), ctx.rng.uniform(-1, 1), ctx.rng.uniform(-1, 1) if bd == 3 else 0.0]
                    d = [ctx.rng.uniform(2, 5), ctx.rng.uniform(1, 4) * ctx.rng.choice([-1, 1]), (ctx.rng.uniform(1, 4) * ctx.rng.choice([-1, 1])) if bd == 3 else 0.0]
                    c = {"kind": "beam", "elem": et, "beamDim": bd, "timo": timo, "p1": p1, "p2": [a + b for a, b in zip(p1, d)], "n": 3,
                         "b": 0.3, "h": 0.5, "E": 210.0, "v": 0.3, "rho": 2.0, "label": "beam", "orient": "inclined-" + ya}
                    if (len(cases) % 2) == 0:
                        c["scale"] = SCALES[(len(cases) // 2) % 3]
                        c["orient"] += ":x%g" % c["scale"]
                    if ya == "user":
                        # deliberately NOT perpendicular to the fibre: the setter must re-orthogonalise it
                        c["yAxis"] = [ctx.rng.uniform(-1, 1), ctx.rng.uniform(0.5, 1.5), ctx.rng.uniform(-1, 1)] if bd == 3 else [-d[1] + 0.4 * d[0], d[0] + 0.4 * d[1], 0.0]
                    cases.append(c)
    cases += grid_cases(ctx, factory)
    for et, n, bd, timo in (("SEG2", 2, 2, False), ("SEG2", 2, 3, True), ("SEG2", 3, 1, False), ("SEG3", 4, 2, True), ("SEG3", 3, 3, False), ("SEG4", 6, 2, False)):
        nb = factory[(et, "beam")]["npg"]
        cases.append({"kind": "beam", "elem": et, "beamDim": bd, "timo": timo, "L": 9.0, "n": n, "b": 0.3, "h": 0.5, "E": 210.0, "v": 0.3, "rho": 2.0,
                      "rho_elem": [round(ctx.rng.uniform(0.5, 6.0), 3) for _ in range(n)], "label": "beam",
                      "orient": "x-axis:rho-per-element:Ne%s=nPg" % ("=" if n == nb else "!")})
    rc, out, err = ctx.impl_python(os.path.join(common.VERIF, "corr", "C02_impl.py"), input=json.dumps({"cases": cases}), timeout=1500)
    if rc != 0 or "@@JSON@@" not in out:
        ctx.obligation("impl-run", False, err[-1500:])
        ctx.violation("impl-run", "the implementation-side harness failed: " + (err.strip().splitlines() or ["?"])[-1][:200], {"stderr": err[-3000:]}, found_input=False)
        return
    results = json.loads(out.split("@@JSON@@")[1])["results"]
    import numpy as np
    dist = {}
    for c, r in zip(cases, results):
        n, lab = c["elem"], c["label"]
        dist[lab] = dist.get(lab, 0) + 1
        if "error" in r:
            ctx.note_case(None)
            if c["kind"] == "beam" and "symetry axis" in r["error"]:
                # absolute tolerance on a quantity of dimension length^4 in the library's input validation
                ctx.violation("beam-section-symmetry-abs-tol", "beam with a doubly symmetric %g x %g rectangular cross-section (length unit x%g) is rejected: %s — `assert np.abs(Iyz) <= 1e-9` in _Beam.section is an ABSOLUTE bound on a second moment (length^4); round-off of Iyz exceeds it for sections of size >~ 100 units (e.g. millimetres)" % (
                    c["b"] * float(c.get("scale") or 1), c["h"] * float(c.get("scale") or 1), float(c.get("scale") or 1), r["error"]), dict(replay(c, "runs", None), trace=r.get("trace")), True)
                continue
            ctx.violation("impl-error:%s:%s:%s" % (lab, c.get("phys", ""), n), "%s %s %s raises %s" % (lab, c.get("phys", ""), n, r["error"]), {"case": c, "trace": r.get("trace")}, True)
            continue
        if c["kind"] == "grid":
            check_grid(ctx, c, r, factory)
            continue
        if c["kind"] == "layout":
            rec = E[n]
            ctx.note_case("layout:" + n)
            Xe = [[F(int(a), int(b)) for a, b in c["coords"][g]] for g in c["conn"][0]]
            ex = exact_pipeline(rec, factory[(n, "rigi")], Xe)
            errs = {k: maxrel(ex[k], np.asarray(r[k])[0].tolist()) for k in ("F", "invF", "dN", "wJ")}
            okp = all(v <= 1e-10 for v in errs.values())
            ctx.obligation("exact-rational pipeline = Get_F/invF/dN_e_pg/wJ (%s)" % n, okp, json.dumps(errs))
            if not okp:
                ctx.violation("pipeline:%s" % n, "%s: F / invF / dN_e_pg / weighted Jacobian of the running code differ from the exact composition of the translated tables: %s" % (n, errs),
                              {"case": c, "rel_errors": errs}, found_input=True)
            if rec["dim"] >= 2:
                okl = r["B_layout_maxdiff"] <= 1e-14 * max(r["B_absmax"], 1e-300) and r["B_shape"][2:] == [3 if rec["dim"] == 2 else 6, rec["nPe"] * rec["dim"]]
                ctx.obligation("B_e_pg has the transcribed Kelvin-Mandel layout (%s)" % n, okl, "maxdiff %.2e" % r["B_layout_maxdiff"])
                if not okl:
                    ctx.violation("B-layout:%s" % n, "%s: Get_B_e_pg differs from the transcribed Kelvin-Mandel layout applied to Get_dN_e_pg (max diff %.3e)" % (n, r["B_layout_maxdiff"]),
                                  {"case": c, "maxdiff": r["B_layout_maxdiff"]}, True)
            continue
        K, M = r["K"], r["M"]
        if c["kind"] == "beam":
            ctx.note_case("beam:%s:%d:%s:%s" % (n, c["beamDim"], c["timo"], c["orient"]))
            nr = {1: 1, 2: 3, 3: 6}[c["beamDim"]]
            key = "%s:dim%d:%s:%s" % (n, c["beamDim"], "timoshenko" if c["timo"] else "euler-bernoulli", c["orient"])
            scb = float(c.get("scale") or 1.0)
            expM = c["rho"] * (c["b"] * scb) * (c["h"] * scb) * r["L"]
            if c.get("rho_elem") is not None:
                # INDEPENDENT totals of a per-element density: sum_e rho_e A L_e and the first moment
                rho_e = [c["rho_elem"][i % len(c["rho_elem"])] for i in range(r["Ne"])]
                expM = sum(re * c["b"] * c["h"] * scb * scb * le for re, le in zip(rho_e, r["L_e"]))
                expMo = sum(re * c["b"] * c["h"] * scb * scb * (x2 * x2 - x1 * x1) / 2 for re, (x1, x2) in zip(rho_e, r["x_ends_e"]))
                okmo = abs(r["M_moment"] - expMo) <= 1e-9 * abs(expMo)
                ctx.obligation("beam: first moment of the mass x'Mt = sum_e rho_e A int x dx (%s)" % key, okmo, "%r vs %r" % (r["M_moment"], expMo))
                if not okmo:
                    ctx.violation("beam-mass-moment:" + key, "beam with per-element density %s (%d elements, %d beam Gauss points): x'Mt = %r, expected sum_e rho_e*A*int_e x dx = %r — the density field is not applied element by element" % (
                        rho_e, r["Ne"], r["nPg_beam"], r["M_moment"], expMo), dict(replay(c, "beam_moment", expMo)), True)
            okr = max(r["rigid_residual"]) <= 1e-9
            ctx.obligation("beam: K * (each rigid translation / rotation) = 0 (%s)" % key, okr, "max |K r|/(|K||r|) = %.2e" % max(r["rigid_residual"]))
            if not okr:
                ctx.violation("beam-rigid:" + key, "beam stiffness: the rigid-body motions are not zero-energy modes, |K r|/(|K||r|) per mode = %s (local frame orthonormality defect %.2e)" % (
                    ["%.1e" % x for x in r["rigid_residual"]], r["frame_orthonormality_defect"]), dict(replay(c, "beam_rigid", None)), True)
            okf = r["frame_orthonormality_defect"] <= 1e-12
            ctx.obligation("beam: local frame P orthonormal (%s)" % key, okf, "%.2e" % r["frame_orthonormality_defect"])
            if not okf:
                ctx.violation("beam-frame:" + key, "beam local frame (_Calc_P) is not orthonormal: max |P'P - I| = %.2e" % r["frame_orthonormality_defect"], dict(replay(c, "beam_frame", None)), True)
            checks = [("sym_psd", K["sym_defect"] <= 1e-12 * K["absmax"] and K["eig_min"] >= -1e-10 * K["eig_max"], None, "beam-K-sympsd:" + key, "beam stiffness not symmetric PSD"),
                      ("kernel", K["n_below"] == nr, nr, "beam-kernel:" + key, "beam stiffness has %d zero eigenvalues, %d rigid modes expected" % (K["n_below"], nr)),
                      ("mass_total", all(abs(x - expM) <= 1e-9 * expM for x in r["M_dir"]), expM, "beam-mass:" + key, "beam translational mass %s, expected rho*A*L = %s" % (r["M_dir"], expM))]
            okM = M["sym_defect"] <= 1e-12 * M["absmax"] and M["eig_min"] >= -1e-10 * M["eig_max"]
            ctx.obligation("beam M symmetric PSD (%s)" % key, okM)
            if not okM:
                ctx.violation("beam-M-sympsd:" + key, "beam mass matrix not symmetric PSD (defect %.2e, min eig %.2e)" % (M["sym_defect"] / M["absmax"], M["eig_min"] / M["eig_max"]), {"case": c}, True)
            for chk, ok, exp, vkey, what in checks:
                ctx.obligation("%s (%s)" % (chk, vkey), ok)
                if not ok:
                    ctx.violation(vkey, what, dict(replay(c, chk, exp)), True)
            continue
        phys, dim = c["phys"], r["dim"]
        ctx.note_case("%s:%s:%s" % (lab, phys, n))
        nr = NRIGID[(phys, dim)]
        tag = "%s:%s:%s" % (phys, lab, n)
        oks = K["sym_defect"] <= 1e-12 * K["absmax"] and K["eig_min"] >= -1e-10 * K["eig_max"] and r["rigid_residual"] <= 1e-9
        ctx.obligation("K symmetric PSD, rigid modes in kernel (%s)" % tag, oks)
        if not oks:
            ctx.violation("K-sympsd:" + tag, "%s: K not symmetric PSD / rigid modes not in the kernel (sym %.2e, min eig %.2e, K*rigid %.2e)" % (tag, K["sym_defect"] / K["absmax"], K["eig_min"] / K["eig_max"], r["rigid_residual"]),
                          replay(c, "sym_psd", None), True)
        # kernel dimension: against the rigid count, and against the Coq computation on the same patch
        kd = kernel_dim.get((phys, c.get("plist"), n)) if c["kind"] == "patch" else None
        if kd is not None:
            okc = K["n_below"] == kd
            ctx.obligation("kernel dimension of the running code = ndof - rank(mod p) computed in Coq (%s)" % tag, okc, "impl %d coq %d" % (K["n_below"], kd))
            if not okc:
                ctx.violation("kernel-corr:" + tag, "%s: running code has %d zero eigenvalues, the Coq pipeline on the same patch predicts %d" % (tag, K["n_below"], kd), replay(c, "kernel", kd), kd < K["n_below"])
        okk = K["n_below"] == nr
        ctx.obligation("number of zero eigenvalues = rigid-mode count (%s)" % tag, okk, "%d vs %d" % (K["n_below"], nr))
        if not okk:
            ctx.violation("spurious:" + tag, "%s: K has %d eigenvalues below 1e-9*max, %d rigid modes expected" % (tag, K["n_below"], nr), replay(c, "kernel", nr), True)
        # totals
        th = c["params"]["thickness"] if dim == 2 else 1.0
        if lab == "ref2":
            meas = float(2 * REF_MEASURE[T_patch.family(n)])
        elif lab.startswith("gmsh"):
            meas = float(c.get("scale", 1.0)) ** dim * float(c["L"] * (c["H"] if dim >= 2 else 1.0) * (c["D"] if dim == 3 else 1.0) * abs(np.linalg.det(np.array(c["A"]))))
        else:
            # distorted/curved patch: theorem C02_mass_total predicts rho * sum_p w_p|J_p| with the mass
            # rule (the exact measure of a curved element is not a polynomial integral of the rule)
            meas = r["wJ_mass_sum"]
        if not lab.startswith("dist2"):
            okm = abs(r["measure"] - meas) <= 1e-9 * meas
            ctx.obligation("mesh measure (%s)" % tag, okm, "%r vs %r" % (r["measure"], meas))
            if not okm:
                ctx.violation("measure:" + tag, "%s: mesh measure %r, exact %r" % (tag, r["measure"], meas), {"case": c}, True)
        coef = c["params"]["rho"] * (c["params"]["c"] if phys == "thermal" else 1.0)
        expM = coef * meas * th
        okt = all(abs(x - expM) <= 1e-9 * expM for x in r["M_dir"])
        ctx.obligation("sum of mass/capacity entries per direction = rho*measure*thickness (%s)" % tag, okt, "%s vs %r" % (r["M_dir"], expM))
        if not okt:
            vk = "thermal-thickness-2D" if (phys == "thermal" and dim == 2 and all(abs(x - expM / th) <= 1e-9 * expM for x in r["M_dir"])) else "mass-total:" + tag
            ctx.violation(vk, "%s: entries of the %s matrix sum to %s per direction, expected rho*measure*thickness = %r%s" % (
                tag, "capacity" if phys == "thermal" else "mass", r["M_dir"], expM, " (the 2-D thickness is not applied)" if vk.startswith("thermal-thickness") else ""),
                replay(c, "mass_total", expM), True)
        # energy: theorem Ke_energy_const_strain predicts (sum_p w_p|J_p| with the rigi rule) * density;
        # on affine elements every rule gives the exact measure
        expE = th * (meas if not lab.startswith("dist2") else r["measure_rigi"]) * r["lin_density"]
        oke = abs(r["lin_energy"] - expE) <= 1e-9 * abs(expE)
        ctx.obligation("u'Ku of a linear field = thickness*measure*density (%s)" % tag, oke, "%r vs %r" % (r["lin_energy"], expE))
        if not oke:
            vk = "thermal-thickness-2D" if (phys == "thermal" and dim == 2 and abs(r["lin_energy"] - expE / th) <= 1e-9 * abs(expE)) else "energy:" + tag
            ctx.violation(vk, "%s: u'Ku for a linear field is %r, expected thickness*measure*density = %r" % (tag, r["lin_energy"], expE), replay(c, "energy", expE), True)
        okpd = M["sym_defect"] <= 1e-12 * M["absmax"] and M["eig_min"] > 1e-10 * M["eig_max"]
        ctx.obligation("mass/capacity matrix symmetric positive definite (%s)" % tag, okpd, "min/max %.2e" % (M["eig_min"] / M["eig_max"]))
        if not okpd:
            ctx.violation("mass-rank:%s" % n, "%s: consistent mass/capacity matrix is not positive definite (min eig / max = %.2e)" % (tag, M["eig_min"] / M["eig_max"]), replay(c, "mass_pd", None), True)
        if phys == "elastic" and r.get("mass_prop") is not None:
            okp = abs(r["mass_prop"] - expM) <= 1e-9 * expM
            ctx.obligation("simu.mass = rho*measure*thickness (%s)" % tag, okp)
            if not okp:
                ctx.violation("simu-mass:" + tag, "%s: simu.mass = %r, expected %r" % (tag, r["mass_prop"], expM), {"case": c}, True)
    ctx.cov["case_kinds"] = dist
    oplogs = [(c, r.get("ops_log") or []) for c, r in zip(cases, results) if c.get("ops")]
    ctx.cov["interleaved_cases"] = len(oplogs)
    ctx.cov["interleaved_cases_with_negative_detJ"] = sum(1 for c, l in oplogs if any(e[0] == "signed_jacobian_min" and e[1] < 0 for e in l))
    ctx.cov["pre_assembly_point_location_max_error"] = max([e[1] for c, l in oplogs for e in l if e[0] == "evaluate_maxerr"] or [None], key=lambda v: -1 if v is None else v)
    ctx.cov["pre_assembly_op_errors (not C02's predicate; see C08)"] = sorted(set("%s %s: %s" % (c["elem"], e[1], e[2][:80]) for c, l in oplogs for e in l if e[0] == "op-error"))[:10]
    ctx.cov["element_types"] = sorted(E)
    ctx.cov["kernel_dimension_from_coq"] = {"%s/%s/%s" % k: v for k, v in kernel_dim.items() if v != NRIGID[(k[0], E[k[2]]["dim"])]}
    ctx.sample({"two_element_patch": "TRI6", "coords": [[str(x) for x in nd] for nd in p2[[p["elem"] for p in p2].index("TRI6")]["coords"]],
                "conn": p2[[p["elem"] for p in p2].index("TRI6")]["conn"]})
