"""C09 — distributed loads integrate to the correct resultant force and moment.

1. static Coq: coq/model/C09_Loads.v (exclusive element selection set algebra; the two branches of
   the Gauss integration of load densities; point load split; dimension dispatch/thickness) and the
   property theorems coq/props/C09/C09_theorems.v (for all element lists, shape values with
   partition of unity — discharged for the real tables by C06_partition_of_unity —, weights, f).
2. correspondence: simu.Bc_vector_Neumann() summed per direction and its first moments about a
   random point against EXACT integrals (python Fractions, affine elements) of random polynomial
   densities on random node selections (faces, partial faces, boxes, random node sets) for
   TRI3/TRI6/QUAD4/QUAD8 and TETRA4/HEXA8/PRISM6 (mixed TRI/QUAD boundary), thickness != 1,
   Elastic / Thermal / Beam simulations; constants, callables and nodal arrays; point loads; pressure.
3. the selection algebra model is executed (vm_compute) against Get_Elements_Nodes on every case.
"""
import json
import os
from fractions import Fraction as F

from vlib import common
from vlib import C09_exact as X

CORR = os.path.join(common.VERIF, "corr", "C09_loads.py")
TOL = 1e-10
TOL_SEQ = 1e-11      # sequences / scaled twins: relative to the magnitudes of the case itself (no absolute floor)

REPLAY = r'''
import sys, json
import numpy as np
from corr.C09_loads import run_case
case = %(case)r
exp = %(expected)r      # {"R": {unknown: value}, "M": {unknown: [Mx, My, Mz]}, "center": [..], "scale": s, "zero_nodes": [...]}
res = run_case(case)
if "error" in res:
    print("implementation raised:", res["error"]); sys.exit(1)
coords = np.array([[float.fromhex(v) for v in row] for row in res["coords"]])
Fv = np.array(res["F"]); unk = res["all_unknowns"]
bad = False
c = np.array(exp["center"])
for u, R in exp["R"].items():
    col = Fv[:, unk.index(u)]
    r = col.sum(); m = ((coords - c) * col[:, None]).sum(axis=0)
    print("unknown", u, ": resultant", r, "expected", R, "| first moments about", exp["center"], ":", m.tolist(), "expected", exp["M"][u])
    tol = %(tol)r * exp["scale"]
    bad = bad or abs(r - R) > tol or any(abs(a - b) > tol for a, b in zip(m, exp["M"][u]))
if "pressure" in exp:
    Rv = [Fv[:, unk.index(u)].sum() for u in ["x", "y", "z"][:res["inDim"]]]
    ax, mag = exp["pressure"]["axis"], exp["pressure"]["mag"]
    print("pressure resultant", Rv, "expected +/-", mag, "along axis", ax, "and 0 elsewhere")
    bad = bad or abs(abs(Rv[ax]) - abs(mag)) > %(tol)r * exp["scale"] or any(abs(v) > %(tol)r * exp["scale"] for a, v in enumerate(Rv) if a != ax)
nz = [n for n in exp["zero_nodes"] if np.any(Fv[n] != 0)]
if nz:
    print("nodes outside every loaded element with a non-zero force:", nz[:10]); bad = True
if "T_expected" in exp:
    print("T at x=L:", res.get("T_at_L"), "expected", exp["T_expected"])
    bad = bad or any(abs(t - exp["T_expected"]) > 1e-8 * abs(exp["T_expected"]) for t in res.get("T_at_L", [1e99]))
sys.exit(1 if bad else 0)
'''


REPLAY_SEQ = r'''
import sys
import numpy as np
from corr.C09_loads import run_sequence
case = %(case)r
exp = %(expected)r    # per checkpoint: {"R": {u: v}, "M": {u: [..]} or None, "center": [...], "scale": s}
res = run_sequence(case)
print("sequence:", [o["op"] + (":" + o["load"] if o["op"] == "load" else "") for o in case["sequence"]])
if "error" in res:
    print("implementation raised:", res["error"]); sys.exit(1)
bad = False
for cp, e in zip(res["checkpoints"], exp):
    coords = np.array([[float.fromhex(v) for v in row] for row in res["snapshots"][cp["snapshot"]]])
    Fv = np.array(cp["F"]); unk = cp["all_unknowns"]; c = np.array(e["center"]); tol = %(tol)r * e["scale"]; tolM = %(tol)r * e.get("scaleM", e["scale"])
    if not e["R"] and not cp["active"] and np.any(Fv != 0):
        print("checkpoint after op", cp["op"], ": no load is active (boundary conditions re-initialised) but the load vector is not zero: column sums", Fv.sum(axis=0).tolist())
        bad = True
    for u, R in e["R"].items():
        col = Fv[:, unk.index(u)]
        r = col.sum()
        print("checkpoint after op", cp["op"], "unknown", u, ": resultant", r, "expected (current geometry)", R)
        bad = bad or abs(r - R) > tol
        if e["M"] is not None:
            m = ((coords - c) * col[:, None]).sum(axis=0)
            print("     first moments about", e["center"], ":", m.tolist(), "expected", e["M"][u])
            bad = bad or any(abs(a - b) > tolM for a, b in zip(m, e["M"][u]))
    if "fresh_max_diff" in cp:
        print("     max |F - F(fresh simulation on the moved mesh)| =", cp["fresh_max_diff"])
        bad = bad or cp["fresh_max_diff"] > %(tol)r * max(cp["fresh_scale"], e["scale"])
sys.exit(1 if bad else 0)
'''

DISPATCH = {("line", 1): (1, False), ("line", 2): (1, False), ("line", 3): (1, False),
            ("surf", 2): (1, True), ("surf", 3): (2, False),
            ("volume", 2): (2, True), ("volume", 3): (3, False),
            ("pressure", 2): (1, True), ("pressure", 3): (2, False)}


def rand_poly(rng, deg, dim_active, exact_deg=False):
    """random integer-coefficient polynomial of total degree <= deg in the first dim_active coords"""
    coeffs = {}
    exps = [(a, b, c) for a in range(deg + 1) for b in range(deg + 1) for c in range(deg + 1)
            if a + b + c <= deg and (dim_active > 2 or c == 0) and (dim_active > 1 or b == 0)]
    for e in exps:
        if rng.random() < 0.7 or e == (0, 0, 0):
            v = rng.randint(-4, 4)
            if v:
                coeffs["%d,%d,%d" % e] = v
    if not coeffs:
        coeffs["0,0,0"] = 3
    if exact_deg and deg > 0:
        # make sure the density really has degree `deg` (a mixed top-degree monomial when possible)
        top = [e for e in exps if sum(e) == deg]
        e = max(top, key=lambda t: (sum(1 for v in t if v), rng.random()))
        coeffs["%d,%d,%d" % e] = coeffs.get("%d,%d,%d" % e) or rng.choice([-3, -2, 2, 3])
    return coeffs


def gen_cases(ctx):
    rng = ctx.rng
    quick = ctx.tier == "quick"
    meshes2 = [{"kind": "2d", "elemType": et, "L": 2, "H": 1, "ms": 0.5, "organised": True} for et in ("TRI3", "TRI6", "QUAD4", "QUAD8")]
    meshes2.append({"kind": "2d", "elemType": "TRI3", "L": 2, "H": 1, "ms": 0.6, "organised": False})
    meshes3 = [{"kind": "3d", "elemType": et, "L": 2, "H": 1, "T": 1, "ms": 1.0, "layers": 2, "organised": True} for et in ("TETRA4", "HEXA8", "PRISM6")]
    meshes3.append({"kind": "3d", "elemType": "PRISM6", "L": 2, "H": 1, "T": 1, "ms": 0.7, "layers": 1, "organised": False})
    order = {"TRI3": 1, "TRI6": 2, "QUAD4": 1, "QUAD8": 2, "TETRA4": 1, "HEXA8": 1, "PRISM6": 1, "SEG2": 1,
             "QUAD9": 2, "TRI10": 3, "TRI15": 4, "TETRA10": 2, "HEXA20": 2, "HEXA27": 2, "PRISM15": 2, "PRISM18": 2}
    # higher-order types: their 'mass' rules (TETRA10: 15 points, HEXA20/27: 27, PRISM15/18: 21, TRI10/15: 12)
    # are exercised with densities of every degree 1..order, resultant AND moments
    meshes2_ho = [{"kind": "2d", "elemType": et, "L": 2, "H": 1, "ms": 1.0, "organised": True} for et in ("QUAD9", "TRI10", "TRI15")]
    meshes3_ho = [{"kind": "3d", "elemType": et, "L": 2, "H": 1, "T": 1, "ms": 1.0, "layers": 1, "organised": True}
                  for et in ("TETRA10", "HEXA20", "HEXA27", "PRISM15", "PRISM18")]
    cases = []

    def add(mesh, simu, load, sel, kinds=("const", "poly", "nodal"), **kw):
        dim = 2 if mesh["kind"] == "2d" else 3 if mesh["kind"] == "3d" else 1
        unknowns_all = {"Elastic": ["x", "y", "z"][:dim], "Thermal": ["t"], "Beam": ["x", "y", "rz"]}[simu]
        if simu == "Beam":
            order["SEG2"] = 1
        for kind in kinds:
            c = {"id": len(cases), "mesh": mesh, "simu": simu, "load": load, "selection": sel,
                 "thickness": rng.choice([0.5, 2.0, 3.0]) if dim == 2 else 1.0, "vkind": kind}
            if load == "pressure":
                c["magnitude"] = rng.choice([-3.0, 2.0, 5.0])
                c["unknowns"], c["values"] = [], []
                if kind != "const":
                    continue
            else:
                k = rng.randint(1, len(unknowns_all)) if simu == "Elastic" else 1
                # partial lists in random order (Elastic); explicit orderings for beams
                c["unknowns"] = rng.sample(unknowns_all, k) if simu == "Elastic" else list(kw.get("unknowns", unknowns_all[:1]))
                deg = 0 if kind == "const" else kw.get("deg", order[mesh["elemType"]])
                vals = []
                for _ in c["unknowns"]:
                    if kind == "const":
                        vals.append({"kind": "const", "v": rng.randint(-5, 5) or 2})
                    else:
                        vals.append({"kind": kind, "coeffs": rand_poly(rng, deg, dim, exact_deg="deg" in kw)})
                c["values"] = vals
            c.update({k: v for k, v in kw.items() if k not in ("unknowns", "deg")})
            if load != "point" and rng.random() < 0.6:
                # the selection is a set: repeated ids and arbitrary order must not matter
                c["selection"] = dict(sel, dup={"seed": rng.randrange(1 << 30), "n": rng.choice([0, 1, 2, 5])})
            cases.append(c)

    nrep = 1 if quick else 3
    for _ in range(nrep):
        for m in meshes2:
            L, H = m["L"], m["H"]
            face = {"type": "face", "axis": 0, "value": L}
            top = {"type": "face", "axis": 1, "value": H}
            partial = {"type": "partial", "axis": 0, "value": L, "axis2": 1, "max2": 0.5}
            corner = {"type": "box", "lo": [0, 0, 0], "hi": [L, H, 0]}   # everything
            bnd_rand = {"type": "random", "frac": 0.7, "seed": rng.randrange(1 << 30), "within": face}
            box = {"type": "box", "lo": [0.5, 0, 0], "hi": [1.5, 1, 0]}
            rnd = {"type": "random", "frac": 0.8, "seed": rng.randrange(1 << 30)}
            bottom = {"type": "face", "axis": 1, "value": 0}
            two_edges = {"type": "concat", "parts": [bottom, face]}      # corner node listed twice
            add(m, "Elastic", "surf", face)
            add(m, "Elastic", "surf", two_edges, kinds=("const", "poly"))
            add(m, "Thermal", "surf", {"type": "concat", "parts": [top, face]}, kinds=("poly",))
            add(m, "Elastic", "line", rng.choice([top, partial, bnd_rand]), kinds=("poly", "nodal"))
            add(m, "Elastic", "volume", rng.choice([corner, box, rnd]))
            add(m, "Elastic", "pressure", rng.choice([face, top]), kinds=("const",))
            add(m, "Elastic", "point", rng.choice([face, box]), kinds=("const", "poly"))
            add(m, "Thermal", "surf", rng.choice([face, partial]), kinds=("const", "poly"))
            add(m, "Thermal", "volume", rng.choice([corner, rnd]), kinds=("poly", "nodal"))
        for m in meshes3:
            L, H, T = m["L"], m["H"], m["T"]
            fx = {"type": "face", "axis": 0, "value": L}      # QUAD faces for PRISM
            fz = {"type": "face", "axis": 2, "value": T}      # TRI faces for PRISM
            two = {"type": "box", "lo": [0, 0, 0], "hi": [L, H, T]}    # all nodes: every boundary face
            partial = {"type": "partial", "axis": 0, "value": L, "axis2": 2, "max2": 0.5}
            edge = {"type": "box", "lo": [L, H, 0], "hi": [L, H, T]}
            rnd = {"type": "random", "frac": 0.85, "seed": rng.randrange(1 << 30)}
            add(m, "Elastic", "surf", fx)
            add(m, "Elastic", "surf", {"type": "concat", "parts": [fx, fz]}, kinds=("const", "poly"))   # shared edge listed twice
            add(m, "Elastic", "surf", rng.choice([fz, two, partial]), kinds=("poly", "nodal"))
            add(m, "Elastic", "volume", rng.choice([two, rnd]), kinds=("const", "poly"))
            add(m, "Elastic", "line", edge, kinds=("poly",))
            add(m, "Elastic", "pressure", rng.choice([fx, fz]), kinds=("const",))
            add(m, "Elastic", "point", fz, kinds=("const",))
    # higher-order element types, every density degree up to the element order
    for m in meshes3_ho:
        L, H, T = m["L"], m["H"], m["T"]
        everything = {"type": "box", "lo": [0, 0, 0], "hi": [L, H, T]}
        faces = [{"type": "face", "axis": a, "value": v} for a, v in ((0, L), (1, H), (2, T), (2, 0))]
        for d in (1, 2):
            add(m, "Elastic", "volume", everything, kinds=("poly",), deg=d)
        add(m, "Elastic", "volume", everything, kinds=("nodal",), deg=rng.choice([1, 2]))
        add(m, "Elastic", "surf", rng.choice(faces), kinds=("poly",), deg=2)
        if not quick:
            add(m, "Elastic", "surf", rng.choice(faces), kinds=("poly", "nodal"), deg=1)
            add(m, "Elastic", "line", {"type": "box", "lo": [L, H, 0], "hi": [L, H, T]}, kinds=("poly",), deg=2)
    for m in meshes2_ho:
        L, H = m["L"], m["H"]
        everything = {"type": "box", "lo": [0, 0, 0], "hi": [L, H, 0]}
        o = order[m["elemType"]]
        for d in sorted(set([1, o])) if quick else range(1, o + 1):
            add(m, "Elastic", "volume", everything, kinds=("poly",), deg=d)
        ax = rng.randrange(2)
        add(m, "Elastic", "surf", {"type": "face", "axis": ax, "value": [L, H][ax]}, kinds=("poly", "nodal"), deg=o)
    # Euler-Bernoulli beam, Hermitian line load on y, Lagrange on x
    beam = {"kind": "beam", "elemType": "SEG2", "L": 2, "ms": 0.5, "beamDim": 2}
    allb = {"type": "box", "lo": [0, 0, 0], "hi": [2, 0, 0]}
    partb = {"type": "box", "lo": [0.5, 0, 0], "hi": [1.5, 0, 0]}
    beam3 = {"kind": "beam", "elemType": "SEG2", "L": 2, "ms": 0.5, "beamDim": 3}
    lists2 = [["y"], ["x"], ["x", "y"], ["y", "x"]]
    lists3 = [["x", "y", "z"], ["z", "x", "y"], ["y", "z"], ["rx", "z"], ["x", "z"], ["z", "rx", "y", "x"]]
    for sel in (allb, partb):
        for ul in lists2:
            add(beam, "Beam", "line", sel, kinds=("const", "poly", "nodal") if len(ul) > 1 or ul == ["y"] else ("poly",), unknowns=ul)
    for ul in (lists3 if not quick else rng.sample(lists3, 4)):
        add(beam3, "Beam", "line", rng.choice([allb, partb]), kinds=("const", "poly"), unknowns=ul)
    # INCLINED Euler-Bernoulli beams (3-4-5 direction and vertical): line loads given in GLOBAL components
    for end in ([1.2, 1.6, 0], [0, 2, 0]):
        bi = {"kind": "beam", "elemType": "SEG2", "L": 2, "ms": 0.5, "beamDim": 2, "end": end}
        for ul in (["y"], ["x"], ["x", "y"]):
            add(bi, "Beam", "line", {"type": "all"}, kinds=("const", "poly"), unknowns=ul, inclined_beam=True)
    # pressure on CLOSED, non-planar boundaries: the resultant must be what the nodal-normal model predicts
    # (p * t * sum_j a_j nhat_j), which is NOT zero in general (C09_pressure_closed_surface_refuted)
    for pts, ms in (([(0, 0), (4, 0), (4, 3)], 10.0), ([(0, 0), (4, 0), (4, 3)], 1.5), ([(0, 0), (4, 0), (4, 1), (1, 1), (1, 3), (0, 3)], 2.0)):
        cases.append({"id": len(cases), "mesh": {"kind": "poly2d", "elemType": "TRI3", "points": [list(p) for p in pts], "ms": ms},
                      "simu": "Elastic", "load": "pressure", "vkind": "const", "selection": {"type": "all"}, "closed_pressure": True,
                      "thickness": rng.choice([0.5, 2.0]), "magnitude": rng.choice([-3.0, 2.0]), "unknowns": [], "values": []})
    # thermal patch: load and conductivity must carry the same thickness
    cases.append({"id": len(cases), "mesh": meshes2[2], "simu": "Thermal", "load": "surf", "vkind": "const",
                  "selection": {"type": "face", "axis": 0, "value": 2}, "thickness": 3.0, "unknowns": ["t"],
                  "values": [{"kind": "const", "v": 5}], "solve_thermal_patch": True})
    return cases


def gen_sequences(ctx, first_id):
    """load sequences on ONE simulation object: in-place moves, Bc_Init, repeated loads, mesh replacement."""
    rng = ctx.rng
    quick = ctx.tier == "quick"
    m2 = [{"kind": "2d", "elemType": et, "L": 2, "H": 1, "ms": 0.5, "organised": True} for et in ("TRI3", "QUAD4", "TRI6", "QUAD8")]
    m3 = [{"kind": "3d", "elemType": et, "L": 2, "H": 1, "T": 1, "ms": 1.0, "layers": 2, "organised": True} for et in ("PRISM6", "HEXA8", "TETRA4")]
    order = {"TRI3": 1, "TRI6": 2, "QUAD4": 1, "QUAD8": 2, "TETRA4": 1, "HEXA8": 1, "PRISM6": 1}
    templates = ["reinit-move-callable", "move-no-reinit", "recoord-other-groups", "repeat-same-load", "replace-mesh", "double-move",
                 # order of otherwise independent public calls (point location / measures / normals / assembly before loads),
                 # on plain, moved and MIRRORED meshes
                 "query-then-load", "move-query-load", "mirror-query-load",
                 # simu.mesh = <mesh with the SAME topology (translated copy)>: no load may survive the replacement
                 "replace-same-topology",
                 # scaled twins: the same plate/solid at length units 2^-10, 2^-20, 2^-30 (~1e-3, 1e-6, 1e-9) and 2^10
                 "scaled-twin:-10", "scaled-twin:-20", "scaled-twin:-30", "scaled-twin:10"]
    out = []
    combos = [(m, tpl) for tpl in templates for m in (m2 + m3)]
    rng.shuffle(combos)
    if quick:
        # every template at least twice, every mesh at least once
        chosen, seen_t, seen_m = [], {}, set()
        for m, tpl in combos:
            if seen_t.get(tpl, 0) < 2 or m["elemType"] not in seen_m:
                chosen.append((m, tpl)); seen_t[tpl] = seen_t.get(tpl, 0) + 1; seen_m.add(m["elemType"])
        combos = chosen[:28]
    for mesh, tpl in combos:
        dim = 2 if mesh["kind"] == "2d" else 3
        simu = "Thermal" if (dim == 2 and rng.random() < 0.25) else "Elastic"
        unknowns_all = ["t"] if simu == "Thermal" else ["x", "y", "z"][:dim]
        ext = [mesh["L"], mesh["H"], mesh.get("T", 0)]
        st = {"sv": [F(1)] * 3, "sh": [F(0)] * 3, "ext": ext, "unit": F(1)}

        def tr(a, v):
            return float(st["sv"][a] * F(v) + st["sh"][a])

        def face(a, hi=True):
            return {"type": "face", "axis": a, "value": tr(a, st["ext"][a] if hi else 0)}

        def everything():
            ends = [(tr(a, 0), tr(a, st["ext"][a])) for a in range(3)]
            return {"type": "box", "lo": [min(e) for e in ends], "hi": [max(e) for e in ends]}

        def load(kind, sel, vkind, deg_mesh=mesh):
            k = rng.randint(1, len(unknowns_all))
            un = rng.sample(unknowns_all, k)
            deg = order[deg_mesh["elemType"]]
            vals = [{"kind": "const", "v": rng.randint(-5, 5) or 2} if vkind == "const" else {"kind": vkind, "coeffs": rand_poly(rng, deg, dim, exact_deg=st["unit"] != 1)} for _ in un]
            if st["unit"] != 1:
                # density written in the current length unit: f(x) = g(x / unit), every monomial has the same weight
                # whatever the unit (coefficients c / unit^k are exact: the unit is a power of two)
                for v in vals:
                    if v["kind"] != "const":
                        v["coeffs"] = {k: float(F(cv) / st["unit"] ** sum(int(t) for t in k.split(","))) for k, cv in v["coeffs"].items()}
            if rng.random() < 0.4:
                sel = dict(sel, dup={"seed": rng.randrange(1 << 30), "n": rng.choice([0, 2])})
            return {"op": "load", "load": kind, "selection": sel, "unknowns": un, "values": vals}

        def move():
            d = [F(rng.randint(-12, 12), 2) if a < dim else F(0) for a in range(3)]
            if all(x == 0 for x in d):
                d[0] = F(5)
            st["sh"] = [a + b for a, b in zip(st["sh"], d)]
            return {"op": "translate", "d": [float(x) for x in d]}

        def recoord():
            sc = rng.choice([F(2), F(1, 2), F(3)])
            d = [F(rng.randint(-8, 8), 2) if a < dim else F(0) for a in range(3)]
            st["sv"] = [sc * x for x in st["sv"]]
            st["sh"] = [sc * a + b for a, b in zip(st["sh"], d)]
            return {"op": "set_coord", "scale": float(sc), "shift": [float(x) for x in d]}

        def rescale(k):
            u = F(2) ** k
            st["sv"] = [u * x for x in st["sv"]]
            st["sh"] = [u * a for a in st["sh"]]
            st["unit"] = st["unit"] * u
            return {"op": "set_coord", "scale": float(u), "shift": [0.0, 0.0, 0.0]}

        def mirror():
            a = rng.randrange(dim)
            pc = F(rng.randint(-6, 6), 2)
            st["sv"][a] = -st["sv"][a]
            st["sh"][a] = 2 * pc - st["sh"][a]
            pt, nn = [0.0, 0.0, 0.0], [0.0, 0.0, 0.0]
            pt[a], nn[a] = float(pc), 1.0
            return {"op": "symmetry", "point": pt, "n": nn}

        ax = rng.randrange(dim)
        seq = []
        if tpl == "reinit-move-callable":
            seq = [load("surf", face(ax), "poly"), {"op": "check"}, {"op": "bc_init"}, move()]
            seq += [load("surf", face(ax), "poly"), {"op": "check", "fresh": True}]
        elif tpl == "move-no-reinit":
            seq = [load("surf", face(ax), "poly"), move()]
            seq += [load("surf", face(ax), "poly"), load("volume", everything(), "poly"), {"op": "check"}]
        elif tpl == "recoord-other-groups":
            seq = [load("volume", everything(), "poly"), load("surf", face(ax), "const"), {"op": "bc_init"}, recoord()]
            seq += [load("surf", face((ax + 1) % dim), "poly"), load("surf", face(ax, hi=False), "poly"), load("volume", everything(), rng.choice(["poly", "nodal"])), {"op": "check", "fresh": True}]
        elif tpl == "repeat-same-load":
            l1 = load("surf", face(ax), rng.choice(["poly", "nodal"]))
            seq = [l1, {"op": "check"}, dict(l1), dict(l1), {"op": "check", "fresh": True}, {"op": "bc_init"}, dict(l1), {"op": "check"}]
        elif tpl == "replace-mesh":
            other = rng.choice([m for m in (m2 if dim == 2 else m3) if m["elemType"] != mesh["elemType"]])
            seq = [load("surf", face(ax), "poly"), move(), {"op": "check"}, {"op": "set_mesh", "mesh": other}]
            st = {"sv": [F(1)] * 3, "sh": [F(0)] * 3, "ext": [other["L"], other["H"], other.get("T", 0)], "unit": F(1)}
            seq += [load("surf", face(ax), "poly", other), load("volume", everything(), "poly", other), {"op": "check", "fresh": True}]
            seq += [move(), {"op": "bc_init"}, load("surf", face(ax), "poly", other), {"op": "check", "fresh": True}]
        elif tpl == "double-move":
            seq = [load("surf", face(ax), "const"), {"op": "bc_init"}, move(), load("volume", everything(), "poly"), {"op": "bc_init"}, recoord()]
            seq += [load("surf", face(ax), "poly"), load("line" if dim == 2 else "surf", face((ax + 1) % dim), "nodal"), {"op": "check", "fresh": True}]
        elif tpl == "replace-same-topology":
            seq = [load("surf", face(ax), "poly"), load("volume", everything(), "const"), {"op": "check"}]
            d = [F(rng.randint(-12, 12), 2) if a < dim else F(0) for a in range(3)]
            if all(x == 0 for x in d):
                d[0] = F(3)
            seq += [{"op": "set_mesh", "mesh": mesh, "translate": [float(x) for x in d]}, {"op": "check"}]   # nothing re-applied yet: F must be 0
            st["sh"] = list(d)
            seq += [load("surf", face(ax), "poly"), load("volume", everything(), "poly"), {"op": "check", "fresh": True}]
        elif tpl == "query-then-load":
            seq = [{"op": "query"}, load("volume", everything(), "poly"), load("surf", face(ax), "poly"), {"op": "check", "fresh": True}]
        elif tpl == "move-query-load":
            seq = [move(), load("surf", face(ax), "poly"), {"op": "query"}, {"op": "bc_init"}, load("volume", everything(), "poly"), {"op": "check", "fresh": True}]
        elif tpl == "mirror-query-load":
            seq = [mirror(), {"op": "query"}, load("volume", everything(), "poly"), load("surf", face(ax), "poly"), {"op": "check", "fresh": True}]
            seq += [{"op": "bc_init"}, mirror(), load("volume", everything(), rng.choice(["poly", "nodal"])), {"op": "check"}]
        elif tpl.startswith("scaled-twin:"):
            seq = [rescale(int(tpl.split(":")[1]))] + ([{"op": "query"}] if rng.random() < 0.5 else [])
            seq += [load("volume", everything(), "poly"), load("surf", face(ax), "poly"), load("surf", face((ax + 1) % dim), "nodal"), {"op": "check", "fresh": True}]
        out.append({"id": first_id + len(out), "mesh": mesh, "simu": simu, "thickness": rng.choice([0.5, 2.0]) if dim == 2 else 1.0,
                    "template": tpl, "sequence": seq})
    return out


def judge_sequences(ctx, seqs, results):
    seen = set()
    nchk = 0
    for c in seqs:
        r = results.get(c["id"])
        tag = "sequence:%s" % c["template"]
        if r is None or "error" in r:
            key = "%s:raises" % tag
            if key not in seen:
                seen.add(key)
                ctx.violation(key, "load sequence %s on %s raises: %s" % (c["template"], c["mesh"]["elemType"], (r or {}).get("error")),
                              {"case": c, "traceback": (r or {}).get("traceback"), "replay_py": REPLAY_SEQ % dict(case=c, expected=[], tol=TOL)})
            continue
        exps, problems = [], []
        for cp in r["checkpoints"]:
            snapc = [[float.fromhex(v) for v in row] for row in r["snapshots"][cp["snapshot"]]]
            lo3 = [min(row[a] for row in snapc) for a in range(3)]
            hi3 = [max(row[a] for row in snapc) for a in range(3)]
            # moments about a random point of (an enlargement of) the current bounding box
            center = [F(lo3[a]) + (F(hi3[a]) - F(lo3[a])) * F(ctx.rng.randint(-8, 16), 8) for a in range(3)]
            Rt, Mt, scale, scaleM = {}, {}, 0.0, 0.0
            same_geo = all(a["snapshot"] == cp["snapshot"] and a["mesh"] == cp["mesh"] for a in cp["active"])
            try:
                for a in cp["active"]:
                    op = c["sequence"][a["op"]]
                    cl = {"load": op["load"], "unknowns": op["unknowns"], "values": op["values"], "thickness": c["thickness"]}
                    rl = {"coords": r["snapshots"][a["snapshot"]], "nodes": a["nodes"], "dim": r["dim"], "Nn": cp["Nn"], "groups": r["meshes"][a["mesh"]]}
                    if not a["nodes"]:
                        continue
                    ex = expected_for(cl, rl, center)
                    # natural magnitude of this load: (thickness) * measure * max |density| over the loaded nodes, no absolute floor
                    lc = [[float.fromhex(v) for v in row] for row in rl["coords"]]
                    ln = sorted(set(n for g in rl["groups"] for e in ex["loaded"].get(g["type"], []) for n in g["connect"][e]))
                    fb = max(sum(abs(float(cc)) * abs(lc[n][0]) ** e3[0] * abs(lc[n][1]) ** e3[1] * abs(lc[n][2]) ** e3[2] for e3, cc in poly_of(v).items())
                             for v in op["values"] for n in ln) if ln else 0.0
                    sR = float(ex["measure"]) * float(ex.get("tfac", 1)) * fb
                    lever = max(abs(lc[n][a] - float(center[a])) for n in ln for a in range(3)) if ln else 0.0
                    scale += sR
                    scaleM += sR * lever
                    for u in op["unknowns"]:
                        Rt[u] = Rt.get(u, F(0)) + ex["R"][u]
                        Mt[u] = [x + y for x, y in zip(Mt.get(u, [F(0)] * 3), ex["M"][u])]
            except ValueError:
                exps.append({"R": {}, "M": None, "center": [0, 0, 0], "scale": 1.0, "scaleM": 1.0})
                continue
            nchk += 1
            cf = [float(x) for x in center]
            e = {"R": {u: float(v) for u, v in Rt.items()}, "M": ({u: [float(x) for x in m] for u, m in Mt.items()} if same_geo else None),
                 "center": cf, "scale": scale, "scaleM": scaleM}
            exps.append(e)
            coordsf = [[float.fromhex(v) for v in row] for row in r["snapshots"][cp["snapshot"]]]
            unk = cp["all_unknowns"]
            for u in Rt:
                col = [row[unk.index(u)] for row in cp["F"]]
                if abs(sum(col) - e["R"][u]) > TOL_SEQ * scale:
                    problems.append(("resultant", "after op %d, unknown %s: sum of nodal forces %.12g, exact integral on the geometry at application time %.12g" % (cp["op"], u, sum(col), e["R"][u])))
                if same_geo:
                    Mi = [sum((coordsf[n][a] - cf[a]) * col[n] for n in range(len(col))) for a in range(3)]
                    if max(abs(Mi[a] - e["M"][u][a]) for a in range(3)) > TOL_SEQ * scaleM:
                        problems.append(("moment", "after op %d, unknown %s: first moments %s, exact on the current geometry %s" % (cp["op"], u, Mi, e["M"][u])))
            for u in unk:
                if u not in Rt and any(row[unk.index(u)] != 0 for row in cp["F"]):
                    problems.append(("other-dof", "after op %d: forces on dof %s which no active load addresses" % (cp["op"], u)))
            if "fresh_max_diff" in cp and cp["fresh_max_diff"] > TOL_SEQ * max(cp["fresh_scale"], scale):
                problems.append(("fresh-simulation", "after op %d: the load vector differs from the one of a fresh simulation on the moved mesh by %.3g" % (cp["op"], cp["fresh_max_diff"])))
        ctx.note_case("%s:%s:%s" % (tag, c["mesh"]["elemType"], c["simu"]))
        for kind, msg in problems:
            key = "%s:%s" % (tag, kind)
            if key in seen:
                continue
            seen.add(key)
            ops = [o["op"] + (":" + o["load"] if o["op"] == "load" else "") for o in c["sequence"]]
            ctx.violation(key, "%s %s, one simulation object, ops %s: %s" % (c["simu"], c["mesh"]["elemType"], ops, msg),
                          {"replay_py": REPLAY_SEQ % dict(case=c, expected=exps, tol=TOL_SEQ), "case": c, "expected": exps})
    ctx.cov["sequence_cases"] = len(seqs)
    ctx.cov["sequence_checkpoints_compared"] = nchk
    ctx.obligation("corr:load-sequences", not seen, "%d sequences, %d checkpoints; violation keys %s" % (len(seqs), nchk, sorted(seen)[:5]), n=max(len(seqs), 1))


def poly_of(v):
    if v["kind"] == "const":
        return {(0, 0, 0): F(v["v"])}
    return {tuple(int(t) for t in k.split(",")): F(c) for k, c in v["coeffs"].items()}


def expected_for(c, r, center):
    """-> dict(R, M, scale, zero_nodes, loaded) computed exactly from the returned mesh."""
    coords = [[F(float.fromhex(v)) for v in row] for row in r["coords"]]
    sel = set(r["nodes"])
    dim = r["dim"]
    load = c["load"]
    Nn = r["Nn"]
    if load == "point":
        R, M = {}, {}
        n = len(r["nodes"])
        for u, v in zip(c["unknowns"], c["values"]):
            p = poly_of(v)
            vals = {nd: sum(cf * coords[nd][0] ** e[0] * coords[nd][1] ** e[1] * coords[nd][2] ** e[2] for e, cf in p.items()) / n for nd in r["nodes"]}
            R[u] = sum(vals.values())
            M[u] = [sum((coords[nd][a] - center[a]) * vv for nd, vv in vals.items()) for a in range(3)]
        zero = [nd for nd in range(Nn) if nd not in sel]
        return {"R": R, "M": M, "zero_nodes": zero, "loaded": {}, "measure": F(1), "pernode": True}
    kdim, thick = DISPATCH[(load, dim)]
    tfac = F(c["thickness"]) if thick else F(1)
    loaded = {}
    used = set()
    for g in r["groups"]:
        if g["dim"] != kdim:
            continue
        els = [e for e, row in enumerate(g["connect"]) if all(n in sel for n in row)]
        loaded[g["type"]] = els
        for e in els:
            used.update(g["connect"][e])
    zero = [nd for nd in range(Nn) if nd not in used]
    R, M = {}, {}
    meas = F(0)
    for g in r["groups"]:
        for e in loaded.get(g["type"], []):
            meas += X.measure(g["type"], [coords[n] for n in g["connect"][e]])
    if load == "pressure":
        return {"loaded": loaded, "zero_nodes": zero, "measure": meas, "tfac": tfac, "pressure": True, "coords": coords}
    for u, v in zip(c["unknowns"], c["values"]):
        p = poly_of(v)
        tot = F(0)
        mom = [F(0)] * 3
        for g in r["groups"]:
            for e in loaded.get(g["type"], []):
                Xe = [coords[n] for n in g["connect"][e]]
                tot += X.integral(p, g["type"], Xe)
                for a in range(3):
                    mom[a] += X.integral(X.times_coord(p, a, center[a]), g["type"], Xe)
        R[u] = tfac * tot
        M[u] = [tfac * m for m in mom]
    return {"R": R, "M": M, "zero_nodes": zero, "loaded": loaded, "measure": meas, "tfac": tfac}


def judge_closed_pressure(ctx, c, r, seen):
    """the model of Mesh.Get_normals + nodal-array integration on straight SEG2 boundaries: nhat_j =
    normalised mean of the UNIT normals of the selected segments at node j, lumped
    length a_j = half the adjacent lengths; resultant = p * t * sum_j a_j nhat_j."""
    import math
    coords = [[float.fromhex(v) for v in row] for row in r["coords"]]
    segs = [g for g in r["groups"] if g["dim"] == 1]
    av, al = {}, {}
    exact = [0.0, 0.0]
    for g in segs:
        for e in g["excl"]:
            a, b = g["connect"][e][0], g["connect"][e][1]
            tx, ty = coords[b][0] - coords[a][0], coords[b][1] - coords[a][1]
            ln = math.hypot(tx, ty)
            nvec = (ty / ln, -tx / ln)   # UNIT normal (Get_normals sums the unit normals over the Gauss points); global sign fixed below
            exact[0] += ln * nvec[0]
            exact[1] += ln * nvec[1]
            for n in (a, b):
                av.setdefault(n, []).append(nvec)
                al[n] = al.get(n, 0.0) + ln / 2
    pred = [0.0, 0.0]
    for n, vs in av.items():
        mx, my = sum(v[0] for v in vs) / len(vs), sum(v[1] for v in vs) / len(vs)
        nm = math.hypot(mx, my)
        pred[0] += al[n] * mx / nm
        pred[1] += al[n] * my / nm
    unk = r["all_unknowns"]
    R = [sum(row[unk.index(u)] for row in r["F"]) for u in ("x", "y")]
    k = float(c["magnitude"]) * float(c["thickness"])
    scale = abs(k) * sum(al.values())
    # the orientation of the boundary elements fixes the global sign (either all outward or all inward)
    err = min(max(abs(R[i] - s * k * pred[i]) for i in range(2)) for s in (1.0, -1.0))
    ctx.note_case("closed-pressure:%d-segments" % sum(len(g["excl"]) for g in segs))
    ctx.cov.setdefault("closed_pressure_resultant_over_pA", []).append([round(R[0] / scale, 6), round(R[1] / scale, 6)])
    if err > TOL * scale:
        key = "pressure:closed-boundary:nodal-normal-model"
        if key not in seen:
            seen.add(key)
            ctx.violation(key, "pressure on the whole (closed, kinked) boundary of a %d-gon: resultant %s, nodal-normal model p*t*sum_j a_j nhat_j = +/-%s (exact closed-surface value 0 is NOT expected: C09_pressure_closed_surface_refuted)"
                          % (len(c["mesh"]["points"]), R, [k * p for p in pred]), {"case": c, "resultant": R, "model": [k * p for p in pred]}, found_input=False)


REPLAY_INCLINED = r'''
import sys
import numpy as np
from corr.C09_loads import run_case
case = %(case)r
exp = %(expected)r
res = run_case(case)
if "error" in res:
    print("implementation raised:", res["error"]); sys.exit(1)
coords = np.array([[float.fromhex(v) for v in row] for row in res["coords"]]); Fv = np.array(res["F"]); unk = res["all_unknowns"]
R = [Fv[:, unk.index(u)].sum() for u in ("x", "y")]
c = np.array(exp["center"])
Mz = ((coords[:, 0] - c[0]) * Fv[:, unk.index("y")] - (coords[:, 1] - c[1]) * Fv[:, unk.index("x")]).sum() + Fv[:, unk.index("rz")].sum()
print("beam from (0,0) to", case["mesh"]["end"][:2], "line load on", case["unknowns"], ": global resultant", R, "expected", exp["R"], "; z-moment about", exp["center"][:2], "=", Mz, "expected", exp["Mz"])
tol = 1e-10 * exp["scale"]
sys.exit(1 if abs(R[0] - exp["R"][0]) > tol or abs(R[1] - exp["R"][1]) > tol or abs(Mz - exp["Mz"]) > tol * exp["lever"] else 0)
'''


def judge_inclined_beam(ctx, c, r, seen):
    """Euler-Bernoulli beam along an inclined line, line load given by GLOBAL components: the global force resultant is
    the integral of the density over the line, the z-moment (nodal moments included) the moment of the density."""
    coords = [[F(float.fromhex(v)) for v in row] for row in r["coords"]]
    cf = [[float(x) for x in row] for row in coords]
    seg = next(g for g in r["groups"] if g["dim"] == 1)
    center = [F(ctx.rng.randint(-8, 8), 4), F(ctx.rng.randint(-8, 8), 4), F(0)]
    Rex = {"x": F(0), "y": F(0)}
    Mz = F(0)
    meas = F(0)
    for u, v in zip(c["unknowns"], c["values"]):
        p = poly_of(v)
        for e in seg["excl"]:
            Xe = [coords[n] for n in seg["connect"][e]]
            Rex[u] += X.integral(p, seg["type"], Xe)
            lev = X.times_coord(p, 0 if u == "y" else 1, center[0 if u == "y" else 1])
            Mz += (1 if u == "y" else -1) * X.integral(lev, seg["type"], Xe)
    for e in seg["excl"]:
        meas += X.measure(seg["type"], [coords[n] for n in seg["connect"][e]])
    unk = r["all_unknowns"]
    Fv = r["F"]
    R = [sum(row[unk.index(u)] for row in Fv) for u in ("x", "y")]
    cc = [float(x) for x in center]
    Mzi = sum((cf[n][0] - cc[0]) * Fv[n][unk.index("y")] - (cf[n][1] - cc[1]) * Fv[n][unk.index("x")] + Fv[n][unk.index("rz")] for n in range(len(Fv)))
    cmax = max([abs(float(x)) for v in c["values"] for x in poly_of(v).values()] + [1.0])
    scale = float(meas) * cmax * 8.0
    lever = max(abs(cf[n][a] - cc[a]) for n in range(len(cf)) for a in range(2)) + 1.0
    ctx.note_case("Beam:inclined:%s:%s:%s" % (c["mesh"]["end"][:2], c["unknowns"], c.get("vkind")))
    bad = abs(R[0] - float(Rex["x"])) > TOL * scale or abs(R[1] - float(Rex["y"])) > TOL * scale or abs(Mzi - float(Mz)) > TOL * scale * lever
    if bad:
        key = "beam-lineLoad-EB-inclined:add_lineLoad"
        if key not in seen:
            seen.add(key)
            exp = {"R": [float(Rex["x"]), float(Rex["y"])], "Mz": float(Mz), "center": cc, "scale": scale, "lever": lever}
            ctx.violation(key, "Euler-Bernoulli beam from (0,0) to %s, line load on %s (%s, global components): global force resultant %s, exact %s; z-moment %.12g, exact %.12g — Simulations/_beam.add_lineLoad uses the LOCAL rows of N_e_pg as global components"
                          % (c["mesh"]["end"][:2], c["unknowns"], c.get("vkind"), R, exp["R"], Mzi, float(Mz)),
                          {"replay_py": REPLAY_INCLINED % dict(case=c, expected=exp), "case": c, "expected": exp})


def coq_select_cases(cases, results, budget=None, rng=None):
    def L(xs):
        return "[" + "; ".join(str(int(x)) for x in xs) + "]"
    body = ["From Coq Require Import List Arith Bool PeanoNat ZArith.\nFrom EFModel Require Import C09_Loads.\nImport ListNotations.\n"
            "Fixpoint list_eqb (a b : list nat) : bool := match a, b with [], [] => true | x :: a', y :: b' => Nat.eqb x y && list_eqb a' b' | _, _ => false end.\n"]
    ids = []
    k = 0
    cand = []
    for c in cases:
        r = results.get(c["id"])
        if r is None or "error" in r or not r["nodes"]:
            continue
        for gi, g in enumerate(r["groups"]):
            if g["type"] == "POINT" or len(g["connect"]) > 400 or r["Nn"] > 400:
                continue
            cand.append((c["id"], gi, len(g["connect"]) * len(g["connect"][0]) * len(r["nodes"])))
    keep = None
    if budget is not None and rng is not None:
        # quick tier: a random subset within a cost budget (unary nat arithmetic in vm_compute)
        rng.shuffle(cand)
        budget = budget * sum(cc for _, _, cc in cand)
        keep, tot = set(), 0
        for cid, gi, cost in cand:
            if tot + cost <= budget:
                keep.add((cid, gi)); tot += cost
    for c in cases:
        r = results.get(c["id"])
        if r is None or "error" in r or not r["nodes"]:
            continue
        for gi, g in enumerate(r["groups"]):
            if g["type"] == "POINT" or len(g["connect"]) > 400 or r["Nn"] > 400:
                continue
            if keep is not None and (c["id"], gi) not in keep:
                continue
            body.append("Eval vm_compute in (%d%%Z, let conn := [%s] in let sel := %s in (list_eqb (select conn sel true) %s && list_eqb (select conn sel false) %s)).\n"
                        % (5000000 + k, "; ".join(L(row) for row in g["connect"]), L(r["nodes"]), L(g["excl"]), L(g["touch"])))
            ids.append((c["id"], g["type"]))
            k += 1
    return "".join(body), ids


def _q(hexs):
    fr = F(float.fromhex(hexs))
    n, d = fr.numerator, fr.denominator
    return "((-%d)#%d)" % (-n, d) if n < 0 else "(%d#%d)" % (n, d)


def _qf(x):
    fr = F(x)
    n, d = fr.numerator, fr.denominator
    return "((-%d)#%d)" % (-n, d) if n < 0 else "(%d#%d)" % (n, d)


def run_in_coq(ctx, cases, results):
    """cases run INSIDE Coq: the rational instance of the integration model (C09_LoadsQ, sound w.r.t.
    the real-number model by load_vectorQ_sound) evaluated on the implementation's own w|J|, N and
    f(x_p) must reproduce Bc_vector_Neumann within float round-off (1e-12 of the scale)."""
    body = ["From Coq Require Import List QArith ZArith.\nFrom EFModel Require Import C09_LoadsQ.\nImport ListNotations.\nOpen Scope Q_scope.\n"]
    ids = []
    for c in cases:
        r = results.get(c["id"])
        if not c.get("expose") or r is None or "error" in r or not r.get("exposed"):
            continue
        kdim, thick = DISPATCH[(c["load"], r["dim"])]
        t = F(c["thickness"]) if thick else F(1)
        unk = r["all_unknowns"]
        used = sorted(set(n for g in r["exposed"] for row in g["connect"] for n in row))
        for ui, u in enumerate(c["unknowns"]):
            es = []
            for g in r["exposed"]:
                for e, row in enumerate(g["connect"]):
                    pts = "; ".join("mk_gptQ %s %s [%s]" % (_q(g["wJ"][e][p]), _q(g["f"][ui][e][p]), "; ".join(_q(x) for x in g["N"][p]))
                                    for p in range(len(g["wJ"][e])))
                    es.append("mk_lelemQ [%s] [%s]" % ("; ".join("%d%%nat" % n for n in row), pts))
            col = [r["F"][n][unk.index(u)] for n in used]
            scale = max([abs(x) for x in col] + [1e-300])
            k = len(ids)
            body.append("Eval vm_compute in (%d%%Z, closeQ %s (map (Qmult %s) (load_vectorQ [%s] [%s])) [%s]).\n"
                        % (6000000 + k, _qf(F(scale) * F(1, 10 ** 12)), _qf(t), ";\n ".join(es), "; ".join("%d%%nat" % n for n in used),
                           "; ".join(_qf(x) for x in col)))
            ids.append((c["id"], u))
    if not ids:
        return
    rc, o = ctx.coq_eval("incoq_cases.v", "".join(body), timeout=900)
    import re
    got = {int(m.group(1)) - 6000000: m.group(2) for m in re.finditer(r"=\s*\((6\d{6})%Z,\s*(true|false)\)", o.replace("\n", " "))}
    bad = [ids[k] for k in range(len(ids)) if got.get(k) != "true"]
    ctx.cov["cases_run_inside_coq"] = len(ids)
    ctx.obligation("corr:integration-model-in-coq", rc == 0 and not bad, "%d (case, unknown) load vectors recomputed by the rational model on the implementation's quadrature data; mismatches %s" % (len(ids), bad[:3]), n=max(len(ids), 1))
    if rc != 0 or bad:
        c = next((c for c in cases if bad and c["id"] == bad[0][0]), None)
        ctx.violation("correspondence:integration-model", "Bc_vector_Neumann differs from the Gallina integration model evaluated on the implementation's own weights, shape values and density values (%s)" % (bad[:3] or o[-300:]),
                      {"case": c, "log": o[-1500:]}, found_input=False)


def run(ctx):
    ctx.assumptions += [
        "partition of unity of the shape tables is a hypothesis of C09_resultant, discharged for the real tables by C06_partition_of_unity (property C06)",
        "exactness of the mass quadrature rule for the polynomial degrees used (density degree <= element order on affine elements) is property C07; the exact reference integrals here are computed independently in python Fractions",
        "the integration model over R is tied to the code through the conclusions of its theorems (resultant, moments, zeros) checked on the implementation; only the selection algebra is executed in Coq against the implementation",
        "elements are affine (straight-sided, generated on boxes); boundary faces are axis-aligned so that face measures are rational",
    ]
    ok_static, log = ctx.ensure_static()
    if not ok_static:
        ctx.obligation("static-lib", False, log[-1500:])
        ctx.violation("static-lib-build", "coq/lib or coq/model does not build", {"log": log[-3000:]}, found_input=False)
        return
    files = ctx.copy_props("C09/C09_theorems.v")
    # Hermite tables regenerated from ctx.repo (fail-closed translator shared with C06)
    try:
        from translator import elems as T_elems, hermite as T_herm
        from translator.pyexpr import TranslateError
        H = T_herm.read_hermite(ctx.repo, T_elems.read_elems(ctx.repo))
        open(os.path.join(ctx.build, "Gen_Hermite.v"), "w").write(T_herm.emit_coq(H))
        ctx.obligation("translate:hermite", True, "%d Hermite families" % len(H))
        files = files + ["Gen_Hermite.v"] + ctx.copy_props("C09/C09_hermite.v")
    except Exception as ex:    # TranslateError, SyntaxError, OSError
        ctx.obligation("translate:hermite", False, str(ex))
        ctx.violation("translate:hermite", "translator rejected EasyFEA/FEM/Elems/_beam.py: %s" % ex, {"construct": str(ex)}, found_input=False)
        return
    # dispatch table / einsum subscripts / rule / point-load divisor regenerated from the source
    try:
        from translator import C09_loads as T_loads
        ld = T_loads.read_loads(ctx.repo)
        open(os.path.join(ctx.build, "Gen_Loads.v"), "w").write(T_loads.emit_coq(ld))
        ctx.obligation("translate:loads", True, "dispatch table %s; einsums %s" % ({k: v for k, v in ld["table"].items()}, ld["einsums"]))
        files = files + ["Gen_Loads.v"] + ctx.copy_props("C09/C09_source.v")
    except Exception as ex:
        ctx.obligation("translate:loads", False, str(ex))
        ctx.violation("translate:loads", "translator rejected the load machinery of Simulations/_simu.py (dispatch/thickness/einsum theorems no longer apply to the source): %s" % ex,
                      {"construct": str(ex)}, found_input=False)
    res = ctx.coq(files, timeout=600)
    ctx.log("static theorems compiled")
    import re as _re
    mfam = _re.findall(r'\("(EULER_BERNOULLI\d)",\s*(true|false)\)', res.log)
    ctx.cov["hermite_load_identities_exact"] = {k: v == "true" for k, v in mfam}
    mtol = _re.findall(r'\("(EULER_BERNOULLI\d)",\s*(true|false),\s*(true|false)\)', res.log)
    ctx.cov["hermite_load_identities_residual_below_1e-13"] = {k: (a == "true" and b == "true") for k, a, b in mtol}
    if not res.ok:
        if res.failed_file == "C09_source.v":
            # keep going: the correspondence below finds the failing input
            ctx.violation("coq:C09_source", "the dispatch/thickness table or the integration tokens regenerated from Simulations/_simu.py no longer agree with the model (C09_source.v does not compile)",
                          {"log": res.log[-800:]}, found_input=False)
        else:
            ctx.violation("coq:C09_theorems", "the property theorems no longer compile", {"log": res.log[-3000:]}, found_input=False)
            return

    cases = gen_cases(ctx)
    # a few plain cases are also run inside Coq on the implementation's quadrature data
    cand = [c for c in cases if c["load"] in ("line", "surf", "volume") and c.get("vkind") in ("const", "poly") and c["simu"] != "Beam"
            and not c.get("solve_thermal_patch")
            and (ctx.tier != "quick" or c["mesh"]["elemType"] in ("TRI3", "QUAD4", "TRI6", "TETRA4", "HEXA8", "PRISM6"))]
    for c in ctx.rng.sample(cand, min(len(cand), 4 if ctx.tier == "quick" else 30)):
        c["expose"] = True
    seqs = gen_sequences(ctx, len(cases))
    rc, out, err = ctx.impl_python(CORR, input=json.dumps({"cases": cases + seqs}), timeout=1500)
    if rc != 0 or "@@C09JSON@@" not in out:
        ctx.obligation("corr:impl-run", False, (err or out)[-1500:])
        ctx.violation("corr:impl-crash", "the implementation-side load script failed: %s" % ((err.strip().splitlines() or ["rc=%d" % rc])[-1][:300]),
                      {"stderr": err[-3000:]}, found_input=False)
        return
    results = {r["id"]: r for r in json.loads(out.split("@@C09JSON@@")[1])["cases"]}
    ctx.log("implementation runs done")
    ctx.obligation("corr:impl-run", True, "%d load cases, %d load sequences" % (len(cases), len(seqs)))
    judge_sequences(ctx, seqs, results)
    ctx.log("sequences judged")
    run_in_coq(ctx, cases, results)
    ctx.log("in-Coq cases done")

    # ---- selection algebra: Gallina model vs Get_Elements_Nodes ----
    import random as _random
    body, ids = coq_select_cases(cases, results, budget=(0.12 if ctx.tier == "quick" else None), rng=_random.Random(ctx.seed + 9))
    rc, o = ctx.coq_eval("select_cases.v", body, timeout=900)
    ctx.log("selection model evaluated")
    import re
    got = {int(m.group(1)) - 5000000: m.group(2) for m in re.finditer(r"=\s*\((5\d{6})%Z,\s*(true|false)\)", o.replace("\n", " "))}
    badsel = [ids[k] for k in range(len(ids)) if got.get(k) != "true"]
    ctx.obligation("corr:selection-model-vs-Get_Elements_Nodes", rc == 0 and not badsel, "%d (case, group) selections; mismatches %s" % (len(ids), badsel[:3]), n=max(len(ids), 1))
    ctx.cov["selection_cases"] = len(ids)
    if rc != 0 or badsel:
        cid = badsel[0][0] if badsel else None
        c = next((c for c in cases if c["id"] == cid), None)
        ctx.violation("correspondence:selection", "Get_Elements_Nodes disagrees with the Gallina selection model on %s" % (badsel[:3] or o[-300:]),
                      {"case": c, "log": o[-1500:]}, found_input=False)

    # ---- resultants and moments ----
    seen = set()
    dist = {}
    worst = 0.0
    pressure_signs = set()
    for c in cases:
        r = results.get(c["id"])
        tag = "%s:%s:%s:%s" % (c["simu"], c["load"], c["mesh"]["elemType"], c.get("vkind", "const"))
        if r is not None and "error" in r and "groups" in r and c["load"] != "point" and (c["load"], r["dim"]) in DISPATCH \
                and not any(g["excl"] for g in r["groups"] if g["dim"] == DISPATCH[(c["load"], r["dim"])][0]):
            key = "no-loaded-element:raises-%s" % r["error"].split(":")[0]
            if key not in seen:
                seen.add(key)
                ctx.violation(key, "%s %s load on a node set that contains no complete element of dimension %d should contribute nothing but raises %s"
                              % (c["simu"], c["load"], DISPATCH[(c["load"], r["dim"])][0], r["error"]),
                              {"case": c, "traceback": r.get("traceback"), "proposed_fix": "proposed_fixes/C09-nodal-array-interpolation.diff",
                               "replay_py": REPLAY % dict(case=c, expected={"R": {}, "M": {}, "center": [0, 0, 0], "scale": 1, "zero_nodes": []}, tol=TOL)})
            continue
        if r is None or "error" in r:
            key = "impl-raises:%s" % tag
            if key not in seen:
                seen.add(key)
                ctx.violation(key, "%s raises: %s" % (tag, (r or {}).get("error")), {"case": c, "traceback": (r or {}).get("traceback"),
                              "replay_py": REPLAY % dict(case=c, expected={"R": {}, "M": {}, "center": [0, 0, 0], "scale": 1, "zero_nodes": []}, tol=TOL)})
            continue
        if r.get("empty"):
            ctx.note_case(None)
            continue
        if c.get("closed_pressure"):
            judge_closed_pressure(ctx, c, r, seen)
            continue
        if c.get("inclined_beam"):
            judge_inclined_beam(ctx, c, r, seen)
            continue
        center = [F(ctx.rng.randint(-8, 8), 4) for _ in range(3)]
        try:
            ex = expected_for(c, r, center)
        except ValueError as e:
            ctx.note_case(None)
            ctx.cov.setdefault("skipped_non_axis_aligned", 0)
            ctx.cov["skipped_non_axis_aligned"] += 1
            continue
        coordsf = [[float.fromhex(v) for v in row] for row in r["coords"]]
        Fv = r["F"]
        unk = r["all_unknowns"]
        cf = [float(x) for x in center]
        nloaded = sum(len(v) for v in ex["loaded"].values())
        dist[tag] = dist.get(tag, 0) + 1
        ctx.note_case(tag + ":%d" % min(nloaded, 3) if (nloaded or c["load"] == "point") else None)
        problems = []
        if ex.get("pressure"):
            # resultant = s * p * area * t * n, n = axis normal of the selected face
            ax = c["selection"]["axis"]
            mag = float(c["magnitude"]) * float(ex["measure"]) * float(ex["tfac"])
            Rv = [sum(row[unk.index(u)] for row in Fv) if u in unk else 0.0 for u in ["x", "y", "z"][:r["inDim"]]]
            scale = abs(mag) + 1e-300
            tang = max(abs(v) for a, v in enumerate(Rv) if a != ax) if len(Rv) > 1 else 0.0
            outward = 1.0 if c["selection"]["value"] > 0 else -1.0
            s = Rv[ax] / (mag * outward)
            pressure_signs.add(round(s, 9))
            ctx.cov.setdefault("pressure_sign_by_case", {})["%s:axis%d" % (c["mesh"]["elemType"] + ("" if c["mesh"].get("organised") else "-unorganised"), ax)] = round(s, 6)
            if abs(abs(Rv[ax]) - abs(mag)) > TOL * scale or tang > TOL * scale:
                problems.append(("pressure-resultant", "resultant %s, expected magnitude %g along axis %d" % (Rv, mag, ax)))
            exp_json = {"R": {}, "M": {}, "center": cf, "scale": scale, "zero_nodes": ex["zero_nodes"], "pressure": {"axis": ax, "mag": mag}}
        else:
            mscale = float(ex["measure"]) * float(ex.get("tfac", 1)) if not ex.get("pernode") else 1.0
            cmax = max([abs(float(cc)) for v in c["values"] for cc in poly_of(v).values()] + [1.0])
            scale = max(mscale * cmax * 8.0, 1e-12)
            exp_json = {"R": {u: float(v) for u, v in ex["R"].items()}, "M": {u: [float(m) for m in ms] for u, ms in ex["M"].items()},
                        "center": cf, "scale": scale, "zero_nodes": ex["zero_nodes"]}
            for u in c["unknowns"]:
                col = [row[unk.index(u)] for row in Fv]
                Ri = sum(col)
                Mi = [sum((coordsf[n][a] - cf[a]) * col[n] for n in range(len(col))) for a in range(3)]
                if c["simu"] == "Beam" and u == "y" and "rz" in unk:
                    # Hermitian load vector: nodal moments are part of the first moment about z
                    Mi[0] += sum(row[unk.index("rz")] for row in Fv)
                if c["simu"] == "Beam" and u == "z" and "ry" in unk:
                    # w' = -theta_y: nodal moments about y enter with the opposite sign
                    Mi[0] -= sum(row[unk.index("ry")] for row in Fv)
                dR = abs(Ri - float(ex["R"][u])) / scale
                dM = max(abs(Mi[a] - float(ex["M"][u][a])) for a in range(3)) / scale
                worst = max(worst, min(dR, 1.0), min(dM, 1.0)) if max(dR, dM) <= TOL else worst
                if dR > TOL:
                    problems.append(("resultant", "unknown %s: sum of nodal forces %.12g, exact integral %.12g" % (u, Ri, float(ex["R"][u]))))
                if dM > TOL:
                    problems.append(("moment", "unknown %s: first moments about %s: %s, exact %s" % (u, cf, Mi, [float(m) for m in ex["M"][u]])))
            # other dof columns untouched
            for u in unk:
                if u not in c["unknowns"] and not (c["simu"] == "Beam" and ((u == "rz" and "y" in c["unknowns"]) or (u == "ry" and "z" in c["unknowns"]))) and any(row[unk.index(u)] != 0 for row in Fv):
                    problems.append(("other-dof", "a load on %s put forces on dof %s" % (c["unknowns"], u)))
        nz = [n for n in ex["zero_nodes"] if any(v != 0 for v in Fv[n])]
        if nz and c["simu"] != "Beam":
            problems.append(("outside-loaded-elements", "nodes %s outside every loaded element carry a force" % nz[:5]))
        if c.get("solve_thermal_patch"):
            Texp = 5.0 * 2 / 2.0
            exp_json["T_expected"] = Texp
            if any(abs(t - Texp) > 1e-8 * Texp for t in r.get("T_at_L", [])):
                key = "thermal-2D:thickness-missing-in-K"
                ctx.violation(key, "2-D thermal patch, thickness 3: flux q=5 on x=L, T=0 on x=0, k=2: T(L) = %s, exact q L / k = %g — the load carries the thickness, the conductivity matrix does not (self.dim is the model dimension in Simulations/_thermal.py)" % (r["T_at_L"][:2], Texp),
                              {"replay_py": REPLAY % dict(case=c, expected=exp_json, tol=TOL), "case": c, "proposed_fix": "proposed_fixes/C09-thermal-2d-thickness.diff"})
        for kind, msg in problems:
            vk = c.get("vkind", "const")
            if vk == "nodal" and kind == "moment":
                key = "moment:nodal-array:%s:%s:%s" % (c["simu"], c["load"], c["mesh"]["elemType"])
            else:
                key = "%s:%s:%s:%s:%s" % (kind, c["simu"], c["load"], c["mesh"]["elemType"], vk)
            if key in seen:
                continue
            seen.add(key)
            ctx.violation(key, "%s %s load on %s (%s, thickness %s, selection %s, %d loaded elements): %s"
                          % (c["simu"], c["load"], c["mesh"]["elemType"], vk, c.get("thickness"), c["selection"]["type"], nloaded, msg),
                          {"replay_py": REPLAY % dict(case=c, expected=exp_json, tol=TOL), "case": c, "expected": exp_json,
                           **({"model_witness": "C09_moment_nodal_written_refuted", "proposed_fix": "proposed_fixes/C09-nodal-array-interpolation.diff"} if key.startswith("moment:nodal") and c["mesh"]["elemType"] not in ("TETRA10", "HEXA20", "HEXA27", "PRISM15", "PRISM18") else {})})
        if len(ctx.samples) < 4 and nloaded and not problems and not ex.get("pressure"):
            ctx.sample({"case": tag, "selection": c["selection"]["type"], "loaded_elements": nloaded, "expected_R": exp_json["R"], "thickness": c.get("thickness")})
    ctx.cov.update({"load_cases": len(cases), "case_distribution": dist, "pressure_sign_factor_vs_outward_normal": sorted(pressure_signs),
                    "max_relative_error_of_passing_cases": worst})
    ctx.obligation("corr:resultants-and-moments", not seen, "%d cases; violation keys: %s" % (len(cases), sorted(seen)[:6]), n=max(len(cases), 1))
