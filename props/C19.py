"""C19 — history-dependent material integration is admissible, dissipative and consistent;
Integrate is pure (partial).

1. translate _spectral._Phi / Solve, Yield P matrices, and "who writes the committed state" from
   ctx.repo (ast, fail-closed) -> Gen_C19.v
2. compile Gen_C19.v + coq/props/C19/C19_main.v: the translated formulas ARE the hand-written model
   (coq/model/C19_Return1D.v), and the model theorems (theta/dGamma >= 0 for every iteration count,
   p monotone over all histories, phi decreasing, dphi its derivative, converged => on the surface,
   idle points return the trial stress, dissipation = dGamma*phi >= 0, von Mises/Hill flow
   deviatoric, elastic exactness, commit only on save)
3. correspondence on the implementation: generated behaviors x strain paths, the property
   predicates evaluated on Integrate's output; spectral return vs the executable fixed-point
   instance of the Coq model; Simulations.InElastic committed state bitwise around Solve/Save_Iter
4. search + replay: every violation carries the concrete case and a snippet that re-runs it.
"""
import json
import os
from fractions import Fraction as F

from corr import C19_eval as EV
from corr import C19_gen as G
from translator import C19_inelastic as T
from vlib import common

HARNESS = os.path.join(common.VERIF, "corr", "C19_impl.py")

REPLAY = r'''
import json, sys, subprocess, os
case = json.loads(%(case)r)
kind = %(kind)r
section = %(section)r
from corr import C19_eval as EV
env = dict(os.environ)
payload = {"cases": [case["base"], case["scaled"]]} if section == "units" else {section: [case]}
p = subprocess.run([sys.executable, %(harness)r], input=json.dumps(payload), capture_output=True, text=True, env=env)
if p.returncode != 0:
    print("harness failed:", p.stderr[-800:]); sys.exit(1 if kind in ("harness-error", "sim-error") else 2)
res = json.loads(p.stdout.rsplit('@@C19JSON@@', 1)[1])
if section == "units":
    V = EV.evaluate_units(case["base"], res["cases"][0], case["scaled"], res["cases"][1])
    case = case["scaled"]
elif section == "cases":
    V = EV.evaluate(case, res["cases"][0])
elif section == "batches":
    V = EV.evaluate_batch(case, res["batch"][0])
elif section == "memo_cases":
    V = EV.evaluate_memo(case, res["memo"][0])
else:
    V = EV.evaluate_sim(case, res["sim"][0])
hit = [v for v in V if v[0] == kind]
print("configuration:", {k: case.get(k) for k in ("mode", "elastic", "yield", "hardening", "kinematic", "rate", "branches", "dt", "solver")})
for v in V[:10]:
    print("observed:", v)
print("expected: no", kind)
sys.exit(1 if hit else 0)
'''

EXPECTED_SIM_WRITERS = {
    "__init__": ["self.__z", "self.__zOld"],
    "__Get_state": ["self.__zOld[]"],
    "Construct_local_matrix_system": ["self.__z[]"],
    "Save_Iter": ["self.__zOld"],
    "Set_Iter": ["self.__z", "self.__zOld"],
}
WORK_ARRAYS = {"J_e_pg", "D_e_pg", "r_e_pg", "u_e_pg"}   # local work arrays of __Flow, written in place by design


def chunks(lst, n):
    k = max(1, (len(lst) + n - 1) // n)
    return [lst[i:i + k] for i in range(0, len(lst), k)]


def run_harness(ctx, req, timeout=1500):
    """Runs the harness, splitting material cases over a few processes."""
    import concurrent.futures as cf
    parts = []
    cs = req.get("cases", [])
    nproc = int(os.environ.get("C19_NPROC", "4" if ctx.tier == "quick" else "8"))
    for ch in chunks(cs, nproc) if cs else []:
        parts.append({"cases": ch})
    rest = {k: v for k, v in req.items() if k not in ("cases", "batches") and v}
    if rest:
        parts.append(rest)
    if req.get("batches"):
        for ch in chunks(req["batches"], 2):
            parts.append({"batches": ch})
    out = {"cases": [], "spectral": [], "sim": [], "batch": [], "memo": []}
    errs = []

    def one(part):
        return ctx.impl_python(HARNESS, input=json.dumps(part), timeout=timeout)
    with cf.ThreadPoolExecutor(max_workers=nproc + 1) as ex:
        for part, (rc, so, se) in zip(parts, ex.map(one, parts)):
            if rc != 0:
                errs.append(se[-1500:])
                continue
            r = json.loads(so.rsplit("@@C19JSON@@", 1)[1]) if "@@C19JSON@@" in so else None
            if r is None:
                errs.append("no result marker in harness output: " + so[-500:] + se[-500:])
                continue
            for k in out:
                out[k] += r.get(k, [])
    return out, errs


def replay_for(case, kind, section="cases"):
    c = {k: v for k, v in case.items()}
    return {"replay_py": REPLAY % dict(case=json.dumps(c), kind=kind, section=section, harness=HARNESS),
            "case_id": case.get("id"), "kind": kind}


# ---------------------------------------------------------------------------------------------
def static_part(ctx):
    """translate + structural obligations + Coq.  Returns (Ttree or None, proofs_ok)."""
    try:
        Tr = T.read_all(ctx.repo)
        gen = T.emit_coq(Tr)
    except (T.TranslateError, SyntaxError, OSError, KeyError, IndexError, AttributeError) as ex:
        ctx.obligation("translate", False, str(ex))
        ctx.violation("translate", "translator rejected the source: %s" % ex, {"construct": str(ex)}, found_input=False)
        return None, False
    ctx.obligation("translate", True, "_Phi, Solve (with/without rate law), plane-stress loop, VonMises/Hill P, state writers")
    open(os.path.join(ctx.build, "Gen_C19.v"), "w").write(gen)
    ctx.sample({"generated": [l for l in gen.splitlines() if l.startswith("Definition gen_theta_next_norate")][0][:400]})
    # --- who writes the committed state (ties C19_Commit.v's `exec` to the class) ---
    W = Tr["writers"]["sim"]
    inits = Tr["writers"]["initialisers"]
    # a method whose only stores are `self.__z = {}` and `self.__zOld = {}` is an initialiser (the
    # model's ResetMesh / fresh): any number of them, under any name; everything else by role
    W_core = {m: w for m, w in W.items() if m == "__init__" or m not in inits}
    okw = (W_core == EXPECTED_SIM_WRITERS) and "__init__" in inits
    ctx.obligation("struct:committed-state-writers", okw,
                   "methods of Simulations.InElastic storing into __z/__zOld: %s; initialisers (both dicts emptied): %s" % (json.dumps(W), inits))
    ctx.obligation("struct:solve-receives-the-yield-stress", True, "_spectral.Solve's sigma_y is YieldSurface.%s, which %s fill with the parameter their yield function subtracts" % (Tr["scale"]["field"], Tr["scale"]["surfaces"]))
    ctx.cov["state_initialisers"] = inits
    ctx.cov["accepted_memo_properties"] = Tr["writers"]["memos"]
    for m, info in Tr["writers"]["memos"].items():
        ctx.obligation("struct:memo:" + m, True, "Behavior.%s writes only %s = (key, value), key = `%s` compared (np.array_equal) with its current value before reuse; attribute touched nowhere else" % (m, info["attr"], info["key"]))
    bad_args = [b for b in Tr["arg_stores"] if not any((" " + w) in b and b.rstrip().endswith(w) for w in WORK_ARRAYS)]
    ctx.obligation("struct:integrate-stores-into-no-argument", not bad_args, "; ".join(bad_args) or "no Behavior method stores into an argument it did not copy (work arrays of __Flow excepted)")
    selfw = {m: w for m, w in Tr["writers"]["behavior"].items() if any(x.startswith("self.") for x in w)}
    ctx.obligation("struct:integrate-writes-no-attribute", not selfw, json.dumps(selfw) if selfw else "no Behavior method other than __init__ assigns an attribute of self")
    ctx.obligation("struct:DruckerPrager-not-quadratic", not Tr["yield"]["dp_has_P"], "DruckerPrager declares no quadratic form P (never takes the spectral path)")
    struct_ok = okw and not bad_args and not selfw
    ctx.copy_props("C19/C19_main.v", "C19/C19_flag.v")
    res = ctx.coq(["Gen_C19.v", "C19_main.v"], timeout=600)
    flag = ctx.coq(["C19_flag.v"], timeout=300) if res.ok else None
    ctx.cov["spectral_converged_flag"] = Tr["flag"]["kind"]
    ctx.sample({"theorem": "C19_theta_nonneg : forall Rh dRh rate dt sy tol maxIter pts, Forall (fun q => 0 <= st_th q) (solve Rops Rh dRh rate dt sy tol maxIter pts)",
                "proof": "induction on the iteration budget with the invariant (active flag frozen, theta >= 0, idle => theta = 0); tie to source: gen_update_match_norate/rate by reflexivity on the regenerated Gen_C19.v"})
    return Tr, (res, struct_ok, okw, bad_args, selfw, flag)


# ---------------------------------------------------------------------------------------------
def z_of(x, scale):
    return (F(x) * scale).__floor__()


def spectral_vs_model(ctx, spec_cases, spec_res):
    """Implementation's _spectral.Solve vs zsolve_linear (30-digit fixed point), 1e-9 relative."""
    S = 10 ** 30
    lines = ["From EFModel Require Import C19_Return1D.", "From Coq Require Import ZArith List.", "Import ListNotations.", "Open Scope Z_scope."]
    idx = []
    for c, r in zip(spec_cases, spec_res):
        if r.get("error"):
            ctx.obligation("corr:spectral:" + c["id"], False, r["error"][-300:])
            continue
        H = c["hardening"]["H"]
        sy = c["yield"]["sigma_y"]
        pts = []
        for it, pr in zip(c["points"], r["points"]):
            pairs = "; ".join("(%d, %d)" % (z_of(l, S), z_of(y, S)) for l, y in zip(pr["lam"], pr["y"]))
            pts.append("mkPoint [%s] (%d)" % (pairs, z_of(it["pOld"], S)))
        name = "r_%d" % len(idx)
        lines.append("Definition %s := zsolve_linear (%d) (%d) (%d) 20 [%s]." % (name, z_of(H, S), z_of(sy, S), z_of(1e-10, S), "; ".join(pts)))
        lines.append("Eval vm_compute in %s." % name)
        idx.append((c, r))
    if not idx:
        return
    rc, out = ctx.coq_eval("C19_cases.v", "\n".join(lines) + "\n", timeout=900)
    if rc != 0:
        ctx.obligation("corr:spectral-model-eval", False, out[-1200:])
        ctx.violation("corr:model-eval", "the executable model did not evaluate", {"log": out[-2000:]}, found_input=False)
        return
    import re
    blocks = re.split(r"\n\s*:\s*list \(Z \* Z \* Z \* list Z\)", out)
    vals = []
    for b in blocks:
        if "=" not in b:
            continue
        txt = b[b.index("=") + 1:]
        nums = [int(x) for x in re.findall(r"-?\d+", txt)]
        vals.append(nums)
    mism = []
    ncmp = 0
    for (c, r), nums in zip(idx, vals):
        per = 3 + 6
        if len(nums) != per * len(r["points"]):
            mism.append((c["id"], "cannot parse model output (%d numbers)" % len(nums)))
            continue
        for j, pr in enumerate(r["points"]):
            m = nums[j * per:(j + 1) * per]
            th, ph, dg = (m[0] / S, m[1] / S, m[2] / S)
            se = [x / S for x in m[3:]]
            ncmp += 1
            ref = max(abs(pr["phi0"]), c["yield"]["sigma_y"])
            # theta is dimension 1/stress: compare theta*phi0 (= dGamma scale), phi, dGamma, eigen-stress
            checks = [("theta*phi0", th * pr["phi0"], pr["theta"] * pr["phi0"], max(c["eps_y"], abs(pr["theta"] * pr["phi0"]))),
                      ("phi", ph, pr["phi"], ref), ("dGamma", dg, pr["dGamma"], max(c["eps_y"], abs(pr["dGamma"])))]
            ny = max(max(abs(v) for v in pr["sig_eig"]), 1e-6 * c["yield"]["sigma_y"])
            checks += [("sig_eig[%d]" % k, a, b, ny) for k, (a, b) in enumerate(zip(se, pr["sig_eig"]))]
            for nm, mv_, iv, scale in checks:
                if abs(mv_ - iv) > 1e-9 * scale:
                    mism.append((c["id"], "point %d %s: model %.15g impl %.15g" % (j, nm, mv_, iv)))
            ctx.note_case("%s:%d:%s" % (c["id"], j, "plastic" if pr["active"] else "elastic") if pr["active"] else None)
    ctx.cov["spectral_points_vs_model"] = ncmp
    ctx.obligation("corr:spectral-return-vs-fixed-point-model", not mism, "; ".join("%s %s" % m for m in mism[:4]) or "%d points within 1e-9" % ncmp)
    if idx:
        c, r = idx[0]
        ctx.sample({"spectral_case": c["id"], "impl_theta": r["points"][-1]["theta"], "impl_phi": r["points"][-1]["phi"], "model": vals[0][-9:-6] if vals else None})
    if mism:
        c = [c for c, _ in idx if c["id"] == mism[0][0]][0]
        ctx.violation("corr:spectral-vs-model:" + c["id"].split("-", 1)[1], "the eigenspace return disagrees with the executable Coq model: %s %s" % mism[0],
                      {"mismatches": ["%s %s" % m for m in mism[:20]], "case": c}, found_input=False)


# ---------------------------------------------------------------------------------------------
def run(ctx):
    ctx.assumptions += [
        "coq/model/C19_Return1D.v transcribes _spectral._Phi/Solve (checked: Gen_C19.v regenerated from the source equals the model by reflexivity in C19_main.v)",
        "theorems are over exact real arithmetic; IEEE rounding, numpy/LAPACK (eigh, solve) are not modelled",
        "the 6D <-> eigenspace change of basis (T, Ti from np.linalg.eigh) is trusted; it is exercised by the correspondence (stress/state consistency, yield function evaluated in 6D on the output)",
        "Behavior.__Flow (general Newton), plane-stress iteration and both tangents are covered by correspondence only",
        "Integrate modelled as a function; absence of side effects checked bitwise on every harness call and syntactically (no store into arguments / attributes)",
    ]
    ok_static, log = ctx.ensure_static()
    if not ok_static:
        ctx.obligation("static-lib", False, log[-1500:])
        ctx.violation("static-lib-build", "coq/lib or coq/model does not build", {"log": log[-3000:]}, found_input=False)
        return
    # ------------------------------ correspondence -------------------------------------------
    rng = ctx.rng
    quick = ctx.tier == "quick"
    cases = G.corpus() + G.make_cases(rng, 36 if quick else 220, 10 if quick else 14, 2 if quick else 3)
    cases += G.make_adversarial(rng, 9 if quick else 30)
    spec = G.make_spectral(rng, 6 if quick else 24)
    sims = G.make_sims(rng, 2 if quick else 6)
    batches = G.make_batches(rng, 24 if quick else 96)
    memos = G.make_memo_cases(rng, 8 if quick else 30)
    unit_groups = G.make_unit_cases(rng, 7 if quick else 30)
    for grp in unit_groups:
        cases += grp
    # the implementation-side harness runs while Coq compiles (they do not depend on each other)
    import threading
    box = {}

    def _bg():
        try:
            box["r"] = run_harness(ctx, {"cases": cases, "spectral": spec, "sim_cases": sims, "batches": batches, "memo_cases": memos})
        except Exception:
            import traceback
            box["r"] = ({"cases": [], "spectral": [], "sim": [], "batch": [], "memo": []}, [traceback.format_exc()[-1500:]])
    th = threading.Thread(target=_bg)
    th.start()
    Tr, st = static_part(ctx)
    proofs_ok = False
    if Tr is not None:
        res, struct_ok, okw, bad_args, selfw, flag = st
        proofs_ok = res.ok and struct_ok

    th.join()
    out, errs = box["r"]
    if errs:
        ctx.obligation("corr:harness", False, errs[0])
        ctx.violation("corr:harness-crash", "the implementation-side harness failed: " + errs[0].strip().splitlines()[-1][:200], {"stderr": errs[0]}, found_input=False)
    byid = {r["id"]: r for r in out["cases"]}
    dist = {}
    found = {}       # key -> (what, replay)
    nsteps = nconv = nplastic = 0
    margins = {"f": 0.0, "fd": 0.0, "solver": 0.0}
    for c in cases:
        r = byid.get(c["id"])
        if r is None:
            continue
        for k, lvl in zip(("yield", "hardening", "kinematic", "rate", "branches", "mode", "elastic"), c["combo"]):
            dist["%s=%s" % (k, lvl)] = dist.get("%s=%s" % (k, lvl), 0) + 1
        dist["path=" + c["path_kind"]] = dist.get("path=" + c["path_kind"], 0) + 1
        V = EV.evaluate(c, r)
        sy = EV.sy_of(c)
        for s in r.get("steps", []):
            nsteps += 1
            if s.get("ok"):
                nconv += 1
                pl = s.get("dp", 0) > 0
                nplastic += pl
                ctx.note_case("%s:%d" % (c["id"], s["k"]) if (pl or "f" not in s) else None)
                if "f" in s and not c.get("rate") and (c.get("hardening") or {}).get("kind") != "Softening":
                    margins["f"] = max(margins["f"], s["f"] / max(sy, 1))
                if s.get("fd") and "err" in s["fd"] and s["fd"]["same_branch"]:
                    margins["fd"] = max(margins["fd"], s["fd"]["err"] / s["fd"]["norm"])
                if s.get("solver") and "dsig" in s["solver"]:
                    margins["solver"] = max(margins["solver"], s["solver"]["dsig"] / max(s["solver"]["nsig"], sy))
            else:
                ctx.note_case(None)
        for kind, k, detail in V:
            key = "%s:%s" % (kind, EV.sig_key(c))
            if kind == "solvers-disagree" or kind == "solvers-disagree-tangent":
                key = "%s:%s" % (kind, "/".join(str(x) for x in (c["combo"][0], c["combo"][3])))
            if kind == "tangent-vs-fd":
                if c["combo"][2] != "none" and c["combo"][4]:
                    key = "tangent-vs-fd:kinematic+branches"
                else:
                    key = "%s:%s" % (kind, "/".join(str(x) for x in (c["combo"][0], "kin" if c["combo"][2] != "none" else "nokin", c["combo"][3], "branches" if c["combo"][4] else "nobranch", c["combo"][5])))
            if key not in found:
                short = dict(c)
                short["path"] = c["path"][:k + 1] if k >= 0 else c["path"]
                short["fd_steps"] = [x for x in c.get("fd_steps", []) if x <= k]
                found[key] = ("%s at step %d of %s: %s" % (kind, k, c["id"], detail), replay_for(short, kind))
    # batched fields: the result of a batch is the results of its points
    bres = {r["id"]: r for r in out["batch"]}
    nbp = 0
    bdist = {}
    for c in batches:
        r = bres.get(c["id"])
        if r is None:
            continue
        bdist["%s/%s" % (c["mode"], c["field_kind"])] = bdist.get("%s/%s" % (c["mode"], c["field_kind"]), 0) + 1
        for rec in r.get("calls", []):
            for pr in rec.get("points", []):
                nbp += 1
                ctx.note_case("%s:%d:%d:%d" % (c["id"], rec["call"], pr["e"], pr["g"]) if pr.get("nsig", 0) > 0 else None)
        for kind, k, detail in EV.evaluate_batch(c, r):
            fam = "/".join(str(x) for x in (c["combo"][0], "kin" if c["combo"][2] != "none" else "nokin", c["combo"][3], "branches" if c["combo"][4] else "nobranch", c["combo"][5]))
            key = "%s:batched:%s" % (kind, fam)
            if key not in found:
                short = dict(c)
                short["fields"] = c["fields"][:k + 1] if k >= 0 else c["fields"]
                found[key] = ("%s in batched field %s: %s" % (kind, c["id"], detail), replay_for(short, kind, "batches"))
    # unit invariance: the same material and path with all stresses scaled
    nunit = 0
    for grp in unit_groups:
        cb = grp[0]
        rb = byid.get(cb["id"])
        for cs in grp[1:]:
            rs = byid.get(cs["id"])
            if rb is None or rs is None:
                continue
            nunit += 1
            for kind, k, detail in EV.evaluate_units(cb, rb, cs, rs):
                key = "%s:%s" % (kind, "/".join(str(x) for x in (cb["combo"][0], cb["combo"][3], cb["combo"][5], "spectral" if rs.get("reducible") else "newton", ("time x%g" % cs["time_scale"]) if cs.get("time_scale") else ("sy<1" if EV.sy_of(cs) < 1 else "sy>=1"))))
                if key not in found:
                    short_b, short_s = dict(cb), dict(cs)
                    if k >= 0:
                        short_b["path"], short_s["path"] = cb["path"][:k + 1], cs["path"][:k + 1]
                    short_b["compare_solver"] = short_s["compare_solver"] = False
                    found[key] = ("%s in %s: %s" % (kind, cs["id"], detail), replay_for({"base": short_b, "scaled": short_s, "id": cs["id"]}, kind, "units"))
    ctx.cov["unit_scaled_pairs"] = nunit
    for pred in ["not-unit-invariant", "units-change-convergence", "units-change-outcome"]:
        bad = [k for k in found if k.split(":")[0] == pred]
        ctx.obligation("corr:" + pred, not bad, "; ".join(found[b][0][:200] for b in bad[:3]) or "held on %d (base, scaled) pairs, scales %s" % (nunit, G.UNIT_SCALES))
    # a memoised decomposition must follow a change of the elastic parameters
    mres = {r["id"]: r for r in out["memo"]}
    nmemo = 0
    for c in memos:
        r = mres.get(c["id"])
        if r is None:
            continue
        nmemo += 1
        ctx.note_case(c["id"] if r.get("nontrivial") else None)
        for kind, k, detail in EV.evaluate_memo(c, r):
            key = "%s:%s" % (kind, "spectral" if r.get("reducible") else "newton")
            if key not in found:
                found[key] = ("%s in %s: %s" % (kind, c["id"], detail), replay_for(c, kind, "memo_cases"))
    for pred in ["stale-after-law-change", "eigen-decomposition-inconsistent"]:
        badp = [k for k in found if k.split(":")[0] == pred]
        ctx.obligation("corr:" + pred, not badp, "; ".join(found[b_][0][:200] for b_ in badp[:3]) or "held on %d law changes / every reducible behaviour" % nmemo)
    bad = [k for k in found if k.split(":")[0] == "stale-after-parameter-change"]
    ctx.obligation("corr:stale-after-parameter-change", not bad, "; ".join(found[b][0][:200] for b in bad[:3]) or "held bitwise on %d behaviors whose (E, v) were changed between calls" % nmemo)
    ctx.cov["batched_points"] = nbp
    ctx.cov["batched_field_distribution"] = bdist
    for pred in ["batch-differs-from-pointwise", "not-odd-without-internal-variables"]:
        bad = [k for k in found if k.split(":")[0] == pred]
        ctx.obligation("corr:" + pred, not bad, "; ".join(found[b][0][:200] for b in bad[:3]) or "held on %d batched points" % nbp)
    ctx.cov["input_distribution"] = dist
    ctx.cov["integrate_steps"] = nsteps
    ctx.cov["steps_reported_converged"] = nconv
    ctx.cov["plastic_steps"] = nplastic
    ctx.cov["largest_observed_over_tolerance_scale"] = margins
    kinds = sorted(set(k.split(":")[0] for k in found))
    for pred in ["idle-point-flows", "gauss-points-not-independent", "inadmissible", "dgamma-negative", "plastic-strain-not-traceless", "dissipation-negative", "flow-rule", "stress-state-inconsistent",
                 "tangent-vs-fd", "solvers-disagree", "solvers-disagree-tangent", "plane-stress-szz", "elastic-not-C-eps", "elastic-tangent-not-C",
                 "integrate-writes-its-arguments", "integrate-not-a-function", "non-finite-output", "elastic-step-not-trial", "constructor-rejects", "harness-error"]:
        bad = [k for k in found if k.split(":")[0] == pred]
        ctx.obligation("corr:" + pred, not bad, "; ".join(found[b][0][:160] for b in bad[:3]) or "held on %d converged steps (%d plastic)" % (nconv, nplastic))
    perkind = {}
    for key, (what, rep) in found.items():
        kd = key.split(":")[0]
        perkind[kd] = perkind.get(kd, 0) + 1
        if perkind[kd] <= 6:       # at most 6 configuration families per predicate are reported per run
            ctx.violation(key, what, rep, found_input=True)
    ctx.cov["violating_families_per_predicate"] = perkind
    if cases:
        c0 = cases[0]
        r0 = byid.get(c0["id"], {})
        ctx.sample({"case": c0["id"], "config": {k: c0.get(k) for k in ("mode", "elastic", "yield", "hardening", "kinematic", "rate", "branches", "dt")},
                    "first_steps": [{k: s.get(k) for k in ("k", "ok", "f", "dp", "tr_dep", "diss")} for s in r0.get("steps", [])[:3]]})

    # spectral return vs executable model
    sres = {r["id"]: r for r in out["spectral"]}
    spectral_vs_model(ctx, [c for c in spec if c["id"] in sres], [sres[c["id"]] for c in spec if c["id"] in sres])

    # simulation state machine
    simres = {r["id"]: r for r in out["sim"]}
    nev = 0
    for c in sims:
        r = simres.get(c["id"])
        if r is None:
            continue
        V = EV.evaluate_sim(c, r)
        nev += len(r.get("events", []))
        for ev in r.get("events", []):
            ctx.note_case("%s:%s" % (c["id"], json.dumps(ev["op"])) if ev.get("pmax_trial", 0) > 0 else None)
        for kind, k, detail in V:
            key = "%s:%s" % (kind, c["mode"])
            if kind == "sim-error":
                # a global Newton that does not converge is not a C19 matter; anything else is
                if "did not converge" in detail or "did not converged" in detail or "reduce the load step" in detail:
                    ctx.cov["sim_runs_stopped_by_nonconvergence"] = ctx.cov.get("sim_runs_stopped_by_nonconvergence", 0) + 1
                    continue
            short = dict(c)
            short["ops"] = c["ops"][:k + 1] if k >= 0 else c["ops"]
            ctx.violation(key, "%s at op %d of %s: %s" % (kind, k, c["id"], detail), replay_for(short, kind, "sim_cases"), found_input=True)
            found[key] = (detail, None)
    ctx.cov["simulation_events"] = nev
    for pred in ["mesh-replacement-keeps-history", "committed-state-changed-without-save", "save-does-not-commit-trial", "set-iter-does-not-restore", "set-iter-leaves-stale-trial", "saved-history-mutated", "saved-history-differs", "sim-error"]:
        bad = [k for k in found if k.split(":")[0] == pred]
        ctx.obligation("corr:sim:" + pred, not bad, "; ".join(bad[:3]) or "held on %d simulation events (bitwise)" % nev)

    # ------------------------------ proofs broke: say so, with what was found -----------------
    if Tr is not None and flag is not None and not flag.ok:
        # the spectral path reports a flag that is not the loop's break test
        hits = [k for k in found if k.split(":")[0] in ("solvers-disagree", "inadmissible", "solvers-disagree-tangent", "tangent-vs-fd") ]
        wit = None
        for c in cases:
            r = byid.get(c["id"])
            if r is None or not r.get("reducible"):
                continue
            V = [v for v in EV.evaluate(c, r) if v[0] in ("solvers-disagree", "inadmissible")]
            if V:
                wit = (c, V[0])
                break
        what = ("Behavior.__Spectral (%s line %d) reports converged=True at every point whatever _spectral.Solve's loop did; "
                "C19_flag.v (reported flag = residual test |r| < tol*sigma_y) does not check" % (Tr["flag"]["file"], Tr["flag"]["line"]))
        if wit:
            c, v = wit
            short = dict(c)
            short["path"] = c["path"][:v[1] + 1]
            short["fd_steps"] = []
            ctx.violation("spectral-converged-flag-unconditional", what + "; witness: %s step %d: %s" % (c["id"], v[1], v[2]), replay_for(short, v[0]), found_input=True)
        else:
            ctx.violation("spectral-converged-flag-unconditional", what, {"obligation": "C19_flag.v", "log": flag.log[-2000:]}, found_input=False)
    if Tr is not None and not proofs_ok:
        res, struct_ok, okw, bad_args, selfw, flag = st
        concrete = [k for k in found]
        if not res.ok:
            what = "theorem file %s no longer checks against the regenerated Gen_C19.v (the source no longer matches the model the theorems are about)" % res.failed_file
            ctx.violation("proof-broken:" + str(res.failed_file), what + ("; concrete failing inputs were found: " + ", ".join(concrete[:3]) if concrete else "; the correspondence sweep found no failing input"),
                          {"obligation": res.failed_file, "log": res.log[-3000:], "related_violations": concrete[:10]}, found_input=False)
        if not okw:
            ctx.violation("struct:committed-state-writers", "the set of methods writing __z/__zOld changed: %s (expected %s plus methods that only empty both dicts; recognised initialisers: %s)" % (json.dumps(Tr["writers"]["sim"]), json.dumps(EXPECTED_SIM_WRITERS), Tr["writers"]["initialisers"]),
                          {"writers": Tr["writers"]["sim"], "related_violations": concrete[:10]}, found_input=False)
        if bad_args or selfw:
            ctx.violation("struct:integrate-side-effect", "Behavior stores into an argument or attribute: %s %s" % (bad_args, selfw), {"related_violations": concrete[:10]}, found_input=False)
