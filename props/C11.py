"""C11 — linear elastic laws: SPD, mutually inverse, notation- and frame-consistent.

1. translate Models/Elastic/_laws.py, Models/_utils.py, Utilities/_params.py (ast, fail-closed)
   -> Gen_Pmat.v, Gen_Laws.v (definitions over R)
2. compile the static theorem files coq/props/C11/*.v against them
3. the two theorems that are expected to be refutable on a defective tree (pmat_normalises,
   aniso_voigt_kelvin_consistent_3d) get, when they fail, a generated and machine-checked
   refutation with a concrete witness, and a replay on the real code
4. correspondence: material.C/.S, Get_Pmat, Apply_Pmat, KelvinMandel_Matrix, Anisotropic and the
   lazy update on random admissible inputs vs the translated formulas evaluated with 50-digit
   decimals (1e-11), plus the property's predicates evaluated on the implementation's outputs.
"""
import json
import math
import os
import re
import threading
from decimal import Decimal, getcontext
from fractions import Fraction as F

import numpy as np

from translator import laws as T_laws, pmat as T_pmat, c11_sym as S
from translator.c11_sym import TranslateError
from vlib import common

getcontext().prec = 50
R2 = Decimal(2).sqrt()
TOL = 1e-11
PTOL = 1e-9
IDX = [0, 1, 5]


def D(x):
    if isinstance(x, Decimal):
        return x
    if isinstance(x, F):
        return Decimal(x.numerator) / Decimal(x.denominator)
    return Decimal(x)          # float -> exact decimal


# --------------------------------------------------------------------------- model evaluation
def ev(t, env):
    return S.ev_tree(S.as_tree(t), env, D)


def mat_ev(rows, env):
    return [[ev(e, env) for e in r] for r in rows]


def mmul(A, B):
    return [[sum((A[i][k] * B[k][j] for k in range(len(B))), Decimal(0)) for j in range(len(B[0]))] for i in range(len(A))]


def mtr(A):
    return [list(c) for c in zip(*A)]


def sub(A, idx):
    return [[A[i][j] for j in idx] for i in idx]


def fl(A):
    return np.array([[float(x) for x in r] for r in A])


def normalize(a):
    n = sum((x * x for x in a), Decimal(0)).sqrt()
    return [x / n for x in a], n


def pmat_model(pm, a, b, key="P"):
    """translated Get_Pmat at axes a, b (Decimals); n1, n2 = their euclidean norms"""
    dim = len(a)
    env = {"r2": R2, "n1": normalize(a)[1], "n2": normalize(b)[1]}
    for i in range(dim):
        env["a%d" % (i + 1)] = a[i]
        env["b%d" % (i + 1)] = b[i]
    return mat_ev(pm["pmat"][dim][key], env)


def law_model(lw, pm, cname, cfg, params, axes):
    """-> (C or None, S or None) as Decimal matrices following the translated structure"""
    rec = lw["classes"][cname]["cfg"][cfg]
    env = {k: D(v) for k, v in params.items()}
    env["r2"] = R2
    for nm, t in rec["derived"].items():
        env[nm] = ev(t, env)
    P = None
    if axes is not None:
        a, _ = normalize([D(x) for x in axes[0]])      # the constructors store Normalize(axis)
        b, _ = normalize([D(x) for x in axes[1]])
        P = pmat_model(pm, a, b)

    def go(d):
        k = d[0]
        if k == 'lit':
            return mat_ev(rec["lits"][d[1]], env)
        if k == 'km':
            M = go(d[2])
            T = mat_ev(pm["km"][d[1]], env)
            return [[M[i][j] * T[i][j] for j in range(len(M))] for i in range(len(M))]
        if k == 'apply':
            M = go(d[2])
            return mmul(mmul(P, M), mtr(P)) if d[3] else mmul(mmul(mtr(P), M), P)
        if k == 'sub':
            return sub(go(d[2]), d[1])
        if k == 'inv':
            return None
        raise TranslateError("model: %r" % (d,))
    return go(rec["C"]), go(rec["S"])


def iso_S_spec(cfg, E, v):
    E, v = D(E), D(v)
    z = Decimal(0)
    g = (1 + v) / E
    if cfg == "3d":
        a, b = 1 / E, -v / E
        return [[a, b, b, z, z, z], [b, a, b, z, z, z], [b, b, a, z, z, z], [z, z, z, g, z, z], [z, z, z, z, g, z], [z, z, z, z, z, g]]
    if cfg == "ps":
        a, b = 1 / E, -v / E
    else:
        a, b = (1 - v * v) / E, -v * (1 + v) / E
    return [[a, b, z], [b, a, z], [z, z, g]]


# --------------------------------------------------------------------------- generators
def rand_rot(rng):
    q = np.array([rng.gauss(0, 1) for _ in range(4)])
    q /= np.linalg.norm(q)
    w, x, y, z = q
    return np.array([[1 - 2 * (y * y + z * z), 2 * (x * y - z * w), 2 * (x * z + y * w)],
                     [2 * (x * y + z * w), 1 - 2 * (x * x + z * z), 2 * (y * z - x * w)],
                     [2 * (x * z - y * w), 2 * (y * z + x * w), 1 - 2 * (x * x + y * y)]])


def rand_axes(rng, kind):
    """kind: 'id' | 'inplane' | '3d' ; returns (a, b) python float lists (orthonormal)"""
    if kind == "id":
        return [1.0, 0.0, 0.0], [0.0, 1.0, 0.0]
    if kind == "inplane":
        t = rng.uniform(0, 2 * math.pi)
        s = rng.choice([1.0, -1.0])
        return [math.cos(t), math.sin(t), 0.0], [-s * math.sin(t), s * math.cos(t), 0.0]
    Q = rand_rot(rng)
    return [float(x) for x in Q[:, 0]], [float(x) for x in Q[:, 1]]


def r3(rng, lo, hi):
    return round(rng.uniform(lo, hi), 3)


def gen_params(rng, cname):
    if cname == "Isotropic":
        return {"E": r3(rng, 1, 500), "v": r3(rng, -0.8, 0.45)}
    if cname == "TransverselyIsotropic":
        while True:
            p = {"El": r3(rng, 5, 200), "Et": r3(rng, 5, 200), "Gl": r3(rng, 2, 80), "vl": r3(rng, -0.4, 0.45), "vt": r3(rng, -0.6, 0.8)}
            if (1 - p["vt"]) * p["El"] - 2 * p["vl"] ** 2 * p["Et"] > 0.2 * p["El"]:
                return p
    while True:
        p = {"E1": r3(rng, 5, 200), "E2": r3(rng, 5, 200), "E3": r3(rng, 5, 200), "G23": r3(rng, 2, 80), "G13": r3(rng, 2, 80),
             "G12": r3(rng, 2, 80), "v23": r3(rng, -0.4, 0.45), "v13": r3(rng, -0.4, 0.45), "v12": r3(rng, -0.4, 0.45)}
        E1, E2, E3, v23, v13, v12 = p["E1"], p["E2"], p["E3"], p["v23"], p["v13"], p["v12"]
        den = -E1 * E2 + E1 * E3 * v23 ** 2 + E2 ** 2 * v12 ** 2 + 2 * E2 * E3 * v12 * v13 * v23 + E2 * E3 * v13 ** 2
        if den < -0.3 * E1 * E2 and v23 ** 2 < 0.8 * E2 / E3 and v13 ** 2 < 0.8 * E1 / E3 and v12 ** 2 < 0.8 * E1 / E2:
            return p


def shape_of(x):
    return np.asarray(x).shape


def kelvin_to_tensor(M):
    """6x6 Kelvin-Mandel matrix -> 3x3x3x3 tensor (driver-side, independent of Get_Pmat)"""
    e = [(0, 0), (1, 1), (2, 2), (1, 2), (0, 2), (0, 1)]
    T = np.zeros((3, 3, 3, 3))
    for I, (i, j) in enumerate(e):
        for J, (k, l) in enumerate(e):
            c = (math.sqrt(2) if i != j else 1.0) * (math.sqrt(2) if k != l else 1.0)
            v = M[I, J] / c
            for (p, q) in {(i, j), (j, i)}:
                for (r, s) in {(k, l), (l, k)}:
                    T[p, q, r, s] = v
    return T


def tensor_to_kelvin(T):
    e = [(0, 0), (1, 1), (2, 2), (1, 2), (0, 2), (0, 1)]
    M = np.zeros((6, 6))
    for I, (i, j) in enumerate(e):
        for J, (k, l) in enumerate(e):
            c = (math.sqrt(2) if i != j else 1.0) * (math.sqrt(2) if k != l else 1.0)
            M[I, J] = c * T[i, j, k, l]
    return M


def rotate_kelvin(M, a, b):
    a, b = np.array(a) / np.linalg.norm(a), np.array(b) / np.linalg.norm(b)
    Q = np.stack([a, b, np.cross(a, b)], axis=1)      # columns = material axes in global coordinates
    T = kelvin_to_tensor(np.asarray(M))
    return tensor_to_kelvin(np.einsum("ip,jq,kr,ls,pqrs->ijkl", Q, Q, Q, Q, T))


# --------------------------------------------------------------------------- replays
REPLAY_PMAT = r'''
import sys, numpy as np
from EasyFEA.Models._utils import Get_Pmat
a, b = np.array(%(a)r, dtype=float), np.array(%(b)r, dtype=float)
P = Get_Pmat(a, b)
n = P.shape[-1]
err = np.abs(P @ P.T - np.eye(n)).max()
print("axes", a, b, "(orthogonal, |a| = %%g, |b| = %%g)" %% (np.linalg.norm(a), np.linalg.norm(b)))
print("max |P P^T - I| =", err, " expected 0 (the change-of-basis matrix must be orthogonal whatever the length of the axes)")
Pn = Get_Pmat(a / np.linalg.norm(a), b / np.linalg.norm(b))
print("max |P(a,b) - P(a/|a|, b/|b|)| =", np.abs(P - Pn).max())
sys.exit(1 if err > 1e-9 else 0)
'''

REPLAY_ANISO = r'''
import sys, numpy as np
from EasyFEA.Models.Elastic._laws import Anisotropic
Cv = np.array(%(Cv)r, dtype=float)
n = Cv.shape[0]
r2 = np.sqrt(2)
d = np.array([1, 1, 1, r2, r2, r2]) if n == 6 else np.array([1, 1, r2])
Ck = Cv * np.outer(d, d)                     # the same material in Kelvin-Mandel notation
dim = 3 if n == 6 else 2
m1 = Anisotropic(dim, Cv, True)              # Voigt input
m2 = Anisotropic(dim, Ck, False)             # Kelvin-Mandel input
err = np.abs(m1.C - m2.C).max()
print("C from Voigt input:\n", m1.C, "\nC from the equivalent Kelvin-Mandel input:\n", m2.C)
print("max difference", err, "expected 0")
sys.exit(1 if err > 1e-9 * np.abs(Ck).max() else 0)
'''

REPLAY_LAW = r'''
import sys, numpy as np
from EasyFEA.Models.Elastic import _laws
c = %(case)r
cls = getattr(_laws, c["cls"])
kw = dict(c["params"])
if c["cls"] == "Isotropic":
    m = cls(c["dim"], planeStress=c["ps"], **kw)
elif c["cls"] == "TransverselyIsotropic":
    m = cls(c["dim"], axis_l=np.array(c["axes"][0]), axis_t=np.array(c["axes"][1]), planeStress=c["ps"], **kw)
else:
    m = cls(c["dim"], axis_1=np.array(c["axes"][0]), axis_2=np.array(c["axes"][1]), planeStress=c["ps"], **kw)
C, Sm = m.C, m.S
n = C.shape[-1]
e1 = np.abs(C @ Sm - np.eye(n)).max()
e2 = np.abs(C - np.swapaxes(C, -1, -2)).max() / np.abs(C).max()
lam = np.linalg.eigvalsh((C + np.swapaxes(C, -1, -2)) / 2).min()
print("case", c)
print("max |C S - I| =", e1, "; asymmetry =", e2, "; smallest eigenvalue of C =", lam)
exp = %(expected)r
if exp is not None:
    d = np.abs(C - np.array(exp)).max() / np.abs(np.array(exp)).max()
    print("relative distance of C to the reference law:", d)
else:
    d = 0.0
sys.exit(1 if (e1 > 1e-8 or e2 > 1e-10 or lam <= 0 or d > %(tol)r) else 0)
'''


REPLAY_PLANE = r'''
import sys, numpy as np
from EasyFEA.Models.Elastic import _laws
c = %(case)r
def build(dim, ps):
    cls = getattr(_laws, c["cls"])
    kw = dict(c["params"])
    if c["cls"] == "Isotropic":
        return cls(dim, planeStress=ps, **kw)
    if c["cls"] == "TransverselyIsotropic":
        return cls(dim, axis_l=np.array(c["axes"][0]), axis_t=np.array(c["axes"][1]), planeStress=ps, **kw)
    return cls(dim, axis_1=np.array(c["axes"][0]), axis_2=np.array(c["axes"][1]), planeStress=ps, **kw)
m2, m3 = build(2, c["ps"]), build(3, c["ps"])
x = [0, 1, 5]
if c["ps"]:
    a, b, what = m2.S, m3.S[x, :][:, x], "plane stress: S_2d vs rows/cols (0,1,5) of S_3d"
else:
    a, b, what = m2.C, m3.C[x, :][:, x], "plane strain: C_2d vs rows/cols (0,1,5) of C_3d"
err = np.abs(a - b).max() / np.abs(b).max()
print(what); print(a); print(b); print("relative difference", err, "expected 0")
sys.exit(1 if err > 1e-9 else 0)
'''

REPLAY_PURITY = r'''
import sys, json
sys.path.insert(0, %(verif)r)
from corr import c11_impl
r = c11_impl.run_purity(%(case)r)
print(json.dumps(r, indent=1))
bad = bool(r["modified"]) or r["repeat_err"] > (1e-9 if %(case)r.get("what") == "out" else 1e-12)
print("array arguments modified in place:", r["modified"] or "none", "; repeatability error:", r["repeat_err"], r.get("repeat_step", ""))
sys.exit(1 if bad else 0)
'''

REPLAY_ANISO_FORM = r'''
import sys, numpy as np
from EasyFEA.Models.Elastic._laws import Anisotropic
C = np.array(%(C)r, dtype=float)
a, b = [np.array(x, dtype=float) for x in %(axes)r]
lead = %(lead)r
m0 = Anisotropic(%(dim)d, C, %(voigt)r, a, b)                                  # one matrix
mf = Anisotropic(%(dim)d, np.broadcast_to(C, lead + C.shape).copy(), %(voigt)r, a, b)   # the same C as a field
err = np.abs(mf.C - m0.C).max() / np.abs(m0.C).max()
print("axes", a, b)
print("C from the single matrix:\n", m0.C, "\nfirst entry of the law built from the field of shape", lead + C.shape, ":\n", mf.C.reshape((-1,) + m0.C.shape)[0])
print("relative difference", err, "expected 0")
sys.exit(1 if err > 1e-9 else 0)
'''

REPLAY_PSTATE = r'''
import sys, numpy as np
from EasyFEA.Models.Elastic import _laws
c = %(case)r
def build(dim):
    cls = getattr(_laws, c["cls"])
    kw = dict(c["params"])
    if c["cls"] == "TransverselyIsotropic":
        return cls(dim, axis_l=np.array(c["axes"][0]), axis_t=np.array(c["axes"][1]), planeStress=True, **kw)
    return cls(dim, axis_1=np.array(c["axes"][0]), axis_2=np.array(c["axes"][1]), planeStress=True, **kw)
m2, m3 = build(2), build(3)
x = [0, 1, 5]
sg = np.array([1.3, -0.7, 0.0, 0.0, 0.0, 0.9])          # a plane stress state (Kelvin-Mandel)
eps3 = m3.S @ sg                                          # the 3-D strain it induces
back = m3.C @ eps3
e1 = np.abs(back[[2, 3, 4]]).max()
e2 = np.abs(eps3[x] - m2.S @ sg[x]).max() / np.abs(eps3).max()
e3 = np.abs(m2.C @ eps3[x] - sg[x]).max()
print("material axes", c["axes"], "(tilted out of the plane)")
print("out-of-plane stresses of the induced 3-D state:", e1, "(expected 0)")
print("in-plane strains: 3-D law vs 2-D plane-stress law, relative difference", e2, "(expected 0)")
print("|C_2d eps_inplane - sigma| =", e3, "(expected 0)")
sys.exit(1 if max(e1, e2, e3) > 1e-9 else 0)
'''

REPLAY_LAZY = r'''
import sys, numpy as np
from EasyFEA.Models.Elastic import _laws
cls = getattr(_laws, %(cls)r)
def P(v):
    return v if isinstance(v, bool) else np.asarray(v, dtype=float) if isinstance(v, list) else float(v)
def getter(m, kind):
    if kind == "readC": return [m.C]
    if kind == "readS": return [m.S]
    if kind == "readSqrt": return list(m.Get_sqrt_C_S())
    if kind == "readWalpole":
        ci, Ei = m.Walpole_Decomposition(); return [np.asarray(ci, dtype=float), Ei]
    if kind == "readHet": return [np.array([float(m.isHeterogeneous)])]
    if kind == "readLambda": return [np.asarray(m.get_lambda())]
    if kind == "readMu": return [np.asarray(m.get_mu())]
    if kind == "readBulk": return [np.asarray(m.get_bulk())]
    if kind == "readSimpl": return [np.array([float(len(m.simplification))]), np.array([float(m.planeStress)])]
    if kind == "readKt": return [np.asarray(m.kt), np.asarray(m.Gt)]
held = {k: P(v) for k, v in %(init)r.items()}          # the user's own objects
m = cls(%(dim)d, **held)
for op in %(ops)r:
    if op[0] == "set":
        held[op[1]] = P(op[2]); setattr(m, op[1], held[op[1]])
    elif op[0] == "set_copy":
        held[op[1]] = np.array(held[op[1]], copy=True) if isinstance(held[op[1]], np.ndarray) else float(held[op[1]])
        setattr(m, op[1], held[op[1]])
    elif op[0] == "mutate_set":
        if isinstance(held[op[1]], np.ndarray):
            held[op[1]] *= op[2]                         # in place: same object
        else:
            held[op[1]] = held[op[1]] * op[2]
        setattr(m, op[1], held[op[1]])                   # re-assign it
    elif op[0] == "set_bad":
        old = np.array(getattr(m, op[1]), dtype=float, copy=True)
        try:
            setattr(m, op[1], P(op[2])); print("the inadmissible value", op[1], "=", op[2], "was ACCEPTED"); sys.exit(1)
        except SystemExit:
            raise
        except Exception as ex:
            now = np.asarray(getattr(m, op[1]), dtype=float)
            if now.shape != old.shape or not np.array_equal(now, old):
                print("the assignment", op[1], "=", op[2], "was refused (", type(ex).__name__, ") but the parameter now reads", now, "instead of", old); sys.exit(1)
    elif op[0] == "notify":
        m.Need_Update()
    if op[0].startswith("read"):
        fresh = cls(%(dim)d, **{k: (np.array(v, copy=True) if isinstance(v, np.ndarray) else v) for k, v in held.items()})
        got, ref = getter(m, op[0]), getter(fresh, op[0])
        err = max(float(np.abs(np.asarray(a) - np.asarray(b)).max() / max(1e-300, np.abs(np.asarray(b)).max())) if np.shape(a) == np.shape(b) else np.inf for a, b in zip(got, ref))
        if err > 1e-9:
            print("after", op, ": the getter's value on the object differs from the same getter on a freshly built law of the current parameters by", err)
            print("  object:", np.asarray(got[0]).ravel()[:4], "\n  fresh: ", np.asarray(ref[0]).ravel()[:4])
            sys.exit(1)
print("every read reflected the current parameters")
sys.exit(0)
'''


# --------------------------------------------------------------------------- refutations
def refute_pmat(ctx, pm):
    """search a non-unit orthogonal axis pair for which the translated Get_Pmat is not orthogonal;
    machine-check it; return (dim, a, b, n1, n2, i, j, value) list"""
    found = []
    cands3 = [((2, 0, 0), (0, 1, 0), 2, 1), ((0, 3, 0), (-1, 0, 0), 3, 1), ((3, 4, 0), (-4, 3, 0), 5, 5), ((0, 0, 2), (0, 2, 0), 2, 2)]
    cands2 = [((2, 0), (0, 1), 2, 1), ((3, 4), (-4, 3), 5, 5), ((0, 2), (-3, 0), 2, 3)]
    for dim, cands in ((3, cands3), (2, cands2)):
        for a, b, n1, n2 in cands:
            P = pmat_model(pm, [D(x) for x in a], [D(x) for x in b])
            G = mmul(P, mtr(P))
            n = len(P)
            bad = [(abs(G[i][j] - (1 if i == j else 0)), i, j) for i in range(n) for j in range(n)]
            e, i, j = max(bad)
            if e > Decimal("1e-20"):
                found.append((dim, a, b, n1, n2, i, j, G[i][j]))
                break
    if not found:
        return found
    L = ["(* GENERATED refutation: Get_Pmat does not return an orthogonal matrix for these orthogonal, non-unit axes *)",
         "From Coq Require Import Reals List Lra Psatz.", "From EFLib Require Import C11_MatR.", "From EFP Require Import Gen_Pmat.",
         "Import ListNotations.", "Open Scope R_scope."]
    for dim, a, b, n1, n2, i, j, val in found:
        n = 3 if dim == 2 else 6
        args = " ".join("(%d)" % x for x in a + b) + " %d %d" % (n1, n2)
        dots = " /\\ ".join(["%d * %d = %s" % (n1, n1, " + ".join("(%d) * (%d)" % (x, x) for x in a)),
                              "%d * %d = %s" % (n2, n2, " + ".join("(%d) * (%d)" % (x, x) for x in b)),
                              "%s = 0" % " + ".join("(%d) * (%d)" % (x, y) for x, y in zip(a, b))])
        L.append("Theorem pmat%d_normalises_refuted : (%s) /\\ forall r2, r2 * r2 = 2 ->\n  let P := pmat%d %s r2 in entry (mmul %d P (mtrans %d P)) %d %d <> entry (ident %d) %d %d."
                 % (dim, dots, dim, args, n, n, i, j, n, i, j))
        L.append("Proof. split; [lra|]. intros r2 Hr. unfold pmat%d. mat_cbv. nra. Qed." % dim)
        L.append("Print Assumptions pmat%d_normalises_refuted." % dim)
    open(os.path.join(ctx.build, "C11_pmat_norm_refuted.v"), "w").write("\n".join(L) + "\n")
    r = ctx.coq(["C11_pmat_norm_refuted.v"], timeout=300)
    ctx.cov["pmat_normalises_refutation_machine_checked"] = r.ok
    return found


def refute_aniso(ctx, lw):
    r = lw["aniso"][(3, True)]
    bad = [(i, j) for i in range(6) for j in range(6) if r["inner"][i][j] is not None and r["inner"][i][j][0] == 'raw' and (i >= 3 or j >= 3)]
    if not bad:
        return None
    i, j = [b for b in bad if b[0] == b[1]][0] if [b for b in bad if b[0] == b[1]] else bad[0]
    M = "[" + "; ".join("[" + "; ".join("1" for _ in range(6)) + "]" for _ in range(6)) + "]"
    L = ["(* GENERATED refutation: the 3-D Voigt input of Anisotropic is not converted to Kelvin-Mandel *)",
         "From Coq Require Import Reals List Lra Psatz.", "From EFLib Require Import C11_MatR.", "From EFP Require Import Gen_Pmat Gen_Laws.",
         "Import ListNotations.", "Open Scope R_scope.",
         "Theorem aniso_voigt_kelvin_3d_refuted : forall r2, r2 * r2 = 2 ->\n  let M := %s in entry (aniso_inner_3d_voigt r2 M) %d %d <> entry (aniso_inner_3d_kelvin r2 (km3 r2 M)) %d %d." % (M, i, j, i, j),
         "Proof. intros r2 Hr. unfold aniso_inner_3d_voigt, aniso_inner_3d_kelvin, km3, km_T3. mat_cbv. nra. Qed.",
         "Print Assumptions aniso_voigt_kelvin_3d_refuted."]
    open(os.path.join(ctx.build, "C11_aniso3d_refuted.v"), "w").write("\n".join(L) + "\n")
    rr = ctx.coq(["C11_aniso3d_refuted.v"], timeout=300)
    ctx.cov["aniso_voigt_3d_refutation_machine_checked"] = rr.ok
    return (i, j)


# --------------------------------------------------------------------------- correspondence
def relerr(impl, model):
    impl, model = np.asarray(impl, dtype=float), np.asarray(model, dtype=float)
    if impl.shape != model.shape:
        return float("inf")
    # purely RELATIVE to the magnitude of the reference (no absolute floor: the laws are homogeneous in the moduli)
    scale = float(np.abs(model).max())
    return float(np.abs(impl - model).max() / (scale if scale > 0 else 1.0))


def build_cases(ctx, lw):
    rng = ctx.rng
    quick = ctx.tier == "quick"
    req = {"law": [], "pmat": [], "apply": [], "aniso": [], "anisof": [], "lazy": [], "km": [], "boundary": [], "purity": []}
    meta = {"law": [], "pmat": [], "apply": [], "aniso": [], "anisof": [], "lazy": [], "km": []}
    nrep = 3 if quick else 12
    # ---- laws: each 2-D case is accompanied by the 3-D law with the same parameters and axes
    for cname in T_laws.CLASSES:
        for rep in range(nrep):
            for field in ("scalar", "elem", "gauss"):
                if field != "scalar" and rep >= (1 if quick else 4):
                    continue
                shp = {"scalar": (), "elem": (3,), "gauss": (2, 3)}[field]
                npts = int(np.prod(shp)) if shp else 1
                pts = [gen_params(rng, cname) for _ in range(npts)]
                keys = list(pts[0].keys())
                if shp:
                    params = {k: np.array([p[k] for p in pts]).reshape(shp).tolist() for k in keys}
                else:
                    params = dict(pts[0])
                akind = rng.choice(["id", "inplane", "3d", "tilted"]) if cname != "Isotropic" else None
                if cname != "Isotropic" and field == "scalar" and rep < 2:
                    akind = "tilted"          # material axes out of the (x,y) plane for the 2-D models
                axes = None
                if akind:
                    if akind == "tilted":
                        a = [2.0, 1.0, 2.0] if rep == 0 else [round(rng.uniform(0.5, 2), 2), round(rng.uniform(-2, 2), 2), round(rng.uniform(0.5, 2), 2)]
                        w = np.cross(a, [round(rng.uniform(-1, 1), 2), 1.0, round(rng.uniform(-1, 1), 2)])
                        a, b = [float(x) for x in a], [float(x) for x in w]
                    else:
                        a, b = rand_axes(rng, akind)
                    if akind != "tilted" and rng.random() < 0.5:       # merely orthogonal: unnormalised lengths
                        sa, sb = round(rng.uniform(0.3, 4), 2), round(rng.uniform(0.3, 4), 2)
                        a, b = [x * sa for x in a], [x * sb for x in b]
                    axes = [a, b]
                grp = len(req["law"])
                for cfg, (dim, ps) in T_laws.CFGS.items():
                    req["law"].append({"cls": cname, "dim": dim, "ps": ps, "params": params, "axes": axes})
                    meta["law"].append({"cfg": cfg, "field": field, "shape": shp, "pts": pts, "group": grp, "akind": akind})
                if axes is not None and not shp:
                    req["law"].append({"cls": cname, "dim": 3, "ps": False, "params": params, "axes": [[1.0, 0.0, 0.0], [0.0, 1.0, 0.0]]})
                    meta["law"].append({"cfg": "3d", "field": field, "shape": shp, "pts": pts, "group": len(req["law"]) - 1, "akind": "id-ref", "ref": True})
                    for k in range(grp, grp + 3):
                        meta["law"][k]["idref"] = len(req["law"]) - 1
    # ---- near-special material frames (tiny rotations of the global axes: 1e-2 deg, 5e-5 deg, 1e-7 rad) and scaled twins
    #      of the moduli (x 2^+-40: the laws are homogeneous of degree 1 in the moduli, S of degree -1)
    MODULI = {"Isotropic": ["E"], "TransverselyIsotropic": ["El", "Et", "Gl"], "Orthotropic": ["E1", "E2", "E3", "G23", "G13", "G12"]}
    extra = []
    for cname in T_laws.CLASSES:
        if cname != "Isotropic":
            for ang in ([math.radians(5e-5), 1e-7, 5e-9, 5e-10] if quick else [1e-2, math.radians(1e-2), math.radians(5e-5), 1e-7, 2e-8, 5e-9, 5e-10]):
                ax = rand_rot(rng)[:, 2] if rng.random() < 0.5 else np.array([0.0, 0.0, 1.0])
                K = np.array([[0, -ax[2], ax[1]], [ax[2], 0, -ax[0]], [-ax[1], ax[0], 0]])
                Rm = np.eye(3) + math.sin(ang) * K + (1 - math.cos(ang)) * (K @ K)
                extra.append((cname, gen_params(rng, cname), [[float(x) for x in Rm[:, 0]], [float(x) for x in Rm[:, 1]]], "near-id"))
        if cname != "Isotropic":
            # one material axis EXACTLY a global axis, the other one tilted about it (35 deg, or exactly a global axis), and permutations
            E3_ = np.eye(3)
            for which in (0, 1) if quick else (0, 1, 0, 1):
                g = rng.choice([0, 1, 2])
                th = rng.choice([math.radians(35.0), math.pi / 2, math.radians(rng.uniform(5, 175))])
                u_, w_ = E3_[(g + 1) % 3], E3_[(g + 2) % 3]
                tilted = math.cos(th) * u_ + math.sin(th) * w_
                if th == math.pi / 2:
                    tilted = w_.copy()
                pair = [E3_[g].tolist(), [float(x) for x in tilted]]
                extra.append((cname, gen_params(rng, cname), pair if which == 0 else pair[::-1], "one-axis-global"))
        for sE in (2.0 ** 40, 2.0 ** -40):
            p_ = gen_params(rng, cname)
            for k in MODULI[cname]:
                p_[k] = p_[k] * sE
            extra.append((cname, p_, None if cname == "Isotropic" else list(rand_axes(rng, "3d")), "scaled-moduli"))
    for cname, params, axes, akind in extra:
        grp = len(req["law"])
        for cfg, (dim, ps) in T_laws.CFGS.items():
            req["law"].append({"cls": cname, "dim": dim, "ps": ps, "params": params, "axes": axes})
            meta["law"].append({"cfg": cfg, "field": "scalar", "shape": (), "pts": [params], "group": grp, "akind": akind})
        if axes is not None:
            req["law"].append({"cls": cname, "dim": 3, "ps": False, "params": params, "axes": [[1.0, 0.0, 0.0], [0.0, 1.0, 0.0]]})
            meta["law"].append({"cfg": "3d", "field": "scalar", "shape": (), "pts": [params], "group": len(req["law"]) - 1, "akind": "id-ref", "ref": True})
            for k in range(grp, grp + 3):
                meta["law"][k]["idref"] = len(req["law"]) - 1
    # ---- Get_Pmat
    for rep in range(6 if quick else 40):
        dim = rng.choice([2, 3])
        shape = rng.choice(["v", "v", "e", "ep"])
        cnt = {"v": 1, "e": 3, "ep": 4}[shape]
        scale = rng.random() < 0.5
        A, B = [], []
        for _ in range(cnt):
            if dim == 3:
                a, b = rand_axes(rng, "3d")
            else:
                a, b = rand_axes(rng, "inplane")
                a, b = a[:2], b[:2]
            if scale:
                sa, sb = round(rng.uniform(0.3, 4), 2), round(rng.uniform(0.3, 4), 2)
                a, b = [x * sa for x in a], [x * sb for x in b]
            A.append(a)
            B.append(b)
        if shape == "v":
            a_, b_ = A[0], B[0]
        elif shape == "e":
            a_, b_ = A, B
        else:
            a_, b_ = [A[:2], A[2:]], [B[:2], B[2:]]
        mandel = rng.random() < 0.8
        req["pmat"].append({"a": a_, "b": b_, "mandel": mandel})
        meta["pmat"].append({"A": A, "B": B, "dim": dim, "shape": shape, "scaled": scale})
    # ---- Apply_Pmat (P orthogonal from unit axes, random symmetric M), Kelvin-Mandel scaling
    for rep in range(4 if quick else 20):
        a, b = rand_axes(rng, "3d")
        Msym = np.array([[rng.uniform(-5, 5) for _ in range(6)] for _ in range(6)])
        Msym = ((Msym + Msym.T) / 2).round(3)
        req["apply"].append({"P": None, "axes": [a, b], "M": Msym.tolist(), "toGlobal": rng.random() < 0.6})
    for dim in (2, 3):
        n = 3 if dim == 2 else 6
        M = np.array([[rng.uniform(-5, 5) for _ in range(n)] for _ in range(n)]).round(3)
        req["km"].append({"dim": dim, "M": M.tolist()})
    # ---- Anisotropic: Voigt / Kelvin input of the same material, rotated axes
    for rep in range(3 if quick else 10):
        for dim in (2, 3):
            n = 3 if dim == 2 else 6
            G = np.array([[rng.uniform(-1, 1) for _ in range(n)] for _ in range(n)])
            Cv = (G @ G.T + n * np.eye(n)).round(3)
            d = np.array([1, 1, 1] + [math.sqrt(2)] * 3) if n == 6 else np.array([1, 1, math.sqrt(2)])
            Ck = Cv * np.outer(d, d)
            akind = ["rotated", "reflected", "default"][rep % 3]
            if akind == "default":
                a, b = rand_axes(rng, "id")
            else:
                a, b = rand_axes(rng, "inplane" if dim == 2 else "3d")
                if akind == "reflected":
                    b = [-x for x in b]          # left-handed pair (a mirror image of the material frame)
            for voigt, Cin in ((True, Cv), (False, Ck)):
                base = len(req["aniso"])
                req["aniso"].append({"dim": dim, "C": Cin.tolist(), "voigt": voigt, "axes": [a, b]})
                meta["aniso"].append({"dim": dim, "Ck": Ck, "axes": [a, b], "voigt": voigt, "akind": akind})
                # the same material given as a per-element (Ne,n,n) and a per-Gauss-point (Ne,nPg,n,n) field
                for form, lead in (("per-element", (3,)), ("per-Gauss-point", (2, 3))):
                    req["anisof"].append({"dim": dim, "C": np.broadcast_to(Cin, lead + Cin.shape).tolist(), "voigt": voigt, "axes": [a, b]})
                    meta["anisof"].append({"dim": dim, "base": base, "form": form, "lead": lead, "voigt": voigt, "akind": akind, "Cin": Cin.tolist(), "axes": [a, b]})
    # ---- lazy update: scalar and array-valued (per element / per Gauss point) parameters; assignments of a
    #      new object, of an equal-valued copy, and of THE SAME array after an in-place edit
    for rep in range(10 if quick else 40):
        cname = rng.choice(["Isotropic", "TransverselyIsotropic"])
        dim = rng.choice([2, 3])
        fshape = [(), (3,), (2, 3)][rep % 3]
        npts = int(np.prod(fshape)) if fshape else 1

        def field_of(vals):
            return np.array(vals).reshape(fshape).tolist() if fshape else vals[0]
        pts = [gen_params(rng, cname) for _ in range(npts)]
        names = list(pts[0].keys())
        arrname = "E" if cname == "Isotropic" else "El"      # the array-valued parameter
        cur = {k: (field_of([p[k] for p in pts]) if k == arrname else pts[0][k]) for k in names}
        if dim == 2:
            cur["planeStress"] = rng.random() < 0.5
        getters = ["readC", "readS", "readSqrt", "readSqrt", "readWalpole", "readHet", "readSimpl"] + \
            (["readLambda", "readMu", "readBulk"] if cname == "Isotropic" else ["readKt"])
        forced = getters[rep % len(getters)] if rep % 2 == 0 else "readSqrt"   # this getter is read, a setter follows, it is read again FIRST
        states = [json.loads(json.dumps(cur))]
        ops, mops = [], []
        for step in range(rng.randint(5, 12)):
            k = rng.random()
            if step == 1:
                k = 0.3          # make sure the aliasing assignment occurs after a read
            if step in (0, 2):
                ops.append([forced])
                mops.append(("read", forced))
                continue
            if step == 3 and dim == 2 and rng.random() < 0.5:
                cur = dict(cur)
                cur["planeStress"] = not cur["planeStress"]
                states.append(json.loads(json.dumps(cur)))
                ops.append(["set", "planeStress", cur["planeStress"]])
                mops.append(("set", False, len(states) - 1))
                continue
            if k < 0.2:          # new object
                newp = [gen_params(rng, cname) for _ in range(npts)]
                name = rng.choice(names)
                val = field_of([q[name] for q in newp]) if name == arrname else newp[0][name]
                cand = dict(cur)
                cand[name] = val
                if cname == "TransverselyIsotropic" and not np.all((1 - np.asarray(cand["vt"])) * np.asarray(cand["El"]) - 2 * np.asarray(cand["vl"]) ** 2 * np.asarray(cand["Et"]) > 0.2 * np.asarray(cand["El"])):
                    continue
                cur = cand
                states.append(json.loads(json.dumps(cur)))
                ops.append(["set", name, val])
                mops.append(("set", False, len(states) - 1))
            elif k < 0.4:        # edit the same array in place, re-assign the same object
                fac = rng.choice([2.0, 0.5, 1.5])
                cur = dict(cur)
                cur[arrname] = (np.asarray(cur[arrname]) * fac).tolist()
                states.append(json.loads(json.dumps(cur)))
                ops.append(["mutate_set", arrname, fac])
                mops.append(("set", True, len(states) - 1))
            elif k < 0.5:        # equal-valued copy
                states.append(json.loads(json.dumps(cur)))
                ops.append(["set_copy", arrname])
                mops.append(("set", False, len(states) - 1))
            elif k < 0.92:
                ops.append([rng.choice(getters)])
                mops.append(("read", ops[-1][0]))
            else:
                ops.append(["notify"])
                mops.append(("notify",))
        # a refused assignment (inadmissible value, caught by the caller), then a valid change, then reads
        badname = "v" if cname == "Isotropic" else rng.choice(["vt", "Et"])
        badval = 0.6 if badname == "v" else (1.5 if badname == "vt" else -500.0)
        if badname == arrname or (rep % 2 == 0 and badname in ("v", "vt", "Et") and fshape):
            pass
        if fshape and rep % 2 == 0 and not isinstance(cur[badname], list):
            badfield = None
        ops.append(["set_bad", badname, badval])
        mops.append(("bad",))
        if arrname in cur:
            cur = dict(cur)
            cur[arrname] = (np.asarray(cur[arrname]) * 1.25).tolist()
            states.append(json.loads(json.dumps(cur)))
            ops.append(["mutate_set", arrname, 1.25])
            mops.append(("set", True, len(states) - 1))
        last = [rng.choice(getters), "readC", "readS"]
        ops += [[x] for x in last]
        mops += [("read", x) for x in last]
        req["lazy"].append({"cls": cname, "dim": dim, "init": states[0], "ops": ops})
        meta["lazy"].append({"cls": cname, "dim": dim, "states": states, "mops": mops, "fshape": fshape})
    # ---- purity / repeatability: constructors, setters and readers must not modify their array arguments
    #      (bitwise), and building / setting / reading twice from the SAME objects must give the same law;
    #      float-typed AND int-typed inputs (the dtype decides whether numpy copies)
    for dtype in ("float", "int"):
        for dim in (2, 3):
            n = 3 if dim == 2 else 6
            for lead in ((), (2,)) if quick else ((), (2,), (2, 2)):
                G = np.array([[rng.randint(-2, 2) for _ in range(n)] for _ in range(n)])
                Cv = G @ G.T + 2 * n * np.eye(n, dtype=int)
                if dtype == "float":
                    Cv = Cv + np.round(np.diag([rng.uniform(0, 1) for _ in range(n)]), 3)
                req["purity"].append({"what": "aniso", "dtype": dtype, "dim": dim, "voigt": True, "typed": ["C", "axis1", "axis2"],
                                      "arrays": {"C": np.broadcast_to(Cv, lead + Cv.shape).tolist(),
                                                 "axis1": [0, 1, 0] if dtype == "int" else [0.6, 0.8, 0.0], "axis2": [-1, 0, 0] if dtype == "int" else [-0.8, 0.6, 0.0]}})
            M = [[rng.randint(-5, 5) + (0.0 if dtype == "int" else round(rng.random(), 2)) for _ in range(n)] for _ in range(n)]
            req["purity"].append({"what": "utils", "dtype": dtype, "dim": dim, "typed": ["M", "axis1", "axis2"],
                                  "arrays": {"M": M, "axis1": ([0, 2, 0] if dtype == "int" else [0.0, 1.7, 0.0])[:dim], "axis2": ([-3, 0, 0] if dtype == "int" else [-0.4, 0.0, 0.0])[:dim]}})
        for cname, fields, scal in (("Isotropic", {"E": [10, 20, 30]}, {"v": 0.3}),
                                    ("TransverselyIsotropic", {"El": [[100, 120], [90, 150]], "Et": [[20, 25], [30, 22]]}, {"Gl": 8.0, "vl": 0.1, "vt": 0.3}),
                                    ("Orthotropic", {"E1": [100, 120, 90]}, {"E2": 50.0, "E3": 20.0, "G23": 8.0, "G13": 9.0, "G12": 10.0, "v23": 0.1, "v13": 0.2, "v12": 0.3})):
            arrays = {k: (v if dtype == "int" else (np.array(v) + 0.5).tolist()) for k, v in fields.items()}
            if cname != "Isotropic":
                arrays.update({"axis1": [0, 0, 2] if dtype == "int" else [0.0, 0.6, 0.8], "axis2": [1, 0, 0] if dtype == "int" else [1.0, 0.0, 0.0]})
            req["purity"].append({"what": "law", "cls": cname, "dtype": dtype, "dim": rng.choice([2, 3]), "fields": list(fields), "scalars": scal,
                                  "typed": list(arrays), "arrays": arrays})
    # ---- arrays handed OUT (parameter fields, C, S, axes, helpers): in-place edits of a returned array must leave the law
    #      unchanged or consistent with a law rebuilt from the parameters it then reports
    for cname, fields, scal in (("Isotropic", {"E": [10.5, 20.5, 30.5]}, {"v": 0.3}),
                                ("Isotropic", {"E": [[10.5, 20.5], [30.5, 15.0]], "v": [[0.1, 0.2], [0.3, 0.25]]}, {}),
                                ("TransverselyIsotropic", {"El": [[100.5, 120.0], [90.0, 150.0]], "Et": [[20.0, 25.0], [30.0, 22.0]], "vt": [[0.1, 0.2], [0.3, 0.25]]}, {"Gl": 8.0, "vl": 0.1}),
                                ("Orthotropic", {"E1": [100.5, 120.0, 90.0]}, {"E2": 50.0, "E3": 20.0, "G23": 8.0, "G13": 9.0, "G12": 10.0, "v23": 0.1, "v13": 0.2, "v12": 0.3})):
        arrays = dict(fields)
        if cname != "Isotropic":
            arrays.update({"axis1": [0.0, 0.6, 0.8], "axis2": [1.0, 0.0, 0.0]})
        req["purity"].append({"what": "out", "cls": cname, "dtype": "float", "dim": rng.choice([2, 3]), "fields": list(fields), "scalars": scal,
                              "typed": [], "arrays": arrays, "factor": rng.choice([0.5, 1e-3])})
    # ---- boundary of the descriptor ranges: the value 0 passes PositiveParameter
    req["boundary"] = [{"cls": "Isotropic", "dim": 3, "params": {"E": 0.0, "v": 0.3}},
                       {"cls": "Isotropic", "dim": 2, "params": {"E": 0.0, "v": 0.3}},
                       {"cls": "TransverselyIsotropic", "dim": 3, "params": {"El": 0.0, "Et": 1.0, "Gl": 1.0, "vl": 0.1, "vt": 0.1}},
                       # Anisotropic 2-D with axis1 = z: the extracted 3x3 block R M R^T is singular (C11_aniso_oop.v): no law may come out
                       {"cls": "Anisotropic", "dim": 2, "params": {"C": [[4.0, 1.0, 0.0], [1.0, 3.0, 0.0], [0.0, 0.0, 2.0]], "useVoigtNotation": False,
                                                                    "axis1": [0.0, 0.0, 1.0], "axis2": [1.0, 0.0, 0.0]}}]
    return req, meta


def correspondence(ctx, lw, pm):
    req, meta = build_cases(ctx, lw)
    # P for the Apply_Pmat cases comes from the model (so Apply_Pmat is tested on its own)
    have = lw is not None and pm is not None
    ctx.cov["corr_mode"] = "translated model + property predicates" if have else "property predicates only (translation failed)"
    for c in req["apply"]:
        a, b = c.pop("axes")
        if pm is not None:
            c["P"] = fl(pmat_model(pm, [D(x) for x in a], [D(x) for x in b])).tolist()
        else:
            c["P"] = np.linalg.qr(np.array([[ctx.rng.gauss(0, 1) for _ in range(6)] for _ in range(6)]))[0].tolist()
    rc, out, err = ctx.impl_python(os.path.join(common.VERIF, "corr", "c11_impl.py"), input=json.dumps(req), timeout=900)
    if rc != 0:
        ctx.obligation("corr:impl-run", False, err[-1500:])
        ctx.violation("corr:impl-crash", "the implementation-side run failed: " + (err.strip().splitlines()[-1][:200] if err.strip() else "rc=%d" % rc),
                      {"stderr": err[-3000:]}, found_input=False)
        return
    impl = json.loads(out)
    mism = []          # model vs implementation
    viol = []          # (key, what, replay)
    dist = {}

    def count(k):
        dist[k] = dist.get(k, 0) + 1

    # ---------------- laws
    for i, (c, m, r) in enumerate(zip(req["law"], meta["law"], impl["law"])):
        cname, cfg = c["cls"], m["cfg"]
        count("law:%s:%s:%s:%s" % (T_laws.CLASSES[cname], cfg, m["field"], "tilted-axes" if m["akind"] == "tilted" else m["akind"] if m["akind"] in ("near-id", "scaled-moduli", "one-axis-global") else "axes" if c["axes"] else "noaxes"))
        if "raises" in r:
            mism.append(("law#%d %s[%s]" % (i, cname, cfg), "implementation raised " + r["raises"]))
            continue
        Ci, Si = np.array(r["C"]), np.array(r["S"])
        shp = tuple(m["shape"])
        n = 3 if cfg != "3d" else 6
        if Ci.shape != shp + (n, n):
            mism.append(("law#%d %s[%s]" % (i, cname, cfg), "shape %s" % (Ci.shape,)))
            continue
        Cf, Sf = Ci.reshape((-1, n, n)), Si.reshape((-1, n, n))
        worst = 0.0
        for k, p in enumerate(m["pts"]):
            if have:
                Cm, Sm = law_model(lw, pm, cname, cfg, p, c["axes"])
                if cname == "Isotropic":
                    Sm = iso_S_spec(cfg, p["E"], p["v"])
                if Cm is not None:
                    worst = max(worst, relerr(Cf[k], fl(Cm)))
                else:
                    worst = max(worst, relerr(Cf[k] @ fl(Sm), np.eye(n)) / 10)
                if Sm is not None:
                    worst = max(worst, relerr(Sf[k], fl(Sm)))
                else:
                    worst = max(worst, relerr(fl(Cm) @ Sf[k], np.eye(n)) / 10)
            # property predicates on the implementation's own output
            eCS = float(np.abs(Cf[k] @ Sf[k] - np.eye(n)).max())
            asym = float(np.abs(Cf[k] - Cf[k].T).max() / np.abs(Cf[k]).max())
            lam = float(np.linalg.eigvalsh((Cf[k] + Cf[k].T) / 2).min())
            if eCS > 1e-8 or asym > 1e-10 or lam <= 0:
                one = dict(c, params=p)
                viol.append(("law-spd-inverse:%s:%s" % (cname, cfg),
                             "%s[%s] params %s axes %s: |C S - I| = %.2e, asymmetry %.2e, min eigenvalue %.3e" % (cname, cfg, p, c["axes"], eCS, asym, lam),
                             {"replay_py": REPLAY_LAW % dict(case=one, expected=None, tol=1e-9), "case": one}))
        if worst > TOL:
            one = dict(c, params=m["pts"][0])
            Cm0, _ = law_model(lw, pm, cname, cfg, m["pts"][0], c["axes"]) if have else (None, None)
            mism.append(("law#%d %s[%s] %s" % (i, cname, cfg, m["field"]), "relative difference %.2e (params %s, axes %s)" % (worst, m["pts"][0], c["axes"]),
                         {"replay_py": REPLAY_LAW % dict(case=one, expected=(fl(Cm0).tolist() if Cm0 is not None and not shp else None), tol=1e-9), "case": one}))
        ctx.note_case("law:%s:%s:%s:%s" % (cname, cfg, m["field"], m["akind"]))
        # plane reductions on the implementation's outputs (3d case is first of its group)
        if cfg != "3d" and not m.get("ref"):
            r3 = impl["law"][m["group"]]
            if "raises" not in r3:
                C3, S3 = np.array(r3["C"]), np.array(r3["S"])
                if cfg == "pe":
                    e = relerr(Ci, C3[..., IDX, :][..., :, IDX])
                    what = "plane strain C is not rows/cols (0,1,5) of the 3-D C"
                else:
                    e = relerr(Si, S3[..., IDX, :][..., :, IDX])
                    what = "plane stress S is not rows/cols (0,1,5) of the 3-D S"
                if e > PTOL:
                    one = dict(c, params=m["pts"][0])
                    if not shp:
                        viol.append(("plane-reduction:%s:%s" % (cname, cfg), "%s: %s (rel. %.2e) params %s" % (cname, what, e, m["pts"][0]),
                                     {"replay_py": REPLAY_PLANE % dict(case=one), "case": one, "note": what}))
                    else:
                        viol.append(("plane-reduction:%s:%s" % (cname, cfg), "%s: %s (rel. %.2e) heterogeneous parameters, first point %s" % (cname, what, e, m["pts"][0]),
                                     {"case": one, "note": what}))
            # plane stress: the 3-D state induced by an in-plane stress has sigma_zz = sigma_yz = sigma_xz = 0,
            # its in-plane strains are those of the 2-D law, and the 2-D stiffness gives the stress back
            if cfg == "ps" and "raises" not in r3 and not shp:
                C3, S3 = np.array(r3["C"]), np.array(r3["S"])
                sg = np.array([1.3, -0.7, 0.0, 0.0, 0.0, 0.9])
                eps3 = S3 @ sg
                back3 = C3 @ eps3
                e1 = float(np.abs(back3[[2, 3, 4]]).max())
                e2 = float(np.abs(eps3[IDX] - Si @ sg[IDX]).max() / np.abs(eps3).max())
                e3 = float(np.abs(Ci @ eps3[IDX] - sg[IDX]).max())
                if max(e1, e2, e3) > PTOL:
                    one = dict(c, params=m["pts"][0])
                    viol.append(("plane-stress-state:%s" % cname,
                                 "%s plane stress, axes %s: induced 3-D state has out-of-plane stresses %.2e, in-plane strain mismatch %.2e, C2d*eps - sigma = %.2e"
                                 % (cname, c["axes"], e1, e2, e3), {"replay_py": REPLAY_PSTATE % dict(case=one), "case": one}))
        # frame consistency: the law with axes (a,b) is the tensor rotation of the law with identity axes
        # (reference: the implementation's own law with identity axes; independent of Get_Pmat)
        if cname != "Isotropic" and cfg == "3d" and not shp and not m.get("ref") and "idref" in m and "raises" not in impl["law"][m["idref"]]:
            C0 = np.array(impl["law"][m["idref"]]["C"])
            Cr = rotate_kelvin(C0, c["axes"][0], c["axes"][1])
            e = relerr(Ci, Cr)
            ftol = 1e-11 if m["akind"] == "near-id" else PTOL      # near-aligned frames: the rotated tensor is reproduced to 1e-15
            if e > ftol:
                one = dict(c, params=m["pts"][0])
                viol.append(("frame-rotation:%s" % cname, "%s: C for axes %s is not the rotated 4th-order tensor (rel. %.2e, tolerance %.0e)" % (cname, c["axes"], e, ftol),
                             {"replay_py": REPLAY_LAW % dict(case=one, expected=Cr.tolist(), tol=ftol), "case": one}))
    # ---------------- isotropic helpers
    for i, (c, m, r) in enumerate(zip(req["law"], meta["law"], impl["law"])):
        if have and c["cls"] == "Isotropic" and "lambda" in r:
            rec = lw["classes"]["Isotropic"]["cfg"][m["cfg"]]
            for k, p in enumerate(m["pts"]):
                env = {"E": D(p["E"]), "v": D(p["v"])}
                for nm, t in rec["derived"].items():
                    env[nm] = ev(t, env)
                for nm, key in (("get_lambda", "lambda"), ("get_mu", "mu"), ("get_bulk", "bulk")):
                    iv = np.asarray(r[key], dtype=float).reshape(-1)[k] if np.ndim(r[key]) else float(r[key])
                    if abs(iv - float(env[nm])) > TOL * max(1.0, abs(float(env[nm]))):
                        mism.append(("iso-helper %s[%s]" % (nm, m["cfg"]), "impl %r model %s" % (iv, env[nm])))
    # ---------------- Get_Pmat
    for i, (c, m, r) in enumerate(zip(req["pmat"], meta["pmat"], impl["pmat"])):
        count("pmat:%dd:%s:%s" % (m["dim"], m["shape"], "nonunit" if m["scaled"] else "unit"))
        ctx.note_case("pmat:%d:%s:%s:%s" % (m["dim"], m["shape"], m["scaled"], c["mandel"]))
        if "raises" in r:
            mism.append(("pmat#%d" % i, "implementation raised " + r["raises"]))
            continue
        n = 3 if m["dim"] == 2 else 6
        for key in (["P"] if c["mandel"] else ["Ps", "Pe"]):
            Pi = np.array(r[key]).reshape((-1, n, n))
            for k, (a, b) in enumerate(zip(m["A"], m["B"])):
                e = relerr(Pi[k], fl(pmat_model(pm, [D(x) for x in a], [D(x) for x in b], key))) if pm is not None else 0.0
                if e > TOL:
                    mism.append(("pmat#%d %s" % (i, key), "axes %s %s: relative difference %.2e" % (a, b, e)))
                if key == "P":
                    eo = float(np.abs(Pi[k] @ Pi[k].T - np.eye(n)).max())
                    if eo > PTOL:
                        viol.append(("pmat-normalise:Get_Pmat" if m["scaled"] else "pmat-orthogonal:Get_Pmat",
                                     "Get_Pmat(%s, %s): max |P P^T - I| = %.3g (axes orthogonal, lengths %.3g, %.3g)" % (a, b, eo, np.linalg.norm(a), np.linalg.norm(b)),
                                     {"replay_py": REPLAY_PMAT % dict(a=a, b=b), "axes": [a, b]}))
    # ---------------- Apply_Pmat, KelvinMandel_Matrix
    for i, (c, r) in enumerate(zip(req["apply"], impl["apply"])):
        ctx.note_case("apply:%s" % c["toGlobal"])
        count("apply:%s" % ("global" if c["toGlobal"] else "material"))
        if "raises" in r:
            mism.append(("apply#%d" % i, r["raises"]))
            continue
        P, M = np.array(c["P"]), np.array(c["M"])
        mean = pm["apply"][c["toGlobal"]]["meaning"] if pm is not None else ("PMPt" if c["toGlobal"] else "PtMP")
        Rm = P @ M @ P.T if mean == "PMPt" else P.T @ M @ P
        e = relerr(r["R"], Rm)
        if e > TOL:
            mism.append(("apply#%d toGlobal=%s" % (i, c["toGlobal"]), "relative difference %.2e" % e))
    for i, (c, r) in enumerate(zip(req["km"], impl["km"])):
        r2f = math.sqrt(2)
        dd = np.array([1, 1, r2f]) if c["dim"] == 2 else np.array([1, 1, 1, r2f, r2f, r2f])
        T = fl(mat_ev(pm["km"][c["dim"]], {"r2": R2})) if pm is not None else np.outer(dd, dd)
        e = relerr(r["R"], np.array(c["M"]) * T)
        ctx.note_case("km:%d" % c["dim"])
        if e > TOL:
            mism.append(("km dim %d" % c["dim"], "relative difference %.2e" % e))
    # ---------------- Anisotropic
    for i in range(0, len(req["aniso"]), 2):
        cv, ck = req["aniso"][i], req["aniso"][i + 1]
        rv, rk = impl["aniso"][i], impl["aniso"][i + 1]
        m = meta["aniso"][i]
        count("aniso:%dd" % m["dim"])
        ctx.note_case("aniso:%d:%d" % (m["dim"], i))
        if "raises" in rv or "raises" in rk:
            mism.append(("aniso#%d" % i, "raised %s" % (rv.get("raises") or rk.get("raises"))))
            continue
        # model: rotate the (embedded) Kelvin-Mandel matrix, translated structure for each flag
        for c, r, flag in (((cv, rv, True), (ck, rk, False)) if have else ()):
            desc = lw["aniso"][(m["dim"], flag)]
            Cin = np.array(c["C"])
            d = np.array([1, 1, 1] + [math.sqrt(2)] * 3) if m["dim"] == 3 else np.array([1, 1, math.sqrt(2)])
            Ckm = Cin * np.outer(d, d)
            X = np.zeros((6, 6))
            for I in range(6):
                for J in range(6):
                    e_ = desc["inner"][I][J]
                    if e_ is not None:
                        X[I, J] = (Cin if e_[0] == 'raw' else Ckm)[e_[1], e_[2]]
            a, b = m["axes"]
            P = fl(pmat_model(pm, normalize([D(x) for x in a])[0], normalize([D(x) for x in b])[0]))
            Cm = P @ X @ P.T
            if desc["idx"]:
                Cm = Cm[desc["idx"], :][:, desc["idx"]]
            e = relerr(r["C"], Cm)
            if e > TOL:
                mism.append(("aniso#%d dim %d voigt=%s" % (i, m["dim"], flag), "relative difference %.2e" % e))
        e = relerr(rv["C"], rk["C"])
        if e > PTOL:
            viol.append(("aniso-voigt-%dd:Anisotropic._Behavior" % m["dim"],
                         "Anisotropic(dim=%d): the law built from Voigt input differs from the one built from the equivalent Kelvin-Mandel input (rel. %.2e)" % (m["dim"], e),
                         {"replay_py": REPLAY_ANISO % dict(Cv=cv["C"]), "Cvoigt": cv["C"]}))
        # frame consistency (Kelvin input): rotated tensor
        Ck = m["Ck"]
        if m["dim"] == 2:
            emb = np.zeros((6, 6))
            emb[np.ix_(IDX, IDX)] = Ck
            e = relerr(rk["C"], rotate_kelvin(emb, m["axes"][0], m["axes"][1])[np.ix_(IDX, IDX)])
            if e > PTOL:
                viol.append(("aniso-frame-rotation-2d", "Anisotropic 2-D: C is not the in-plane part of the rotated tensor (rel. %.2e)" % e, {"axes": m["axes"]}))
        if m["dim"] == 3:
            e = relerr(rk["C"], rotate_kelvin(Ck, m["axes"][0], m["axes"][1]))
            if e > PTOL:
                viol.append(("aniso-frame-rotation", "Anisotropic 3-D: C is not the rotated tensor (rel. %.2e)" % e, {"axes": m["axes"]}))
    # ---------------- Anisotropic, input forms: the same C given per element / per Gauss point must give, in
    #                  every entry of the field, the law obtained from the single matrix (same axes, same notation)
    for k, (c, m, r) in enumerate(zip(req["anisof"], meta["anisof"], impl["anisof"])):
        count("aniso-form:%dd:%s:%s:%s" % (m["dim"], m["form"], "voigt" if m["voigt"] else "kelvin", m["akind"]))
        ctx.note_case("aniso-form:%d:%s:%s:%s" % (m["dim"], m["form"], m["voigt"], m["akind"]))
        rb = impl["aniso"][m["base"]]
        if "raises" in r or "raises" in rb:
            mism.append(("aniso-form#%d" % k, "raised %s" % (r.get("raises") or rb.get("raises"))))
            continue
        n = 3 if m["dim"] == 2 else 6
        Cf, Sf = np.array(r["C"]), np.array(r["S"])
        if Cf.shape != tuple(m["lead"]) + (n, n):
            mism.append(("aniso-form#%d" % k, "shape %s" % (Cf.shape,)))
            continue
        e = max(relerr(Cf, np.broadcast_to(np.array(rb["C"]), Cf.shape)), relerr(Sf, np.broadcast_to(np.array(rb["S"]), Sf.shape)))
        if e > PTOL:
            viol.append(("aniso-input-form:%dD:%s" % (m["dim"], m["form"]),
                         "Anisotropic(dim=%d, %s axes, %s input): the %s field of one and the same C does not give the law of the single matrix (rel. %.2e)"
                         % (m["dim"], m["akind"], "Voigt" if m["voigt"] else "Kelvin-Mandel", m["form"], e),
                         {"replay_py": REPLAY_ANISO_FORM % dict(dim=m["dim"], C=m["Cin"], voigt=m["voigt"], axes=m["axes"], lead=tuple(m["lead"])),
                          "C": m["Cin"], "axes": m["axes"], "form": m["form"]}))
    # ---------------- lazy update: the Coq model tells which parameter CONTENTS each read must reflect; the
    #                  implementation's read is compared with a freshly built law (and with the translated model)
    lines = []
    for k, m in enumerate(meta["lazy"]):
        ops = []
        for o in m["mops"]:
            if o[0] == "bad":
                continue          # a refused assignment is not a state change of the model
            ops.append("SetParam nat %s %d" % ("true" if o[1] else "false", o[2]) if o[0] == "set" else "Read nat" if o[0] == "read" else "NotifyOnly nat")
        lines.append("Eval vm_compute in (run_reads 0%%nat [%s])." % "; ".join(ops))
    body = "From Coq Require Import List.\nFrom EFModel Require Import C11_Lazy.\nImport ListNotations.\n" + "\n".join(lines) + "\n"
    rc2, out2 = ctx.coq_eval("C11_lazy_cases.v", body, timeout=300)
    exp = re.findall(r"=\s*\[([^\]]*)\]", out2)
    if rc2 != 0 or len(exp) != len(meta["lazy"]):
        ctx.obligation("corr:lazy-model-eval", False, out2[-800:])
        mism.append(("lazy", "model evaluation failed"))
    else:
        for k, (m, r, e) in enumerate(zip(meta["lazy"], impl["lazy"], exp)):
            ids = [int(x) for x in re.findall(r"Some (\d+)", e)]
            kinds_ops = sorted(set(o[0] for o in req["lazy"][k]["ops"]))
            ctx.note_case("lazy:%s:%d:%s:%s" % (m["cls"], m["dim"], m["fshape"], "+".join(kinds_ops)))
            count("lazy:%s:%s" % (m["cls"], {0: "scalar", 1: "per-element", 2: "per-gauss"}[len(m["fshape"])]))
            for o in req["lazy"][k]["ops"]:
                if o[0] in ("mutate_set", "set_copy", "set"):
                    count("lazy-op:" + o[0])
            if "raises" in r:
                mism.append(("lazy#%d" % k, r["raises"]))
                continue
            for rf in r.get("refused", []):
                if not rf["refused"] or not rf.get("reads_back_old", True):
                    badop = [o for o in req["lazy"][k]["ops"] if o[0] == "set_bad"][0]
                    upto = req["lazy"][k]["ops"][:req["lazy"][k]["ops"].index(badop) + 1]
                    viol.append(("refused-assignment-kept:%s" % m["cls"],
                                 "%s: the inadmissible assignment %s = %r %s" % (m["cls"], badop[1], badop[2],
                                     "was accepted" if not rf["refused"] else "raised, but the parameter then reads back %s instead of its old value" % str(rf.get("reads_back"))[:60]),
                                 {"replay_py": REPLAY_LAZY % dict(cls=m["cls"], dim=m["dim"], init=req["lazy"][k]["init"], ops=upto),
                                  "ops": upto, "init": req["lazy"][k]["init"], "cls": m["cls"], "dim": m["dim"]}))
            kinds = [o[1] for o in m["mops"] if o[0] == "read"]
            if len(ids) != len(r["reads"]) or len(ids) != len(kinds):
                mism.append(("lazy#%d" % k, "number of reads"))
                continue
            cfg = "3d" if m["dim"] == 3 else "ps"
            n = 3 if cfg != "3d" else 6
            nread = 0
            for (sid, got, fresh, kind) in zip(ids, r["reads"], r["fresh"], kinds):
                nread += 1
                count("lazy-read:" + kind)
                if isinstance(got, dict) or isinstance(fresh, dict):
                    e_ = 0.0 if (isinstance(got, dict) and isinstance(fresh, dict) and got["raises"].split(":")[0] == fresh["raises"].split(":")[0]) else float("inf")
                    got_l = fresh_l = []
                else:
                    got_l, fresh_l = [np.array(x, dtype=float) for x in got], [np.array(x, dtype=float) for x in fresh]
                    e_ = max([relerr(a_, b_) for a_, b_ in zip(got_l, fresh_l)] + [0.0 if len(got_l) == len(fresh_l) else float("inf")])
                if kind == "readSqrt" and got_l:
                    nn = got_l[0].shape[-1]
                    e_ = max(e_, relerr(got_l[0] @ got_l[1], np.broadcast_to(np.eye(nn), got_l[0].shape)))
                    e_ = max(e_, relerr(got_l[0] @ got_l[0], fresh_l[0] @ fresh_l[0]), relerr(got_l[1] @ got_l[1], fresh_l[1] @ fresh_l[1]))
                st = {a_: v_ for a_, v_ in m["states"][sid].items() if a_ != "planeStress"}
                if dim_ps := (m["dim"] == 2):
                    cfg = "ps" if m["states"][sid].get("planeStress", True) else "pe"
                    n = 3
                got = got_l[0] if got_l else None
                if have and e_ <= 1e-9 and kind in ("readC", "readS"):
                    # the fresh law itself must be the law of the contents the model says are in force
                    npts = int(np.prod(m["fshape"])) if m["fshape"] else 1
                    G = got.reshape((-1, n, n))
                    for q in range(npts):
                        pq = {a_: (np.asarray(v_, dtype=float).reshape(-1)[q] if np.ndim(v_) else v_) for a_, v_ in st.items()}
                        pq = {a_: float(v_) for a_, v_ in pq.items()}
                        Cm, Sm = law_model(lw, pm, m["cls"], cfg, pq, [[1, 0, 0], [0, 1, 0]] if m["cls"] != "Isotropic" else None)
                        if m["cls"] == "Isotropic":
                            Sm = iso_S_spec(cfg, pq["E"], pq["v"])
                        ref = Cm if kind == "readC" else Sm
                        if ref is None:
                            e_ = max(e_, relerr(G[q] @ fl(Sm if kind == "readC" else Cm), np.eye(n)))
                        else:
                            e_ = max(e_, relerr(G[q], fl(ref)))
                if e_ > 1e-9:
                    upto = []
                    cnt = 0
                    for o in req["lazy"][k]["ops"]:
                        upto.append(o)
                        if o[0].startswith("read"):
                            cnt += 1
                            if cnt == nread:
                                break
                    viol.append(("lazy-update:%s" % m["cls"],
                                 "%s (%s parameters): after ops %s the getter %s does not reflect the current parameter contents (rel. %.2e vs a freshly built law)"
                                 % (m["cls"], {0: "scalar", 1: "per-element", 2: "per-Gauss-point"}[len(m["fshape"])], [o[:2] for o in upto],
                                    {"readSqrt": "Get_sqrt_C_S()", "readWalpole": "Walpole_Decomposition()", "readHet": "isHeterogeneous", "readC": "C", "readS": "S"}.get(kind, kind[4:]), e_),
                                 {"replay_py": REPLAY_LAZY % dict(cls=m["cls"], dim=m["dim"], init=req["lazy"][k]["init"], ops=upto),
                                  "ops": upto, "init": req["lazy"][k]["init"], "cls": m["cls"], "dim": m["dim"]}))
                    break
    # ---------------- purity / repeatability
    for c, r in zip(req["purity"], impl.get("purity", [])):
        tag = "%s:%s:%s" % (c["what"], c.get("cls", "%dD" % c["dim"]), c["dtype"])
        count("purity:" + tag)
        ctx.note_case("purity:%s:%s" % (tag, np.shape(c["arrays"].get("C", c["arrays"].get("M", [])))))
        if "raises" in r:
            mism.append(("purity %s" % tag, "raised %s" % r["raises"]))
            continue
        rp = {"replay_py": REPLAY_PURITY % dict(verif=common.VERIF, case=c), "case": c, "impl_result": r}
        if r["modified"]:
            mo = r["modified"][0]
            viol.append(("input-modified:%s" % (c.get("cls") or ("Anisotropic" if c["what"] == "aniso" else "Models._utils")),
                         "%s (%s-typed input): the caller's array `%s` was modified in place by %s (max change %.3g)" % (tag, c["dtype"], mo["arg"], mo["after"], mo["max_change"]), rp))
        if c["what"] == "out":
            if r["repeat_err"] > 1e-9:
                viol.append(("output-aliased:%s" % c["cls"],
                             "%s: after in-place edits of the arrays returned by %s the law reports %s but %s (rel. %.3g)"
                             % (c["cls"], r.get("touched"), ("changed parameters %s" % r.get("params_changed")) if r.get("params_changed") else "unchanged parameters",
                                r.get("repeat_step"), r["repeat_err"]), rp))
            continue
        if r["repeat_err"] > 1e-12:
            viol.append(("not-repeatable:%s" % (c.get("cls") or ("Anisotropic" if c["what"] == "aniso" else "Models._utils")),
                         "%s (%s-typed input): %s gives a different result (rel. %.3g) than the first time" % (tag, c["dtype"], r.get("repeat_step"), r["repeat_err"]), rp))
    # ---------------- boundary: value 0 is accepted by PositiveParameter; no law may come out
    for c, r in zip(req["boundary"], impl["boundary"]):
        ctx.note_case("boundary:%s:%d" % (c["cls"], c["dim"]))
        if "raises" not in r:
            viol.append(("boundary-degenerate:%s" % c["cls"], "%s with degenerate data (zero modulus / singular 2-D frame) returned a law instead of raising: %s" % (c["cls"], str(r["C"])[:100]), {"case": c}))
    ctx.cov["corr_distribution"] = dist
    ctx.cov["corr_tolerance"] = TOL
    ctx.cov["boundary_zero_modulus"] = [r.get("raises", "returned") for r in impl["boundary"]]
    ctx.obligation("corr:model-vs-implementation", not mism, "; ".join("%s: %s" % (x[0], x[1]) for x in mism[:5]))
    ctx.sample({"law_case": req["law"][4], "impl_C_row0": impl["law"][4].get("C", [[None]])[0] if "C" in impl["law"][4] else impl["law"][4]})
    for x in mism[:3]:
        rep = x[2] if len(x) > 2 else {}
        ctx.violation("corr:model-vs-impl:" + x[0].split("#")[0].split(" ")[0], "translated model and implementation disagree: %s: %s" % (x[0], x[1]),
                      dict(rep, mismatches=["%s: %s" % (y[0], y[1]) for y in mism[:20]]), found_input=False)
    seen = set()
    for key, what, rep in viol:
        if key in seen:
            continue
        seen.add(key)
        ctx.violation(key, what, rep, found_input=True)
    return viol


# --------------------------------------------------------------------------- run
def run(ctx):
    ctx.assumptions += [
        "translator/laws.py, translator/pmat.py, translator/c11_sym.py interpret the accepted numpy subset faithfully (checked every run against material.C/.S, Get_Pmat, Apply_Pmat, KelvinMandel_Matrix on random inputs at 1e-11)",
        "np.linalg.inv, np.einsum, np.cross and broadcasting over per-element / per-Gauss-point arrays are trusted numpy behaviour (exercised by the correspondence runs, not modelled)",
        "theorems are over R with r2 a real such that r2*r2 = 2; floating-point rounding is not modelled",
        "PositiveParameter accepts 0; the theorems assume moduli <> 0 (at 0 the implementation raises on read, checked each run)",
    ]
    ok_static, log = ctx.ensure_static()
    if not ok_static:
        ctx.obligation("static-lib", False, log[-1500:])
        ctx.violation("static-lib-build", "coq/lib or coq/model does not build", {"log": log[-3000:]}, found_input=False)
        return
    pm = lw = None
    try:
        pm = T_pmat.read_pmat(ctx.repo)
        gen_p = T_pmat.emit_coq(pm)
        ctx.obligation("translate:pmat", True, "Get_Pmat 2D/3D, Apply_Pmat, KelvinMandel_Matrix")
    except (TranslateError, SyntaxError, OSError) as ex:
        pm = None
        ctx.obligation("translate:pmat", False, str(ex))
        ctx.violation("translate:pmat", "translator rejected Models/_utils.py (theorems not re-established; the correspondence still runs on the property predicates): %s" % ex,
                      {"construct": str(ex)}, found_input=False)
    try:
        lw = T_laws.read_laws(ctx.repo)
        gen_l = T_laws.emit_coq(lw)
        ctx.obligation("translate", True, "3 law classes x 3 configurations, Anisotropic")
        ctx.cov["descriptor_ranges"] = {c: {p: ["%s %s" % (o, b) for o, b in cs] for p, cs in r["params"].items()} for c, r in lw["classes"].items()}
    except (TranslateError, SyntaxError, OSError) as ex:
        lw = None
        ctx.obligation("translate", False, str(ex))
        ctx.violation("translate", "translator rejected the source (theorems not re-established; the correspondence still runs on the property predicates): %s" % ex,
                      {"construct": str(ex)}, found_input=False)
    try:
        wiring = T_laws.read_lazy_wiring(ctx.repo)
        ctx.obligation("translate:lazy-wiring", True, "_Parameter.__set__ (line %d) reaches Need_Update() unconditionally; C/S getters as modelled" % wiring["set_line"])
    except (TranslateError, SyntaxError, OSError) as ex:
        ctx.obligation("translate:lazy-wiring", False, str(ex))
        ctx.violation("translate:lazy-wiring", "the lazy-update control flow is not the one the model EFModel.C11_Lazy assumes (C11_lazy_update no longer speaks about this code): %s" % ex,
                      {"construct": str(ex)}, found_input=False)
    ctx.cov["conditional_spd_conditions"] = {
        "TransverselyIsotropic": "El,Et,Gl <> 0 and (1-vt)*El - 2*vl^2*Et > 0 (kt > 0; not enforced by the constructor)",
        "Orthotropic": "all moduli <> 0, E3*v23^2 < E2 (asserted in _Behavior) and c_ij denominator < 0 (not enforced)"}
    ctx.copy_props("C11/C11_wf.v", "C11/C11_laws.v", "C11/C11_pmat.v", "C11/C11_pmat_norm.v", "C11/C11_aniso.v", "C11/C11_aniso3d.v", "C11/C11_lazy.v", "C11/C11_rot.v", "C11/C11_rotinv.v", "C11/C11_rotinv_laws.v", "C11/C11_spdiff.v", "C11/C11_pmat2.v", "C11/C11_aniso_spd.v", "C11/C11_aniso_oop.v")
    res = {}
    holder = {}

    def job(name, files, timeout=900):
        res[name] = ctx.coq(files, timeout=timeout)

    def corr_job():
        holder["viol"] = correspondence(ctx, lw, pm)
    tc = threading.Thread(target=corr_job)
    tc.start()
    # ---- theorem files as a small dependency graph: every file starts as soon as the files it imports are compiled
    dag = {"lazy": (["C11_lazy.v"], [])}
    coq_ok = False
    if pm is not None:
        open(os.path.join(ctx.build, "Gen_Pmat.v"), "w").write(gen_p)
        files = ["Gen_Pmat.v", "C11_wf.v"]
        if lw is not None:
            open(os.path.join(ctx.build, "Gen_Laws.v"), "w").write(gen_l)
            files = ["Gen_Pmat.v", "Gen_Laws.v", "C11_wf.v"]
        g = ctx.coq(files, timeout=300, count=False)
        if not g.ok:
            ctx.obligation("generated-files-compile", False, g.log[-1500:])
            ctx.violation("generated-files", "the regenerated Coq definitions do not compile", {"log": g.log[-3000:]}, found_input=False)
        else:
            coq_ok = True
            dag.update({"pmat": (["C11_pmat.v"], []), "norm": (["C11_pmat_norm.v"], ["pmat"]), "pmat2": (["C11_pmat2.v"], []),
                        "rot": (["C11_rot.v"], []), "rotinv": (["C11_rotinv.v"], ["rot"])})
            if lw is not None:
                dag.update({"laws": (["C11_laws.v"], []), "spdiff": (["C11_spdiff.v"], ["laws"]),
                            "aniso": (["C11_aniso.v"], []), "aniso3d": (["C11_aniso3d.v"], []),
                            "rotlaws": (["C11_rotinv_laws.v"], ["pmat", "laws", "rotinv"]),
                            "anisospd": (["C11_aniso_spd.v"], ["pmat", "rot", "aniso", "aniso3d"]),
                            "anisooop": (["C11_aniso_oop.v"], ["anisospd"])})
    if not (coq_ok and lw is not None):
        ctx.obligation("coqc:skipped:law-theorems", False, "translation failed: the theorem files were not compiled against this tree")
    done = {k: threading.Event() for k in dag}

    def node(name):
        files, deps = dag[name]
        for d in deps:
            done[d].wait()
        if all(d in res and res[d].ok for d in deps):
            job(name, files)
        else:
            ctx.obligation("coqc:skipped:%s" % files[0], False, "a file it imports did not compile: %s" % [d for d in deps if not (d in res and res[d].ok)])
        done[name].set()
    th = [threading.Thread(target=node, args=(k,)) for k in dag]
    for t in th:
        t.start()
    for t in th:
        t.join()
    tc.join()
    ctx.sample({"theorem": "iso_spd_3d : forall r2 E v, r2*r2 = 2 -> iso_ok E v -> posdef (iso_3d_C r2 E v) 6",
                "proof": "closed form by field, then the proved block Sylvester criterion posdef_block33_diag"})
    ctx.sample({"theorem": "pmat3_orthogonal : forall axes r2, r2*r2=2 -> unit_orth3 axes -> P P^T = I /\\ P^T P = I", "proof": "nsatz, 72 entries"})
    # ---- expected-refutable theorems
    refuted = {}
    if "norm" in res and not res["norm"].ok:
        ctx.log("pmat_normalises does not check on this tree; searching a witness")
        found = refute_pmat(ctx, pm)
        refuted["norm"] = found
        if found:
            dim, a, b, n1, n2, i, j, val = found[0]
            ctx.violation("pmat-normalise:Get_Pmat",
                          "Get_Pmat does not normalise its axes: for the orthogonal axes %s, %s (norms %d, %d) entry (%d,%d) of P P^T is %s instead of %d" % (list(a), list(b), n1, n2, i, j, val, int(i == j)),
                          {"replay_py": REPLAY_PMAT % dict(a=[float(x) for x in a], b=[float(x) for x in b]), "obligation": "pmat%d_normalises" % dim,
                           "model_value": str(val), "axes": [list(a), list(b)]}, found_input=True)
        else:
            ctx.violation("proof-broken:C11_pmat_norm.v", "pmat_normalises no longer checks and no witness was found", {"log": res["norm"].log[-3000:]}, found_input=False)
    if "aniso3d" in res and not res["aniso3d"].ok:
        ctx.log("aniso_voigt_kelvin_consistent_3d does not check on this tree; searching a witness")
        w = refute_aniso(ctx, lw)
        if w:
            Cv = (np.eye(6) * 3 + 1).tolist()
            ctx.violation("aniso-voigt-3d:Anisotropic._Behavior",
                          "Anisotropic._Behavior (dim 3, useVoigtNotation=True) hands the Voigt matrix itself to Apply_Pmat: entry (%d,%d) is not scaled to Kelvin-Mandel" % w,
                          {"replay_py": REPLAY_ANISO % dict(Cv=Cv), "obligation": "aniso_voigt_kelvin_consistent_3d"}, found_input=True)
        else:
            ctx.violation("proof-broken:C11_aniso3d.v", "aniso_voigt_kelvin_consistent_3d no longer checks and no witness was found", {"log": res["aniso3d"].log[-3000:]}, found_input=False)
    # ---- correspondence (+ property predicates on the implementation's outputs = the search) ran in parallel
    viol = holder.get("viol")
    # ---- other broken proofs: report (the predicates above give the failing input if the property is violated)
    for name in ("laws", "spdiff", "pmat", "pmat2", "lazy", "aniso", "rot", "rotinv", "rotlaws", "anisospd", "anisooop"):
        r = res.get(name)
        if r is not None and not r.ok:
            ctx.violation("proof-broken:%s" % r.failed_file,
                          "theorem file %s no longer checks against the regenerated definitions%s" % (r.failed_file, "" if viol else " and the property predicates hold on all sampled inputs"),
                          {"obligation": r.failed_file, "log": r.log[-3000:]}, found_input=False)
