"""C05 -- each time scheme satisfies its update rule and discrete equation of motion.

1. translator/timeschemes.py interprets (python ast, fail-closed) the per-AlgoType branches of
   _Solver_Evaluate_u_v_a_for_time_scheme, _Solver_Get_K_C_M_coefs_for_time_scheme, _Solver_Apply_Neumann,
   _Solver_Update_solutions and the two setters in ctx.repo  ->  Gen_TimeSchemes.v (regenerated every run).
2. static theorem files coq/props/C05/*.v are compiled against it (theorems over R, for every index
   type, all linear K C M, all parameters in the asserted ranges, all previous states).
3. correspondence: real Elastic / Thermal simulations (tiny dyadic meshes, Rayleigh damping, loads,
   constraints, several steps with switching algorithm and step size, direct and Newton paths) against
   the translated trees evaluated exactly in Fractions, plus the documented relations evaluated directly
   on the implementation's output (corr/c05_oracle.py, hand-written from the docstrings).
4. if 2 broke: search rational parameters where the two sides of a theorem differ on the translated
   trees, then replay a real Solve() on a system with 2 free dofs and evaluate the residual.
"""
import json
import os
from concurrent.futures import ThreadPoolExecutor
from fractions import Fraction as Fr

from translator import timeschemes as TS
from translator.timeschemes import TranslateError
from corr import c05_oracle as O
from vlib import common

ALGOS = TS.ALGOS
TOL = 1e-9
HYP = [a for a in ALGOS if a != "parabolic"]

REPLAY = '''import sys, json
from corr import c05_replay   # /verif/corr/c05_replay.py: runs the scenario on the real EasyFEA and evaluates
sc = json.loads(%r)           # the documented relations and the equation-of-motion residual on its output
sys.exit(c05_replay.main(sc))
'''

SQUARE = {"coords": [[0, 0, 0], [1, 0, 0], [1, 1, 0], [0, 1, 0]], "tris": [[0, 1, 2], [0, 2, 3]]}
MESHES = [
    SQUARE,
    {"coords": [[0, 0, 0], [1, 0, 0], [2, 0, 0], [0, 1, 0], [1, 1, 0], [2, 1, 0]],
     "tris": [[0, 1, 4], [0, 4, 3], [1, 2, 5], [1, 5, 4]]},
    {"coords": [[0, 0, 0], [1.5, 0.25, 0], [1.25, 1, 0], [-0.25, 0.75, 0], [0.5, 0.5, 0]],
     "tris": [[0, 1, 4], [1, 2, 4], [2, 3, 4], [3, 0, 4]]},
]


# ------------------------------------------------------------------------------------------------
# scenario generation (every choice from ctx.rng)
# ------------------------------------------------------------------------------------------------
def dy(rng, lo, hi, den):
    return rng.randint(lo, hi) / den


def gen_params(rng, algo):
    dt = rng.choice([0.125, 0.25, 0.5, 1.0, 0.375])
    if algo == "parabolic":
        return {"algo": algo, "dt": dt, "alpha": rng.choice([0.25, 0.5, 0.75, 1.0, 0.625])}
    st = {"algo": algo, "dt": dt, "beta": rng.choice([0.25, 0.125, 0.3125, 0.5, 0.375]),
          "gamma": rng.choice([0.5, 0.625, 0.75, 1.0]), "alpha": rng.choice([0.0, 0.125, 0.25, 0.5, 0.75, 0.3125])}
    if algo == "hht_newmark":
        st["alpha"] = rng.choice([0.0, 0.125, 0.25, 0.3125, 0.0625])
    return st


THIRD = 1 / 3


def directed_params(algo):
    """every documented special value / boundary / default of a parameter, crossed with non-default values
    of the other parameters (a branch taken only at alpha == 1/2, beta == 1/4 ... is hit exactly)."""
    out = []
    if algo == "parabolic":
        for dt, th in ((0.25, 0.5), (1.0, 1.0), (0.375, 0.25), (0.5, 0.5), (0.125, 1.0)):
            out.append({"algo": algo, "dt": dt, "alpha": th})
        return out
    bgs = [(0.25, 0.5), (0.375, 0.75), (0.125, 0.5), (0.25, 1.0), (0.5, 0.5)]       # defaults first, then non-defaults
    alphas = {"hht_newmark": [0.0, THIRD, 0.25, 0.125]}.get(algo, [0.5, 0.0, 0.25, 0.75])   # 0.5 is the default
    dts = [0.25, 1.0, 0.375]
    n = 0
    for al in alphas:
        for be, ga in bgs:
            # keep the list short: all alphas with default and one non-default (beta, gamma); all (beta, gamma) at alpha 1/2 and 0
            if not (be, ga) in bgs[:2] and al not in alphas[:2]:
                continue
            out.append({"algo": algo, "dt": dts[n % 3], "beta": be, "gamma": ga, "alpha": al})
            n += 1
    return out


def gen_scenario(rng, kind, nsteps, newton=False, algos=None, steps=None):
    mesh = rng.choice(MESHES)
    nn = len(mesh["coords"])
    sc = {"kind": kind, "coords": mesh["coords"], "tris": mesh["tris"], "thickness": rng.choice([1.0, 0.5, 2.0]),
          "rho": rng.choice([1.0, 2.0, 0.5]), "newton": newton}
    dof_n = 1 if kind == "thermal" else 2
    dirs_all = ["t"] if kind == "thermal" else ["x", "y"]
    if kind == "thermal":
        sc.update({"k": rng.choice([1.0, 2.0, 0.5]), "c": rng.choice([1.0, 0.5, 2.0])})
    else:
        sc.update({"E": rng.choice([4.0, 8.0, 16.0]), "nu": rng.choice([0.0, 0.25, 0.125]),
                   "rayleigh": [rng.choice([0.0, 0.25, 0.5]), rng.choice([0.0, 0.125, 0.25])]})
    nodes = list(range(nn))
    rng.shuffle(nodes)
    nfix = rng.randint(1, max(1, nn - 2))
    fixed = sorted(nodes[:nfix])
    homog = rng.random() < 0.4
    sc["dirichlet"] = []
    taken = set()
    for nd in fixed:
        dirs = dirs_all if (kind == "thermal" or rng.random() < 0.6) else [rng.choice(dirs_all)]
        vals = [0.0 if homog else dy(rng, -4, 4, 8) for _ in dirs]
        sc["dirichlet"].append({"nodes": [nd], "values": vals, "dirs": list(dirs)})
        for d in dirs:
            taken.add(nd * dof_n + dirs_all.index(d))
    sc["neumann"] = []
    for nd in nodes[nfix:nfix + rng.randint(0, 2)]:
        d = rng.choice(dirs_all)
        sc["neumann"].append({"nodes": [nd], "values": [dy(rng, -8, 8, 4)], "dirs": [d]})
    n = nn * dof_n
    consistent = rng.random() < 0.5
    u = [dy(rng, -8, 8, 8) for _ in range(n)]
    v = [dy(rng, -8, 8, 8) for _ in range(n)]
    a = [dy(rng, -8, 8, 8) for _ in range(n)]
    if consistent:
        for dcond in sc["dirichlet"]:
            for d, val in zip(dcond["dirs"], dcond["values"]):
                i = dcond["nodes"][0] * dof_n + dirs_all.index(d)
                u[i], v[i], a[i] = val, 0.0, 0.0
    sc["state"] = {"u": u, "v": v, "a": a}
    pool = algos or (["parabolic"] if kind == "thermal" else ALGOS)
    if newton:
        pool = [x for x in pool if x != "euler_explicit"]
    sc["steps"] = []
    for i in range(nsteps if steps is None else len(steps)):
        st = gen_params(rng, rng.choice(pool)) if steps is None else dict(steps[i])
        st["neumann_scale"] = rng.choice([1.0, 0.5, -1.0, 2.0, 0.0])
        sc["steps"].append(st)
    if kind == "elastic" and sc["rayleigh"][0] == 0.0 and any(s["algo"] == "parabolic" for s in sc["steps"]):
        # K + C/(alpha dt) must be non-singular whatever the constraints: keep a mass-proportional part in C
        sc["rayleigh"][0] = 0.25
    return sc


# ------------------------------------------------------------------------------------------------
# exact model of one step from the translated trees
# ------------------------------------------------------------------------------------------------
def fr_vec(v):
    return [Fr(x) for x in v]


def fr_mat(m):
    return [[Fr(x) for x in r] for r in m]


def solve_exact(A, b):
    n = len(b)
    M = [list(A[i]) + [b[i]] for i in range(n)]
    for c in range(n):
        p = next((r for r in range(c, n) if M[r][c] != 0), None)
        if p is None:
            raise ZeroDivisionError("singular system")
        M[c], M[p] = M[p], M[c]
        piv = M[c][c]
        M[c] = [x / piv for x in M[c]]
        for r in range(n):
            if r != c and M[r][c] != 0:
                f = M[r][c]
                M[r] = [x - f * y for x, y in zip(M[r], M[c])]
    return [M[i][n] for i in range(n)]


def stored_params(T, algo, P):
    r = T["schemes"][algo]
    env = {k: Fr(P.get(k, 0)) for k in ("dt", "beta", "gamma", "alpha")}
    out = dict(env)
    for k, t in r["stored"].items():
        out[k] = TS.ev(t, env)
    return out


def model_step(T, algo, P, rec):
    r = T["schemes"][algo]
    env = stored_params(T, algo, P)
    env.update({"K": fr_mat(rec["K"]), "C": fr_mat(rec["C"]), "M": fr_mat(rec["M"]),
                "u_n": fr_vec(rec["prev"]["u"]), "v_n": fr_vec(rec["prev"]["v"]), "a_n": fr_vec(rec["prev"]["a"]),
                "bN": fr_vec(rec["bN"]), "F": fr_vec(rec["F"])})
    n = len(env["u_n"])
    env["x"] = [Fr(0)] * n
    cK, cC, cM = [TS.ev(c, env) for c in r["coefs"]]
    rhs = TS.ev(r["rhs"], env)
    A = TS.ev(r["sysop"], env)          # the matrix _Solver_Apply_Dirichlet assembles
    x = [Fr(0)] * n
    if algo != "euler_explicit":          # _Solver_Apply_Dirichlet: the unknown a^n is zero on constrained dofs
        for d, val in zip(rec["dir_dofs"], rec["dir_vals"]):
            x[d] = Fr(val)
    free, known = rec["unknown"], rec["known"]
    bi = [rhs[i] - sum(A[i][j] * x[j] for j in known) for i in free]
    xi = solve_exact([[A[i][j] for j in free] for i in free], bi)
    for i, val in zip(free, xi):
        x[i] = val
    env["x"] = x
    up = [None if t is None else TS.ev(t, env) for t in r["up"]]
    ev = [None if t is None else TS.ev(t, env) for t in r["ev"]]
    new = {"u": up[0], "v": up[1] if up[1] is not None else env["v_n"], "a": up[2] if up[2] is not None else env["a_n"]}
    return {"coefs": [cK, cC, cM], "rhs": rhs, "x": x, "new": new, "ev": ev, "up": up}


def reldiff(model, impl, scale):
    """max |model - impl| relative to `scale` (the natural size of the quantity in THIS problem; no absolute floor,
    so a problem scaled by 2^-60 is judged exactly like the O(1) one)."""
    d = max(abs(float(m) - i) for m, i in zip(model, impl))
    if d == 0.0:
        return 0.0
    return d / scale if scale > 0 else float("inf")


def step_scales(algo, st, m, rec):
    """natural magnitudes of one step: S = displacement-like size, then S/dt, S/dt^2 for velocity / acceleration
    (round-off of the difference quotients lives on these, not on the possibly cancelling results)."""
    dt = float(st["dt"])
    prev = rec["prev"]
    S = max(O.scale(prev["u"], m["x"] if algo != "euler_explicit" else []), dt * O.scale(prev["v"]))
    if algo != "parabolic":
        S = max(S, dt * dt * O.scale(prev["a"], m["x"] if algo == "euler_explicit" else []))
    dv = dt * (float(st["alpha"]) if algo == "parabolic" else 1.0)
    sv = max(S / dv, O.scale(m["new"]["v"]))
    sa = max(S / (dt * dt), O.scale(m["new"]["a"]))
    return {"u": max(S, O.scale(m["new"]["u"])), "v": sv, "a": sa}


# ------------------------------------------------------------------------------------------------
def replay_of(sc):
    return {"replay_py": REPLAY % json.dumps(sc), "scenario": sc}


def run_impl(ctx, scenarios, timeout=900):
    rc, out, err = ctx.impl_python(os.path.join(common.VERIF, "corr", "c05_run.py"),
                                   input=json.dumps({"scenarios": scenarios}), timeout=timeout)
    if rc != 0 or "@@C05JSON@@" not in out:
        return None, (err or out)[-2000:]
    return json.loads(out.split("@@C05JSON@@")[1])["results"], ""


def one_step_scenario(sc, res, n):
    """the scenario cut after step n, from the original initial state.  (Not reduced to the single step: a
    violation may depend on the steps before it, e.g. a value cached from a previous parameter set.)"""
    s = dict(sc)
    s["steps"] = sc["steps"][:n + 1]
    s.pop("energy", None)
    s.pop("restart", None)
    return s


def judge(ctx, T, sc, res, tag):
    """compare one scenario's run with the model and with the documented relations."""
    from corr import c05_replay
    if not res["ok"]:
        ctx.obligation("corr:%s" % tag, False, res["error"])
        ctx.violation("impl-raises:%s" % res["error"].split(":")[0], "the implementation raised on an admissible scenario: %s" % res["error"],
                      replay_of(sc), found_input=True)
        return
    msgs = []
    bad = c05_replay.check_steps(sc, res["steps"], out=msgs.append)
    if sc.get("info_only"):
        ctx.cov["info:" + tag] = {"restart_messages": [b for b in bad if "restart:" in b][:2] or "continuation identical",
                                  "note": "not judged by C05; proposed fix proposed_fixes/C05-elastic-parabolic-save-restore-speed.diff"}
        bad = [b for b in bad if "restart:" not in b]
    if bad:
        # the documented relations fail on the implementation's own output: a genuine violation
        n = int(bad[0].split()[1])
        algo = sc["steps"][n]["algo"]
        kind = "params" if "params:" in bad[0] else "restart" if "restart:" in bad[0] else "update" if "update relation" in bad[0] else "eom" if "K u_t" in bad[0] \
            else "energy" if "energy" in bad[0] else "coefs"
        ctx.violation("impl:%s:%s%s" % (algo, kind, ":newton" if sc.get("newton") else ""), bad[0],
                      replay_of(one_step_scenario(sc, res, n) if kind not in ("energy", "restart") else sc), found_input=True)
    for n, (st, rec) in enumerate(zip(sc["steps"], res["steps"])):
        algo = st["algo"]
        key = "%s:%s:%s" % (sc["kind"], algo, "newton" if sc.get("newton") else "direct")
        ctx.note_case(key + ":a%s:b%s:g%s" % (st.get("alpha"), st.get("beta"), st.get("gamma")))
        ctx.cov.setdefault("steps_per_algo", {}).setdefault(key, 0)
        ctx.cov["steps_per_algo"][key] += 1
        if T is None:
            continue
        try:
            m = model_step(T, algo, st, rec)
        except ZeroDivisionError as ex:
            ctx.obligation("corr:model:%s" % tag, False, "model evaluation failed: %s" % ex)
            continue
        tol = 1e-8 if sc.get("newton") else TOL
        ss = step_scales(algo, st, m, rec)
        diffs = {f: reldiff(m["new"][f], rec["new"][f], ss[f]) for f in ("u", "v", "a")}
        if not sc.get("newton"):
            Anorm = max(abs(float(c)) * max(abs(x) for row in rec[k] for x in row) for c, k in zip(m["coefs"], ("K", "C", "M")))
            diffs["rhs"] = reldiff(m["rhs"], rec["rhs"], max(O.scale(m["rhs"], rec["bN"], rec["F"]), Anorm * ss["u"] if algo != "euler_explicit" else
                                                           Anorm * ss["a"] + O.scale(O.matvec(rec["K"], rec["prev"]["u"]), O.matvec(rec["C"], rec["prev"]["v"]))))
            diffs["coefs"] = reldiff(m["coefs"], rec["coefs"], O.scale(m["coefs"]))
            for nm, f, me, ie in zip(("u_t", "v_t", "a_t"), ("u", "v", "a"), m["ev"], rec["ev"]):
                if (me is None) != (ie is None):
                    diffs[nm] = float("inf")
                elif me is not None:
                    diffs[nm] = reldiff(me, ie, ss[f])
        ctx.cov["max_rel_diff"] = max(ctx.cov.get("max_rel_diff", 0.0), max(diffs.values()))
        worst = max(diffs, key=diffs.get)
        if diffs[worst] > tol:
            what = "%s step %d (%s %s): model and implementation differ on %s by %.3e relative" % (tag, n, algo, {k: st[k] for k in st if k != "algo"}, worst, diffs[worst])
            ctx.obligation("corr:%s:%d" % (tag, n), False, what)
            if not bad:
                why = (" (Newton path: the incremental solve and the direct system of _Solver_Apply_Neumann/_Solver_Get_K_C_M_coefs disagree; the documented "
                       "relations hold on the Newton result)") if sc.get("newton") else \
                      " (the documented relations hold on the implementation's output, so the model/translation is out of step)"
                ctx.violation("corr:%s:%s%s" % (algo, worst, ":newton-vs-direct" if sc.get("newton") else ""), what + why,
                              replay_of(one_step_scenario(sc, res, n)), found_input=False)
            return
    ctx.obligation("corr:%s" % tag, not bad, "; ".join(bad[:2]))


def scaled_twin(base, k=0, kT=0, kL=0, kE=0):
    """the same scenario in other units, every factor a power of two (exact in floats):
       values  x 2^k : previous state, loads, prescribed values            -> u, v, a x 2^k
       time    x 2^kT: dt x s, v / s, a / s^2, density x s^2, Rayleigh (coefM / s, coefK x s), capacity c x s
                                                                            -> u same, v / s, a / s^2
       lengths x 2^kL: node coordinates x s, density / s^2 (2-D: K unchanged, M ~ rho L^2)   -> same u, v, a
       moduli  x 2^kE: E (or k) x s, density x s, loads x s                                 -> same u, v, a"""
    import copy
    sV, sT, sL, sE = 2.0 ** k, 2.0 ** kT, 2.0 ** kL, 2.0 ** kE
    sc = copy.deepcopy(base)
    sc["state"]["u"] = [sV * x for x in sc["state"]["u"]]
    sc["state"]["v"] = [sV / sT * x for x in sc["state"]["v"]]
    sc["state"]["a"] = [sV / sT / sT * x for x in sc["state"]["a"]]
    def bc(holder):
        for d in holder.get("dirichlet", []):
            d["values"] = [sV * x for x in d["values"]]
        for d in holder.get("neumann", []):
            d["values"] = [sV * sE * x for x in d["values"]]
    bc(sc)
    for st in sc["steps"]:
        bc(st)
        st["dt"] = st["dt"] * sT
    sc["coords"] = [[sL * c for c in pt] for pt in sc["coords"]]
    if sc["kind"] == "thermal":
        sc["k"] *= sE
        sc["rho"] *= sE / (sL * sL)
        sc["c"] *= sT
    else:
        sc["E"] *= sE
        sc["rho"] *= sE * sT * sT / (sL * sL)
        sc["rayleigh"] = [sc["rayleigh"][0] / sT, sc["rayleigh"][1] * sT]
    what = ", ".join("%s x 2^%d" % (nm, e) for nm, e in (("values", k), ("time", kT), ("lengths", kL), ("moduli", kE)) if e)
    sc["scale_twin"] = {"k": k, "kT": kT, "what": what, "base": base}
    return sc


def nudge(x, how):
    """a near-equal value: 1 ulp up, or about 1e-6 relative (2^-20)"""
    import math
    return math.nextafter(x, math.inf) if how == "ulp" else x * (1 + 2.0 ** -20)


def near_equal_steps(rng, algo):
    """re-select the same scheme with parameters differing by ~1e-6 relative or 1 ulp from the ones in force"""
    P = gen_params(rng, algo)
    if algo == "hht_newmark":
        P["alpha"] = 0.125
    elif algo != "parabolic":
        P["alpha"] = min(P["alpha"], 0.75)
    steps = [dict(P)]
    keys = ["dt", "alpha"] if algo == "parabolic" else ["dt", "dt", "beta", "gamma", "alpha"]
    hows = ["rel", "ulp", "rel", "ulp", "rel"]
    for key, how in zip(keys, hows):
        P = dict(P)
        if key == "alpha" and algo == "parabolic" and P["alpha"] >= 1.0:
            P["alpha"] = 0.5
        P[key] = nudge(P[key], how) if P[key] != 0 else 2.0 ** -20
        steps.append(dict(P))
    return steps


def bc_switch_scenario(rng, algo):
    """the scheme is selected once; then the constrained node set changes between steps keeping its size, the prescribed
    values change, the loads move -- each step must satisfy its relations with the constraints in force at that step"""
    kind = "thermal" if algo == "parabolic" else "elastic"
    P = gen_params(rng, algo)
    steps = [dict(P)] + [dict(P, keep_scheme=True) for _ in range(4)]
    sc = gen_scenario(rng, kind, 0, steps=steps)
    nn = len(sc["coords"])
    dirs_all = ["t"] if kind == "thermal" else ["x", "y"]
    nfix = rng.randint(1, nn - 2)
    for i, st in enumerate(sc["steps"]):
        if i == 2:
            st["dirichlet"] = [dict(d) for d in sc["steps"][1]["dirichlet"]]      # unchanged set, new values
            for d in st["dirichlet"]:
                d["values"] = [dy(rng, -4, 4, 8) for _ in d["values"]]
        else:
            nodes = rng.sample(range(nn), nfix)
            st["dirichlet"] = [{"nodes": [nd], "values": [dy(rng, -4, 4, 8) for _ in dirs_all], "dirs": list(dirs_all)} for nd in sorted(nodes)]
        free = [nd for nd in range(nn) if nd not in [d["nodes"][0] for d in st["dirichlet"]]]
        st["neumann"] = [{"nodes": [rng.choice(free)], "values": [dy(rng, -8, 8, 4)], "dirs": [rng.choice(dirs_all)]}]
    return sc


def energy_scenarios(rng, tier):
    """undamped, unloaded, homogeneous constraints; first step is backward Euler (ends in dynamic equilibrium
    whatever the start), then a long interleaving of average-acceleration Newmark and midpoint with varying
    step sizes (conservation), then backward Euler steps (no increase)."""
    out = []
    for mesh, nsteps in ((SQUARE, 60 if tier == "quick" else 200), (MESHES[1], 40 if tier == "quick" else 200)):
        nn = len(mesh["coords"])
        sc = {"kind": "elastic", "coords": mesh["coords"], "tris": mesh["tris"], "thickness": 1.0, "rho": 2.0, "E": 8.0, "nu": 0.25,
              "rayleigh": [0.0, 0.0], "newton": False, "neumann": [],
              "dirichlet": [{"nodes": [0], "values": [0.0, 0.0], "dirs": ["x", "y"]}, {"nodes": [nn - 1], "values": [0.0], "dirs": ["x"]}]}
        n = 2 * nn
        u = [dy(rng, -8, 8, 16) for _ in range(n)]
        v = [dy(rng, -8, 8, 8) for _ in range(n)]
        for i in (0, 1, 2 * (nn - 1)):
            u[i] = v[i] = 0.0
        sc["state"] = {"u": u, "v": v, "a": [0.0] * n}
        steps = [{"algo": "euler_implicit", "dt": 0.125, "beta": 0.25, "gamma": 0.5, "alpha": 0.0}]
        for _ in range(nsteps):
            steps.append({"algo": rng.choice(["newmark", "midpoint"]), "dt": rng.choice([0.0625, 0.125, 0.25, 0.5, 1.0]),
                          "beta": 0.25, "gamma": 0.5, "alpha": 0.0})
        for _ in range(5):
            steps.append({"algo": "euler_implicit", "dt": rng.choice([0.125, 0.25]), "beta": 0.25, "gamma": 0.5, "alpha": 0.0})
        sc["steps"] = steps
        sc["energy"] = {"from_step": 0}
        out.append(sc)
    return out


def correspondence(ctx, T):
    rng = ctx.rng
    quick = ctx.tier == "quick"
    scs = []
    # every algorithm at least twice on the direct path, then mixed sequences
    for a in HYP:
        scs.append(("direct-%s" % a, gen_scenario(rng, "elastic", 2, algos=[a])))
    scs.append(("direct-parabolic-elastic", gen_scenario(rng, "elastic", 2, algos=["parabolic"])))
    # directed: documented special values / defaults / boundaries of each parameter x non-default others
    for a in ALGOS:
        pts = directed_params(a)
        kind = "thermal" if a == "parabolic" else "elastic"
        scs.append(("directed-%s" % a, gen_scenario(rng, kind, 0, steps=pts)))
        if a != "euler_explicit":
            scs.append(("directed-newton-%s" % a, gen_scenario(rng, "elastic", 0, newton=True, steps=pts[:4])))
    # Save_Iter after every step, Set_Iter(k), continue: the continuation must be the originally computed next
    # iterate and the state read back the state saved -- every algorithm (parabolic on Thermal), plus a
    # sequence switching between the hyperbolic algorithms
    for a in ALGOS:
        kind = "thermal" if a == "parabolic" else "elastic"
        pts = [gen_params(rng, a) for _ in range(4)]
        sc = gen_scenario(rng, kind, 0, steps=pts)
        sc["restart"] = {"k": rng.randint(0, 2)}
        scs.append(("restart-%s" % a, sc))
    sc = gen_scenario(rng, "elastic", 0, steps=[gen_params(rng, rng.choice(HYP)) for _ in range(5)])
    sc["restart"] = {"k": rng.randint(0, 3)}
    scs.append(("restart-switching", sc))
    # information only (C15's subject, see docs/C05.md): Elastic under the parabolic scheme does not save `speed`
    sc = gen_scenario(rng, "elastic", 0, steps=[gen_params(rng, "parabolic") for _ in range(3)])
    sc["restart"] = {"k": 0}
    sc["info_only"] = True
    scs.append(("info-restart-parabolic-on-elastic", sc))
    # scale invariance: the step is linear in (state, loads, prescribed values) -> the 2^k-scaled twin must return
    # exactly 2^k times the result, satisfy every relation relative to its OWN size, on the direct and Newton paths
    downs, ups = [-60, -45, -40, -37, -33], [30, 50, 12]
    for a in ALGOS:
        kind = "thermal" if a == "parabolic" else "elastic"
        base = gen_scenario(rng, kind, 2, algos=[a])
        scs.append(("scale-base-%s" % a, base))
        for k in ([rng.choice(downs), rng.choice(ups)] if quick else downs + ups):
            scs.append(("scale-%s-2^%d" % (a, k), scaled_twin(base, k)))
        units = [dict(kT=-30), dict(kL=-30), dict(kE=40), dict(kT=20), dict(kL=10, kE=-30), dict(k=-30, kT=-30, kL=-20, kE=34)]
        for u in ([units[0], rng.choice(units[1:])] if quick else units):
            scs.append(("units-%s-%s" % (a, "".join("%s%d" % kv for kv in sorted(u.items()))), scaled_twin(base, **u)))
        # re-selecting the scheme with near-equal parameters (1e-6 relative, 1 ulp), also at a nanosecond time scale
        ne = gen_scenario(rng, kind, 0, steps=near_equal_steps(rng, a))
        scs.append(("near-equal-%s" % a, ne))
        scs.append(("near-equal-%s-time2^-30" % a, scaled_twin(ne, kT=-30)))
        dbl = gen_scenario(rng, kind, 0, steps=[dict(gen_params(rng, a), dt=d) for d in (0.25, 0.5, 0.25, 0.375)])
        scs.append(("dt-change-%s" % a, dbl))
        scs.append(("dt-change-%s-time2^-30" % a, scaled_twin(dbl, kT=-30)))        # dt = 2.3e-10 -> 4.7e-10 -> ...
        # boundary conditions changing between steps while the scheme stays selected
        scs.append(("bc-switch-%s" % a, bc_switch_scenario(rng, a)))
        if a != "euler_explicit":
            nb = gen_scenario(rng, "elastic", 2, newton=True, algos=[a])
            scs.append(("scale-base-newton-%s" % a, nb))
            for k in ([rng.choice(downs + ups)] if quick else [-60, -37, 50]):
                scs.append(("scale-newton-%s-2^%d" % (a, k), scaled_twin(nb, k)))
    for i in range(6 if quick else 40):
        scs.append(("mixed-%d" % i, gen_scenario(rng, "elastic", 4 if quick else 6)))
    for i in range(3 if quick else 12):
        scs.append(("thermal-%d" % i, gen_scenario(rng, "thermal", 3)))
    for a in ALGOS:
        if a != "euler_explicit":      # the setter refuses euler_explicit for nonlinear simulations
            scs.append(("newton-%s" % a, gen_scenario(rng, "elastic", 2, newton=True, algos=[a])))
    for i in range(2 if quick else 16):
        scs.append(("newton-%d" % i, gen_scenario(rng, "elastic", 3, newton=True)))
    for i, sc in enumerate(energy_scenarios(rng, ctx.tier)):
        scs.append(("energy-%d" % i, sc))
    res, err = run_impl(ctx, [s for _, s in scs])
    if res is None:
        ctx.obligation("corr:run", False, err)
        ctx.violation("corr:impl-crash", "the implementation-side harness failed: " + (err.strip().splitlines()[-1][:200] if err.strip() else "no output"),
                      {"stderr": err}, found_input=False)
        return
    by_id = {id(sc): r for (_, sc), r in zip(scs, res)}
    for (tag, sc), r in zip(scs, res):
        judge(ctx, T, sc, r, tag)
        tw = sc.get("scale_twin")
        if tw and r["ok"] and by_id[id(tw["base"])]["ok"]:
            from corr import c05_replay
            more = c05_replay.compare_scaled(sc, by_id[id(tw["base"])]["steps"], r["steps"], tw["k"], tw.get("kT", 0), tw.get("what"))
            ctx.obligation("corr:%s:homogeneous" % tag, not more, "; ".join(more[:1]))
            if more:
                n = int(more[0].split()[1])
                ctx.violation("impl:%s:scaling%s" % (sc["steps"][n]["algo"], ":newton" if sc.get("newton") else ""), more[0], replay_of(sc), found_input=True)
    ctx.cov["corr_scenarios"] = len(scs)
    ctx.cov["corr_tolerance"] = "1e-9 relative to the step's own magnitudes, no absolute floor (1e-8 on the Newton path); exact Fractions on the model side; scaled twins 1e-12"
    # documented precondition: EasyFEA starts from a0 = 0; average-acceleration Newmark then changes the energy in
    # the first step only (the theorem needs dynamic equilibrium, which holds after every step)
    sq = dict(energy_scenarios(ctx.rng, "quick")[0])
    sq["steps"] = [{"algo": "newmark", "dt": 0.25, "beta": 0.25, "gamma": 0.5, "alpha": 0.0} for _ in range(4)]
    sq.pop("energy")
    r2, _ = run_impl(ctx, [sq])
    if r2 and r2[0]["ok"]:
        st = r2[0]["steps"]
        K, M = st[0]["K"], st[0]["M"]
        E = [O.energy(K, M, st[0]["prev"]["u"], st[0]["prev"]["v"])] + [O.energy(K, M, s["new"]["u"], s["new"]["v"]) for s in st]
        ctx.cov["newmark_from_a0_zero"] = {"energies": E, "note": "first step starts from a0 = 0 (not in dynamic equilibrium): "
                                           "energy may change in step 1 only; steps 2.. conserve (theorem newmark_avg_conserves)"}
        drift = max(abs(E[i + 1] - E[i]) for i in range(1, len(E) - 1))
        ctx.obligation("corr:newmark-conserves-from-second-state", drift <= 1e-9 * abs(E[1]), "max drift %.3e" % drift)
        if drift > 1e-9 * abs(E[1]):
            sq["energy"] = {"from_step": 1}
            ctx.violation("impl:newmark:energy", "average-acceleration Newmark changes the energy by %.3e after the first step" % drift, replay_of(sq), True)
    ctx.cov["directed_points_per_algo"] = {a: len(directed_params(a)) for a in ALGOS}
    ctx.sample({"scenario": scs[7][0], "steps": scs[7][1]["steps"][:2]})


# ------------------------------------------------------------------------------------------------
# search on the translated trees (exact), then replay on a real system with 2 free dofs
# ------------------------------------------------------------------------------------------------
def rnd_fr(rng, lo, hi, den):
    return Fr(rng.randint(lo, hi), den)


def tree_predicates(T, algo, P, env):
    """the theorem statements evaluated exactly at one point; returns list of failing names."""
    r = T["schemes"][algo]
    fails = []
    st = stored_params(T, algo, {k: P[k] for k in P})
    Pd = O.effective_params(algo, {k: Fr(P[k]) for k in ("dt", "beta", "gamma", "alpha") if k in P})
    for k in r["stored"]:
        if st[k] != Pd.get(k, st[k]):
            fails.append("params_stored(%s)" % k)
    e = dict(env)
    e.update({k: Fr(P.get(k, 0)) for k in ("dt", "beta", "gamma", "alpha")})
    prev = {"u": e["u_n"], "v": e["v_n"], "a": e["a_n"]}
    up = [None if t is None else TS.ev(t, e) for t in r["up"]]
    ev = [None if t is None else TS.ev(t, e) for t in r["ev"]]
    new = {"u": up[0], "v": up[1] if up[1] is not None else prev["v"], "a": up[2] if up[2] is not None else prev["a"]}
    Pf = {k: Fr(P[k]) for k in P if k != "algo"}
    Pspec = dict(Pf)   # generated definitions use the formal beta/gamma: compare with the spec at the same values
    for name, res, _sc in update_residuals_formal(algo, Pspec, prev, new):
        if any(x != 0 for x in res):
            fails.append("update_rule[%s]" % name)
    sp = O.spec_points(algo, Pspec, prev, new)
    for nm, a, b in zip(("u_t", "v_t", "a_t"), ev, sp):
        if nm == "a_t" and algo == "euler_explicit":
            if a is not None:
                fails.append("eval_consistent[a_t should be None]")
            continue
        if (a is None) != (b is None) or (a is not None and a != b):
            fails.append("eval_consistent[%s]" % nm)
    # coefficients = slopes
    cK, cC, cM = [TS.ev(c, e) for c in r["coefs"]]
    d = [Fr(3, 4), Fr(-5, 8)]
    e2 = dict(e)
    e2["x"] = [a + b for a, b in zip(e["x"], d)]
    ev2 = [None if t is None else TS.ev(t, e2) for t in r["ev"]]
    for nm, c, a0, a1 in zip(("coefK", "coefC", "coefM"), (cK, cC, cM), ev, ev2):
        if a0 is None:
            a0, a1 = (e["x"], e2["x"]) if (algo == "euler_explicit" and nm == "coefM") else ([Fr(0)] * 2, [Fr(0)] * 2)
        if [p - q for p, q in zip(a1, a0)] != [c * t for t in d]:
            fails.append("coefs_are_derivatives[%s]" % nm)
    if TS.ev(r["sysop"], e) != [[cK * a + cC * b + cM * c for a, b, c in zip(ra, rb, rc)] for ra, rb, rc in zip(e["K"], e["C"], e["M"])]:
        fails.append("sysop_is_weighted_sum")
    # equation of motion identity
    at = ev[2] if ev[2] is not None else (e["x"] if algo == "euler_explicit" else [Fr(0)] * 2)
    lhs = [a + b + c for a, b, c in zip(O.matvec(e["K"], ev[0]), O.matvec(e["C"], ev[1]), O.matvec(e["M"], at))]
    Ax = [cK * a + cC * b + cM * c for a, b, c in zip(O.matvec(e["K"], e["x"]), O.matvec(e["C"], e["x"]), O.matvec(e["M"], e["x"]))]
    rhs = TS.ev(r["rhs"], e)
    if [l - (p + q) for l, p, q in zip(lhs, e["bN"], e["F"])] != [a - b for a, b in zip(Ax, rhs)]:
        fails.append("discrete_eom")
    if r["rhs_newton"] is not None and TS.ev(r["rhs_newton"], e) != [p + q for p, q in zip(e["bN"], e["F"])]:
        fails.append("newton_consistent[rhs]")
    return fails


def update_residuals_formal(algo, P, prev, new):
    """documented update relations at the *formal* beta, gamma (no hht_newmark substitution)."""
    if algo == "hht_newmark":
        return O.update_residuals("newmark", P, prev, new)
    return O.update_residuals(algo, P, prev, new)


DOC_RANGE = {a: (lambda dt, al: dt > 0 and 0 <= al < 1) for a in HYP}
DOC_RANGE["hht_newmark"] = lambda dt, al: dt > 0 and 0 <= al <= Fr(1, 3)
DOC_RANGE["parabolic"] = lambda dt, al: dt > 0


def range_witness(T, algo):
    """a (dt, alpha) the setter accepts although the documentation excludes it, or the converse"""
    p = ('true',)
    for q in T["schemes"][algo]["asserts"]:
        p = q if p == ('true',) else ('and', p, q)
    for dt in (Fr(1, 4), Fr(0), Fr(-1, 4)):
        for al in (Fr(0), Fr(1, 8), Fr(1, 3), Fr(3, 8), Fr(1, 2), Fr(7, 8), Fr(1), Fr(9, 8), Fr(-1, 8)):
            env = {"dt": dt, "alpha": al, "beta": Fr(1, 4), "gamma": Fr(1, 2)}
            acc = TS.ev_prop(p, env)
            if acc != DOC_RANGE[algo](dt, al):
                return {"kind": "range", "algo": algo, "dt": float(dt), "alpha": float(al), "expect_accept": bool(DOC_RANGE[algo](dt, al))}
    return None


def search(ctx, T, algos, tries=200):
    rng = ctx.rng
    found = []
    for algo in algos:
        hit = None
        directed = directed_params(algo)
        for t in range(tries + len(directed)):
            P = dict(directed[t]) if t < len(directed) else gen_params(rng, algo)
            env = {"K": [[rnd_fr(rng, 1, 9, 2), rnd_fr(rng, -3, 3, 2)], [Fr(0), rnd_fr(rng, 1, 9, 2)]],
                   "M": [[rnd_fr(rng, 1, 5, 2), rnd_fr(rng, -1, 1, 4)], [Fr(0), rnd_fr(rng, 1, 5, 2)]],
                   "C": [[rnd_fr(rng, 0, 3, 2), rnd_fr(rng, -1, 1, 2)], [rnd_fr(rng, -1, 1, 2), rnd_fr(rng, 0, 3, 2)]]}
            env["K"][1][0] = env["K"][0][1]
            env["M"][1][0] = env["M"][0][1]
            for nm in ("u_n", "v_n", "a_n", "x", "bN", "F"):
                env[nm] = [rnd_fr(rng, -8, 8, 8), rnd_fr(rng, -8, 8, 8)]
            try:
                fails = tree_predicates(T, algo, P, env)
            except ZeroDivisionError:
                continue
            if fails:
                hit = (P, env, fails)
                break
        if hit:
            found.append((algo,) + hit)
    return found


def two_dof_scenario(algo, P, env):
    """a real simulation with exactly two free dofs (node 2 of the unit square; nodes 0, 1, 3 clamped) carrying the
    witness's parameters and previous state on those dofs."""
    if algo == "parabolic":
        sc = {"kind": "thermal", "k": 2.0, "c": 1.0, "rho": 2.0, "thickness": 1.0, "coords": SQUARE["coords"], "tris": SQUARE["tris"],
              "dirichlet": [{"nodes": [0], "values": [0.0], "dirs": ["t"]}, {"nodes": [3], "values": [0.0], "dirs": ["t"]}],
              "neumann": [{"nodes": [1], "values": [float(env["bN"][0])], "dirs": ["t"]}], "newton": False}
        free = [1, 2]
        n = 4
    else:
        sc = {"kind": "elastic", "E": 8.0, "nu": 0.25, "rho": 2.0, "thickness": 1.0, "rayleigh": [0.5, 0.25],
              "coords": SQUARE["coords"], "tris": SQUARE["tris"],
              "dirichlet": [{"nodes": [k], "values": [0.0, 0.0], "dirs": ["x", "y"]} for k in (0, 1, 3)],
              "neumann": [{"nodes": [2], "values": [float(env["bN"][0]), float(env["bN"][1])], "dirs": ["x", "y"]}], "newton": False}
        free = [4, 5]
        n = 8
    st = {"u": [0.0] * n, "v": [0.0] * n, "a": [0.0] * n}
    for j, i in enumerate(free):
        st["u"][i], st["v"][i], st["a"][i] = float(env["u_n"][j]), float(env["v_n"][j]), float(env["a_n"][j])
    sc["state"] = st
    step = dict(P)
    step["neumann_scale"] = 1.0
    sc["steps"] = [step]
    return sc


def confirm_on_impl(ctx, sc, name):
    """run the replay now; returns (reproduces, output)"""
    path = os.path.join(ctx.build, "replay_%s.py" % name)
    open(path, "w").write(REPLAY % json.dumps(sc))
    rc, out, err = ctx.impl_python(path, timeout=300)
    return rc == 1, (out + err)[-1500:]


# ------------------------------------------------------------------------------------------------
def spec_formulas_from_docs(docs):
    """the :math: formulas of the AlgoType docstrings (whitespace-normalised) -- the hand transcription in
    C05_spec.v was made from exactly these; a change of the documented formulas must be re-transcribed."""
    import re
    out = {}
    for k, d in docs.items():
        out[k] = [re.sub(r"\s+", "", m) for m in re.findall(r":math:`([^`]*)`", d)]
    return out


PINNED_DOC_FORMULAS = {
    "newmark": [r"\beta=1/4", r"\gamma=1/2", r"\tilde{\urm}=\urm^n+\dt\vrm^n+\dt^2/2\,(1-2\beta)\arm^n",
                r"\arm^{n+1}=(\urm^{n+1}-\tilde{\urm})/(\beta\dt^2)", r"\vrm^{n+1}=\vrm^n+\dt[(1-\gamma)\arm^n+\gamma\arm^{n+1}]"],
    "midpoint": [r"\alpha=1/2", r"\beta=1/4", r"\gamma=1/2", r"\vrm^{n+1}=2/\dt\,(\urm^{n+1}-\urm^n)-\vrm^n",
                 r"\arm^{n+1}=2/\dt\,(\vrm^{n+1}-\vrm^n)-\arm^n"],
    "hht": [r"\alpha", r"\alpha\in[0,1[", r"\alpha=0", r"\alpha=1/2", r"\urm^t=(1-\alpha)\urm^{n+1}+\alpha\urm^n",
            r"\vrm^t=(1-\alpha)\vrm^{n+1}+\alpha\vrm^n", r"\arm^t=(1-\alpha)\arm^{n+1}+\alpha\arm^n", r"\beta=1/4", r"\gamma=1/2"],
    "hht_newmark": [r"n+1", r"\urm^t=(1-\alpha)\urm^{n+1}+\alpha\urm^n", r"\vrm^t=\vrm^{n+1}", r"\arm^t=\arm^{n+1}", r"\beta", r"\gamma",
                    r"\alpha\in[0,1/3]", r"\beta=1/4\,(1+\alpha)^2", r"\gamma=1/2+\alpha", r"\beta", r"\gamma", r"\alpha=0"],
    "euler_implicit": [r"\urm^t=\urm^{n+1}", r"\vrm^t=(\urm^{n+1}-\urm^n)/\dt", r"\arm^t=(\vrm^t-\vrm^n)/\dt"],
    "euler_explicit": [r"\Mrm\,\arm^n=\Frm^n-\Crm\vrm^n-\Krm\urm^n", r"\urm^{n+1}=\urm^n+\dt\vrm^n", r"\vrm^{n+1}=\vrm^n+\dt\arm^n",
                       r"\dt<h_e/c", r"c=\sqrt{E/\rho}"],
    "parabolic": [r"\Krm\,\urm^{n+\alpha}+\Crm\,\vrm^{n+\alpha}=\Frm^{n+\alpha}"],
}


def run(ctx):
    ctx.assumptions += [
        "translator/timeschemes.py (abstract interpretation of the anchored methods, python ast, fail-closed) maps the Python "
        "arithmetic to the same typed expression; tied to the running code on every run: right-hand side, coefficients, "
        "evaluation-point states and corrector of each step are compared with the exact value of the translated trees",
        "the linear solve itself (scipy spsolve), sparse storage, Dirichlet elimination (property C04) and assembly (C03) are "
        "exercised by the correspondence only; the theorems take 'x solves the system on the free dofs' as hypothesis",
        "specification = docstrings of Solvers.AlgoType (and of Solver_Set_Parabolic_Algorithm for the theta scheme), transcribed by "
        "hand in coq/props/C05/C05_spec.v and corr/c05_oracle.py",
        "admissible parameters = those the setters' asserts accept, and beta <> 0 / alpha_parabolic <> 0 where the code divides by them "
        "(Python raises ZeroDivisionError otherwise)",
        "exact real arithmetic; floating-point rounding is not modelled (tolerance 1e-9 relative in the correspondence)",
    ]
    ok_static, log = ctx.ensure_static()
    if not ok_static:
        ctx.obligation("static-lib", False, log[-1500:])
        ctx.violation("static-lib-build", "coq/lib or coq/model does not build", {"log": log[-3000:]}, found_input=False)
        return
    T = None
    try:
        T = TS.read_schemes(ctx.repo)
        ctx.obligation("translate", True, "7 algorithms x (evaluate, coefs, rhs, corrector) + 2 setters")
    except (TranslateError, SyntaxError, OSError, KeyError) as ex:
        ctx.obligation("translate", False, str(ex))
        ctx.violation("translate", "translator rejected the source: %s" % ex, {"construct": str(ex)}, found_input=False)
    proof_ok = False
    broken = []
    corr_done = False
    if T is not None:
        docs = spec_formulas_from_docs(T["docs"])
        changed = [k for k in PINNED_DOC_FORMULAS if docs.get(k) != PINNED_DOC_FORMULAS[k]]
        ctx.obligation("spec:docstring-formulas-unchanged", not changed, "changed: %s" % changed)
        if changed:
            ctx.violation("spec-docstring-changed:" + ",".join(changed), "the documented formulas of AlgoType.%s changed; the specification "
                          "(C05_spec.v) was transcribed from the previous text: %s" % (changed, docs.get(changed[0])),
                          {"now": docs.get(changed[0]), "pinned": PINNED_DOC_FORMULAS[changed[0]]}, found_input=False)
        open(os.path.join(ctx.build, "Gen_TimeSchemes.v"), "w").write(TS.emit_coq(T))
        ctx.cov["translated_definitions"] = sum(1 for a in ALGOS for k in ("ev", "coefs", "up") for t in T["schemes"][a][k] if t is not None) + 2 * len(ALGOS)
        files = ["C05_spec.v"] + ["C05_%s.v" % a for a in ALGOS] + ["C05_relations.v", "C05_energy.v", "C05_examples.v", "C05_stability.v", "C05_stability_examples.v"]
        ctx.copy_props(*["C05/" + f for f in files])
        ctx.log("translated")
        r0 = ctx.coq(["Gen_TimeSchemes.v", "C05_spec.v"], timeout=300)
        results = {}
        if r0.ok:
            # longest first, so that the three workers finish together
            par = ["C05_%s.v" % a for a in ("hht_newmark", "hht", "newmark", "midpoint", "parabolic", "euler_implicit", "euler_explicit")] + ["C05_relations.v"]
            with ThreadPoolExecutor(max_workers=3) as ex:
                for f, r in zip(par, ex.map(lambda f: ctx.coq([f], timeout=600), par)):
                    results[f] = r
            # the implementation-side runs (one python process) overlap with the remaining two coqc jobs (<= 3 cores)
            import threading
            corr_box = {}

            def _corr():
                try:
                    correspondence(ctx, T)
                except Exception:
                    import traceback
                    corr_box["tb"] = traceback.format_exc()
            ctx.log("per-algorithm theorem files done")
            corr_thread = threading.Thread(target=_corr)
            corr_thread.start()
            second = []
            if all(results["C05_%s.v" % a].ok for a in ("midpoint", "newmark", "euler_implicit")):
                second.append("C05_energy.v")
            else:
                ctx.obligation("coqc:C05_energy.v", False, "not compiled: depends on a theorem file that no longer checks", n=9)
            if all(results["C05_%s.v" % a].ok for a in ("newmark", "parabolic")):
                second.append("C05_stability.v")
            else:
                ctx.obligation("coqc:C05_stability.v", False, "not compiled: depends on a theorem file that no longer checks", n=12)
            with ThreadPoolExecutor(max_workers=2) as ex:
                for f, r in zip(second, ex.map(lambda f: ctx.coq([f], timeout=600), second)):
                    results[f] = r
            if all(r.ok for r in results.values()) and "C05_energy.v" in results and "C05_stability.v" in results:
                results["C05_examples.v"] = ctx.coq(["C05_examples.v"], timeout=300)
                if results["C05_examples.v"].ok:
                    results["C05_stability_examples.v"] = ctx.coq(["C05_stability_examples.v"], timeout=300)
            else:
                ctx.obligation("coqc:C05_examples.v", False, "not compiled: depends on a theorem file that no longer checks", n=12)
            broken = [f for f, r in results.items() if not r.ok]
            ctx.log("all theorem files done")
            corr_thread.join()
            ctx.log("correspondence done")
            corr_done = True
            if "tb" in corr_box:
                raise RuntimeError("correspondence failed:\n" + corr_box["tb"])
        else:
            broken = ["Gen_TimeSchemes.v"]
            results["Gen_TimeSchemes.v"] = r0
        proof_ok = not broken and "C05_stability_examples.v" in results
        ctx.sample({"theorem": "hht_discrete_eom : forall I K C M, linear K -> linear C -> linear M -> forall dt beta gamma alpha u_n v_n a_n bN F, "
                               "hht_admissible .. -> beta <> 0 -> forall x i, hht_A .. x i = hht_rhs .. x i -> hht_lhs .. x i = bN i + F i",
                    "generated": "hht_rhs := " + TS.show(T["schemes"]["hht"]["rhs"])})
        if not proof_ok:
            ctx.log("proof obligations broke (%s); searching a concrete failing input" % broken)
            algos = [a for a in ALGOS if "C05_%s.v" % a in broken] or list(ALGOS)
            found = search(ctx, T, algos)
            reported = False
            for algo in ALGOS:
                w = range_witness(T, algo)
                if w:
                    rep, out = confirm_on_impl(ctx, w, "range_" + algo)
                    ctx.violation("range:%s" % algo, "the setter %s (dt=%s, alpha=%s) for %s although the documented range says the opposite" % (
                        "rejects" if w["expect_accept"] else "accepts", w["dt"], w["alpha"], algo), replay_of(w), found_input=rep)
                    reported = True
            for algo, P, env, fails in found:
                sc = two_dof_scenario(algo, P, env)
                rep, out = confirm_on_impl(ctx, sc, algo)
                what = "%s: theorem(s) %s fail on the translated code at %s; real Solve() on a 2-free-dof system: %s" % (
                    algo, fails[:3], {k: str(Fr(v)) for k, v in P.items() if k != "algo"},
                    (out.strip().splitlines() or ["?"])[0] if rep else "documented relations still hold (no failing input on the implementation)")
                rp = replay_of(sc)
                rp.update({"theorems": fails, "model_point": {k: [str(x) for x in v] if isinstance(v, list) and not isinstance(v[0], list) else str(v) for k, v in env.items()},
                           "replay_output": out})
                ctx.violation("proof:%s:%s" % (algo, fails[0].split("[")[0]), what, rp, found_input=rep)
                reported = True
            if not reported:
                f = broken[0]
                ctx.violation("proof-broken:" + f, "theorem file %s no longer checks and no parameter assignment separating the two sides was found "
                              "in 200 tries per algorithm (a rewrite the proof script does not follow?)" % f,
                              {"obligation": f, "log": results[f].log[-3000:] if f in results else ""}, found_input=False)
    if not corr_done:
        correspondence(ctx, T)
    if ctx.tier == "thorough" and T is not None and proof_ok:
        rc, out, err = common.sh(["coqchk", "-silent", "-o"] + common.COQ_Q + ["-Q", ctx.build, "EFP", "EFP.C05_stability_examples", "EFP.C05_relations"],
                                 cwd=ctx.build, timeout=900)
        txt = out + err
        clean = rc == 0 and all(("%s: <none>" % k) in txt for k in ("relying on type-in-type", "relying on unsafe (co)fixpoints", "positivity is assumed"))
        ctx.obligation("thorough:coqchk", clean, txt[-600:])
        ctx.checker_cmds.append("coqchk -silent -o ... EFP.C05_examples EFP.C05_relations")
        if not clean:
            ctx.violation("coqchk", "coqchk rejects the compiled C05 theory", {"log": txt[-3000:]}, found_input=False)
    if ctx.tier == "thorough" and T is not None:
        found = search(ctx, T, ALGOS, tries=400)
        ctx.obligation("thorough:python-exact-sweep", not found or not proof_ok, "400 random rational points per algorithm, all theorem statements, exact")
        if found and proof_ok:
            algo, P, env, fails = found[0]
            ctx.violation("sweep-vs-coq:%s" % algo, "exact python sweep finds %s failing for %s although the Coq proofs passed" % (fails, algo),
                          replay_of(two_dof_scenario(algo, P, env)), found_input=False)
