"""C15 — saved iterations / saved simulations restore exactly what was saved.

1. ast-derive the copy discipline of the iteration store from ctx.repo (fail-closed):
   Get_results shallow/deep, Save_Iter overrides (which fields, through a copying getter?),
   Set_Iter (binds the stored array itself?), __Set_u_n rebinding, folder pinning  -> Gen_C15.v
2. compile coq/props/C15/*.v against the generated flags (the general theorems over all op lists
   live in coq/model/C15_IterStore.v; here they are instantiated for the configurations derived
   from the source, and the flag-dependent ones are re-checked)
3. correspondence: random op lists on real simulations (corr/C15_impl.py) vs the model's
   `observe` evaluated by Coq (vm_compute) on the same op lists + the property's own predicates
   evaluated bitwise by the harness against its ghost copies
4. dedicated probes of suspected defects; violations with executable replays.
"""
import ast
import json
import os
import re

from vlib import common


class FlagError(Exception):
    pass


SIM_FILES = {"Elastic": "_elastic.py", "Thermal": "_thermal.py", "Beam": "_beam.py", "PhaseField": "_phasefield.py",
             "HyperElastic": "_hyperelastic.py", "WeakForms": "_weakforms.py", "InElastic": "_inelastic.py"}
SIM_CLASS = {"Elastic": "Elastic", "Thermal": "Thermal", "Beam": "Beam", "PhaseField": "PhaseField",
             "HyperElastic": "HyperElastic", "WeakForms": "WeakForms", "InElastic": "InElastic"}
# model configurations: (adapter name in corr/C15_impl.py, class, dict keys of the live fields in that mode)
CONFIGS = [
    ("Elastic_static", "Elastic", ["displacement"]),
    ("Elastic_newmark", "Elastic", ["displacement", "speed", "accel"]),
    ("Thermal_static", "Thermal", ["thermal"]),
    ("Thermal_parabolic", "Thermal", ["thermal", "thermalDot"]),
    ("Beam_static", "Beam", ["displacement"]),
    ("Beam_newmark", "Beam", ["displacement", "speed", "accel"]),
    ("PhaseField", "PhaseField", ["damage", "displacement"]),
    ("PhaseField_HistoryDamage", "PhaseField", ["damage", "displacement"]),
    ("HyperElastic_static", "HyperElastic", ["displacement"]),
    ("HyperElastic_newmark", "HyperElastic", ["displacement", "speed", "accel"]),
    ("InElastic", "InElastic", ["displacement", "state"]),
    ("WeakForms_static", "WeakForms", ["u"]),
    ("WeakForms_parabolic", "WeakForms", ["u", "v"]),
    ("WeakForms_newmark", "WeakForms", ["u", "v", "a"]),
]
SCALAR_KEYS = {"Niter", "timeIter", "convIter", "indexMesh", "newtonIter", "list_norm_r"}


def _cls(tree, name):
    for n in tree.body:
        if isinstance(n, ast.ClassDef) and n.name == name:
            return n
    raise FlagError("class %s not found" % name)


def _fn(cls, name):
    for n in cls.body:
        if isinstance(n, ast.FunctionDef) and n.name == name:
            return n
    raise FlagError("%s.%s not found" % (cls.name, name))


def _is_self_attr(e, attr=None):
    return isinstance(e, ast.Attribute) and isinstance(e.value, ast.Name) and e.value.id == "self" and (attr is None or e.attr == attr)


def _src(e):
    return ast.unparse(e)


def derive_base(repo):
    path = os.path.join(repo, "EasyFEA", "Simulations", "_simu.py")
    tree = ast.parse(open(path).read())
    simu = _cls(tree, "_Simu")
    fl = {}
    # --- Get_results: how is an in-memory entry returned
    gr = _fn(simu, "Get_results")
    ret = gr.body[-1]
    if not isinstance(ret, ast.Return):
        raise FlagError("Get_results: last statement is not a return (line %d)" % ret.lineno)
    r = ret.value
    if isinstance(r, ast.Call) and isinstance(r.func, ast.Attribute) and r.func.attr == "copy" and isinstance(r.func.value, ast.Name) and not r.args:
        fl["deep_read"] = False
    elif isinstance(r, ast.Call) and _src(r.func) in ("copy.deepcopy", "deepcopy") and len(r.args) == 1 and isinstance(r.args[0], ast.Name):
        fl["deep_read"] = True
    elif isinstance(r, ast.Name):
        raise FlagError("Get_results returns the stored dict itself (`return %s`, line %d): neither shallow nor deep copy" % (r.id, ret.lineno))
    else:
        raise FlagError("Get_results: unrecognised return expression `%s` (line %d)" % (_src(r), ret.lineno))
    fl["get_results_line"] = ret.lineno
    # a pure read assigns no attribute of the simulation (a cache written by Get_results is state)
    writes = []
    for n in ast.walk(gr):
        tg = n.targets if isinstance(n, ast.Assign) else ([n.target] if isinstance(n, (ast.AugAssign, ast.AnnAssign)) else [])
        for t in tg:
            for x in ast.walk(t):
                if _is_self_attr(x):
                    writes.append("%s (line %d)" % (_src(t), n.lineno))
    fl["get_results_stateless"] = not writes
    if writes:
        fl["get_results_writes"] = writes
    gsrc = _src(gr)
    disk_branch = any(isinstance(n, ast.If) and re.search(r"isinstance\(\w+, str\)", _src(n.test)) for n in ast.walk(gr))
    if not disk_branch:
        raise FlagError("Get_results: no `isinstance(entry, str)` dispatch on the pinned path")
    # --- everything Get_results calls (transitively, inside _simu.py) is uncached and assigns no attribute
    methods = {n.name: n for n in simu.body if isinstance(n, ast.FunctionDef)}
    modfuncs = {n.name: n for n in tree.body if isinstance(n, ast.FunctionDef)}
    todo, seen_f = [gr], {}
    while todo:
        f = todo.pop()
        if f.name in seen_f:
            continue
        seen_f[f.name] = f
        for n in ast.walk(f):
            if isinstance(n, ast.Call):
                if isinstance(n.func, ast.Attribute) and isinstance(n.func.value, ast.Name) and n.func.value.id in ("self", "_Simu"):
                    nm = n.func.attr
                    for cand in (nm, "_Simu" + nm):
                        if cand in methods:
                            todo.append(methods[cand])
                elif isinstance(n.func, ast.Name) and n.func.id in modfuncs:
                    todo.append(modfuncs[n.func.id])
    cached = []
    for nm, f in seen_f.items():
        for d in f.decorator_list:
            if "cache" in _src(d).lower() or "memo" in _src(d).lower():
                cached.append("%s is decorated with @%s (line %d)" % (nm, _src(d), f.lineno))
        if f is not gr:
            for n in ast.walk(f):
                tg = n.targets if isinstance(n, ast.Assign) else ([n.target] if isinstance(n, (ast.AugAssign, ast.AnnAssign)) else [])
                for t in tg:
                    if any(_is_self_attr(x) for x in ast.walk(t)):
                        cached.append("%s assigns %s (line %d)" % (nm, _src(t), n.lineno))
            if any(isinstance(n, (ast.Global, ast.Nonlocal)) for n in ast.walk(f)):
                cached.append("%s uses global/nonlocal state" % nm)
    fl["disk_reads_uncached"] = not cached
    fl["read_path_functions"] = sorted(seen_f)
    if cached:
        fl["read_path_caches"] = cached
    # --- Save_Iter: folder pinned at write time
    si = _fn(simu, "Save_Iter")
    appended = [n.args[0] for n in ast.walk(si) if isinstance(n, ast.Call) and isinstance(n.func, ast.Attribute) and n.func.attr == "append"
                and "list_results" in _src(n.func.value) and n.args]
    names = sorted(_src(a) for a in appended)
    if len(appended) != 2 or "iter" not in names:
        raise FlagError("Save_Iter: expected exactly `__list_results.append(iter)` and `.append(<path>)`, found %s" % names)
    pname = [a for a in appended if _src(a) != "iter"][0]
    if not isinstance(pname, ast.Name):
        raise FlagError("Save_Iter: appended path is not a local name: %s" % _src(pname))
    passign = [n for n in ast.walk(si) if isinstance(n, ast.Assign) and len(n.targets) == 1 and isinstance(n.targets[0], ast.Name) and n.targets[0].id == pname.id]
    if len(passign) != 1:
        raise FlagError("Save_Iter: path variable assigned %d times" % len(passign))
    pj = passign[0].value
    pin = isinstance(pj, ast.Call) and _src(pj.func) == "Folder.Join" and pj.args and _is_self_attr(pj.args[0], "folder")
    if pin:
        fstr = [a for a in pj.args if isinstance(a, ast.JoinedStr)]
        ok_idx = False
        for f in fstr:
            for v in f.values:
                if isinstance(v, ast.FormattedValue):
                    names_in = {_src(x) for x in ast.walk(v.value) if isinstance(x, ast.Attribute)}
                    if names_in & {"self.Niter", "self.__Niter"}:
                        ok_idx = True
        if not ok_idx:
            raise FlagError("Save_Iter: the pickle file name does not contain the iteration count (entries would overwrite each other)")
    fl["pin_folder"] = bool(pin) and ("folder" not in gsrc)
    if not fl["pin_folder"]:
        fl["pin_why"] = "Get_results reads self.folder" if "folder" in gsrc else "path not built from self.folder at write time"
    first = si.body[1] if isinstance(si.body[0], ast.Expr) else si.body[0]
    if "iter.copy()" not in _src(first):
        raise FlagError("Save_Iter: the caller's dict is not copied (`%s`)" % _src(first))
    # dump must receive the dict
    if not any(isinstance(n, ast.Call) and _src(n.func) == "pickle.dump" for n in ast.walk(si)):
        raise FlagError("Save_Iter: no pickle.dump")
    # --- __Set_x_n rebinds; getters copy; no in-place write on the live dicts
    reb = True
    for x in "uva":
        f = _fn(simu, "_Simu__Set_%s_n" % x) if any(isinstance(n, ast.FunctionDef) and n.name == "_Simu__Set_%s_n" % x for n in simu.body) else _fn(simu, "__Set_%s_n" % x)
        last = f.body[-1]
        ok = (isinstance(last, ast.Assign) and len(last.targets) == 1 and isinstance(last.targets[0], ast.Subscript)
              and _is_self_attr(last.targets[0].value, "__dict_%s_n" % x) and isinstance(last.value, ast.Name))
        if not ok:
            reb = False
        g = _fn(simu, "_Get_%s_n" % x)
        gfirst = g.body[1] if isinstance(g.body[0], ast.Expr) else g.body[0]
        if not re.fullmatch(r"arr = self\.__dict_%s_n\[problemType\]\.copy\(\)" % x, _src(gfirst)):
            raise FlagError("_Get_%s_n does not return a copy: `%s`" % (x, _src(gfirst)))
    for n in ast.walk(simu):
        tg = []
        if isinstance(n, ast.AugAssign):
            tg = [n.target]
        elif isinstance(n, ast.Assign):
            tg = n.targets
        for t in tg:
            s = _src(t)
            m = re.match(r"self\.__dict_[uva]_n(.*)$", s)
            if m and (isinstance(n, ast.AugAssign) or m.group(1).count("[") > 1):
                reb = False
    fl["solve_rebinds"] = reb
    # Set_Iter restores the mesh
    st = _src(_fn(simu, "Set_Iter"))
    if "__Update_mesh" not in st or 'results["indexMesh"]' not in st.replace("'", '"'):
        fl["restores_mesh"] = False
    else:
        fl["restores_mesh"] = True
    return fl


def derive_class(repo, cname):
    path = os.path.join(repo, "EasyFEA", "Simulations", SIM_FILES[cname])
    tree = ast.parse(open(path).read())
    cls = _cls(tree, SIM_CLASS[cname])
    props = {}
    for n in cls.body:
        if isinstance(n, ast.FunctionDef) and any(_src(d) == "property" for d in n.decorator_list):
            rets = [x for x in ast.walk(n) if isinstance(x, ast.Return) and x.value is not None]
            if len(rets) == 1 and re.match(r"self\._Get_[uva]_n\(", _src(rets[0].value)):
                props[n.name] = _src(rets[0].value)
    sv = _fn(cls, "Save_Iter")
    stored = {}
    for n in ast.walk(sv):
        if isinstance(n, ast.Assign) and len(n.targets) == 1 and isinstance(n.targets[0], ast.Subscript) and isinstance(n.targets[0].value, ast.Name) \
                and n.targets[0].value.id == "iter" and isinstance(n.targets[0].slice, ast.Constant):
            key = n.targets[0].slice.value
            v = n.value
            s = _src(v)
            if _is_self_attr(v) and v.attr in props:
                kind = "copy"
            elif re.match(r"self\._Get_[uva]_n\(", s):
                kind = "copy"
            elif ".copy()" in s and isinstance(v, (ast.DictComp, ast.ListComp, ast.Call)):
                kind = "copy"
            elif key in SCALAR_KEYS:
                kind = "scalar"
            else:
                kind = "alias"
            stored[key] = (kind, s)
    committed = [(_src(t)) for n in ast.walk(sv) if isinstance(n, ast.Assign) for t in n.targets if _is_self_attr(t)]
    unsaved = [c for c in committed if not any(c in s for (_, s) in stored.values())]
    si = _fn(cls, "Set_Iter")
    binds = {}
    local = {}
    for n in ast.walk(si):
        if isinstance(n, ast.Assign) and len(n.targets) == 1 and isinstance(n.targets[0], ast.Name):
            local.setdefault(n.targets[0].id, []).append(_src(n.value))
    reads = set(re.findall(r"results\[['\"]?([A-Za-z_\.]+)['\"]?\]", _src(si)))
    reads |= set(re.findall(r"results\.get\(['\"]([A-Za-z_]+)['\"]", _src(si)))
    mode = "bind"
    for n in ast.walk(si):
        if isinstance(n, ast.Call) and _src(n.func) == "self._Set_solutions":
            for a in n.args[1:]:
                srcs = local.get(a.id, []) if isinstance(a, ast.Name) else [_src(a)]
                for s in srcs:
                    if "results[" in s and ".copy()" in s:
                        mode = "copy" if mode != "bind-mixed" else mode
                    elif "results[" in s:
                        binds[s] = True
    restore_binds = bool(binds) and not any(".copy()" in s for s in binds)
    # the restore must not be guarded by the CONTENT of the entry (an empty / zero state is a state)
    guarded = []
    for n in ast.walk(si):
        if isinstance(n, ast.If):
            t = _src(n.test)
            if re.fullmatch(r"results is None", t) or "self.algo" in t or "resetAll" in t:
                continue
            body_writes = [x for b_ in n.body for x in ast.walk(b_)
                           if (isinstance(x, ast.Assign) and any(_is_self_attr(tt) for tt in x.targets))
                           or (isinstance(x, ast.Call) and _src(x.func) == "self._Set_solutions")]
            if body_writes:
                guarded.append("if %s: (line %d)" % (t, n.lineno))
    copy_keys = set()
    for n in ast.walk(si):
        if isinstance(n, ast.Assign) and any(_is_self_attr(t) for t in n.targets) and ".copy()" in _src(n.value):
            copy_keys |= set(re.findall(r"results(?:\.get\(|\[)['\"]([A-Za-z_]+)['\"]", _src(n.value)))
            for nm in [x.id for x in ast.walk(n.value) if isinstance(x, ast.Name)]:
                for srcs in local.get(nm, []):
                    copy_keys |= set(re.findall(r"results(?:\.get\(|\[)['\"]([A-Za-z_]+)['\"]", srcs))
    not_identity = []
    for n in ast.walk(si):
        if isinstance(n, ast.Call) and _src(n.func) == "self._Set_solutions":
            for a in n.args[1:]:
                srcs = [(x, a.lineno) for x in local.get(a.id, [])] if isinstance(a, ast.Name) else [(_src(a), a.lineno)]
                if isinstance(a, ast.Name) and not srcs:
                    not_identity.append("%s (line %d): unknown provenance" % (a.id, a.lineno))
                for sx, ln in srcs:
                    ok_ = (re.fullmatch(r"results\[[^\]]+\](\.copy\(\))?", sx) or re.fullmatch(r"np\.zeros_like\(\w+\)", sx)
                           or re.fullmatch(r"np\.zeros\([^()]*\)", sx))
                    if not ok_:
                        not_identity.append("`%s` passed to _Set_solutions (line %d)" % (sx, ln))
    lowered_by_need_update, lowered_by_set_iter = set(), set()
    for n in cls.body:
        if isinstance(n, ast.FunctionDef) and n.name == "Need_Update":
            for x in ast.walk(n):
                if isinstance(x, ast.Assign) and len(x.targets) == 1 and _is_self_attr(x.targets[0]) and re.fullmatch(r"not value", _src(x.value)):
                    lowered_by_need_update.add(x.targets[0].attr)
    for x in ast.walk(si):
        if isinstance(x, ast.Assign) and isinstance(x.value, ast.Constant) and x.value.value is False:
            for t in x.targets:
                if _is_self_attr(t):
                    lowered_by_set_iter.add(t.attr)
        if isinstance(x, ast.Call) and _src(x.func) in ("self.Need_Update",) and not x.args:
            lowered_by_set_iter |= lowered_by_need_update
    stale = sorted(lowered_by_need_update - lowered_by_set_iter)
    return {"restore_not_identity": not_identity, "cache_flags": sorted(lowered_by_need_update), "cache_flags_not_lowered_by_set_iter": stale, "restore_copy_keys": sorted(copy_keys), "guarded_restore": guarded,"stored": stored, "unsaved_internal": unsaved, "reads": sorted(reads), "restore_binds": restore_binds,
            "line_save": sv.lineno, "line_set": si.lineno}


def _eval_test(t, algo, hyper):
    """truth of an `if` test for a given algorithm; atoms that do not speak about self.algo are optimistic (True)"""
    if isinstance(t, ast.BoolOp):
        vs = [_eval_test(v, algo, hyper) for v in t.values]
        return all(vs) if isinstance(t.op, ast.And) else any(vs)
    if isinstance(t, ast.UnaryOp) and isinstance(t.op, ast.Not):
        inner = t.operand
        if "self.algo" in _src(inner):
            return not _eval_test(inner, algo, hyper)
        return True
    s = _src(t)
    if isinstance(t, ast.Compare) and len(t.ops) == 1 and _src(t.left) == "self.algo":
        rhs = _src(t.comparators[0])
        if "Get_Hyperbolic_and_Parabolic_Types" in rhs:
            val = algo in hyper or algo == "parabolic"
        elif "Get_Hyperbolic_Types" in rhs:
            val = algo in hyper
        elif rhs.startswith("AlgoType."):
            val = algo == rhs.split(".", 1)[1]
        else:
            raise FlagError("unrecognised algorithm test `%s`" % s)
        if isinstance(t.ops[0], (ast.In, ast.Eq)):
            return val
        if isinstance(t.ops[0], (ast.NotIn, ast.NotEq)):
            return not val
        raise FlagError("unrecognised algorithm test `%s`" % s)
    if "self.algo" in s:
        raise FlagError("unrecognised algorithm test `%s`" % s)
    return True


def _walk_guarded(stmts, guards, out):
    for st in stmts:
        if isinstance(st, ast.If):
            out.append((st.test, guards + [(st.test, True)]))      # atoms inside the test itself
            _walk_guarded(st.body, guards + [(st.test, True)], out)
            _walk_guarded(st.orelse, guards + [(st.test, False)], out)
        elif isinstance(st, (ast.For, ast.While, ast.With, ast.Try)):
            _walk_guarded(getattr(st, "body", []), guards, out)
        else:
            out.append((st, guards))


def rates_by_algo(repo, cname, algos, hyper):
    """per algorithm: keys Save_Iter stores, keys Set_Iter consults; missing = consulted but not stored"""
    path = os.path.join(repo, "EasyFEA", "Simulations", SIM_FILES[cname])
    cls = _cls(ast.parse(open(path).read()), SIM_CLASS[cname])
    sv, si = [], []
    _walk_guarded(_fn(cls, "Save_Iter").body, [], sv)
    _walk_guarded(_fn(cls, "Set_Iter").body, [], si)
    res = {}
    for a in algos:
        def live(guards):
            return all(_eval_test(t, a, hyper) == pol for (t, pol) in guards)
        stored = set()
        for node, g in sv:
            if live(g):
                for n in ast.walk(node):
                    if isinstance(n, ast.Assign) and len(n.targets) == 1 and re.fullmatch(r"iter\[['\"]\w+['\"]\]", _src(n.targets[0])):
                        stored.add(n.targets[0].slice.value)
        need = set()
        for node, g in si:
            if live(g):
                srcn = _src(node)
                need |= set(re.findall(r"results\[['\"](\w+)['\"]\]", srcn))
                need |= set(re.findall(r"['\"](\w+)['\"] in results", srcn))
        need -= {"indexMesh"}
        res[a] = {"stored": sorted(stored), "consulted": sorted(need), "missing": sorted(need - stored)}
    return res


def b(x):
    return "true" if x else "false"


def gen_coq(base, classes):
    lines = ["(* generated by props/C15.py from the source tree: copy discipline of the iteration store *)",
             "From Coq Require Import List Bool.", "Import ListNotations.", "From EFModel Require Import C15_IterStore.", ""]
    names = []
    cfgs = {}
    for (aname, cname, keys) in CONFIGS:
        c = classes[cname]
        st = []
        copies = True
        for k in keys:
            kk = "damage" if k == "damage" else k
            present = kk in c["stored"] and (kk in c["reads"] or (k == "damage" and "damageType" in c["reads"]))
            st.append(present)
            if present and c["stored"][kk][0] != "copy":
                copies = False
        extra = len(c["unsaved_internal"])
        nf = len(keys) + extra
        stl = st + [False] * extra
        cfgs[aname] = {"restore_copy_fields": [i for i, k in enumerate(keys) if k in c.get("restore_copy_keys", [])], "nf": nf, "stored": stl, "save_copies": copies, "restore_binds": c["restore_binds"], "keys": keys,
                       "unsaved_internal": c["unsaved_internal"]}
        lines.append("Definition cfg_%s : config := mkcfg %d [%s] %s %s %s %s %s." % (
            aname, nf, "; ".join(b(x) for x in stl), b(copies), b(c["restore_binds"]), b(base["deep_read"]), b(base["solve_rebinds"]), b(base["pin_folder"])))
        names.append("cfg_%s" % aname)
    lines.append("Definition all_cfgs : list config := [%s]." % "; ".join(names))
    # per class/mode: may the caller write into the arrays returned for an in-memory entry / an on-disk entry /
    # by a copying getter (Result) without affecting stored iterations
    table = {}
    for (aname, cname, keys) in CONFIGS:
        c = classes[cname]
        reach_live = [k for i, k in enumerate(keys) if c["restore_binds"] and k not in c.get("restore_copy_keys", [])]
        table[aname] = {"Get_results:inmem": bool(base["deep_read"]), "Set_Iter:inmem": bool(base["deep_read"]),
                        "Get_results:disk": True, "Set_Iter:disk": True, "Result(iter=)": True,
                        "Set_Iter:fields_whose_returned_array_is_the_live_field": reach_live}
    base["_write_table"] = table
    lines.append("Definition write_table : list (bool * bool * bool) := [%s]." % "; ".join(
        "(%s, true, true)" % b(table[a]["Get_results:inmem"]) for (a, _, _) in CONFIGS))
    lines.append("Definition restores_mesh : bool := %s." % b(base["restores_mesh"]))
    lines.append("Definition get_results_stateless : bool := %s." % b(base["get_results_stateless"]))
    lines.append("Definition restores_unconditionally : bool := %s." % b(not any(classes[c]["guarded_restore"] for c in classes)))
    lines.append("Definition restore_invalidates_derived : bool := %s." % b(not any(classes[c]["cache_flags_not_lowered_by_set_iter"] for c in classes)))
    lines.append("Definition restore_is_identity : bool := %s." % b(not any(classes[c]["restore_not_identity"] for c in classes)))
    lines.append("Definition disk_reads_uncached : bool := %s." % b(base["disk_reads_uncached"]))
    lines.append("Definition stores_all_restored_rates : bool := %s." % b(base.get("stores_all_restored_rates", True)))
    return "\n".join(lines) + "\n", cfgs


# ------------------------------------------------------------------------------------------
# case generation
# ------------------------------------------------------------------------------------------
class Hist:
    """bookkeeping shared by the random and the directed generators: which iteration the live state
    currently IS (base), and the tokens of the first Solve that continued from each iteration"""

    def __init__(self, nf, nkeys):
        self.ops, self.nf, self.nkeys = [], nf, nkeys
        self.tok, self.wtok, self.niter, self.nh = 10, 1, 0, 0
        self.base = None
        self.cont = {}
        self.after_restore = False
        self.no_write_after_restore = ()   # fields Set_Iter restores BY COPY (the model binds every field: gap)

    def toks(self):
        t = [self.tok + k for k in range(self.nf)]
        self.tok += 10
        return t

    def solve(self):
        t = self.toks()
        if self.base is not None and self.base not in self.cont:
            self.cont[self.base] = t
        self.ops.append(["Solve", t])
        self.base = None

    def inject(self, kind):
        """the live fields rebound (through _Set_solutions) to arrays with NON-PHYSICAL values: for the model a Solve"""
        self.ops.append(["Solve", self.toks(), "inject", kind])
        self.base = None

    def save(self):
        self.ops.append(["SaveIter"])
        self.base = self.niter
        self.niter += 1

    def restore(self, i, how="SetIter", replay=False):
        """how: SetIter | SetIterNeg (index given as i, emitted as -(niter-i))"""
        if how == "SetIterNeg":
            self.ops.append(["SetIterNeg", self.niter - i])
        else:
            self.ops.append(["SetIter", i])
        self.base = i
        self.nh = self.nkeys
        self.after_restore = True
        if replay and i in self.cont:
            # the Solve that originally continued iteration i, replayed from the restored state
            self.ops.append(["Solve", self.cont[i]])
            self.base = None

    def setmesh(self):
        self.ops.append(["SetMesh"])
        self.base = None


def gen_case(rng, cid, aname, nfields_model, nkeys, length, allow, copy_fields=()):
    h = Hist(nfields_model, nkeys)
    h.no_write_after_restore = tuple(copy_fields)
    ops = h.ops
    if rng.random() < 0.3 and "presave" in allow:
        h.save()            # the initial state saved before anything was solved
    h.solve()
    for _ in range(length):
        r = rng.random()
        niter = h.niter
        if niter == 0 or r < 0.16:
            if rng.random() < 0.6:
                h.solve()
            h.save()
        elif r < 0.27:
            h.solve()
        elif r < 0.38:
            ops.append(["SetFolder", rng.choice([0, 0, 1, 2, 3])])
        elif r < 0.52:
            if rng.random() < 0.35:
                ops.append(["GetResultsNeg", rng.choice([1, 1, 2, niter, niter + 1]) if rng.random() < 0.9 else niter + 2])
            else:
                ops.append(["GetResults", rng.randrange(niter) if rng.random() < 0.93 else niter + rng.randrange(2)])
            h.nh = nkeys
            h.after_restore = False
        elif r < 0.68:
            if rng.random() < 0.1:
                ops.append(["SetIter", niter])   # out of range: rejected, nothing changes
            else:
                i = rng.randrange(niter)
                if rng.random() < 0.3:
                    ops.append(["Warm"])   # matrices / energies of the current state were just looked at
                h.restore(i, "SetIterNeg" if rng.random() < 0.4 else "SetIter", replay=rng.random() < 0.5)
        elif r < 0.76:
            if rng.random() < 0.4:
                k = rng.randrange(1, niter + 1)
                ops.append(["ResultQNeg", k, rng.randrange(nkeys)])
                h.base = niter - k
            else:
                i = rng.randrange(niter)
                ops.append(["ResultQ", i, rng.randrange(nkeys)])
                h.base = i
            h.nh = 1
            h.after_restore = False
        elif r < 0.86:
            if "write" in allow and h.nh:
                k = rng.randrange(h.nh)
                if not (h.after_restore and k in h.no_write_after_restore):
                    # whole-array write, or a PARTIAL one: a single element (cell 0) / a slice (cell 1)
                    ops.append(["WriteRet", k, h.wtok] if rng.random() < 0.4 else ["WriteRetAt", k, rng.randrange(2), h.wtok])
                    h.wtok += 1
                    h.base = None
        elif r < 0.93:
            if "setmesh" in allow:
                h.setmesh()
                h.solve()
        else:
            if "saveload" in allow:
                ops.append(["SaveLoad", rng.choice([1, 2, 4])])
                h.nh = 0
    h.restore(rng.randrange(h.niter))
    return {"id": cid, "sim": aname, "ops": ops}


def gen_directed(rng, cid, aname, nf, nkeys, kind, allow):
    """structured histories the uniform generator reaches too rarely"""
    h = Hist(nf, nkeys)
    ops = h.ops
    if kind == "meshes" and "setmesh" in allow:
        # several meshes in one history; go back to a NON-latest mesh before assigning a new one
        h.solve(); h.save()
        nm = rng.choice([2, 3])
        for _ in range(nm):
            h.setmesh(); h.solve(); h.save()
            if rng.random() < 0.4:
                h.solve(); h.save()
        if "saveload" in allow and rng.random() < 0.7:
            ops.append(["SaveLoad", rng.choice([1, 2, 4])])   # the meshes of the history now live on disk
            h.nh = 0
        h.restore(rng.randrange(h.niter - 1), replay=rng.random() < 0.5)
        h.setmesh(); h.solve(); h.save()
        h.restore(h.niter - 1, "SetIterNeg")
        for _ in range(3):
            h.restore(rng.randrange(h.niter), rng.choice(["SetIter", "SetIterNeg"]), replay=rng.random() < 0.5)
            if rng.random() < 0.5:
                ops.append(["ResultQ", rng.randrange(h.niter), rng.randrange(nkeys)])
        if rng.random() < 0.5:
            h.setmesh(); h.solve(); h.save(); h.restore(rng.randrange(h.niter))
    elif kind == "exotic":
        # restoration is judged on values OUTSIDE any physical range (negative / > 1 damage, 1e30, denormals, -0.0)
        # and on exactly scaled twins (x 2^-60, x 2^60) of a solved field: bitwise, in memory and on disk
        kinds = ["range", "huge", "tiny", "negzero", "down", "up"]
        rng.shuffle(kinds)
        h.solve(); h.save()                        # iteration 0: a sane state every real Solve restarts from
        if rng.random() < 0.5:
            ops.append(["SetFolder", rng.choice([1, 2])])
        for j, kd in enumerate(kinds[:rng.choice([3, 4])]):
            if kd in ("down", "up"):
                h.restore(0)
            h.inject(kd); h.save()
            if j == 1:
                ops.append(["SetFolder", rng.choice([0, 3])])
        for _ in range(3):
            i = rng.randrange(1, h.niter)
            c = rng.random()
            if c < 0.4:
                h.restore(i, rng.choice(["SetIter", "SetIterNeg"]))
            elif c < 0.7:
                ops.append(["GetResults", i]); h.nh = nkeys
            else:
                ops.append(["ResultQ", i, rng.randrange(nkeys)]); h.base = i; h.nh = 1
        h.restore(0, replay=False)
        h.solve(); h.save()
        h.restore(rng.randrange(1, h.niter - 1), "SetIterNeg")
        ops.append(["GetResultsNeg", 1])
        h.restore(0)
    elif kind == "results":
        # every advertised result of iteration i equals the one obtained at the time, also when the caches of the
        # current state are warm (energies / matrices just queried) when the older iteration is looked at
        h.solve(); h.save()
        for _ in range(rng.choice([2, 3])):
            h.solve(); h.save()
        h.solve()
        for _ in range(3):
            ops.append(["Warm"])
            i = rng.randrange(h.niter)
            c = rng.random()
            if c < 0.4:
                ops.append(["ResultQ", i, rng.randrange(nkeys)]); h.base = i
            else:
                h.restore(i, rng.choice(["SetIter", "SetIterNeg"]), replay=False)
        ops.append(["Warm"])
        h.restore(rng.randrange(h.niter - 1), replay=True)      # restart with warm caches
        h.save()
        ops.append(["Warm"])
        h.restore(rng.randrange(h.niter), "SetIterNeg", replay=True)
    elif kind == "rates":
        # time-dependent algorithms: a loaded trajectory, restore NON-latest iterations and replay the step
        # that originally followed them (needs u, v, a / thermalDot of that iteration exactly)
        h.solve(); h.solve(); h.save()
        for _ in range(rng.choice([2, 3])):
            h.solve(); h.save()
        h.restore(rng.randrange(h.niter - 1), replay=True)
        h.restore(h.niter - 1, "SetIterNeg")
        h.solve(); h.save()
        h.restore(rng.randrange(h.niter - 1), rng.choice(["SetIter", "SetIterNeg"]), replay=True)
        ops.append(["ResultQ", rng.randrange(h.niter), rng.randrange(nkeys)])
        if rng.random() < 0.5:
            ops.append(["SetFolder", rng.choice([1, 2])])
            h.solve(); h.save(); h.restore(h.niter - 1, "SetIterNeg"); h.restore(0, replay=True)
    elif kind == "virgin" or (kind == "meshes"):
        # the untouched state is an iteration like any other: saved before the first Solve, restored after
        # the history has moved far away from it, and continued again
        if "presave" in allow:
            h.save()
        for _ in range(rng.choice([2, 3, 4])):
            h.solve(); h.save()
        h.restore(0, replay=True)
        h.restore(h.niter - 1, "SetIterNeg", replay=False)
        h.restore(rng.randrange(h.niter), replay=True)
        h.solve(); h.save()
        h.restore(0, "SetIterNeg", replay=True)
        ops.append(["ResultQ", 0, 0])
    else:
        # "last": read the most recent iterations through negative / default indices while the run goes on,
        # on disk, across a folder change, then in memory
        fa, fb = rng.sample([1, 2, 3], 2)
        plan = [fa, fb, fa, 0]     # ... and BACK to a folder that already holds iterations of this history
        for seg, f in enumerate(plan[:rng.choice([3, 4])]):
            ops.append(["SetFolder", f])
            for _ in range(rng.choice([2, 3])):
                h.solve(); h.save()
                c = rng.random()
                if c < 0.5:
                    h.restore(h.niter - 1, "SetIterNeg")
                elif c < 0.75:
                    ops.append(["GetResultsNeg", 1])
                else:
                    ops.append(["ResultQNeg", 1, rng.randrange(nkeys)]); h.base = h.niter - 1
                if h.niter >= 2 and rng.random() < 0.6:
                    ops.append(["GetResultsNeg", 2])
                    if rng.random() < 0.5:
                        h.restore(h.niter - 2, "SetIterNeg")
        for i in rng.sample(range(h.niter), min(3, h.niter)):
            ops.append(["GetResults", i])          # every folder of the history is still readable
        h.restore(rng.randrange(h.niter), replay=True)
    return {"id": cid, "sim": aname, "ops": ops}


def coq_op(o):
    n = o[0]
    if n == "Solve":
        return "Sv [%s]%%N" % "; ".join(str(t) for t in o[1])
    if n == "WriteRetAt":
        return "WriteRetAt %d %d %d%%N" % (o[1], o[2], o[3])
    if n in ("SaveIter", "SetMesh"):
        return n
    if n == "ResultQNeg":
        return "ResultQNeg %d %d" % (o[1], o[2])
    if n == "WriteRet":
        return "Wr %d %d%%N" % (o[1], o[2])
    return "%s %s" % (n, " ".join(str(x) for x in o[1:]))


CASES_HEAD = """From Coq Require Import List NArith. Import ListNotations.
From EFModel Require Import C15_IterStore.
From EFP Require Import Gen_C15.
(* an array is reported as its two cells (first element, all the others) *)
Definition cells (v : val) : list N := [nth 0 v 0%N; nth 1 v 0%N].
Definition enc_entry (o : option dictv) : list N := match o with None => [0%N] | Some (m, vs) => 1%N :: N.of_nat m :: concat (map cells vs) end.
Definition enc (c : config) (s : state) : list (list N) :=
  [N.of_nat (mesh s); N.of_nat (nmesh s); N.of_nat (length (store s))] :: concat (map cells (vals s)) :: map enc_entry (store_vals c s).
"""


def model_eval(ctx, cases, cfgs, unsupported):
    """evaluate the Gallina model on the op lists with Coq; returns {id: [[..],..]}"""
    res = {}
    chunk = 200
    for c0 in range(0, len(cases), chunk):
        body = CASES_HEAD
        part = cases[c0:c0 + chunk]
        for c in part:
            ops = [o for o in c["ops"] if o[0] != "Warm" and not (o[0] in unsupported.get(c["sim"], ()))]
            body += "Eval vm_compute in (enc cfg_%s (run cfg_%s [%s] (init cfg_%s))).\n" % (c["sim"], c["sim"], "; ".join(coq_op(o) for o in ops), c["sim"])
        rc, out = ctx.coq_eval("cases_%d.v" % c0, body, timeout=600)
        if rc != 0:
            raise FlagError("cases file does not compile: " + out[-800:])
        vals = re.findall(r"=\s*(\[.*?\])\s*(?:%N)?\s*:\s*list \(list N\)", out, flags=re.S)
        if len(vals) != len(part):
            raise FlagError("could not parse Coq output (%d values for %d cases)" % (len(vals), len(part)))
        for c, v in zip(part, vals):
            res[c["id"]] = json.loads(v.replace("%N", "").replace(";", ","))
    return res


REPLAY_HEAD = r'''
import json, os, subprocess, sys
VERIF = %(verif)r
req = %(req)r
req["root"] = os.path.join(VERIF, "build", "C15", "replay")
env = dict(os.environ); env["MPLBACKEND"] = "Agg"
p = subprocess.run([sys.executable, os.path.join(VERIF, "corr", "C15_impl.py")], input=json.dumps(req), capture_output=True, text=True, env=env)
if p.returncode != 0:
    print(p.stderr[-2000:]); print("harness crashed"); sys.exit(2)
res = json.loads(p.stdout)
'''

REPLAY_CASE = REPLAY_HEAD + r'''
c = res["cases"][0]
kinds = %(kinds)r
print("operation list:", json.dumps(req["cases"][0]["ops"]))
after = %(after)r
hit = [f for f in c["fails"] if f["kind"] in kinds and (after is None or f["detail"].get("after") == after)]
if c["error"] and "crash" in kinds:
    print("the implementation raised:", c["error"]["error"], "at op", c["error"]["op"]); sys.exit(1)
for f in hit:
    print("OBSERVED: predicate '%%s' fails at op #%%d %%s: %%s" %% (f["kind"], f["step"], req["cases"][0]["ops"][f["step"]], json.dumps(f["detail"])[:400]))
print("EXPECTED: %(expected)s")
sys.exit(1 if hit else 0)
'''

REPLAY_MEMDISK = REPLAY_HEAD + r'''
md = res["cases"][0]["memdisk"]
print("operation list:", json.dumps(req["cases"][0]["ops"]))
print("memory run: entries", md["entries_mem"], "error", md["error_mem"], "; disk run: entries", md["entries_disk"], "error", md["error_disk"], "; reads compared", md["n_compared"])
if md["diff"]:
    print("OBSERVED: read #%%d (%%s): %%s differs: memory run %%s, disk run %%s" %% (md["diff"]["read_number"], md["diff"]["op"], md["diff"]["what"], json.dumps(md["diff"]["mem"])[:200], json.dumps(md["diff"]["disk"])[:200]))
print("EXPECTED: the same scenario with iterations kept in memory and with iterations written to disk brings back bitwise the same fields / arrays / mesh index at every restore and read")
sys.exit(1 if md["diff"] else 0)
'''

REPLAY_PROBE = REPLAY_HEAD + r'''
pr = res["probes"][%(probe)r]
print("probe", %(probe)r, "->", json.dumps(pr, indent=1)[:1500])
print("EXPECTED: %(expected)s")
sub = %(sub)r
v = pr.get("error") is not None or (pr[sub]["violates"] if sub else pr.get("violates"))
sys.exit(1 if v else 0)
'''


def shrink(ctx, case, kinds, script, after=None):
    """drop ops while the same predicate failure persists (greedy, bounded)"""
    def fails(c):
        rc, out, err = ctx.impl_python(script, input=json.dumps({"root": os.path.join(ctx.build, "shrink"), "cases": [c], "probes": []}), timeout=120)
        if rc != 0:
            return False
        r = json.loads(out)["cases"][0]
        if "crash" in kinds and r["error"]:
            return True
        return any(f["kind"] in kinds and (after is None or f["detail"].get("after") == after) for f in r["fails"])
    cur = dict(case)
    ops = list(case["ops"])
    budget = 14
    i = len(ops) - 1
    while i >= 0 and budget > 0:
        trial = ops[:i] + ops[i + 1:]
        budget -= 1
        c = dict(cur, ops=trial)
        if trial and fails(c):
            ops = trial
        i -= 1
    return dict(cur, ops=ops)


def run(ctx):
    ctx.assumptions += [
        "pickle / Folder I/O and numpy copy semantics are trusted (pickle.dump+load = copy by value preserving sharing inside one dump; ndarray.copy() = fresh array)",
        "the Gallina model abstracts an array to one cell holding an opaque token; partial in-place writes are represented by whole-array writes",
        "flags of the model (shallow/deep read, copying getters, rebinding setters, folder pinning) are re-derived from the source by python ast on every run, fail-closed",
        "Coq 8.16.1 kernel + vm_compute; all C15 theorems are closed under the global context (no axioms)",
        "MPI paths (per-rank slices, _Gather) are not modelled (MPI_SIZE == 1)",
    ]
    script = os.path.join(common.VERIF, "corr", "C15_impl.py")
    ok_static, log = ctx.ensure_static()
    if not ok_static:
        ctx.obligation("static-lib", False, log[-1500:])
        ctx.violation("static-lib-build", "coq/lib or coq/model does not build", {"log": log[-3000:]}, found_input=False)
        return
    # ---- 0. which time algorithms exist / are accepted: asked to the implementation
    rc, out, err = ctx.impl_python(script, input=json.dumps({"query": "algos"}), timeout=300)
    if rc != 0:
        ctx.obligation("corr:harness", False, err[-1500:])
        ctx.violation("corr:impl-crash", "the implementation-side harness failed: " + (err.strip().splitlines()[-1][:200] if err.strip() else "rc=%d" % rc),
                      {"stderr": err[-3000:]}, found_input=False)
        return
    ALG = json.loads(out)
    # ---- 1. flags from source
    try:
        base = derive_base(ctx.repo)
        classes = {c: derive_class(ctx.repo, c) for c in SIM_FILES}
        per_algo = {c: rates_by_algo(ctx.repo, c, ALG["all"], ALG["hyperbolic"]) for c in SIM_FILES}
        accepted = {"Elastic": ALG["all"], "HyperElastic": [a for a in ALG["all"] if a in ALG["supported"].get("HyperElastic_newmark", []) or a in ("elliptic",)],
                    "Thermal": ["elliptic", "parabolic"], "WeakForms": ALG["all"], "Beam": ["elliptic"] + ALG["supported"].get("Beam_newmark", []), "PhaseField": ["elliptic"], "InElastic": ["elliptic"]}
        missing = {"%s:%s" % (c, a): per_algo[c][a]["missing"] for c in per_algo for a in accepted[c] if per_algo[c][a]["missing"]}
        base["stores_all_restored_rates"] = not missing
        if missing:
            base["rates_consulted_but_not_stored"] = missing
    except (FlagError, SyntaxError, OSError) as ex:
        ctx.obligation("derive-flags", False, str(ex))
        ctx.violation("derive-flags", "the copy discipline of the iteration store could not be derived from the source: %s" % ex,
                      {"construct": str(ex)}, found_input=False)
        base, classes = None, None
    if base is not None:
        ctx.obligation("derive-flags", True, json.dumps(base))
        gen, cfgs = gen_coq(base, classes)
        write_table = base.pop("_write_table")
        ctx.cov["write_safety_table(store unchanged by a write into the returned array)"] = write_table
        open(os.path.join(ctx.build, "Gen_C15.v"), "w").write(gen)
        ctx.cov["derived_flags"] = base
        ctx.cov["stored_keys_per_algorithm"] = {c: {a: per_algo[c][a]["stored"] for a in accepted[c]} for c in ("Elastic", "Thermal", "HyperElastic", "WeakForms")}
        ctx.cov["cache_validity_flags"] = {c: {"flags": classes[c]["cache_flags"], "not_lowered_by_Set_Iter": classes[c]["cache_flags_not_lowered_by_set_iter"]} for c in classes if classes[c]["cache_flags"]}
        ctx.cov["restore_not_identity"] = {c: classes[c]["restore_not_identity"] for c in classes if classes[c]["restore_not_identity"]}
        ctx.cov["guarded_restores"] = {c: classes[c]["guarded_restore"] for c in classes if classes[c]["guarded_restore"]}
        ctx.cov["derived_configs"] = {k: {kk: vv for kk, vv in v.items()} for k, v in cfgs.items()}
        aux_alias = {c: [k for k, (kind, s) in classes[c]["stored"].items() if kind == "alias"] for c in classes}
        ctx.cov["aux_entries_stored_without_copy"] = {c: v for c, v in aux_alias.items() if v}
        # ---- 2. theorems against the generated flags
        ctx.copy_props("C15/C15_store.v")
        r1 = ctx.coq(["Gen_C15.v", "C15_store.v"], timeout=300)
        ctx.sample({"theorem": "C15_restore_exact : forall c, In c all_cfgs -> forall ops i, no_writes ops = true -> i < length (store (run c ops (init c))) -> exists g, nth_error (ghost ..) i = Some g /\\ mesh (set_iter c i ..) = fst g /\\ mask (stored c) (vals (set_iter c i ..)) = mask (stored c) (snd g)",
                    "proof": "EFModel.C15_IterStore.restore_exact (induction over the op list, invariant inv) + cfg_ok of the generated configurations by computation"})
        if not r1.ok:
            ctx.violation("proof-broken:C15_store.v", "the store theorems no longer check against the flags derived from the source (%s)" % json.dumps(base),
                          {"obligation": "C15_store.v", "log": r1.log[-3000:], "flags": base}, found_input=False)
        # backward aliasing: theorem if deep copy on read, otherwise the model must exhibit the trace
        if base["deep_read"]:
            ctx.copy_props("C15/C15_backward.v")
            r2 = ctx.coq(["C15_backward.v"], timeout=300)
            ctx.obligation("no_alias_backward(current source)", r2.ok, "deep copy on read")
        else:
            ctx.copy_props("C15/C15_alias.v")
            r2 = ctx.coq(["C15_alias.v"], timeout=300)
            ctx.obligation("no_alias_backward(current source)", False,
                           "Get_results returns `entry.copy()` (shallow, _simu.py line %d): theorem C15_no_alias_backward is not available; the model exhibits the aliasing trace (C15_alias_trace_current_source %s)" % (base["get_results_line"], "proved" if r2.ok else "NOT proved"))
        # every live field / committed internal variable is stored
        ctx.copy_props("C15/C15_complete.v")
        r3 = ctx.coq(["C15_complete.v"], timeout=300, count=False)
        unsaved = {a: c["unsaved_internal"] for a, c in cfgs.items() if c["unsaved_internal"] or not all(c["stored"][:len(c["keys"])])}
        ctx.obligation("all_fields_stored(current source)", r3.ok, json.dumps(unsaved))
    # ---- 3. correspondence
    quick = ctx.tier == "quick"
    per = 4 if quick else 18
    ndirected = 3 if quick else 9
    length = 14 if quick else 22
    cases = []
    cid = 0
    unsupported = {"WeakForms_static": ("SetMesh", "SaveLoad"), "WeakForms_parabolic": ("SetMesh", "SaveLoad"),
                   "WeakForms_newmark": ("SetMesh", "SaveLoad"), "InElastic": ("SetMesh",)}
    for (aname, cname, keys) in CONFIGS:
        nf_model = cfgs[aname]["nf"] if base is not None else len(keys)
        full = {"write", "setmesh", "saveload", "presave"}
        if aname.startswith("WeakForms"):
            full -= {"setmesh", "saveload"}
        if aname == "InElastic":
            full -= {"setmesh"}
        algos = ALG["supported"].get(aname)            # hyperbolic configurations: every accepted algorithm
        alphas = [0.5, 0.75, 1.0] if aname.endswith("_parabolic") else None

        def timed(c):
            if algos:
                c["algo"] = algos[len([x for x in cases if x["sim"] == aname]) % len(algos)] if c.get("systematic") else ctx.rng.choice(algos)
                if c["algo"] in ("hht", "hht_newmark"):
                    c["alpha"] = ctx.rng.choice([0.0, 0.05, 1 / 6, 0.3])
            elif alphas:
                c["alpha"] = ctx.rng.choice(alphas)
            return c
        if algos or alphas:
            # systematic block: every algorithm the class accepts, at least once, on a history that restores
            # non-latest iterations and replays their continuation
            for a in (algos or alphas):
                c = gen_directed(ctx.rng, cid, aname, nf_model, len(keys), "rates", full)
                if algos:
                    c["algo"] = a
                    if a in ("hht", "hht_newmark"):
                        c["alpha"] = ctx.rng.choice([0.05, 1 / 6, 0.3])
                else:
                    c["alpha"] = a
                cases.append(c)
                cid += 1
        can_mix = aname in ("Elastic_static", "Elastic_newmark", "Thermal_static", "Thermal_parabolic")
        n_before = len(cases)
        for j in range(per):
            allow = set(full)
            if j % 3 == 1:
                allow.discard("write")   # pure histories: restore must be exact
            if aname in ("Beam_static", "Beam_newmark", "InElastic") and j % 2 == 0:
                allow.discard("saveload")
            cases.append(timed(gen_case(ctx.rng, cid, aname, nf_model, len(keys), length, allow,
                                        cfgs[aname]["restore_copy_fields"] if base is not None else ())))
            cid += 1
        c = timed(gen_directed(ctx.rng, cid, aname, nf_model, len(keys), "results", full))
        c["allresults"] = True
        cases.append(c)
        cid += 1
        for j in range(1 if quick else 3):
            c = timed(gen_directed(ctx.rng, cid, aname, nf_model, len(keys), "exotic", full))
            c["exotic"] = True
            if aname.split("_")[0] in ("Elastic", "Thermal", "WeakForms") and c.get("algo") != "euler_explicit" and (j % 2 == 0):
                c["coord_scale"] = [1e-9, 1e-6, 1e3][len([x for x in cases if x.get("coord_scale")]) % 3]     # the same scenario in other length units
            cases.append(c)
            cid += 1
        for j in range(ndirected):
            kind = ["meshes", "virgin", "last"][j % 3]
            c = timed(gen_directed(ctx.rng, cid, aname, nf_model, len(keys), kind, full - ({"saveload"} if aname in ("Beam_static", "Beam_newmark", "InElastic") else set())))
            if kind == "last" and j < 3 * (1 if quick else 2):
                c["twin"] = True      # a second simulation re-uses the same folders in the same process
            cases.append(c)
            cid += 1
        if can_mix:
            # meshes with two element types of the main dimension (+ a boundary group): every other case
            for k, c in enumerate(cases[n_before:]):
                if k % 2 == 0 or ("SetMesh" in [o[0] for o in c["ops"]] and "SaveLoad" in [o[0] for o in c["ops"]]):
                    c["mixed"] = True
    if quick:
        # wall time: the shortest scenario of every other configuration (all scenarios in the thorough tier)
        names = [a for (a, _, _) in CONFIGS]
        for a in names[::2]:
            mine = [c for c in cases if c["sim"] == a and not c.get("twin") and not c.get("allresults")]
            if mine:
                min(mine, key=lambda c: len(c["ops"]))["memdisk"] = True
    else:
        for c in cases:
            c["memdisk"] = True        # the same scenario once all in memory, once all on disk, on two simulations
    probes = ["write_origins", "mesh_roundtrip", "phasefield_history", "inelastic_state", "algo_change", "init_shared", "save_then_folder_change", "phasefield_save"]
    req = {"root": os.path.join(ctx.build, "scratch"), "cases": cases, "probes": probes}
    rc, out, err = ctx.impl_python(script, input=json.dumps(req), timeout=1500)
    if rc != 0:
        ctx.obligation("corr:harness", False, err[-1500:])
        ctx.violation("corr:impl-crash", "the implementation-side harness failed: " + (err.strip().splitlines()[-1][:200] if err.strip() else "rc=%d" % rc),
                      {"stderr": err[-3000:]}, found_input=False)
        return
    impl = json.loads(out)
    model = {}
    if base is not None:
        try:
            model = model_eval(ctx, cases, cfgs, unsupported)
        except FlagError as ex:
            ctx.obligation("corr:model-eval", False, str(ex))
            ctx.violation("corr:model-eval", "the model could not be evaluated on the generated cases: %s" % ex, {"log": str(ex)}, found_input=False)
    opdist = {}
    simdist = {}
    algodist = {}
    mism = []
    seen_keys = {}
    ncmp = 0
    for c, r in zip(cases, impl["cases"]):
        for o in c["ops"]:
            opdist[o[0]] = opdist.get(o[0], 0) + 1
        simdist[c["sim"]] = simdist.get(c["sim"], 0) + 1
        ak = "%s:%s" % (c["sim"].split("_")[0], r.get("algo"))
        algodist.setdefault(ak, {"cases": 0, "saved_iterations_with_nonzero_rates": 0})
        algodist[ak]["cases"] += 1
        algodist[ak]["saved_iterations_with_nonzero_rates"] += r.get("rates_nonzero", 0)
        kinds = sorted({o[0] for o in c["ops"]})
        trivial = len(kinds) < 4 or (r.get("algo") not in (None, "elliptic") and not r.get("rates_nonzero") and not r.get("error"))
        ctx.note_case(None if trivial else "%s:%s:%s:%d:%d" % (c["sim"], r.get("algo"), ",".join(kinds), len(c["ops"]), c["id"] if c.get("algo") else 0))
        # ---- property predicates evaluated by the harness
        for f in r["fails"]:
            k = f["kind"]
            d = f["detail"]
            cls = c["sim"].split("_")[0]
            algo = r.get("algo")
            timedep = algo not in (None, "elliptic")
            rate_fields = set(cfgs[c["sim"]]["keys"][1:]) if (base is not None and timedep) else set()
            if k == "store-changed" and str(d.get("after", "")).startswith("WriteRet:"):
                src = d["after"].split(":", 1)[1]
                key = "alias-backward:%s" % src
                what = "writing in place into an array returned by %s changes stored iteration %d (%s entry): the returned dict is a shallow copy whose arrays are the stored arrays" % (src.replace(":", " of an "), d["iter"], d["kind_of_entry"])
                exp = "stored iteration unchanged by writes into arrays handed to the user"
                ks = ["store-changed"]
            elif k == "restore-fields" and timedep and (set(d.get("fields", [])) & rate_fields) and not str(d.get("entry_corrupted_by") or "").startswith("WriteRet"):
                key = "restore-rates:%s:%s" % (cls, algo)
                what = "%s under %s: after Set_Iter/Result(iter=%d) with the SAME algorithm as at save time the live %s differ from what was live at Save_Iter" % (cls, algo, d["iter"], "/".join(d["fields"]))
                exp = "u, v, a (thermalDot) bitwise equal to the ghost copies taken at Save_Iter"
                ks = [k]
            elif k == "continuation-differs" and timedep and cls != "PhaseField":
                key = "continuation-differs:%s:%s" % (cls, algo)
                what = "%s under %s: the step replayed after Set_Iter(i) differs from the step that originally followed iteration i: %s" % (cls, algo, json.dumps(d)[:200])
                exp = "the same Solve from the restored iteration reproduces the original next iterate (1e-9 relative)"
                ks = [k]
            elif k == "store-changed" and timedep:
                key = "store-changed:%s:%s:%s" % (d.get("after"), cls, algo)
                what = "%s under %s: stored iteration %d (%s) does not read as what was saved after %s (fields %s)" % (cls, algo, d["iter"], d["kind_of_entry"], d.get("after"), d.get("fields"))
                exp = "every stored iteration reads as the ghost copy taken at Save_Iter"
                ks = ["store-changed"]
            elif k == "store-changed":
                key = "store-changed:%s:%s" % (d.get("after"), cls)
                what = "%s: stored iteration %d (%s) no longer reads as what was saved after %s" % (c["sim"], d["iter"], d["kind_of_entry"], d.get("after"))
                exp = "every stored iteration reads as the ghost copy taken at Save_Iter"
                ks = ["store-changed"]
            elif k in ("restore-fields", "result-value", "get-results-value") and str(d.get("entry_corrupted_by") or "").startswith("WriteRet"):
                continue  # consequence of an already reported corruption of that entry by a user write
            elif k in ("restore-fields", "restore-mesh", "result-value", "get-results-value"):
                key = "%s:%s" % (k, cls)
                what = "%s: %s at op %d: %s" % (c["sim"], k, f["step"], json.dumps(d)[:200])
                exp = "after Set_Iter(i) / Result(iter=i) / Get_results(i): fields, mesh and results bitwise equal to the ghost copies taken at Save_Iter i"
                ks = [k]
            elif k == "result-query-impure":
                key = "result-query-impure:%s" % cls
                what = "%s: %s" % (c["sim"], d.get("what"))
                exp = "reading results / assembled matrices of the current state changes nothing"
                ks = [k]
            elif k == "result-iter-differs" and c["sim"] != "PhaseField":
                key = "result-iter-differs:%s:%s" % (cls, d["results"][0].split("|")[0])
                what = "%s: results %s queried for iteration %d (via %s%s) differ from those obtained when it was saved: now %s, at the time %s" % (
                    c["sim"], d["results"], d["iter"], d.get("via"), ", caches of the previous state warm" if d.get("warm") else "", d.get("now"), d.get("at_save_time"))
                exp = "every advertised result (Results_Available, node and element values) of a restored iteration equals the one obtained at save time (1e-9 relative)"
                ks = [k]
            elif k == "continuation-differs" and c["sim"] == "PhaseField_HistoryDamage":
                key = "continuation-differs:PhaseField:%s" % ("warm-cache" if d.get("warm") else "HistoryDamage")
                what = "PhaseField (HistoryDamage solver): the Solve replayed after Set_Iter(i) differs from the Solve that originally continued iteration i: %s" % json.dumps(d)[:200]
                exp = "the same Solve from the restored iteration reproduces the original next iterate (1e-9 relative)"
                ks = [k]
            elif k in ("continuation-differs", "result-iter-differs") and c["sim"] == "PhaseField":
                key = "history-not-restored:PhaseField:resetAll=False"
                what = "PhaseField (History solver): the Solve replayed after Set_Iter(i) differs from the Solve that originally continued iteration i (history field not stored/restored): %s" % json.dumps(d)[:200]
                exp = "same continuation"
                ks = [k]
            elif k in ("continuation-differs", "restore-internal"):
                key = "%s:%s" % (k, cls)
                what = "%s: after restoring an iteration, %s at op %d: %s" % (c["sim"], "the committed internal variables are not those current at Save_Iter" if k == "restore-internal" else "the replayed continuation Solve differs from the original one", f["step"], json.dumps(d)[:200])
                exp = "internal variables bitwise equal to the ghost taken at Save_Iter; the same Solve from the restored iteration reproduces the original continuation (1e-9 relative)"
                ks = [k]
            elif k == "load-mesh-group-order":
                key = "load-mesh-group-order:%s" % cls
                what = "%s: after %s the restored mesh lists its element groups as %s, it was %s when the iteration was saved" % (c["sim"], d.get("via"), d.get("group_order"), d.get("expected"))
                exp = "same element-group order (dict_groupElem and Get_list_groupElem(dim)) as at Save_Iter"
                ks = [k]
            elif k == "element-results":
                key = ("load-simu-element-results:%s" if d.get("after_load_simu") else "element-results-not-restored:%s") % cls
                what = "%s: element-wise results %s (nodeValues=False) of iteration %d differ from those obtained at the time" % (c["sim"], d.get("results"), d["iter"])
                exp = "Result(name, nodeValues=False) bitwise equal to the value obtained when the iteration was saved"
                ks = [k]
            elif k == "get-results-impure":
                key = "get-results-impure:%s" % cls
                what = "%s: Get_results(%d) changed the simulation state" % (c["sim"], d["iter"])
                exp = "Get_results leaves live fields, mesh, store untouched"
                ks = [k]
            elif k == "save-crash" and "Meshes" in str(d.get("error")) and "cannot be found" in str(d.get("error")):
                key = "mesh-redirected-by-folder-change-after-Save"
                what = "a second Save() into another folder (or a folder change after Save) looks for the meshes of the history under the NEW folder: %s" % d.get("error")
                exp = "Save succeeds; meshes of the history stay reachable whatever simu.folder becomes"
                ks = [k]
            else:
                key = "%s:%s" % (k, cls)
                what = "%s: %s at op %d: %s" % (c["sim"], k, f["step"], json.dumps(d)[:200])
                exp = "Load_Simu(Save(s)) observes like s"
                ks = [k]
            if f.get("second_simulation") and k not in {g["kind"] for g in r["fails"] if not g.get("second_simulation")} and k in ("restore-fields", "get-results-value", "result-value", "restore-mesh", "restore-internal", "element-results"):
                key = "second-simulation-same-folder:" + key
                what = "a SECOND simulation writing into the same folders in the same process reads back stale content: " + what
            if key not in seen_keys:
                seen_keys[key] = (c, ks, what, exp, d.get("after") if k == "store-changed" else None)
        if r["error"] and r["error"].get("abandoned"):
            # the user's own in-place write reached the LIVE field (through the dict returned by Set_Iter)
            # and a later Solve started from that garbage: not a statement of C15; case dropped
            ctx.cov["cases_abandoned(user write into live field, or nonlinear solver non-convergence)"] = ctx.cov.get("cases_abandoned(user write into live field, or nonlinear solver non-convergence)", 0) + 1
            continue
        if r["error"]:
            e = r["error"]
            cls = c["sim"].split("_")[0]
            key = "crash:%s:%s:%s" % (e["op"][0], cls, re.sub(r"[^A-Za-z]+", "-", e["error"])[:40])
            if "Meshes" in e["error"] and "cannot be found" in e["error"]:
                key = "mesh-redirected-by-folder-change-after-Save"
            if key not in seen_keys:
                seen_keys[key] = (c, ["crash"], "%s: op %s raised %s" % (c["sim"], e["op"], e["error"][:160]), "the operation list is valid and must not raise", None)
            continue
        # ---- model vs implementation on the final observation
        m = model.get(c["id"])
        if m is None or any(f["kind"] == "continuation-differs" for f in r["fails"]):
            continue   # (a differing continuation is reported above; tokens are then no longer comparable)
        fin = r["final"]
        cfg = cfgs[c["sim"]]
        nk = len(cfg["keys"])
        reg = r["reg"]

        def same(tok, part, cell):
            """model cell token vs the implementation's (sha, is-zero) of that part of the array"""
            if tok == 0:
                return part["zero"][cell]
            return any(part["sha"][cell] == pr[cell] for pr in (reg.get(str(tok)) or []))
        dif = []
        if [m[0][0], m[0][1], m[0][2]] != [fin["mesh"], fin["nmesh"], fin["niter"]]:
            dif.append("mesh/nmesh/niter model %s impl %s" % (m[0], [fin["mesh"], fin["nmesh"], fin["niter"]]))
        else:
            for k in range(nk):
                for cell in (0, 1):
                    if cfg["stored"][k] and not same(m[1][2 * k + cell], fin["live_parts"][k], cell):
                        dif.append("live field %s cell %d: model token %s" % (cfg["keys"][k], cell, m[1][2 * k + cell]))
            for i, e in enumerate(fin["store_parts"]):
                me = m[2 + i]
                if me[0] == 0 or e[0] == "ERR":
                    if not (me[0] == 0 and e[0] == "ERR"):
                        dif.append("entry %d readable: model %s impl %s" % (i, me[0], e[0]))
                    continue
                if me[1] != e[0]:
                    dif.append("entry %d mesh index model %d impl %s" % (i, me[1], e[0]))
                for k in range(nk):
                    for cell in (0, 1):
                        if cfg["stored"][k] and not same(me[2 + 2 * k + cell], e[1 + k], cell):
                            dif.append("entry %d field %s cell %d: model token %s" % (i, cfg["keys"][k], cell, me[2 + 2 * k + cell]))
            ncmp += 1
        if dif:
            mism.append((c, dif))
    md_n = md_reads = md_err = 0
    for c, r in zip(cases, impl["cases"]):
        md = r.get("memdisk")
        if not md:
            continue
        md_n += 1
        md_reads += md["n_compared"]
        md_err += 1 if (md["error_mem"] or md["error_disk"]) else 0
        if md["diff"]:
            cls = c["sim"].split("_")[0]
            key = "mem-disk-differs:%s:%s" % (cls, md["diff"]["what"])
            if key not in [v["key"] for v in ctx.violations]:
                ctx.violation(key, "%s: the same scenario run with iterations in memory and with iterations on disk disagrees at read #%d (%s) on %s" % (c["sim"], md["diff"]["read_number"], md["diff"]["op"], md["diff"]["what"]),
                              {"case": c, "memdisk": md, "replay_py": REPLAY_MEMDISK % dict(verif=common.VERIF, req={"cases": [c], "probes": []})}, found_input=True)
    ctx.obligation("corr:memory-vs-disk", not any(v["key"].startswith("mem-disk-differs") for v in ctx.violations), "%d scenarios doubled, %d reads compared" % (md_n, md_reads))
    ctx.cov["memory_vs_disk"] = {"scenarios_run_twice": md_n, "restores_and_reads_compared_bitwise": md_reads, "scenarios_where_a_variant_raised(known findings)": md_err}
    ctx.cov["op_distribution"] = opdist
    ctx.cov["sim_distribution"] = simdist
    ctx.cov["algorithm_coverage"] = algodist
    ctx.cov["cases_comparing_all_advertised_results"] = {c["sim"]: r.get("n_results_recorded", 0) for c, r in zip(cases, impl["cases"]) if c.get("allresults")}
    ctx.cov["cases_with_non_physical_saved_fields"] = len([c for c in cases if c.get("exotic")])
    ctx.cov["cases_in_other_length_units"] = {str(s): len([c for c in cases if c.get("coord_scale") == s]) for s in (1e-9, 1e-6, 1e3)}
    ctx.cov["cases_on_mixed_type_meshes"] = len([c for c in cases if c.get("mixed")])
    ctx.cov["cases_with_second_simulation_in_same_folders"] = len([c for c in cases if c.get("twin")])
    ctx.cov["model_vs_impl_final_states_compared"] = ncmp
    ctx.cov["rule"] = "random op lists (Solve/SaveIter/SetFolder/GetResults/SetIter/ResultQ/WriteRet/SetMesh/SaveLoad) per simulation class+mode, seeded by ctx.seed; non-trivial = at least 4 distinct op kinds; distinct = (class, kinds, length)"
    ctx.traces = len(cases)
    if cases:
        ctx.sample({"case": cases[0]["sim"], "ops": cases[0]["ops"], "model_observe": model.get(cases[0]["id"])})
        ctx.sample({"case": cases[-1]["sim"], "ops": cases[-1]["ops"]})
    ctx.obligation("corr:model-vs-impl", not mism, "; ".join("%s #%d: %s" % (c["sim"], c["id"], d[0]) for c, d in mism[:4]))
    if mism:
        c, d = mism[0]
        ctx.violation("corr:model-vs-impl:%s" % c["sim"].split("_")[0], "model and implementation disagree on the final observation of %s: %s" % (c["sim"], "; ".join(d[:3])),
                      {"case": c, "differences": d[:10], "model": model.get(c["id"]), "replay_py": REPLAY_CASE % dict(verif=common.VERIF, req={"cases": [c], "probes": []}, kinds=["store-changed", "restore-fields", "restore-mesh", "restore-internal", "continuation-differs", "load-mesh-group-order", "element-results", "result-iter-differs", "result-query-impure", "result-value", "get-results-value", "get-results-impure", "save-load", "crash"], after=None, expected="the property predicates hold on this op list (the disagreement is then a modelling gap)")},
                      found_input=False)
    ctx.obligation("corr:property-predicates", not seen_keys, "; ".join(sorted(seen_keys))[:600])
    for key, (c, ks, what, exp, aft) in sorted(seen_keys.items()):
        known = common.load_known()
        small = shrink(ctx, c, ks, script, aft) if (len(seen_keys) <= 6 and (ctx.pid, key) not in known) else c
        ctx.violation(key, what, {"case": small, "replay_py": REPLAY_CASE % dict(verif=common.VERIF, req={"cases": [small], "probes": []}, kinds=ks, expected=exp, after=aft)}, found_input=True)
    # ---- 4. probes
    P = impl["probes"]
    ctx.cov["probes"] = P

    def probe_violation(key, probe, sub, what, exp):
        ctx.violation(key, what, {"probe": P.get(probe), "replay_py": REPLAY_PROBE % dict(verif=common.VERIF, req={"cases": [], "probes": [probe]}, probe=probe, sub=sub, expected=exp)}, found_input=True)
    for p in probes:
        if "error" in P.get(p, {}):
            ctx.obligation("probe:" + p, False, P[p]["error"])
            probe_violation("probe-crash:" + p, p, None, "probe %s raised %s" % (p, P[p]["error"][:200]), "the probe runs")
    pw = P.get("write_origins", {})
    if base is not None and "observed" in pw:
        bad = []
        nprobe = 0
        for aname, obs_ in pw["observed"].items():
            for origin, o in obs_.items():
                nprobe += 1
                pred_safe = write_table[aname][origin]
                if o["store_changed"] == pred_safe:   # changed although predicted safe, or unchanged although predicted unsafe
                    bad.append((aname, origin, pred_safe, o))
                pl = write_table[aname]["Set_Iter:fields_whose_returned_array_is_the_live_field"]
                if origin.startswith("Set_Iter") and o["live_changed"] != (o["field"] in pl):
                    bad.append((aname, origin + ":live", o["field"] in pl, o))
        ctx.cov["write_origin_probes"] = nprobe
        ctx.obligation("corr:write-safety-table", not bad, "%d probes (class x origin kind): observed store/live effect of an in-place write = the table derived from the source" % nprobe)
        for (aname, origin, pred, o) in bad[:6]:
            cls = aname.split("_")[0]
            if origin.endswith(":live"):
                key = "write-table-mismatch:%s:%s" % (cls, origin)
                fi = False
            elif pred:
                key = "alias-backward:%s" % origin.replace("Result(iter=)", "Result")
                fi = True
            else:
                key = "write-table-mismatch:%s:%s" % (cls, origin)
                fi = False
            ctx.violation(key, "%s: a write into the array returned by %s: store changed = %s, live changed = %s; the table derived from the source predicts store-safe = %s" % (aname, origin, o["store_changed"], o["live_changed"], pred),
                          {"probe": {aname: {origin: o}}, "replay_py": REPLAY_PROBE % dict(verif=common.VERIF, req={"cases": [], "probes": ["write_origins"]}, probe="write_origins", sub=None, expected="no stored iteration changes when the caller writes into a returned array")}, found_input=fi)
    pm = P.get("mesh_roundtrip", {})
    if "violates" in pm:
        ctx.obligation("probe:mesh_roundtrip", not pm["violates"], json.dumps(pm))
        if pm["violates"]:
            probe_violation("load-mesh-group-order" if not (pm["order_ok"] and pm["connect_main_dim_ok"]) else "load-mesh-roundtrip", "mesh_roundtrip", None,
                            "Mesh.Save -> Load_Mesh of a TRI3+QUAD4(+SEG2) mesh does not give back the same mesh: %s" % json.dumps({k: v for k, v in pm.items() if k != "violates"}),
                            "same group order, connectivity per group, coordinates, tags")
    ph = P.get("phasefield_history", {})
    for sub in ("resetAll=False", "resetAll=True"):
        if sub in ph:
            ctx.obligation("probe:phasefield_history:" + sub, not ph[sub]["violates"], json.dumps(ph[sub]))
            if ph[sub]["violates"]:
                probe_violation("history-not-restored:PhaseField:" + sub, "phasefield_history", sub,
                                "PhaseField (History solver): the history field __old_psiP_e_pg is neither stored by Save_Iter nor restored by Set_Iter(%s): the Solve after Set_Iter(1) differs from the Solve that followed iteration 1 originally (max |d damage| = %.3g)" % (sub, ph[sub]["max_abs_damage_diff"]),
                                "same damage field as the original continuation (bitwise up to 1e-9)")
    pi = P.get("inelastic_state", {})
    if "violates" in pi:
        ctx.obligation("probe:inelastic_state", not pi["violates"], json.dumps(pi))
        if pi["violates"]:
            probe_violation("state-not-restored:InElastic", "inelastic_state", None, "InElastic: committed/trial state after Set_Iter does not reproduce the original continuation: %s" % json.dumps(pi), "same continuation")
    pa = P.get("algo_change", {})
    for cls in ("Elastic", "Thermal", "HyperElastic"):
        if cls in pa:
            ctx.obligation("probe:algo_change:" + cls, not pa[cls]["violates"], json.dumps(pa[cls]))
            if pa[cls]["violates"]:
                probe_violation("algo-change-drops-rates:" + cls, "algo_change", cls,
                                "%s: an iteration saved under a time-dependent algorithm holds speed/accel (thermalDot), but Set_Iter/Result(iter=i) after the algorithm was switched to elliptic zero them instead of restoring the stored arrays: %s" % (cls, json.dumps(pa[cls])),
                                "fields stored in the entry are restored whatever the current algorithm")
    pf = P.get("save_then_folder_change", {})
    if "violates" in pf:
        ctx.obligation("probe:save_then_folder_change", not pf["violates"], json.dumps(pf))
        if pf["violates"]:
            probe_violation("mesh-redirected-by-folder-change-after-Save", "save_then_folder_change", None,
                            "after Save(folderA) the live mesh list holds paths relative to simu.folder; changing simu.folder afterwards makes Set_Iter to an iteration of another mesh fail/redirect: %s" % json.dumps(pf),
                            "the mesh of iteration 0 is restored whatever simu.folder was changed to")
    ps = P.get("phasefield_save", {})
    if "violates" in ps:
        ctx.obligation("probe:phasefield_save", not ps["violates"], json.dumps(ps))
        if ps["violates"]:
            probe_violation("save-crash:PhaseField:no-iteration-summary", "phasefield_save", None,
                            "PhaseField.Save raises %s when Results_Set_Iteration_Summary was never called" % ps.get("error_save"), "Save writes the simulation")
