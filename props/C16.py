"""C16 -- named results are consistent with the fields and matrices they derive from.

1. translator/results.py symbolically executes every simulation class's Results_Available(),
   Result(), __indexResult and Models/_utils.py's component extraction / von Mises formulas
   (ast only, fail-closed) -> Gen_Results.v
2. Coq: component_wiring / advertised_have_branch (decided on the
   regenerated tables against a hand-written spec), von_mises_* (for all real components),
   const_preserved (any mesh), scatter_energy / energy_identity / reaction_balance_core
   (all element lists).  The wiring file prints the failing (class, config, name) triples
   before the theorem, which is the model-side witness search.
3. correspondence (corr/c16_impl.py): every simulation type, integer states injected through
   _Set_solutions, every advertised name in nodal and element form, compared (a) with the value
   predicted by the *translated table* (ties Gen_Results.v to the running code) and (b) with
   the specification value recomputed from the injected vectors / full tensors.
4. every failing name -> violation with a replay that re-runs that name on the implementation.
"""
import json
import os
import re

from translator import results as T_res
from translator import c16_energy as T_en
from translator.pyexpr import TranslateError
from vlib import common

REPLAY = r'''
import sys
from corr import c16_impl
bad = c16_impl.replay(%(simkey)r, %(seed)d, %(name)r)
print("%%d failing comparison(s) for %%s on %%s" %% (len(bad), %(name)r, %(simkey)r))
sys.exit(1 if bad else 0)
'''

_TRIPLE = re.compile(r'\("([^"]*)",\s*"([^"]*)",\s*"([^"]*)"\)')
_PAIR = re.compile(r'\("([^"]*)",\s*"([^"]*)"\)')


def parse_failures(log):
    """the three `Eval vm_compute` outputs of C16_wiring.v"""
    out = {"WIRING_FAILURES": None, "BRANCH_FAILURES": None, "UNADVERTISED_BRANCHES": None}
    txt = " ".join(log.split())
    for tag in out:
        m = re.search(r'= \("%s", (\[.*?\])\) :' % tag, txt)
        if not m:
            continue
        body = m.group(1)
        if tag == "UNADVERTISED_BRANCHES":
            out[tag] = _PAIR.findall(body)
        else:
            out[tag] = _TRIPLE.findall(body)
    return out


def jsonable(e):
    if isinstance(e, (tuple, list)):
        return [jsonable(x) for x in e]
    return e


def py_expected(cls, dim, name):
    """python mirror of C16_wiring.expected, only used to word the violation"""
    ax = {"x": 0, "y": 1, "z": 2}
    if len(name) == 2 and name[0] in "uva" and name[1] in ax:
        return "column %d of the %s vector" % (ax[name[1]], {"u": "u (displacement)", "v": "v (velocity)", "a": "a (acceleration)"}[name[0]])
    if len(name) == 3 and name[0] in "SE" and name[1] in ax and name[2] in ax:
        return "%s component %s in Kelvin-Mandel order" % ("stress" if name[0] == "S" else "strain", name[1:])
    return "the entry required by the specification"


def describe(e):
    k = e[0]
    if k == "col":
        return "column %d of self.%s (%s vector)" % (e[4], e[3], e[1])
    if k == "tens":
        return "%s component %d%s" % (e[1], e[2], " x 1/coef" if e[3] else "")
    if k == "raises":
        return "raises (%s)" % e[1]
    if k == "nobranch":
        return "no branch (prints an error and returns None)"
    if k == "opaque":
        return "an expression the specification does not allow here (%s)" % e[1][:80]
    return k


def run(ctx):
    ctx.assumptions += [
        "translator/results.py (symbolic execution of the ast of Results_Available/Result/__indexResult/Models._utils) reads the dispatch faithfully; on every run each translated entry is evaluated on injected integer states and compared with the running Result() (kind 'model')",
        "the configurations enumerated in translator.results.CONFIGS (dim 2/3, dof_n, dynamic, Timoshenko) are the finite domain of the wiring theorems; InElastic's runtime slot names are assumed disjoint from the component names (checked on the instances run)",
        "_Calc_Epsilon_e_pg/_Calc_Sigma_e_pg/_Calc_GreenLagrange/_Calc_SecondPiolaKirchhoff/Compute_stress are the strain/stress arrays (Elastic: compared with strain from shape-function gradients and C:eps)",
        "Coq 8.16.1 kernel + vm_compute; stdlib real-number axioms as listed in trusted_base",
        "floating point: integer/dyadic injected states; comparisons at 1e-10 relative to max(1,|expected|)",
    ]
    ok_static, log = ctx.ensure_static()
    if not ok_static:
        # the C16 files import nothing from EFLib / EFModel (stdlib only), so a library another
        # property broke does not stop this check
        ctx.log("note: coq/lib or coq/model does not build at the moment; C16 does not depend on them, continuing")
    # ---- 1. translate --------------------------------------------------------------------
    tr = None
    try:
        tr = T_res.translate(ctx.repo)
        gen = T_res.emit_coq(tr)
    except (TranslateError, SyntaxError, OSError, RecursionError) as ex:
        ctx.obligation("translate", False, str(ex))
        ctx.violation("translate", "translator rejected the source: %s (the table theorems are not re-proved; the implementation-side specification checks below still run)" % ex,
                      {"construct": str(ex)}, found_input=False)
    # the implementation-side harness only needs the translated tables: run it concurrently with
    # the Coq compilation (one extra process)
    import concurrent.futures
    req = {"seed": ctx.seed, "tier": ctx.tier}
    if tr is not None:
        req["tables"] = {c: {cfg["cfg"]: {"advertised": cfg["advertised"], "table": {k: jsonable(v) for k, v in cfg["table"].items()}} for cfg in rec["configs"]}
                         for c, rec in tr["classes"].items()}
    pool = concurrent.futures.ThreadPoolExecutor(max_workers=1)
    harness = pool.submit(ctx.impl_python, os.path.join(common.VERIF, "corr", "c16_impl.py"), (), 1500, json.dumps(req))
    ctx.copy_props("C16/C16_wiring.v", "C16/C16_vonmises.v", "C16/C16_convert.v", "C16/C16_energy.v")
    rw = rv = None
    if tr is not None:
        ntab = sum(len(r["configs"]) for r in tr["classes"].values())
        nent = sum(len(c["table"]) for r in tr["classes"].values() for c in r["configs"])
        ctx.obligation("translate", True, "%d classes, %d configurations, %d name->entry rows" % (len(tr["classes"]), ntab, nent))
        ctx.cov["translated_tables"] = ntab
        ctx.cov["translated_entries"] = nent
        open(os.path.join(ctx.build, "Gen_Results.v"), "w").write(gen)
        # ---- 2. prove --------------------------------------------------------------------
        rg = ctx.coq(["Gen_Results.v"], timeout=300)
        if not rg.ok:
            ctx.violation("gen-does-not-compile", "generated Gen_Results.v does not compile", {"log": rg.log[-3000:]}, found_input=False)
            tr = None
        else:
            # independent files: two at a time
            cq = concurrent.futures.ThreadPoolExecutor(max_workers=2)
            f_w = cq.submit(ctx.coq, ["C16_wiring.v"], 600)
            f_v = cq.submit(ctx.coq, ["C16_vonmises.v"], 600)
            f_c = cq.submit(ctx.coq, ["C16_convert.v"], 600)
            f_e = cq.submit(ctx.coq, ["C16_energy.v"], 600)
            rw, rv, rc, re_ = f_w.result(), f_v.result(), f_c.result(), f_e.result()
            cq.shutdown()
    # these two do not depend on the generated tables
    if tr is None:
        rc = ctx.coq(["C16_convert.v"], timeout=600)
        re_ = ctx.coq(["C16_energy.v"], timeout=600)
    # end-to-end energy identity / reaction balance (on EFLib.C02_QuadForm) with the facts about
    # the source (thickness rule, quadrature rule, psi = 1/2 sigma.eps) regenerated every run
    ree = rfl = rst = rrb = None
    try:
        en = T_en.translate(ctx.repo)
        ctx.obligation("translate:energy-facts", True, json.dumps(en))
        ctx.cov["translated_energy_facts"] = en
        open(os.path.join(ctx.build, "Gen_Energy.v"), "w").write(T_en.emit_coq(en))
        ctx.copy_props("C16/C16_energy_e2e.v")
        rge = ctx.coq(["Gen_Energy.v"], timeout=120)
        if rge.ok:
            ctx.copy_props("C16/C16_strain.v", "C16/C16_fields.v")
            cq = concurrent.futures.ThreadPoolExecutor(max_workers=2)
            f_ee = cq.submit(ctx.coq, ["C16_energy_e2e.v"], 600)
            f_st = cq.submit(ctx.coq, ["C16_strain.v"], 300)
            # strain / stress arrays and the mean-over-Gauss-points semantics of the results
            f_fl = cq.submit(ctx.coq, ["C16_fields.v"], 300) if (rv is not None and rv.ok) else None
            ree, rst = f_ee.result(), f_st.result()
            rfl = f_fl.result() if f_fl is not None else None
            cq.shutdown()
            if ree.ok and rst.ok:
                # reaction balance for rigid translations, end to end (needs the two files above)
                ctx.copy_props("C16/C16_reaction.v")
                rrb = ctx.coq(["C16_reaction.v"], timeout=300)
    except (TranslateError, SyntaxError, OSError) as ex:
        ctx.obligation("translate:energy-facts", False, str(ex))
        ctx.violation("translate:energy-facts", "translator rejected the energy-related source: %s (energy_identity_e2e is not re-proved; the implementation-side energy checks still run)" % ex,
                      {"construct": str(ex)}, found_input=False)
    ctx.sample({"theorem": "component_wiring : forall t, In t all_tables -> forall name, In name (t_adv t) -> covered (t_class t) name = true -> exists e, expected (t_class t) (t_dim t) (t_edim t) (t_sdim t) name = Some e /\\ lookup name (t_tab t) = Some e",
                "proof": "vm_compute on the regenerated tables + forallb_forall"})
    fails = parse_failures(rw.log if rw is not None else "")
    ctx.cov["coq_wiring_failures"] = {k: v for k, v in fails.items() if k != "UNADVERTISED_BRANCHES"}
    # informational only: dead branches are outside the property (no obligation, no violation)
    ctx.cov["info_unadvertised_branches"] = ["%s.Result: branch %r is never advertised (unreachable)" % tuple(x) for x in (fails["UNADVERTISED_BRANCHES"] or [])]
    # ---- 3. correspondence ---------------------------------------------------------------
    rcode, out, err = harness.result()
    pool.shutdown()
    cases = []
    if rcode != 0 or "@@JSON@@" not in out:
        ctx.obligation("corr:harness", False, (err or out)[-1500:])
        ctx.violation("corr:impl-crash", "the implementation-side harness failed: %s" % ((err.strip().splitlines() or ["rc=%d" % rcode])[-1][:200]),
                      {"stderr": err[-3000:]}, found_input=False)
    else:
        data = json.loads(out.split("@@JSON@@")[1])
        cases = data["cases"]
        ctx.cov["corr_sims"] = data["sims"]
    dist = {}
    for c in cases:
        dist[c["kind"]] = dist.get(c["kind"], 0) + 1
        ctx.note_case(None if c.get("trivial") else "%s|%s|%s|%s" % (c["sim"], c["name"], c["form"], c["kind"]))
    ctx.cov["corr_case_kinds"] = dist
    bad = [c for c in cases if not c["ok"]]
    model_bad = [c for c in bad if c["kind"] == "model"]
    harness_bad = [c for c in bad if c["kind"] == "harness"]
    ctx.obligation("corr:translated-table-vs-implementation", not model_bad and bool(cases) and tr is not None,
                   "; ".join("%s %s %s: %s" % (c["sim"], c["name"], c["form"], c["detail"][:100]) for c in model_bad[:4]))
    ctx.obligation("corr:harness-self", not harness_bad, "; ".join(c["detail"][-200:] for c in harness_bad[:2]))
    spec_bad = [c for c in bad if c["kind"] not in ("model", "harness")]
    ctx.obligation("corr:specification-vs-implementation", not spec_bad and bool(cases),
                   "%d failing comparisons; first: %s" % (len(spec_bad), "; ".join("%s %s %s" % (c["sim"], c["name"], c["kind"]) for c in spec_bad[:6])))
    if cases:
        ctx.sample({"corr_case": {k: cases[0][k] for k in ("sim", "name", "form", "kind", "detail")}})

    simkeys_of = {}
    for c in cases:
        if ":" in c["sim"]:
            simkeys_of.setdefault((c["cls"], c["cfg"]), c["sim"])
    seed_of = {c["sim"]: c.get("seed", ctx.seed) for c in cases}

    def entry(cls, cfg, name):
        for cf in (tr["classes"][cls]["configs"] if tr is not None else []):
            if cf["cfg"] == cfg:
                return cf["table"].get(name), cf["dim"]
        return None, None

    reported = set()

    def report_name(cls, cfg, name, why):
        key = "wiring:%s:%s" % (cls, name)
        if key in reported:
            return
        reported.add(key)
        e, dim = entry(cls, cfg, name)
        sim = simkeys_of.get((cls, cfg))
        # a failing input may only be claimed when the implementation-side comparison of THIS name
        # really fails on this tree (the records are the replay predicate, already evaluated);
        # probes of other findings (reshape-ambiguity) and 'model' records do not count
        impl_bad = [c for c in spec_bad if c["cls"] == cls and c["name"] == name and c["kind"] in ("value", "raises", "nobranch", "forms", "iter")]
        what = "%s.Result(%r) [%s]: %s; the dispatch gives %s, the property requires %s (%s:%s)" % (
            cls, name, cfg, why, describe(e) if e else "nothing", py_expected(cls, dim, name), tr["classes"][cls]["file"], tr["classes"][cls]["line"])
        if impl_bad:
            c0 = impl_bad[0]
            what += " -- on the implementation (%s, %s form): %s" % (c0["sim"], c0["form"], c0["detail"][:160])
            ctx.violation(key, what, {"replay_py": REPLAY % dict(simkey=c0["sim"], seed=c0.get("seed", ctx.seed), name=name),
                                      "theorem": "component_wiring / advertised_have_branch", "table_entry": jsonable(e), "impl_observation": c0["detail"]}, found_input=True)
        elif sim is not None:
            ctx.violation(key, what + " -- not reproduced on the implementation instance %s" % sim,
                          {"replay_py": REPLAY % dict(simkey=sim, seed=seed_of.get(sim, ctx.seed), name=name), "theorem": "component_wiring", "table_entry": jsonable(e)}, found_input=False)
        else:
            ctx.violation(key, what, {"theorem": "component_wiring", "table_entry": jsonable(e)}, found_input=False)

    # ---- 4. violations ---------------------------------------------------------------------
    if rw is not None and not rw.ok:
        if fails["WIRING_FAILURES"] is None:
            ctx.violation("proof-broken:C16_wiring.v", "C16_wiring.v no longer compiles and printed no witness list", {"log": rw.log[-3000:]}, found_input=False)
        else:
            for cls, cfg, name in fails["WIRING_FAILURES"]:
                report_name(cls, cfg, name, "component wired to the wrong source")
            for cls, cfg, name in fails["BRANCH_FAILURES"] or []:
                report_name(cls, cfg, name, "advertised name without a working branch")
            if not (fails["WIRING_FAILURES"] or fails["BRANCH_FAILURES"]):
                ctx.violation("proof-broken:C16_wiring.v", "C16_wiring.v fails although no witness was printed", {"log": rw.log[-3000:]}, found_input=False)
    for r, f in ((rv, "C16_vonmises.v"), (rc, "C16_convert.v"), (re_, "C16_energy.v"), (ree, "C16_energy_e2e.v"), (rfl, "C16_fields.v"), (rst, "C16_strain.v"), (rrb, "C16_reaction.v")):
        if r is not None and not r.ok:
            # von Mises: look for a concrete component assignment where the code's formula differs
            found = None
            if f == "C16_vonmises.v":
                found = search_vm(ctx, tr)
            if found:
                ctx.violation(found[0], found[1], found[2], found_input=True)
            else:
                ctx.violation("proof-broken:" + f, "theorem file %s no longer checks" % f, {"obligation": f, "log": r.log[-3000:]}, found_input=False)
    # correspondence failures not already explained by a wiring violation
    for c in spec_bad:
        if c["kind"] == "reshape-ambiguity":
            ctx.violation("reshape-ambiguous-size", "Results_Reshape_values infers node/element storage from values.size %% Nn / %% Ne: %s" % c["detail"],
                          {"replay_py": REPLAY % dict(simkey="probe:reshape", seed=ctx.seed, name="ux")}, found_input=True)
            continue
        if "wiring:%s:%s" % (c["cls"], c["name"]) in reported:
            continue
        key = "corr:%s:%s:%s" % (c["cls"], c["name"], c["kind"])
        if key in reported:
            continue
        reported.add(key)
        simkey = c["sim"] if c["form"] != "extra" else "extra"
        if c["kind"] == "iter":
            simkey = "history|" + c["sim"]
        ctx.violation(key, "%s Result(%r) (%s form, %s): %s" % (c["sim"], c["name"], c["form"], c["kind"], c["detail"][:300]),
                      {"replay_py": REPLAY % dict(simkey=simkey, seed=c.get("seed", ctx.seed), name=c["name"]), "impl_observation": c["detail"]}, found_input=True)
    for c in model_bad[:10]:
        key = "model-vs-impl:%s:%s" % (c["cls"], c["name"])
        if key in reported:
            continue
        reported.add(key)
        ctx.violation(key, "translated table disagrees with the running Result(): %s %s %s: %s" % (c["sim"], c["name"], c["form"], c["detail"][:300]),
                      {"replay_py": REPLAY % dict(simkey=c["sim"], seed=c.get("seed", ctx.seed), name=c["name"])}, found_input=False)
    for c in harness_bad[:3]:
        ctx.violation("corr:harness:%s" % c["sim"], "harness error on %s: %s" % (c["sim"], c["detail"][-300:]), {"detail": c["detail"]}, found_input=False)


def search_vm(ctx, tr):
    """find integer components where the translated von Mises argument differs from 3/2 dev:dev"""
    from fractions import Fraction as F

    def ev(t, x):
        k = t[0]
        if k == "c":
            return F(repr(t[1])) if isinstance(t[1], float) else F(t[1])
        if k == "x":
            return x[t[1]]
        if k == "neg":
            return -ev(t[1], x)
        if k == "pow":
            return ev(t[1], x) ** t[2]
        a, b = ev(t[1], x), ev(t[2], x)
        return a + b if k == "+" else a - b if k == "-" else a * b
    rng = ctx.rng
    for dim in (2, 3):
        n = 3 if dim == 2 else 6
        for _ in range(200):
            x = [F(rng.randint(-4, 4)) for _ in range(n)]
            if dim == 2:
                xx, yy, xy = x
                zz = yz = xz = F(0)
            else:
                xx, yy, zz, yz, xz, xy = x
            m = (xx + yy + zz) / 3
            ref = F(3, 2) * ((xx - m) ** 2 + (yy - m) ** 2 + (zz - m) ** 2 + 2 * (yz ** 2 + xz ** 2 + xy ** 2))
            got = ev(tr["vm"][dim], x)
            if got != ref:
                comps = [int(v) for v in x]
                snippet = r'''
import sys, numpy as np
from EasyFEA.FEM import FeArray
from EasyFEA.Models import _utils
comps = %r
sq2 = np.sqrt(2.0)
n = len(comps)
shear = [2] if n == 3 else [3, 4, 5]
km = np.array([c * (sq2 if i in shear else 1.0) for i, c in enumerate(comps)], dtype=float).reshape(1, 1, n)
f = getattr(_utils, "_utils__Result_in_Strain_or_Stress_field", None) or _utils.__dict__["__Result_in_Strain_or_Stress_field"]
vm = float(np.asarray(f(FeArray.asfearray(km.copy()), "vm", sq2)).ravel()[0])
M = np.zeros((3, 3))
idx = [(0, 0), (1, 1), (0, 1)] if n == 3 else [(0, 0), (1, 1), (2, 2), (1, 2), (0, 2), (0, 1)]
for (i, j), c in zip(idx, comps):
    M[i, j] = M[j, i] = c
dev = M - np.trace(M) / 3 * np.eye(3)
ref = float(np.sqrt(1.5 * np.sum(dev * dev)))
print("components", comps, "code von Mises", vm, "sqrt(3/2 dev:dev)", ref)
sys.exit(1 if abs(vm - ref) > 1e-9 * max(1.0, ref) else 0)
''' % (comps,)
                return ("vonmises:dim%d" % dim, "von Mises formula (dim %d) of Models/_utils.py differs from sqrt(3/2 dev:dev): components %s give %s under the root, expected %s" % (dim, comps, got, ref),
                        {"replay_py": snippet, "theorem": "von_mises_%dd_sq" % dim, "components": comps, "model_value": str(got), "expected": str(ref)})
    return None
