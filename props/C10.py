"""C10 — frame indifference: a rigidly moved problem has the rigidly moved solution.

1. translate the beam local frame and the block layout / application sites of the local-to-global
   matrix (translator/c10_beam.py) -> Gen_Beam.v; Gen_Pmat.v / Gen_Laws.v as in C11
2. theorems: C10_beam.v (objectivity of the element matrix *as the code builds it*; expected to be
   refutable on a tree with blocks P instead of P^T -> generated 30-degree refutation),
   C10_beam_corrected.v (frame follows the rotation; corrected formula objective; static
   refutation of the uncorrected formula), C10_continuum.v (strain / energy / thermal / Jacobian
   of the moved element for all node data), C10_iso.v (isotropic C invariant)
3. correspondence: pairs (problem, moved problem) solved by the implementation — elastic (all
   laws, rotated axes), thermal, hyperelastic (NeoHookean / MooneyRivlin / SaintVenantKirchhoff /
   HolzapfelOgden with out-of-plane fibre fields; static Newton + one dynamic step; stored energies),
   beams (EB / Timoshenko, 2-D / 3-D), rotations by generic angles about off-origin axes,
   translations, reflections — compared after transforming back (1e-8).
"""
import json
import os
import threading

from translator import c10_beam as T_beam, pmat as T_pmat, laws as T_laws
from translator.c11_sym import TranslateError
from vlib import common

TOL = 1e-8

REPLAY = r'''
import sys
sys.path.insert(0, %(verif)r)
from corr import c10_impl
c10_impl.replay(%(case)r, %(tol)r)
'''

REFUTED = r'''(* GENERATED refutation: with the 3x3 blocks the source currently lays out (EFP.Gen_Beam.beam_blk),
   rotating a beam by 30 degrees does not rotate its element matrix *)
From Coq Require Import Reals List Lra Psatz.
From EFLib Require Import C11_MatR.
From EFP Require Import Gen_Beam C10_base.
Import ListNotations.
Open Scope R_scope.
Definition blockK (P Kb : mat) : mat := mmul 3 (mtrans 3 (beam_blk P)) (mmul 3 Kb (beam_blk P)).
Theorem beam_objective_refuted :
  exists P Rm Kb, wf3 P /\ wf3 Rm /\ wf3 Kb /\ mmul 3 (mtrans 3 Rm) Rm = ident 3 /\
    blockK (mmul 3 Rm P) Kb <> mmul 3 (mmul 3 Rm (blockK P Kb)) (mtrans 3 Rm).
Proof.
  set (c := sqrt 3 / 2). set (s := 1 / 2).
  assert (Hs3 : sqrt 3 * sqrt 3 = 3) by (apply sqrt_sqrt; lra).
  assert (Hp : 0 < sqrt 3) by (apply sqrt_lt_R0; lra).
  exists (ident 3), [[c; - s; 0]; [s; c; 0]; [0; 0; 1]], [[1; 0; 0]; [0; 2; 0]; [0; 0; 3]].
  repeat split; try reflexivity; try (repeat constructor).
  - unfold c, s. mat_cbv. list_eq ltac:(nra).
  - intro H. apply (f_equal (fun M => entry M 0 1)) in H. revert H.
    unfold blockK, beam_blk, c, s. mat_cbv. intro H. nra.
Qed.
Print Assumptions beam_objective_refuted.
'''


def gen_cases(ctx):
    rng = ctx.rng
    quick = ctx.tier == "quick"
    cases = []

    def tr():
        k = rng.random()
        t = {}
        if k < 0.6:
            t["angle"] = rng.choice([30.0, 47.0, 90.0, 120.0, round(rng.uniform(5, 355), 1)])
        elif k < 0.8:
            t["reflect"] = [round(rng.uniform(-1, 1), 2), round(rng.uniform(0.2, 1), 2), 0]
        else:
            t["angle"] = round(rng.uniform(5, 355), 1)
            t["reflect"] = [1, round(rng.uniform(-1, 1), 2), 0]
        if rng.random() < 0.5:
            t["translate"] = [round(rng.uniform(-3, 3), 2), round(rng.uniform(-3, 3), 2), 0]
        return t

    def F3(z=False):
        return [round(rng.uniform(-1, 1), 2), round(rng.uniform(-1, -0.2), 2), round(rng.uniform(-1, 1), 2) if z else 0]
    laws = [("iso", {"E": 100.0, "v": 0.3}),
            ("ti", {"El": 100.0, "Et": 20.0, "Gl": 8.0, "vl": 0.1, "vt": 0.3}),
            ("ortho", {"p": [100.0, 50.0, 20.0, 8.0, 9.0, 10.0, 0.1, 0.2, 0.3]}),
            ("aniso", {"C": [[10 + (i == j) * 20 + 0.5 * (i + j) if (i < 3 and j < 3) or i == j else 0.3 * (i + j) / 5 for j in range(3)] for i in range(3)]})]
    n2 = 1 if quick else 3
    for law, p in laws:
        for rep in range(n2):
            c = {"kind": "elastic", "dim": 2, "elemType": rng.choice(["TRI3", "QUAD4", "TRI6", "QUAD8"]), "law": law,
                 "F": F3(), "u0": [round(rng.uniform(-0.01, 0.01), 4), 0.0, 0.0], "ps": rng.random() < 0.5}
            c.update(p)
            if law == "aniso":
                C = p["C"]
                c["C"] = [[(C[i][j] + C[j][i]) / 2 for j in range(3)] for i in range(3)]
            if law != "iso":
                th = rng.uniform(0, 3.14)
                import math
                c["axes"] = [[math.cos(th), math.sin(th), 0], [-math.sin(th), math.cos(th), 0]]
            c.update(tr())
            cases.append(c)
    # 3-D
    for rep in range(1 if quick else 3):
        c = {"kind": "elastic", "dim": 3, "elemType": rng.choice(["TETRA4", "PRISM6"]), "law": rng.choice(["iso", "ti"]),
             "E": 100.0, "v": 0.3, "El": 100.0, "Et": 20.0, "Gl": 8.0, "vl": 0.1, "vt": 0.3, "F": F3(True),
             "angle": round(rng.uniform(10, 350), 1), "axis": [round(rng.uniform(-1, 1), 2), round(rng.uniform(-1, 1), 2), 1.0],
             "translate": [0.5, -1.0, 2.0], "axes": [[0.6, 0.8, 0], [-0.8, 0.6, 0]]}
        if rng.random() < 0.4:
            c["reflect"] = [1, 0.3, -0.5]
        cases.append(c)
    for rep in range(2 if quick else 5):
        c = {"kind": "thermal", "dim": 2, "elemType": rng.choice(["TRI3", "QUAD4", "TRI6"])}
        c.update(tr())
        cases.append(c)
    # beams
    for timo in (False, True):
        for dim in (2, 3):
            for rep in range(2 if quick else 5):
                c = {"kind": "beam", "dim": dim, "timo": timo, "elemType": rng.choice(["SEG2", "SEG3"] if not timo else ["SEG3", "SEG4"]),
                     "F": [300.0, -800.0, 250.0 if dim == 3 else 0.0]}
                if dim == 2:
                    c.update(tr())
                    if rep == 0:
                        c.pop("reflect", None)
                        c["angle"] = 30.0
                else:
                    c["angle"] = 30.0 if rep == 0 else round(rng.uniform(10, 350), 1)
                    c["axis"] = [0, 0, 1] if rep == 0 else [round(rng.uniform(-1, 1), 2), round(rng.uniform(-1, 1), 2), 1.0]
                    if rep >= 1 and rng.random() < 0.4:
                        c["reflect"] = [1, 0.4, 0.2]
                    c["translate"] = [1.0, 2.0, -3.0]
                cases.append(c)
    # ---- input forms of the material data: the same material given homogeneous / per element / per Gauss
    #      point, Voigt / Kelvin-Mandel, with rotated material axes, must give the same moved solution
    for form in ("per-element", "per-Gauss-point"):
        for law, p in ((laws[3], None), (laws[1], None), (laws[0], None)):
            name, par = law
            if quick and name == "iso" and form == "per-Gauss-point":
                continue
            c = {"kind": "elastic", "dim": 2, "elemType": rng.choice(["TRI3", "QUAD4"]), "law": name, "F": F3(), "form": form,
                 "ps": False, "voigt": rng.random() < 0.5}
            c.update(par)
            if name == "aniso":
                C = par["C"]
                c["C"] = [[(C[i][j] + C[j][i]) / 2 for j in range(3)] for i in range(3)]
            if name != "iso":
                import math
                th = rng.uniform(0.3, 2.8)
                c["axes"] = [[math.cos(th), math.sin(th), 0], [-math.sin(th), math.cos(th), 0]]
            c.update(tr())
            cases.append(c)
    # ---- near-special rigid rotations of anisotropic bodies whose material axes are the global ones: tiny angles
    #      (1e-2 deg, 5e-5 deg, 1e-7 rad) and exact 0 / 90 / 180 degrees; tolerance 1e-9
    import math as _m
    near = [1e-2, 5e-5, _m.degrees(1e-7), 0.0, 90.0, 180.0]
    for k, ang in enumerate(near if not quick else near[:4] + [near[4 + (ctx.seed % 2)]]):
        law = laws[1] if k % 2 == 0 else laws[2]
        dim = 2 if k % 3 else 3
        c = {"kind": "elastic", "dim": dim, "elemType": "QUAD4" if dim == 2 else "TETRA4", "law": law[0], "F": [0.4, -1.0, 0.3 if dim == 3 else 0.0],
             "ps": False, "axes": [[1.0, 0.0, 0.0], [0.0, 1.0, 0.0]], "angle": ang, "axis": [0, 0, 1] if dim == 2 else [0.3, -0.5, 1.0],
             "build": "coords", "tol": 1e-9, "exact": ang in (0.0, 90.0, 180.0) and dim == 2}
        c.update(law[1])
        cases.append(c)
    # ---- orthotropic 3-D bodies with ONE material axis exactly a global axis and the other one tilted about it (and the
    #      permutation), rotated about that global axis by a generic and by an exact angle
    import math as _m2
    for which, ang, ex in ((0, 25.0, False), (1, 90.0, True)) if quick else ((0, 25.0, False), (1, 90.0, True), (0, 140.0, False), (1, 35.0, False)):
        th = _m2.radians(35.0) if which == 0 else _m2.pi / 2
        tilted = [0.0, _m2.cos(th), _m2.sin(th)] if th != _m2.pi / 2 else [0.0, 0.0, 1.0]
        pair = [[1.0, 0.0, 0.0], tilted]
        c = {"kind": "elastic", "dim": 3, "elemType": "TETRA4", "law": "ortho", "F": [0.3, -1.0, 0.2], "build": "coords",
             "axes": pair if which == 0 else pair[::-1], "angle": ang, "axis": [1, 0, 0], "exact": ex, "tol": 1e-9}
        c.update(laws[2][1])
        cases.append(c)
    # ---- scaled twins (change of units): lengths x {1e-9, 1e-6, 1e3}, moduli x 2^(+-40); the pair must still agree
    for sL, sE in ((1e-9, 2.0 ** 40), (1e-6, 2.0 ** -40), (1e3, 1.0)) if not quick else ((1e-9, 2.0 ** 40), (1e3, 2.0 ** -40)):
        c = {"kind": "elastic", "dim": 2, "elemType": rng.choice(["TRI3", "QUAD4"]), "law": "ti", "F": F3(), "ps": rng.random() < 0.5,
             "El": 100.0 * sE, "Et": 20.0 * sE, "Gl": 8.0 * sE, "vl": 0.1, "vt": 0.3, "axes": [[0.8, 0.6, 0], [-0.6, 0.8, 0]],
             "scaleL": sL, "build": "coords"}     # nodal loads, clamped edge (homogeneous in the length unit)
        c.update(tr())
        cases.append(c)
    # ---- both ways of building the moved problem: "coords" (coordinates transformed directly) and
    #      "api" (mesh.Symmetry / Rotate / Translate on a copy), with position-dependent Dirichlet
    #      values and boundary tractions / fluxes given as callables on the moved mesh
    for c in list(cases):
        if c["kind"] in ("elastic", "thermal") and "build" not in c:
            c["build"] = rng.choice(["coords", "api"])
    nf = 2 if quick else 5
    for rep in range(nf):
        for build in ("api", "coords"):
            for kind in ("elastic", "thermal"):
                c = {"kind": kind, "dim": 2, "elemType": rng.choice(["TRI3", "QUAD4", "TRI6", "QUAD8"]), "law": "iso", "E": 100.0, "v": 0.3,
                     "F": F3(), "u0": [round(rng.uniform(-0.01, 0.01), 4), round(rng.uniform(-0.01, 0.01), 4), 0.0],
                     "build": build, "loads": "field"}
                if rep % 2 == 0:
                    c["reflect"] = [round(rng.uniform(0.2, 1), 2), round(rng.uniform(-1, 1), 2), 0]
                    if rng.random() < 0.5:
                        c["angle"] = round(rng.uniform(5, 355), 1)
                else:
                    c.update(tr())
                if rng.random() < 0.6:
                    c["translate"] = [round(rng.uniform(-3, 3), 2), round(rng.uniform(-3, 3), 2), 0]
                cases.append(c)
    for rep in range(1 if quick else 2):
        for kind in ("elastic", "thermal"):
            cases.append({"kind": kind, "dim": 3, "elemType": "TETRA4", "law": "iso", "E": 100.0, "v": 0.3, "F": F3(True), "u0": [0.004, -0.003, 0.002],
                          "build": "api", "loads": "field", "reflect": [round(rng.uniform(0.2, 1), 2), round(rng.uniform(-1, 1), 2), round(rng.uniform(-1, 1), 2)],
                          "angle": round(rng.uniform(5, 355), 1), "axis": [1, round(rng.uniform(-1, 1), 2), 0.5], "translate": [0.5, -1.0, 2.0]})
    # pressure loads (normal from the boundary elements): rotation/translation, and reflection (own key)
    for dim, et in ((2, "QUAD4"), (3, "TETRA4")):
        base = {"kind": "elastic", "dim": dim, "elemType": et, "law": "iso", "E": 100.0, "v": 0.3, "F": [0, 0, 0], "loads": "field",
                "pressure": round(rng.uniform(0.3, 1.5), 2), "build": "api"}
        cases.append(dict(base, angle=round(rng.uniform(5, 355), 1), axis=[0, 0, 1] if dim == 2 else [1, 0.4, -0.7], translate=[1.0, -2.0, 0.0 if dim == 2 else 0.5]))
        cases.append(dict(base, reflect=[round(rng.uniform(0.2, 1), 2), round(rng.uniform(-1, 1), 2), 0 if dim == 2 else 0.4]))
    # mesh motions: every element group (all dimensions) must carry the moved coordinates
    for dim, et in ((2, rng.choice(["TRI3", "QUAD8"])), (3, rng.choice(["TETRA4", "PRISM6"]))):
        cases.append({"kind": "motion", "dim": dim, "elemType": et, "reflect": [round(rng.uniform(0.2, 1), 2), round(rng.uniform(-1, 1), 2), 0 if dim == 2 else 0.6],
                      "angle": round(rng.uniform(5, 355), 1), "axis": [0, 0, 1] if dim == 2 else [0.3, 1, -0.5], "translate": [1.5, -0.5, 0 if dim == 2 else 2.0]})
    # beams vs their mirror images (arbitrary lines / planes), tip forces AND tip moments, all nodes,
    # single members and L-frames with rigid joints
    shapes2 = [[[0, 0, 0], [103.9, 60.0, 0]], [[0, 0, 0], [100, 0, 0], [100, 80, 0]], [[0, 0, 0], [-70, 40, 0], [-20, 110, 0]]]
    shapes3 = [[[0, 0, 0], [80, 50, 30]], [[0, 0, 0], [100, 0, 0], [100, 80, 30]]]
    for timo in (False, True):
        for k, pts in enumerate(shapes2 if not quick else shapes2[:2]):
            c = {"kind": "beam", "dim": 2, "timo": timo, "elemType": "SEG3" if timo else rng.choice(["SEG2", "SEG3"]), "points": pts,
                 "F": [300.0, -800.0, 0.0], "M": [0, 0, round(rng.uniform(2000, 9000), 0)],
                 "reflect": [1, 0, 0] if k == 0 and not timo else [round(rng.uniform(0.2, 1), 2), round(rng.uniform(-1, 1), 2), 0]}
            if rng.random() < 0.5:
                c["translate"] = [round(rng.uniform(-30, 30), 1), round(rng.uniform(-30, 30), 1), 0]
            cases.append(c)
        for k, pts in enumerate(shapes3 if not quick else shapes3[1:]):
            cases.append({"kind": "beam", "dim": 3, "timo": timo, "elemType": "SEG3" if timo else "SEG2", "points": pts,
                          "F": [300.0, -800.0, 250.0], "M": [1500.0, -2500.0, 4000.0],
                          "reflect": [round(rng.uniform(0.2, 1), 2), round(rng.uniform(-1, 1), 2), round(rng.uniform(-1, 1), 2)],
                          "angle": round(rng.uniform(5, 355), 1), "axis": [0.2, -0.4, 1.0]})
        # EXACT rotations by 180 / 90 degrees and exact mirror images: members lying exactly on a coordinate
        # axis (all other coordinates exactly 0), pointing towards -x / -y
        for dim_ in (2, 3):
            cases.append({"kind": "beam", "dim": dim_, "timo": timo, "elemType": "SEG3" if timo else "SEG2", "points": [[0, 0, 0], [120.0, 0, 0]],
                          "F": [300.0, -800.0, 0.0 if dim_ == 2 else 250.0], "M": [0, 0, 4000.0], "angle": 180.0, "axis": [0, 0, 1], "exact": True})
        cases.append({"kind": "beam", "dim": 2, "timo": timo, "elemType": "SEG3", "points": [[0, 0, 0], [120.0, 0, 0]],
                      "F": [300.0, -800.0, 0.0], "M": [0, 0, 4000.0], "angle": rng.choice([90.0, 270.0]), "axis": [0, 0, 1], "exact": True})
        cases.append({"kind": "beam", "dim": 2, "timo": timo, "elemType": "SEG3", "points": [[0, 0, 0], [100.0, 0, 0], [100.0, 80.0, 0]],
                      "F": [300.0, -800.0, 0.0], "M": [0, 0, 4000.0], "reflect": [1, 0, 0], "exact": True})
        # multi-member 3-D frame (upright portal: columns along z, members with DIFFERENT sections) built from scratch
        # in every configuration; in the original one the members are aligned with the global axes and project onto each other
        portal = {"kind": "beam", "dim": 3, "timo": timo, "elemType": "SEG3" if timo else "SEG2",
                  "points": [[0, 0, 0], [0, 0, 90.0], [110.0, 0, 90.0], [110.0, 0, 0]], "members": [[0, 1], [1, 2], [2, 3]],
                  "sections": [[13.0, 9.0], [6.0, 16.0], [10.0, 10.0]], "clamped": [0, 3], "loaded": 1,
                  "F": [300.0, -500.0, 150.0], "M": [800.0, 0.0, -600.0]}
        for mv in ([{"angle": round(rng.uniform(5, 355), 1), "axis": [0.3, -0.6, 1.0], "translate": [7.0, -3.0, 11.0]}] +
                   ([{"angle": 90.0, "axis": [1, 0, 0], "exact": True}] if not (quick and timo) else []) +
                   ([{"reflect": [1.0, 0.5, -0.7]}] if not quick or timo else [])):
            cases.append(dict(portal, **mv))
        # uniform line load on an inclined member (consistent nodal forces must follow the member)
        cases.append({"kind": "beam", "dim": 2, "timo": timo, "elemType": "SEG3", "points": [[0, 0, 0], [120.0, 0, 0]], "F": [0.0, -1e-9, 0.0],
                      "lineload": [2.0, -5.0, 0.0], "angle": 30.0})
        # roll of the section about the member's own axis on an EXISTING, already solved simulation
        cases.append({"kind": "beam_roll", "timo": timo, "elemType": "SEG3" if timo else "SEG2", "roll": 25.0 if timo else 90.0,
                      "F": [100.0, -300.0, 200.0]})
        # scaled twin (change of length unit, x 1e3: a frame given in millimetres): rotated L-frame
        if not timo or not quick:
            cases.append({"kind": "beam", "dim": 2, "timo": timo, "elemType": "SEG3", "points": [[0, 0, 0], [100.0, 0, 0], [100.0, 80.0, 0]],
                          "F": [300.0, -800.0, 0.0], "M": [0, 0, 4.0e6], "angle": 47.0, "scaleL": 1e3})
        # the SAME objects moved in place (user's Line, simulation mesh, beam.yAxis, loads) and re-solved
        for dim_ in (2, 3):
            if quick and ((dim_ == 2) == timo):
                continue
            cases.append({"kind": "beam_inplace", "dim": dim_, "timo": timo, "elemType": "SEG3" if timo else "SEG2",
                          "F": [100.0, -300.0, 0.0 if dim_ == 2 else 200.0], "angle": round(rng.uniform(20, 340), 1),
                          "axis": [0, 0, 1] if dim_ == 2 else [0.3, -0.5, 1.0], "translate": [5.0, -3.0, 0.0 if dim_ == 2 else 7.0]})
        # rotated L-frame with a tip moment (proper rotation)
        cases.append({"kind": "beam", "dim": 2, "timo": timo, "elemType": "SEG3", "points": shapes2[1], "F": [300.0, -800.0, 0.0], "M": [0, 0, 5000.0],
                      "angle": round(rng.uniform(5, 355), 1)})
    # hyperelastic pairs: static Newton solve (+ one dynamic step), stored energy of a prescribed deformation
    # and of the rigidly moved reference state; Holzapfel-Ogden with fibre / sheet directions OUT of the
    # xy-plane, constant and per-Gauss-point, moved with the body
    def mv3(dim):
        t = {"build": rng.choice(["api", "coords"])}
        k = rng.random()
        if k < 0.7:
            t["angle"] = round(rng.uniform(5, 355), 1)
            t["axis"] = [0, 0, 1] if dim == 2 else [round(rng.uniform(-1, 1), 2), round(rng.uniform(-1, 1), 2), 1.0]
            t["center"] = [round(rng.uniform(-2, 2), 2), round(rng.uniform(-2, 2), 2), 0 if dim == 2 else round(rng.uniform(-2, 2), 2)]
        if k >= 0.4:
            t["reflect"] = [round(rng.uniform(0.2, 1), 2), round(rng.uniform(-1, 1), 2), 0 if dim == 2 else round(rng.uniform(-1, 1), 2)]
        t["translate"] = [round(rng.uniform(-3, 3), 2), round(rng.uniform(-3, 3), 2), 0 if dim == 2 else round(rng.uniform(-3, 3), 2)]
        return t
    for rep in range(1 if quick else 3):
        for law, et in (("neo", "TRI3"), ("mooney", "QUAD4"), ("svk", "TRI6")):
            cases.append(dict({"kind": "hyper", "dim": 2, "law": law, "elemType": et, "dynamic": law == "neo"}, **mv3(2)))
        cases.append(dict({"kind": "hyper", "dim": 3, "law": rng.choice(["neo", "mooney", "svk"]), "elemType": rng.choice(["TETRA4", "PRISM6"])}, **mv3(3)))
        cases.append(dict({"kind": "hyper", "dim": 3, "law": "ho", "fibres": "field", "elemType": "HEXA8", "dynamic": True,
                           "angle": 48.0, "axis": [2, -1, 1.5], "center": [0.4, 1.7, -0.9], "translate": [-3, 1, 2.5], "build": "api"}))
        cases.append(dict({"kind": "hyper", "dim": 3, "law": "ho", "fibres": "field", "elemType": "HEXA8", "tilt": round(rng.uniform(15, 60), 1)}, **dict(mv3(3), reflect=[1, -2, 2])))
        cases.append(dict({"kind": "hyper", "dim": 3, "law": "ho", "fibres": rng.choice(["const", "const_vector"]), "elemType": rng.choice(["HEXA8", "PRISM6"]),
                           "tilt": round(rng.uniform(15, 60), 1)}, **mv3(3)))
    cases += [{"kind": "Bcheck", "dim": 2, "seed": rng.randint(0, 10**6)}, {"kind": "Bcheck", "dim": 3, "seed": rng.randint(0, 10**6)}]
    return cases


def classify(c, r, beam):
    moved = ("rot" if c.get("angle") else "") + ("+refl" if c.get("reflect") else "") + ("+transl" if c.get("translate") else "")
    if c["kind"] == "beam_inplace":
        cls = "beam_inplace:%s:%dD" % ("Timoshenko" if c.get("timo") else "EB", c["dim"])
    elif c["kind"] == "beam_roll":
        cls = "beam_roll:%s" % ("Timoshenko" if c.get("timo") else "EB")
    elif c["kind"] == "beam":
        cls = "beam:%s:%dD" % ("Timoshenko" if c.get("timo") else "EB", c["dim"])
    elif c["kind"] == "elastic":
        cls = "elastic:%s:%dD" % (c["law"], c["dim"])
    elif c["kind"] == "hyper":
        cls = "hyper:%s%s:%dD" % (c["law"], (":" + c.get("fibres", "field")) if c["law"] == "ho" else "", c["dim"])
    else:
        cls = c["kind"]
    if c["kind"] == "Bcheck":
        key = "corr:B-transcription"
    elif c["kind"] == "motion" or (isinstance(r, dict) and r.get("motion", {}).get("err", 0) > 1e-9):
        step = (r.get("motion") or {}).get("step", "?") if isinstance(r, dict) else "?"
        key = "mesh-motion:Mesh.%s" % step
    elif c.get("pressure") and c.get("reflect"):
        key = "pressure-reflected-mesh:Get_normals"
    elif c["kind"] == "beam_roll":
        key = "beam-section-roll-on-existing-simulation:%s" % ("Timoshenko" if c.get("timo") else "EB")
    elif c["kind"] == "beam_inplace":
        key = "beam-objects-moved-in-place:%s:%dD" % ("Timoshenko" if c.get("timo") else "EB", c["dim"])
    elif c["kind"] == "beam" and c.get("scaleL"):
        key = "beam-tagging-absolute-tolerance:Line.Contains"
    elif c["kind"] == "beam" and c.get("lineload") and not c.get("timo"):
        key = "beam-lineLoad-EB-inclined:add_lineLoad"
    elif c["kind"] == "beam" and c.get("exact") and len(c.get("points", [])) == 2 and c.get("angle") == 180.0:
        key = "beam-on-x-axis-towards-minus-x:inDim"
    elif c["kind"] == "beam" and beam is not None and not beam["block_transposed"]:
        key = "beam-local-global:_Compute_P_e_pg"
    elif c["kind"] == "beam" and c.get("reflect") and not c.get("angle"):
        key = "frame-indifference:%s:mirror" % cls
    else:
        key = "frame-indifference:" + cls
    return cls, moved, key


def correspondence(ctx, beam, holder):
    cases = gen_cases(ctx)
    nchunk = 4
    chunks = [cases[i::nchunk] for i in range(nchunk)]
    outs = [None] * nchunk

    def runchunk(i):
        outs[i] = ctx.impl_python(os.path.join(common.VERIF, "corr", "c10_impl.py"), input=json.dumps({"cases": chunks[i]}), timeout=1500)
    ths = [threading.Thread(target=runchunk, args=(i,)) for i in range(nchunk)]
    for t in ths:
        t.start()
    for t in ths:
        t.join()
    res = [None] * len(cases)
    for i, (rc, out, err) in enumerate(outs):
        if rc != 0:
            ctx.obligation("corr:impl-run", False, err[-1500:])
            ctx.violation("corr:impl-crash", "the implementation-side run failed: " + (err.strip().splitlines()[-1][:200] if err.strip() else "rc=%d" % rc),
                          {"stderr": err[-3000:]}, found_input=False)
            return
        for k, r in enumerate(json.loads(out)):
            res[i + k * nchunk] = r
    dist = {}
    worst = {}
    bad = []
    for c, r in zip(cases, res):
        cls, moved, key = classify(c, r, beam)
        tag = cls + ":" + moved + (":" + c["build"] if "build" in c else "") + (":field-loads" if c.get("loads") == "field" else "") + (":pressure" if c.get("pressure") else "") \
            + (":" + c["form"] if c.get("form") else "") + (":scaled" if c.get("scaleL") else "") + (":lineload" if c.get("lineload") else "") + (":near-special" if c.get("tol") else "") + (":portal" if c.get("members") else "") + (":exact" if c.get("exact") else "") + (":moment" if c.get("M") else "") + (":frame" if len(c.get("points", [])) > 2 else "") + (":dynamic-step" if c.get("dynamic") else "")
        dist[tag] = dist.get(tag, 0) + 1
        ctx.note_case(None if c["kind"] == "Bcheck" else "%s:%s:%s" % (tag, c.get("elemType"), c.get("angle")))
        if "raises" in r:
            bad.append((key, cls, c, "the implementation raised %s" % r["raises"], r))
            continue
        tol = 1e-12 if c["kind"] in ("Bcheck", "motion") else c.get("tol", TOL)
        worst[cls] = max(worst.get(cls, 0.0), r["err"])
        if not (r["err"] <= tol):          # also catches NaN (a singular system of the moved problem)
            extra = ""
            if r.get("motion", {}).get("err", 0) > 1e-9:
                m = r["motion"]
                extra = "; after mesh.%s the element group %s (dim %d) is off the moved coordinates by %.3g" % (m["step"], m["group"], m["dim"], m["err"])
            bad.append((key, cls, c, "%s: discrepancy %.3e after transforming back (%s)%s" % (cls, r["err"], r.get("what"), extra), r))
    ctx.cov["corr_distribution"] = dist
    ctx.cov["corr_worst_discrepancy"] = worst
    ctx.cov["corr_tolerance"] = TOL
    ctx.obligation("corr:moved-problem-vs-moved-solution", not bad, "; ".join(b[3] for b in bad[:4]))
    if res:
        ctx.sample({"case": cases[0], "result": {k: v for k, v in res[0].items() if k != "tb"}})
    seen = set()
    for key, cls, c, what, r in bad:
        if key in seen:
            continue
        seen.add(key)
        ctx.violation(key, what + " — case %s" % json.dumps(c),
                      {"replay_py": REPLAY % dict(verif=common.VERIF, case=c, tol=(1e-12 if c["kind"] in ("Bcheck", "motion") else c.get("tol", TOL))),
                       "case": c, "impl_result": {k: v for k, v in r.items() if k != "tb"}}, found_input=True)
    holder["bad"] = bad


def run(ctx):
    ctx.assumptions += [
        "translator/c10_beam.py recognises the block layout of _Compute_P_e_pg and all `X = X @ P_e_pg` sites (fail-closed on any other shape); translator/pmat.py, laws.py as in C11",
        "the per-node block of Get_B_e_pg is transcribed by hand in C10_continuum.v and compared with the implementation each run (exact)",
        "the whole-solve statement composes the element-level theorems with assembly and elimination (C03/C04); here the solve is sampled: pairs (problem, moved problem) at 1e-8",
        "reflections: continuum thermal/Jacobian theorems cover every orthogonal R; the elastic strain theorem is stated for proper rotations Q = [a|b|a x b]; reflections of elastic and beam problems are sampled",
    ]
    ok_static, log = ctx.ensure_static()
    if not ok_static:
        ctx.obligation("static-lib", False, log[-1500:])
        ctx.violation("static-lib-build", "coq/lib or coq/model does not build", {"log": log[-3000:]}, found_input=False)
        return
    beam = pm = lw = None
    gens = {}
    try:
        beam = T_beam.read_beam(ctx.repo)
        gens["Gen_Beam.v"] = T_beam.emit_coq(beam)
        ctx.obligation("translate:beam", True, "_Calc_P, _Compute_P_e_pg blocks (%s), %d application sites" % ("P^T" if beam["block_transposed"] else "P", len(beam["sites"])))
        ctx.cov["beam_block_layout"] = "P^T" if beam["block_transposed"] else "P"
        ctx.cov["beam_application_sites"] = beam["sites"]
    except (TranslateError, SyntaxError, OSError) as ex:
        beam = None
        ctx.obligation("translate:beam", False, str(ex))
        ctx.violation("translate", "translator rejected the beam source (the beam theorems are not re-established; the moved-problem pairs still run): %s" % ex,
                      {"construct": str(ex)}, found_input=False)
    try:
        pm = T_pmat.read_pmat(ctx.repo)
        lw = T_laws.read_laws(ctx.repo)
        gens["Gen_Pmat.v"] = T_pmat.emit_coq(pm)
        gens["Gen_Laws.v"] = T_laws.emit_coq(lw)
        ctx.obligation("translate:laws", True, "Get_Pmat, Apply_Pmat, laws")
    except (TranslateError, SyntaxError, OSError) as ex:
        pm = lw = None
        ctx.obligation("translate:laws", False, str(ex))
        ctx.violation("translate:laws", "translator rejected the constitutive source (continuum theorems not re-established; the moved-problem pairs still run): %s" % ex,
                      {"construct": str(ex)}, found_input=False)
    for k, v in gens.items():
        open(os.path.join(ctx.build, k), "w").write(v)
    ctx.copy_props("C11/C11_wf.v", "C11/C11_pmat.v", "C11/C11_rot.v", "C10/C10_base.v", "C10/C10_beam.v", "C10/C10_beam_corrected.v", "C10/C10_strain.v", "C10/C10_continuum.v", "C10/C10_iso.v", "C10/C10_matrix.v", "C10/C10_integrated.v", "C10/C10_matrix2d.v", "C10/C10_reflection.v")
    g = ctx.coq([f for f in ("Gen_Beam.v", "Gen_Pmat.v", "Gen_Laws.v") if f in gens] + (["C11_wf.v"] if "Gen_Pmat.v" in gens else []) + ["C10_base.v"], timeout=300, count=False)
    if not g.ok:
        ctx.obligation("generated-files-compile", False, g.log[-1500:])
        ctx.violation("generated-files", "the regenerated Coq definitions do not compile", {"log": g.log[-3000:]}, found_input=False)
        beam_coq = laws_coq = False
    else:
        beam_coq, laws_coq = beam is not None, pm is not None
    res = {}
    holder = {}

    def job(name, files, count=True):
        res[name] = ctx.coq(files, timeout=900, count=count)
    tc = threading.Thread(target=correspondence, args=(ctx, beam, holder))
    tc.start()
    th = []
    if beam_coq:
        th += [threading.Thread(target=job, args=("corrected", ["C10_beam_corrected.v"])),
               threading.Thread(target=job, args=("beam", ["C10_beam.v"]))]
    if laws_coq:
        th += [threading.Thread(target=job, args=("pmat", ["C11_pmat.v"], False)),
               threading.Thread(target=job, args=("rot", ["C11_rot.v"], False)),
               threading.Thread(target=job, args=("iso", ["C10_iso.v"]))]
    for t in th:
        t.start()
    for t in th[:-1] if laws_coq else th:
        t.join()
    if laws_coq and res["pmat"].ok and res["rot"].ok:
        job("strain", ["C10_strain.v"])
        if res["strain"].ok:
            tm = threading.Thread(target=job, args=("matrix", ["C10_matrix.v", "C10_integrated.v"]))
            tm.start()
            job("continuum", ["C10_continuum.v"])
            job("matrix2d", ["C10_matrix2d.v"])
            tm.join()
            if ctx.tier == "thorough" and res.get("matrix") is not None and res["matrix"].ok:
                # 3-D reflections (det Q = -1): ~75 s of `ring` on 36 symbolic stiffness entries, thorough tier only
                job("reflection", ["C10_reflection.v"])
    if laws_coq:
        th[-1].join()
    tc.join()
    if not beam_coq:
        ctx.obligation("coqc:skipped:beam-theorems", False, "beam translator failed")
    if not laws_coq:
        ctx.obligation("coqc:skipped:continuum-theorems", False, "laws translator failed")
    ctx.sample({"theorem": "beam_K_objective : forall P Rm Kb, wf3 P -> wf3 Rm -> wf3 Kb -> blockK (Rm P) Kb = Rm (blockK P Kb) Rm^T   (blockK from the regenerated block layout)",
                "status_on_this_tree": "not re-established (translator)" if "beam" not in res else "proved" if res["beam"].ok else "does not check (blocks are %s)" % ctx.cov["beam_block_layout"]})
    ctx.sample({"theorem": "Ke_objective_energy_partial : forall a b r2 C l, r2*r2=2 -> unit_orth3 a b -> wf 6 C -> qf (P C P^T) (strain (moved l)) = qf C (strain l)"})
    if "beam" in res and not res["beam"].ok:
        ctx.log("beam_K_objective does not check on this tree; machine-checking the 30-degree refutation")
        open(os.path.join(ctx.build, "C10_beam_refuted.v"), "w").write(REFUTED)
        rr = ctx.coq(["C10_beam_refuted.v"], timeout=300)
        ctx.cov["beam_objective_refutation_machine_checked"] = rr.ok
        case = {"kind": "beam", "dim": 2, "timo": False, "elemType": "SEG2", "F": [300.0, -800.0, 0.0], "angle": 30.0}
        ctx.violation("beam-local-global:_Compute_P_e_pg",
                      "the beam element matrices are built with 3x3 blocks %s where P^T is needed (N_e_pg @ P_e_pg, B_e_pg @ P_e_pg): beam_K_objective is refuted by a 30-degree rotation%s"
                      % (ctx.cov["beam_block_layout"], " (machine-checked)" if rr.ok else ""),
                      {"replay_py": REPLAY % dict(verif=common.VERIF, case=case, tol=TOL), "case": case, "obligation": "beam_K_objective"}, found_input=True)
    for name in ("corrected", "pmat", "rot", "strain", "continuum", "matrix", "matrix2d", "reflection", "iso"):
        r = res.get(name)
        if r is not None and not r.ok:
            ctx.violation("proof-broken:%s" % r.failed_file, "theorem file %s no longer checks against the regenerated definitions" % r.failed_file,
                          {"obligation": r.failed_file, "log": r.log[-3000:]}, found_input=False)
