"""C10 — frame indifference: a rigidly moved problem has the rigidly moved solution.

1. translate the beam local frame and the block layout / application sites of the local-to-global
   matrix (translator/c10_beam.py) -> Gen_Beam.v; Gen_Pmat.v / Gen_Laws.v as in C11
2. theorems: C10_beam.v (objectivity of the element matrix *as the code builds it*; expected to be
   refutable on a tree with blocks P instead of P^T -> generated 30-degree refutation),
   C10_beam_corrected.v (frame follows the rotation; corrected formula objective; static
   refutation of the uncorrected formula), C10_continuum.v (strain / energy / thermal / Jacobian
   of the moved element for all node data), C10_iso.v (isotropic C invariant)
3. correspondence: pairs (problem, moved problem) solved by the implementation — elastic (all
   laws, rotated axes), thermal, beams (EB / Timoshenko, 2-D / 3-D), rotations by generic angles,
   translations, reflections — compared after transforming back (1e-8).
"""
import json
import os
import threading

from translator import c10_beam as T_beam, pmat as T_pmat, laws as T_laws
from translator.c11_sym import TranslateError
from vlib import common

TOL = 1e-8

REPLAY = r'''
import sys
sys.path.insert(0, %(verif)r)
from corr import c10_impl
c10_impl.replay(%(case)r, %(tol)r)
'''

REFUTED = r'''(* GENERATED refutation: with the 3x3 blocks the source currently lays out (EFP.Gen_Beam.beam_blk),
   rotating a beam by 30 degrees does not rotate its element matrix *)
From Coq Require Import Reals List Lra Psatz.
From EFLib Require Import C11_MatR.
From EFP Require Import Gen_Beam C10_base.
Import ListNotations.
Open Scope R_scope.
Definition blockK (P Kb : mat) : mat := mmul 3 (mtrans 3 (beam_blk P)) (mmul 3 Kb (beam_blk P)).
Theorem beam_objective_refuted :
  exists P Rm Kb, wf3 P /\ wf3 Rm /\ wf3 Kb /\ mmul 3 (mtrans 3 Rm) Rm = ident 3 /\
    blockK (mmul 3 Rm P) Kb <> mmul 3 (mmul 3 Rm (blockK P Kb)) (mtrans 3 Rm).
Proof.
  set (c := sqrt 3 / 2). set (s := 1 / 2).
  assert (Hs3 : sqrt 3 * sqrt 3 = 3) by (apply sqrt_sqrt; lra).
  assert (Hp : 0 < sqrt 3) by (apply sqrt_lt_R0; lra).
  exists (ident 3), [[c; - s; 0]; [s; c; 0]; [0; 0; 1]], [[1; 0; 0]; [0; 2; 0]; [0; 0; 3]].
  repeat split; try reflexivity; try (repeat constructor).
  - unfold c, s. mat_cbv. list_eq ltac:(nra).
  - intro H. apply (f_equal (fun M => entry M 0 1)) in H. revert H.
    unfold blockK, beam_blk, c, s. mat_cbv. intro H. nra.
Qed.
Print Assumptions beam_objective_refuted.
'''


def gen_cases(ctx):
    rng = ctx.rng
    quick = ctx.tier == "quick"
    cases = []

    def tr():
        k = rng.random()
        t = {}
        if k < 0.6:
            t["angle"] = rng.choice([30.0, 47.0, 90.0, 120.0, round(rng.uniform(5, 355), 1)])
        elif k < 0.8:
            t["reflect"] = [round(rng.uniform(-1, 1), 2), round(rng.uniform(0.2, 1), 2), 0]
        else:
            t["angle"] = round(rng.uniform(5, 355), 1)
            t["reflect"] = [1, round(rng.uniform(-1, 1), 2), 0]
        if rng.random() < 0.5:
            t["translate"] = [round(rng.uniform(-3, 3), 2), round(rng.uniform(-3, 3), 2), 0]
        return t

    def F3(z=False):
        return [round(rng.uniform(-1, 1), 2), round(rng.uniform(-1, -0.2), 2), round(rng.uniform(-1, 1), 2) if z else 0]
    laws = [("iso", {"E": 100.0, "v": 0.3}),
            ("ti", {"El": 100.0, "Et": 20.0, "Gl": 8.0, "vl": 0.1, "vt": 0.3}),
            ("ortho", {"p": [100.0, 50.0, 20.0, 8.0, 9.0, 10.0, 0.1, 0.2, 0.3]}),
            ("aniso", {"C": [[10 + (i == j) * 20 + 0.5 * (i + j) if (i < 3 and j < 3) or i == j else 0.3 * (i + j) / 5 for j in range(3)] for i in range(3)]})]
    n2 = 1 if quick else 3
    for law, p in laws:
        for rep in range(n2):
            c = {"kind": "elastic", "dim": 2, "elemType": rng.choice(["TRI3", "QUAD4", "TRI6", "QUAD8"]), "law": law,
                 "F": F3(), "u0": [round(rng.uniform(-0.01, 0.01), 4), 0.0, 0.0], "ps": rng.random() < 0.5}
            c.update(p)
            if law == "aniso":
                C = p["C"]
                c["C"] = [[(C[i][j] + C[j][i]) / 2 for j in range(3)] for i in range(3)]
            if law != "iso":
                th = rng.uniform(0, 3.14)
                import math
                c["axes"] = [[math.cos(th), math.sin(th), 0], [-math.sin(th), math.cos(th), 0]]
            c.update(tr())
            cases.append(c)
    # 3-D
    for rep in range(1 if quick else 3):
        c = {"kind": "elastic", "dim": 3, "elemType": rng.choice(["TETRA4", "PRISM6"]), "law": rng.choice(["iso", "ti"]),
             "E": 100.0, "v": 0.3, "El": 100.0, "Et": 20.0, "Gl": 8.0, "vl": 0.1, "vt": 0.3, "F": F3(True),
             "angle": round(rng.uniform(10, 350), 1), "axis": [round(rng.uniform(-1, 1), 2), round(rng.uniform(-1, 1), 2), 1.0],
             "translate": [0.5, -1.0, 2.0], "axes": [[0.6, 0.8, 0], [-0.8, 0.6, 0]]}
        if rng.random() < 0.4:
            c["reflect"] = [1, 0.3, -0.5]
        cases.append(c)
    for rep in range(2 if quick else 5):
        c = {"kind": "thermal", "dim": 2, "elemType": rng.choice(["TRI3", "QUAD4", "TRI6"])}
        c.update(tr())
        cases.append(c)
    # beams
    for timo in (False, True):
        for dim in (2, 3):
            for rep in range(2 if quick else 5):
                c = {"kind": "beam", "dim": dim, "timo": timo, "elemType": rng.choice(["SEG2", "SEG3"] if not timo else ["SEG3", "SEG4"]),
                     "F": [300.0, -800.0, 250.0 if dim == 3 else 0.0]}
                if dim == 2:
                    c.update(tr())
                    if rep == 0:
                        c.pop("reflect", None)
                        c["angle"] = 30.0
                else:
                    c["angle"] = 30.0 if rep == 0 else round(rng.uniform(10, 350), 1)
                    c["axis"] = [0, 0, 1] if rep == 0 else [round(rng.uniform(-1, 1), 2), round(rng.uniform(-1, 1), 2), 1.0]
                    if rep >= 1 and rng.random() < 0.4:
                        c["reflect"] = [1, 0.4, 0.2]
                    c["translate"] = [1.0, 2.0, -3.0]
                cases.append(c)
    cases += [{"kind": "Bcheck", "dim": 2, "seed": rng.randint(0, 10**6)}, {"kind": "Bcheck", "dim": 3, "seed": rng.randint(0, 10**6)}]
    return cases


def correspondence(ctx, beam, holder):
    cases = gen_cases(ctx)
    rc, out, err = ctx.impl_python(os.path.join(common.VERIF, "corr", "c10_impl.py"), input=json.dumps({"cases": cases}), timeout=1500)
    holder["done"] = True
    if rc != 0:
        ctx.obligation("corr:impl-run", False, err[-1500:])
        ctx.violation("corr:impl-crash", "the implementation-side run failed: " + (err.strip().splitlines()[-1][:200] if err.strip() else "rc=%d" % rc),
                      {"stderr": err[-3000:]}, found_input=False)
        return
    res = json.loads(out)
    dist = {}
    worst = {}
    bad = []
    for c, r in zip(cases, res):
        moved = ("rot" if "angle" in c else "") + ("+refl" if "reflect" in c else "") + ("+transl" if "translate" in c else "")
        if c["kind"] == "beam":
            cls = "beam:%s:%dD" % ("Timoshenko" if c.get("timo") else "EB", c["dim"])
        elif c["kind"] == "elastic":
            cls = "elastic:%s:%dD" % (c["law"], c["dim"])
        else:
            cls = c["kind"]
        dist[cls + ":" + moved] = dist.get(cls + ":" + moved, 0) + 1
        ctx.note_case(None if c["kind"] == "Bcheck" else "%s:%s:%s:%s" % (cls, c.get("elemType"), moved, c.get("angle")))
        if "raises" in r:
            bad.append((cls, c, "the implementation raised %s" % r["raises"], r))
            continue
        tol = 1e-12 if c["kind"] == "Bcheck" else TOL
        worst[cls] = max(worst.get(cls, 0.0), r["err"])
        if r["err"] > tol:
            bad.append((cls, c, "%s: discrepancy %.3e after transforming back (%s)" % (cls, r["err"], r.get("what")), r))
    ctx.cov["corr_distribution"] = dist
    ctx.cov["corr_worst_discrepancy"] = worst
    ctx.cov["corr_tolerance"] = TOL
    ctx.obligation("corr:moved-problem-vs-moved-solution", not bad, "; ".join(b[2] for b in bad[:4]))
    if res:
        ctx.sample({"case": cases[0], "result": {k: v for k, v in res[0].items() if k != "tb"}})
    seen = set()
    for cls, c, what, r in bad:
        if cls.startswith("beam") and not beam["block_transposed"]:
            key = "beam-local-global:_Compute_P_e_pg"
        elif c["kind"] == "Bcheck":
            key = "corr:B-transcription"
        else:
            key = "frame-indifference:" + cls
        if key in seen:
            continue
        seen.add(key)
        ctx.violation(key, what + " — case %s" % json.dumps(c), {"replay_py": REPLAY % dict(verif=common.VERIF, case=c, tol=(1e-12 if c["kind"] == "Bcheck" else TOL)),
                                                               "case": c, "impl_result": {k: v for k, v in r.items() if k != "tb"}}, found_input=True)
    holder["bad"] = bad


def run(ctx):
    ctx.assumptions += [
        "translator/c10_beam.py recognises the block layout of _Compute_P_e_pg and all `X = X @ P_e_pg` sites (fail-closed on any other shape); translator/pmat.py, laws.py as in C11",
        "the per-node block of Get_B_e_pg is transcribed by hand in C10_continuum.v and compared with the implementation each run (exact)",
        "the whole-solve statement composes the element-level theorems with assembly and elimination (C03/C04); here the solve is sampled: pairs (problem, moved problem) at 1e-8",
        "reflections: continuum thermal/Jacobian theorems cover every orthogonal R; the elastic strain theorem is stated for proper rotations Q = [a|b|a x b]; reflections of elastic and beam problems are sampled",
    ]
    ok_static, log = ctx.ensure_static()
    if not ok_static:
        ctx.obligation("static-lib", False, log[-1500:])
        ctx.violation("static-lib-build", "coq/lib or coq/model does not build", {"log": log[-3000:]}, found_input=False)
        return
    try:
        beam = T_beam.read_beam(ctx.repo)
        pm = T_pmat.read_pmat(ctx.repo)
        lw = T_laws.read_laws(ctx.repo)
        gens = {"Gen_Beam.v": T_beam.emit_coq(beam), "Gen_Pmat.v": T_pmat.emit_coq(pm), "Gen_Laws.v": T_laws.emit_coq(lw)}
    except (TranslateError, SyntaxError, OSError) as ex:
        ctx.obligation("translate", False, str(ex))
        ctx.violation("translate", "translator rejected the source: %s" % ex, {"construct": str(ex)}, found_input=False)
        return
    ctx.obligation("translate", True, "_Calc_P, _Compute_P_e_pg blocks (%s), %d application sites" % ("P^T" if beam["block_transposed"] else "P", len(beam["sites"])))
    ctx.cov["beam_block_layout"] = "P^T" if beam["block_transposed"] else "P"
    ctx.cov["beam_application_sites"] = beam["sites"]
    for k, v in gens.items():
        open(os.path.join(ctx.build, k), "w").write(v)
    ctx.copy_props("C11/C11_pmat.v", "C11/C11_rot.v", "C10/C10_base.v", "C10/C10_beam.v", "C10/C10_beam_corrected.v", "C10/C10_continuum.v", "C10/C10_iso.v")
    g = ctx.coq(["Gen_Beam.v", "Gen_Pmat.v", "Gen_Laws.v", "C10_base.v"], timeout=300, count=False)
    if not g.ok:
        ctx.obligation("generated-files-compile", False, g.log[-1500:])
        ctx.violation("generated-files", "the regenerated Coq definitions do not compile", {"log": g.log[-3000:]}, found_input=False)
        return
    res = {}
    holder = {}

    def job(name, files, count=True):
        res[name] = ctx.coq(files, timeout=900, count=count)
    tc = threading.Thread(target=correspondence, args=(ctx, beam, holder))
    tc.start()
    th = [threading.Thread(target=job, args=("corrected", ["C10_beam_corrected.v"])),
          threading.Thread(target=job, args=("beam", ["C10_beam.v"])),
          threading.Thread(target=job, args=("pmat", ["C11_pmat.v"], False))]
    for t in th:
        t.start()
    for t in th:
        t.join()
    if res["pmat"].ok:
        th = [threading.Thread(target=job, args=("rot", ["C11_rot.v"], False)),
              threading.Thread(target=job, args=("iso", ["C10_iso.v"]))]
        for t in th:
            t.start()
        th[0].join()
        if res["rot"].ok:
            job("continuum", ["C10_continuum.v"])
        th[1].join()
    tc.join()
    ctx.sample({"theorem": "beam_K_objective : forall P Rm Kb, wf3 P -> wf3 Rm -> wf3 Kb -> blockK (Rm P) Kb = Rm (blockK P Kb) Rm^T   (blockK from the regenerated block layout)",
                "status_on_this_tree": "proved" if res["beam"].ok else "does not check (blocks are %s)" % ctx.cov["beam_block_layout"]})
    ctx.sample({"theorem": "Ke_objective_energy_partial : forall a b r2 C l, r2*r2=2 -> unit_orth3 a b -> wf 6 C -> qf (P C P^T) (strain (moved l)) = qf C (strain l)"})
    if not res["beam"].ok:
        ctx.log("beam_K_objective does not check on this tree; machine-checking the 30-degree refutation")
        open(os.path.join(ctx.build, "C10_beam_refuted.v"), "w").write(REFUTED)
        rr = ctx.coq(["C10_beam_refuted.v"], timeout=300)
        ctx.cov["beam_objective_refutation_machine_checked"] = rr.ok
        case = {"kind": "beam", "dim": 2, "timo": False, "elemType": "SEG2", "F": [300.0, -800.0, 0.0], "angle": 30.0}
        ctx.violation("beam-local-global:_Compute_P_e_pg",
                      "the beam element matrices are built with 3x3 blocks %s where P^T is needed (N_e_pg @ P_e_pg, B_e_pg @ P_e_pg): beam_K_objective is refuted by a 30-degree rotation%s"
                      % (ctx.cov["beam_block_layout"], " (machine-checked)" if rr.ok else ""),
                      {"replay_py": REPLAY % dict(verif=common.VERIF, case=case, tol=TOL), "case": case, "obligation": "beam_K_objective"}, found_input=True)
    for name in ("corrected", "pmat", "rot", "continuum", "iso"):
        r = res.get(name)
        if r is None:
            ctx.obligation("coqc:skipped:" + name, False, "prerequisite failed")
        if r is not None and not r.ok:
            ctx.violation("proof-broken:%s" % r.failed_file, "theorem file %s no longer checks against the regenerated definitions" % r.failed_file,
                          {"obligation": r.failed_file, "log": r.log[-3000:]}, found_input=False)
