"""C14 coverage audit: which PUBLIC mutators exist on the observed classes, and is each of them accounted for?

Pure `ast` pass.  A *public mutator* is a property setter, a `_Parameter`-style class-level descriptor, or a public method
(no leading underscore) whose body -- transitively through `self.<helper>(...)` calls and `self.<prop> = ...` assignments
into same-class setters -- assigns an attribute of `self` (or appends to / clears one).  For each one the pass computes the
set of invalidation primitives it reaches (`Need_Update`, `_Notify`, `clear_cached_computed_values`, `_InitMatrix`).
props/C14.py then requires every public mutator to be (a) one the notification table models, or (b) self-invalidating
(reaches Need_Update / _Notify unconditionally at top level somewhere on the path), or (c) in the reviewed list of mutators
that cannot influence the assembled system / results (with the reason).  A new setter added upstream that is none of these
is reported: it would otherwise be invisible to the table.
"""
import ast
import os

PRIMS = ("Need_Update", "_Notify", "clear_cached_computed_values", "_InitMatrix")


def _src(n):
    return ast.unparse(n)


_PARSED = {}


def _classes(path):
    key = (path, os.path.getmtime(path))
    if key not in _PARSED:
        tree = ast.parse(open(path).read(), filename=path)
        _PARSED[key] = {n.name: n for n in ast.walk(tree) if isinstance(n, ast.ClassDef)}
    return _PARSED[key]


def _is_setter(fn):
    return any(isinstance(d, ast.Attribute) and d.attr == "setter" for d in fn.decorator_list)


def _is_getter(fn):
    return any(_src(d) in ("property", "abstractmethod") and _src(d) == "property" for d in fn.decorator_list)


def analyse_class(cls):
    """name -> {"kind": setter|method|descriptor, "mutates": bool, "reaches": set, "line": int}"""
    funcs = [m for m in cls.body if isinstance(m, ast.FunctionDef)]
    setters = {m.name: m for m in funcs if _is_setter(m)}
    methods = {m.name: m for m in funcs if not _is_setter(m) and not _is_getter(m)}
    memo = {}

    def effects(fn, key, stack):
        if key in memo:
            return memo[key]
        if key in stack:
            return False, set()
        stack = stack | {key}
        selfname = fn.args.args[0].arg if fn.args.args else "self"
        mut, reach = False, set()
        for n in ast.walk(fn):
            tgts = []
            if isinstance(n, ast.Assign):
                tgts = n.targets
            elif isinstance(n, (ast.AugAssign, ast.AnnAssign)) and getattr(n, "value", None) is not None:
                tgts = [n.target]
            for t in tgts:
                base = t
                while isinstance(base, ast.Subscript):
                    base = base.value
                if isinstance(base, ast.Attribute) and isinstance(base.value, ast.Name) and base.value.id == selfname:
                    if base.attr in setters and not isinstance(t, ast.Subscript):
                        m2, r2 = effects(setters[base.attr], "set:" + base.attr, stack)
                        mut, reach = mut or m2, reach | r2
                    else:
                        mut = True
            if isinstance(n, ast.Call):
                f = n.func
                if isinstance(f, ast.Name) and f.id in PRIMS:
                    reach.add(f.id)
                if isinstance(f, ast.Attribute):
                    if f.attr in PRIMS:
                        reach.add(f.attr)
                    # self.<list attr>.append / clear / remove / pop / extend
                    if f.attr in ("append", "clear", "remove", "pop", "extend", "update") and isinstance(f.value, ast.Attribute) \
                            and isinstance(f.value.value, ast.Name) and f.value.value.id == selfname:
                        mut = True
                    if isinstance(f.value, ast.Name) and f.value.id == selfname and f.attr in methods:
                        m2, r2 = effects(methods[f.attr], "m:" + f.attr, stack)
                        mut, reach = mut or m2, reach | r2
        memo[key] = (mut, reach)
        return mut, reach

    out = {}
    for name, fn in setters.items():
        m, r = effects(fn, "set:" + name, frozenset())
        out[name + " (setter)"] = {"kind": "setter", "mutates": m, "reaches": sorted(r), "line": fn.lineno}
    for name, fn in methods.items():
        if name.startswith("_"):
            continue
        m, r = effects(fn, "m:" + name, frozenset())
        if m:
            out[name] = {"kind": "method", "mutates": True, "reaches": sorted(r), "line": fn.lineno}
    for st in cls.body:
        if isinstance(st, (ast.Assign, ast.AnnAssign)) and isinstance(getattr(st, "value", None), ast.Call) \
                and "Parameter" in _src(st.value.func):
            t = st.targets[0] if isinstance(st, ast.Assign) else st.target
            out[_src(t) + " (descriptor)"] = {"kind": "descriptor", "mutates": True, "reaches": ["Need_Update"], "line": st.lineno}
    return out


def audit(repo):
    """{ 'Class (file)': {mutator: info} } for Mesh, _Simu and its subclasses, and every model class"""
    root = os.path.join(repo, "EasyFEA")
    res = {}
    files = [("FEM/_mesh.py", ["Mesh"])]
    for fn in sorted(os.listdir(os.path.join(root, "Simulations"))):
        if fn.endswith(".py") and fn not in ("__init__.py", "Solvers.py", "_utils.py", "_problem_type.py"):
            files.append(("Simulations/" + fn, None))
    for dp, _, fs in sorted(os.walk(os.path.join(root, "Models"))):
        for fn in sorted(fs):
            if fn.endswith(".py") and fn != "__init__.py":
                files.append((os.path.relpath(os.path.join(dp, fn), root), None))
    for rel, only in files:
        for cname, cls in _classes(os.path.join(root, rel)).items():
            if only is not None and cname not in only:
                continue
            info = analyse_class(cls)
            if info:
                res["%s (%s)" % (cname, rel)] = info
    return res


if __name__ == "__main__":
    import json
    import sys
    print(json.dumps(audit(sys.argv[1] if len(sys.argv) > 1 else "/repo"), indent=1))


# ---------------------------------------------------------------------------------------------------------------------
# checked argument for the "neutral" mutators: the attributes a mutator writes are never READ by any method reachable
# from the assembly / solve / result entry points of its class (own class + the classes given as bases)
# ---------------------------------------------------------------------------------------------------------------------
ROOTS = ("Construct_local_matrix_system", "Assembly", "Get_K_C_M_F", "Solve", "Result", "Results_dict_Energy",
         "_Solver_Solve_problemType", "_Solver_Apply_Neumann", "_Solver_Apply_Dirichlet", "_Solver_Solve_Newton_Raphson",
         "Calc_Energy", "Calc_Reaction")


def _attr_name(node, selfname):
    """'X' for the expression self.X (private names kept as written: __X)"""
    if isinstance(node, ast.Attribute) and isinstance(node.value, ast.Name) and node.value.id == selfname:
        return node.attr
    return None


def written_attrs(cls, mname):
    """attributes of self assigned by the mutator (setter 'name (setter)' or method), transitively through same-class
    helper calls and same-class property setters"""
    funcs = [m for m in cls.body if isinstance(m, ast.FunctionDef)]
    setters = {m.name: m for m in funcs if _is_setter(m)}
    methods = {m.name: m for m in funcs if not _is_setter(m)}
    start = setters.get(mname[:-len(" (setter)")]) if mname.endswith(" (setter)") else methods.get(mname)
    out, seen, todo = set(), set(), [start] if start is not None else []
    while todo:
        fn = todo.pop()
        if id(fn) in seen:
            continue
        seen.add(id(fn))
        selfname = fn.args.args[0].arg if fn.args.args else "self"
        for n in ast.walk(fn):
            tgts = n.targets if isinstance(n, ast.Assign) else [n.target] if isinstance(n, (ast.AugAssign, ast.AnnAssign)) else []
            for t in tgts:
                base = t
                while isinstance(base, ast.Subscript):
                    base = base.value
                a = _attr_name(base, selfname)
                if a is not None:
                    if a in setters and not isinstance(t, ast.Subscript):
                        todo.append(setters[a])
                    else:
                        out.add(a)
            if isinstance(n, ast.Call) and isinstance(n.func, ast.Attribute):
                a = _attr_name(n.func, selfname)
                if a is not None and a in methods:
                    todo.append(methods[a])
    return out


def read_attrs_from_roots(classes, extra_roots=(), roots=ROOTS):
    """attributes of self READ (Load context) by any method reachable from ROOTS through self-calls and property
    getters, over the given list of ClassDef (subclass first, then its bases)"""
    table = {}
    getters = {}
    for cls in reversed(classes):            # subclass definitions override the bases'
        for m in cls.body:
            if isinstance(m, ast.FunctionDef):
                if any(_src(d) == "property" for d in m.decorator_list):
                    getters[m.name] = m
                elif not _is_setter(m):
                    table[m.name] = m
    reads, seen = set(), set()
    todo = [table[r] for r in roots if r in table] + [table[r] for r in extra_roots if r in table] + [getters[r] for r in extra_roots if r in getters]
    reads |= {r for r in extra_roots if r in getters}
    while todo:
        fn = todo.pop()
        if id(fn) in seen:
            continue
        seen.add(id(fn))
        selfname = fn.args.args[0].arg if fn.args.args else "self"
        for n in ast.walk(fn):
            if isinstance(n, ast.Attribute) and isinstance(n.ctx, ast.Load):
                a = _attr_name(n, selfname)
                if a is None:
                    continue
                if a in table:
                    todo.append(table[a])
                elif a in getters:
                    todo.append(getters[a])
                    reads.add(a)
                else:
                    reads.add(a)
    return reads


_ORDER = ["unknown", "unread", "read-outside-assembly", "read-in-newton-assembly", "read-in-cached-assembly"]


def neutral_argument(repo, cshort, mname):
    """for a mutator defined on _Simu the argument must hold in EVERY simulation subclass: the worst case is returned"""
    if cshort != "_Simu":
        return _neutral_argument(repo, cshort, mname, None)
    root = os.path.join(repo, "EasyFEA", "Simulations")
    simu = _classes(os.path.join(root, "_simu.py")).get("_Simu")
    worst, wattrs = _neutral_argument(repo, "_Simu", mname, None)
    for fn in sorted(os.listdir(root)):
        if fn.endswith(".py") and fn != "_simu.py":
            try:
                cl = _classes(os.path.join(root, fn))
            except SyntaxError:
                continue
            for sub in cl.values():
                if any(_src(b).split(".")[-1] == "_Simu" for b in sub.bases):
                    got, attrs = _neutral_argument(repo, "_Simu", mname, sub)
                    if _ORDER.index(got) > _ORDER.index(worst):
                        worst, wattrs = got, attrs
    return worst, wattrs


def _neutral_argument(repo, cshort, mname, subclass):
    """('unread', written) when no attribute the mutator writes is read from the assembly/solve/result entry points of its
    class hierarchy; ('read', written & read) otherwise; ('unknown', ...) when the class / mutator is not found"""
    root = os.path.join(repo, "EasyFEA")
    found = None
    simu_cls = _classes(os.path.join(root, "Simulations", "_simu.py")).get("_Simu")
    for dp, _, fs in os.walk(root):
        for fn in fs:
            if fn.endswith(".py"):
                try:
                    cl = _classes(os.path.join(dp, fn))
                except SyntaxError:
                    continue
                if cshort in cl:
                    found = cl[cshort]
    if found is None:
        return "unknown", set()
    w = written_attrs(found, mname)
    is_simu = cshort == "_Simu" or any(_src(b).split(".")[-1] == "_Simu" for b in found.bases)
    if is_simu:
        chain = [found] + ([simu_cls] if simu_cls is not None and cshort != "_Simu" else [])
        if subclass is not None:
            chain = [subclass] + chain
        # the solvers are module-level functions taking the simulation: what they read through `simu.<name>` is a root too
        ext = set()
        try:
            tree = ast.parse(open(os.path.join(root, "Simulations", "Solvers.py")).read())
            for n in ast.walk(tree):
                if isinstance(n, ast.Attribute) and isinstance(n.value, ast.Name) and n.value.id == "simu" and isinstance(n.ctx, ast.Load):
                    ext.add(n.attr)
        except (OSError, SyntaxError):
            pass
        r = read_attrs_from_roots(chain, extra_roots=ext)
        inter = {a for a in w if a in r}
        if not inter:
            return "unread", w
        # read somewhere: is it read by the ASSEMBLY (whose output the needUpdate flag caches)?
        r_asm = read_attrs_from_roots(chain, roots=("Construct_local_matrix_system", "Assembly"))
        inter_asm = {a for a in w if a in r_asm}
        if not inter_asm:
            return "read-outside-assembly", inter
        ini = next((m for c_ in chain[:1] for m in c_.body if isinstance(m, ast.FunctionDef) and m.name == "__init__"), None)
        newton = ini is not None and any(isinstance(n, ast.Call) and isinstance(n.func, ast.Attribute) and n.func.attr == "_Solver_Set_Newton_Raphson_Algorithm" for n in ast.walk(ini))
        return ("read-in-newton-assembly" if newton else "read-in-cached-assembly"), inter_asm
    else:
        # a model / state class: any other method may be called by the assembly -> every method but the mutator is a root
        r = set()
        base = mname[:-len(" (setter)")] if mname.endswith(" (setter)") else mname
        for m in found.body:
            if isinstance(m, ast.FunctionDef) and not (m.name == base and (_is_setter(m) == mname.endswith(" (setter)"))):
                selfname = m.args.args[0].arg if m.args.args else "self"
                for n in ast.walk(m):
                    if isinstance(n, ast.Attribute) and isinstance(n.ctx, ast.Load) and _attr_name(n, selfname) is not None:
                        r.add(n.attr)
        # private cache attributes read back only through their own property are followed one level
        for m in found.body:
            if isinstance(m, ast.FunctionDef) and any(_src(d) == "property" for d in m.decorator_list) and m.name in r:
                selfname = m.args.args[0].arg
                for n in ast.walk(m):
                    if isinstance(n, ast.Attribute) and isinstance(n.ctx, ast.Load) and _attr_name(n, selfname) is not None:
                        r.add(n.attr)
    inter = {a for a in w if a in r}
    return ("unread" if not inter else "model-state-read-by-its-methods"), (w if not inter else inter)
