"""C14 coverage audit: which PUBLIC mutators exist on the observed classes, and is each of them accounted for?

Pure `ast` pass.  A *public mutator* is a property setter, a `_Parameter`-style class-level descriptor, or a public method
(no leading underscore) whose body -- transitively through `self.<helper>(...)` calls and `self.<prop> = ...` assignments
into same-class setters -- assigns an attribute of `self` (or appends to / clears one).  For each one the pass computes the
set of invalidation primitives it reaches (`Need_Update`, `_Notify`, `clear_cached_computed_values`, `_InitMatrix`).
props/C14.py then requires every public mutator to be (a) one the notification table models, or (b) self-invalidating
(reaches Need_Update / _Notify unconditionally at top level somewhere on the path), or (c) in the reviewed list of mutators
that cannot influence the assembled system / results (with the reason).  A new setter added upstream that is none of these
is reported: it would otherwise be invisible to the table.
"""
import ast
import os

PRIMS = ("Need_Update", "_Notify", "clear_cached_computed_values", "_InitMatrix")


def _src(n):
    return ast.unparse(n)


def _classes(path):
    tree = ast.parse(open(path).read(), filename=path)
    return {n.name: n for n in ast.walk(tree) if isinstance(n, ast.ClassDef)}


def _is_setter(fn):
    return any(isinstance(d, ast.Attribute) and d.attr == "setter" for d in fn.decorator_list)


def _is_getter(fn):
    return any(_src(d) in ("property", "abstractmethod") and _src(d) == "property" for d in fn.decorator_list)


def analyse_class(cls):
    """name -> {"kind": setter|method|descriptor, "mutates": bool, "reaches": set, "line": int}"""
    funcs = [m for m in cls.body if isinstance(m, ast.FunctionDef)]
    setters = {m.name: m for m in funcs if _is_setter(m)}
    methods = {m.name: m for m in funcs if not _is_setter(m) and not _is_getter(m)}
    memo = {}

    def effects(fn, key, stack):
        if key in memo:
            return memo[key]
        if key in stack:
            return False, set()
        stack = stack | {key}
        selfname = fn.args.args[0].arg if fn.args.args else "self"
        mut, reach = False, set()
        for n in ast.walk(fn):
            tgts = []
            if isinstance(n, ast.Assign):
                tgts = n.targets
            elif isinstance(n, (ast.AugAssign, ast.AnnAssign)) and getattr(n, "value", None) is not None:
                tgts = [n.target]
            for t in tgts:
                base = t
                while isinstance(base, ast.Subscript):
                    base = base.value
                if isinstance(base, ast.Attribute) and isinstance(base.value, ast.Name) and base.value.id == selfname:
                    if base.attr in setters and not isinstance(t, ast.Subscript):
                        m2, r2 = effects(setters[base.attr], "set:" + base.attr, stack)
                        mut, reach = mut or m2, reach | r2
                    else:
                        mut = True
            if isinstance(n, ast.Call):
                f = n.func
                if isinstance(f, ast.Name) and f.id in PRIMS:
                    reach.add(f.id)
                if isinstance(f, ast.Attribute):
                    if f.attr in PRIMS:
                        reach.add(f.attr)
                    # self.<list attr>.append / clear / remove / pop / extend
                    if f.attr in ("append", "clear", "remove", "pop", "extend", "update") and isinstance(f.value, ast.Attribute) \
                            and isinstance(f.value.value, ast.Name) and f.value.value.id == selfname:
                        mut = True
                    if isinstance(f.value, ast.Name) and f.value.id == selfname and f.attr in methods:
                        m2, r2 = effects(methods[f.attr], "m:" + f.attr, stack)
                        mut, reach = mut or m2, reach | r2
        memo[key] = (mut, reach)
        return mut, reach

    out = {}
    for name, fn in setters.items():
        m, r = effects(fn, "set:" + name, frozenset())
        out[name + " (setter)"] = {"kind": "setter", "mutates": m, "reaches": sorted(r), "line": fn.lineno}
    for name, fn in methods.items():
        if name.startswith("_"):
            continue
        m, r = effects(fn, "m:" + name, frozenset())
        if m:
            out[name] = {"kind": "method", "mutates": True, "reaches": sorted(r), "line": fn.lineno}
    for st in cls.body:
        if isinstance(st, (ast.Assign, ast.AnnAssign)) and isinstance(getattr(st, "value", None), ast.Call) \
                and "Parameter" in _src(st.value.func):
            t = st.targets[0] if isinstance(st, ast.Assign) else st.target
            out[_src(t) + " (descriptor)"] = {"kind": "descriptor", "mutates": True, "reaches": ["Need_Update"], "line": st.lineno}
    return out


def audit(repo):
    """{ 'Class (file)': {mutator: info} } for Mesh, _Simu and its subclasses, and every model class"""
    root = os.path.join(repo, "EasyFEA")
    res = {}
    files = [("FEM/_mesh.py", ["Mesh"])]
    for fn in sorted(os.listdir(os.path.join(root, "Simulations"))):
        if fn.endswith(".py") and fn not in ("__init__.py", "Solvers.py", "_utils.py", "_problem_type.py"):
            files.append(("Simulations/" + fn, None))
    for dp, _, fs in sorted(os.walk(os.path.join(root, "Models"))):
        for fn in sorted(fs):
            if fn.endswith(".py") and fn != "__init__.py":
                files.append((os.path.relpath(os.path.join(dp, fn), root), None))
    for rel, only in files:
        for cname, cls in _classes(os.path.join(root, rel)).items():
            if only is not None and cname not in only:
                continue
            info = analyse_class(cls)
            if info:
                res["%s (%s)" % (cname, rel)] = info
    return res


if __name__ == "__main__":
    import json
    import sys
    print(json.dumps(audit(sys.argv[1] if len(sys.argv) > 1 else "/repo"), indent=1))
