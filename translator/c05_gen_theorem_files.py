"""DEV-TIME helper, never run by the check: writes the seven static per-algorithm theorem files
coq/props/C05/C05_<algo>.v from one template (they are committed as static files).  Re-run by hand only"""
import sys
TPL = r'''(* C05 -- AlgoType.{A}: theorems about the definitions regenerated from _simu.py on every run.
   Quantified (after the Section closes) over every index type I, all linear K C M : (I->R)->(I->R),
   all parameters in the ranges the code asserts{EXTRADOC}, all previous states and loads. *)
From Coq Require Import Reals Lra Psatz FunctionalExtensionality.
From EFLib Require Import C05_VecSpace.
From EFP Require Import Gen_TimeSchemes C05_spec.
Local Open Scope R_scope.

Section S_{A}.
Variable I : Type.
Notation Vec := (I -> R).
Variables K C M : Vec -> Vec.
Hypothesis HK : linear K.
Hypothesis HC : linear C.
Hypothesis HM : linear M.
Variables dt beta gamma alpha : R.
Variables u_n v_n a_n bN F : Vec.
Local Notation G f y := (f I K C M dt beta gamma alpha u_n v_n a_n y bN F).
(* ranges asserted by the setter (generated from its `assert`s){EXTRADOC} *)
Hypothesis Hadm : G {A}_admissible u_n.
{EXTRAHYP}
Let Hdt : dt <> 0.
Proof. generalize Hadm; autounfold with c05gen; intuition lra. Qed.

Ltac vf := intros; autounfold with c05gen c05spec; vec_field HK HC HM.

{PARAMS}

(* documented update relations hold for what _Solver_Update_solutions returns *)
{UPDATE}

(* the evaluation-point states of _Solver_Evaluate_u_v_a_for_time_scheme are the documented ones, built on
   the same v^{{n+1}}, a^{{n+1}} as the corrector (two separately written tables) *)
{EVAL}

(* (coefK, coefC, coefM) are the derivatives of (u_t, v_t, a_t) w.r.t. the solved unknown:
   the dependence is affine with exactly these slopes *)
Theorem {A}_coefs_are_derivatives : forall x d i,
  G {A}_ev_ut (vadd x d) i - G {A}_ev_ut x i = G {A}_coefK x * d i /\
  G {A}_ev_vt (vadd x d) i - G {A}_ev_vt x i = G {A}_coefC x * d i /\
  {AT_D} (vadd x d) i - {AT_D} x i = G {A}_coefM x * d i.
Proof. intros; repeat split; vf. Qed.

(* the system operator applied to x, and the left-hand side of the equation of motion *)
Definition {A}_A (x : Vec) : Vec :=
  oadd (oadd (oscal (G {A}_coefK x) K) (oscal (G {A}_coefC x) C)) (oscal (G {A}_coefM x) M) x.
Definition {A}_lhs (x : Vec) : Vec :=
  vadd (vadd (K (G {A}_ev_ut x)) (C (G {A}_ev_vt x))) (M ({AT_D} x)).

(* the matrix assembled in _Solver_Apply_Dirichlet (generated {A}_sysop) is this weighted sum *)
Theorem {A}_sysop_is_weighted_sum : forall x y i,
  (G {A}_sysop y) x i = {A}_A x i.
Proof. unfold {A}_A; vf. Qed.

(* homogeneity (scale invariance): the step is linear in (u_n, v_n, a_n, bN, F) and the unknown -- multiplying them
   all by s multiplies the right-hand side, the system row, the evaluation-point states and the returned state by s;
   so s x solves the scaled system wherever x solves the original one, and the scaled step returns s times the state *)
Local Notation GS f s y := (f I K C M dt beta gamma alpha (vscal s u_n) (vscal s v_n) (vscal s a_n) y (vscal s bN) (vscal s F)).
Theorem {A}_step_homogeneous : forall s x i,
  GS {A}_rhs s (vscal s x) i = s * G {A}_rhs x i /\
  (GS {A}_sysop s (vscal s x)) (vscal s x) i = s * {A}_A x i /\
  GS {A}_up_u s (vscal s x) i = s * G {A}_up_u x i /\
  GS {A}_up_v s (vscal s x) i = s * G {A}_up_v x i /\
  GS {A}_up_a s (vscal s x) i = s * G {A}_up_a x i /\
  GS {A}_ev_ut s (vscal s x) i = s * G {A}_ev_ut x i /\
  GS {A}_ev_vt s (vscal s x) i = s * G {A}_ev_vt x i /\
  GS {A}_ev_at s (vscal s x) i = s * G {A}_ev_at x i.
Proof. intros; unfold {A}_A; repeat split; vf. Qed.

Theorem {A}_scaled_solution : forall s x i,
  {A}_A x i = G {A}_rhs x i ->
  (GS {A}_sysop s (vscal s x)) (vscal s x) i = GS {A}_rhs s (vscal s x) i.
Proof.
  intros s x i H. destruct ({A}_step_homogeneous s x i) as [E1 [E2 _]]. rewrite E1, E2, H. reflexivity.
Qed.

(* change of the time unit: dt -> s dt, v -> v / s, a -> a / s^2, C -> s C, M -> s^2 M (forces, K, u unchanged) gives the
   same right-hand side and system row, and returns the same u, v / s, a / s^2 -- the schemes carry no hidden time scale *)
Local Notation GT f s y := (f I K (oscal s C) (oscal (s ^ 2) M) (s * dt) beta gamma alpha u_n (vscal (/ s) v_n) (vscal (/ s ^ 2) a_n) y bN F).
Theorem {A}_time_rescaling : forall s x i, s <> 0 ->
  GT {A}_rhs s ({XT}) i = G {A}_rhs x i /\
  (GT {A}_sysop s ({XT})) ({XT}) i = {A}_A x i /\
  GT {A}_up_u s ({XT}) i = G {A}_up_u x i /\
  GT {A}_up_v s ({XT}) i = / s * G {A}_up_v x i /\
  GT {A}_up_a s ({XT}) i = / s ^ 2 * G {A}_up_a x i.
Proof. intros s x i Hs; unfold {A}_A; repeat split; vf. Qed.

(* row i of the system minus row i of the right-hand side of _Solver_Apply_Neumann
   = residual of the equation of motion at dof i *)
Theorem {A}_eom_identity : forall x i,
  {A}_lhs x i - (bN i + F i) = {A}_A x i - G {A}_rhs x i.
Proof using All. unfold {A}_lhs, {A}_A; vf. Qed.

(* discrete equation of motion on every dof whose row is solved (= every free dof) *)
Theorem {A}_discrete_eom : forall x i,
  {A}_A x i = G {A}_rhs x i -> {A}_lhs x i = bN i + F i.
Proof using All. intros x i H. pose proof ({A}_eom_identity x i). lra. Qed.
{NEWTON}{EXTRA}
End S_{A}.

{PRINTS}
'''
NEWTON = r'''
(* Newton (incremental) path: b is the assembled residual alone; an increment d with
   A d = residual(y) on a dof makes the residual vanish there, and y + d satisfies the direct system *)
Theorem {A}_newton_consistent : forall y d i,
  G {A}_rhs_newton y i = bN i + F i /\
  ({A}_A d i = (bN i + F i) - {A}_lhs y i ->
     {A}_lhs (vadd y d) i = bN i + F i /\ {A}_A (vadd y d) i = G {A}_rhs (vadd y d) i).
Proof.
  intros y d i. split; [vf|]. intros H.
  assert (E : {A}_lhs (vadd y d) i = {A}_lhs y i + {A}_A d i)
    by (unfold {A}_lhs, {A}_A; vf).
  pose proof ({A}_eom_identity (vadd y d) i). lra.
Qed.
'''
PARAMS_ID = r'''(* the stored parameters are the ones passed *)
Theorem {A}_params_stored :
  G {A}_stored_dt u_n = dt /\ G {A}_stored_beta u_n = beta /\
  G {A}_stored_gamma u_n = gamma /\ G {A}_stored_alpha u_n = alpha.
Proof. repeat split; reflexivity. Qed.'''
NONE3 = "G {A}_%s_%s_none x = false /\\ G {A}_%s_%s_none x = false /\\ G {A}_%s_%s_none x = false"
def none3(kind, names): 
    return " /\\\n  ".join("G {A}_%s_%s_none x = false" % (kind, n) for n in names)

NEWMARK_UPDATE = r'''Theorem {A}_update_rule : forall x i,
  G {A}_up_u x i = x i /\
  G {A}_up_a x i = newmark_acc dt beta u_n v_n a_n x i /\
  G {A}_up_v x i = newmark_vel dt gamma v_n a_n (G {A}_up_a x) i /\
  ''' + none3("up", "uva") + r'''.
Proof. intros; repeat split; try reflexivity; vf. Qed.

(* equivalent displacement form: u^{{n+1}} = u^n + dt v^n + dt^2/2 [(1-2 beta) a^n + 2 beta a^{{n+1}}] *)
Theorem {A}_update_displacement : forall x i,
  x i = u_n i + dt * v_n i + dt ^ 2 / 2 * ((1 - 2 * beta) * a_n i + 2 * beta * G {A}_up_a x i).
Proof. vf. Qed.'''
HB = "Hypothesis Hbeta : beta <> 0.   (* the code divides by beta *)"

STEP = r'''
(* the statement of the property in terms of what one step RETURNS: the new state (u,v,a)^{{n+1}} makes
   K u_t + C v_t + M a_t equal the load at the documented evaluation points, on every solved (free) dof *)
Theorem {A}_step_correct : forall x i,
  {A}_A x i = G {A}_rhs x i ->
  K (%s) i + C (%s) i + M (%s) i = bN i + F i.
Proof using All.
  intros x i H. pose proof ({A}_discrete_eom x i H) as E. unfold {A}_lhs, vadd in E.
  assert (E1 : %s = G {A}_ev_ut x) by (extensionality j; symmetry; apply {A}_eval_consistent).
  assert (E2 : %s = G {A}_ev_vt x) by (extensionality j; symmetry; apply {A}_eval_consistent).
  %s
  rewrite E1, E2%s. lra.
Qed.
'''
def step(ut, vt, at, e3=None):
    if e3 is None:
        e3 = "assert (E3 : %s = G {A}_ev_at x) by (extensionality j; symmetry; apply {A}_eval_consistent)." % at
        return STEP % (ut, vt, at, ut, vt, e3, ", E3")
    return STEP % (ut, vt, at, ut, vt, e3[0], e3[1])
specs = {}
specs["newmark"] = dict(EXTRADOC=" and beta <> 0", EXTRAHYP=HB, PARAMS=PARAMS_ID, UPDATE=NEWMARK_UPDATE,
  EVAL=r'''Theorem {A}_eval_consistent : forall x i,
  G {A}_ev_ut x i = G {A}_up_u x i /\
  G {A}_ev_vt x i = G {A}_up_v x i /\
  G {A}_ev_at x i = G {A}_up_a x i /\
  ''' + none3("ev", ["ut","vt","at"]) + r'''.
Proof. intros; repeat split; try reflexivity; vf. Qed.''',
  AT_D="G {A}_ev_at", NEWTON=NEWTON, EXTRA=r'''
(* dynamic equilibrium K u + C v + M a = F is reproduced at n+1 by every step *)
Theorem {A}_equilibrium_at_np1 : forall x i,
  {A}_A x i = G {A}_rhs x i ->
  K (G {A}_up_u x) i + C (G {A}_up_v x) i + M (G {A}_up_a x) i = bN i + F i.
Proof using All.
  intros x i H. pose proof ({A}_eom_identity x i).
  assert (E : {A}_lhs x i = K (G {A}_up_u x) i + C (G {A}_up_v x) i + M (G {A}_up_a x) i)
    by (unfold {A}_lhs; vf).
  lra.
Qed.
''')
specs["hht"] = dict(EXTRADOC=" and beta <> 0", EXTRAHYP=HB, PARAMS=PARAMS_ID, UPDATE=NEWMARK_UPDATE,
  EVAL=r'''Theorem {A}_eval_consistent : forall x i,
  G {A}_ev_ut x i = hht_point alpha (G {A}_up_u x) u_n i /\
  G {A}_ev_vt x i = hht_point alpha (G {A}_up_v x) v_n i /\
  G {A}_ev_at x i = hht_point alpha (G {A}_up_a x) a_n i /\
  ''' + none3("ev", ["ut","vt","at"]) + r'''.
Proof. intros; repeat split; try reflexivity; vf. Qed.''',
  AT_D="G {A}_ev_at", NEWTON=NEWTON, EXTRA=step("hht_point alpha (G {A}_up_u x) u_n", "hht_point alpha (G {A}_up_v x) v_n", "hht_point alpha (G {A}_up_a x) a_n"))
specs["hht_newmark"] = dict(EXTRADOC=" and beta <> 0 (true for the stored beta, see hht_newmark_params)", EXTRAHYP=HB,
  PARAMS=r'''(* beta and gamma are not free: the setter stores beta = 1/4 (1+alpha)^2, gamma = 1/2 + alpha (documented),
   and this beta is non-zero on the asserted range, so the theorems below apply to the stored values *)
Theorem {A}_params :
  G {A}_stored_dt u_n = dt /\ G {A}_stored_alpha u_n = alpha /\
  G {A}_stored_beta u_n = hhtn_beta alpha /\ G {A}_stored_gamma u_n = hhtn_gamma alpha /\
  G {A}_stored_beta u_n <> 0 /\ (0 <= alpha <= 1 / 3).
Proof.
  generalize Hadm; autounfold with c05gen c05spec; intros H.
  repeat split; try reflexivity; try lra; try (apply Rgt_not_eq; nra).
Qed.''', UPDATE=NEWMARK_UPDATE,
  EVAL=r'''Theorem {A}_eval_consistent : forall x i,
  G {A}_ev_ut x i = hht_point alpha (G {A}_up_u x) u_n i /\
  G {A}_ev_vt x i = G {A}_up_v x i /\
  G {A}_ev_at x i = G {A}_up_a x i /\
  ''' + none3("ev", ["ut","vt","at"]) + r'''.
Proof. intros; repeat split; try reflexivity; vf. Qed.''',
  AT_D="G {A}_ev_at", NEWTON=NEWTON, EXTRA=step("hht_point alpha (G {A}_up_u x) u_n", "G {A}_up_v x", "G {A}_up_a x"))
specs["midpoint"] = dict(EXTRADOC="", EXTRAHYP="", PARAMS=PARAMS_ID,
  UPDATE=r'''Theorem {A}_update_rule : forall x i,
  G {A}_up_u x i = x i /\
  G {A}_up_v x i = midpoint_vel dt u_n v_n x i /\
  G {A}_up_a x i = midpoint_acc dt v_n a_n (G {A}_up_v x) i /\
  ''' + none3("up", "uva") + r'''.
Proof. intros; repeat split; try reflexivity; vf. Qed.''',
  EVAL=r'''Theorem {A}_eval_consistent : forall x i,
  G {A}_ev_ut x i = mean (G {A}_up_u x) u_n i /\
  G {A}_ev_vt x i = mean (G {A}_up_v x) v_n i /\
  G {A}_ev_at x i = mean (G {A}_up_a x) a_n i /\
  ''' + none3("ev", ["ut","vt","at"]) + r'''.
Proof. intros; repeat split; try reflexivity; vf. Qed.''',
  AT_D="G {A}_ev_at", NEWTON=NEWTON, EXTRA=step("mean (G {A}_up_u x) u_n", "mean (G {A}_up_v x) v_n", "mean (G {A}_up_a x) a_n"))
specs["euler_implicit"] = dict(EXTRADOC="", EXTRAHYP="", PARAMS=PARAMS_ID,
  UPDATE=r'''Theorem {A}_update_rule : forall x i,
  G {A}_up_u x i = x i /\
  G {A}_up_v x i = euler_vel dt u_n x i /\
  G {A}_up_a x i = euler_acc dt v_n (G {A}_up_v x) i /\
  ''' + none3("up", "uva") + r'''.
Proof. intros; repeat split; try reflexivity; vf. Qed.''',
  EVAL=r'''Theorem {A}_eval_consistent : forall x i,
  G {A}_ev_ut x i = G {A}_up_u x i /\
  G {A}_ev_vt x i = G {A}_up_v x i /\
  G {A}_ev_at x i = G {A}_up_a x i /\
  ''' + none3("ev", ["ut","vt","at"]) + r'''.
Proof. intros; repeat split; try reflexivity; vf. Qed.''',
  AT_D="G {A}_ev_at", NEWTON=NEWTON, EXTRA=step("G {A}_up_u x", "G {A}_up_v x", "G {A}_up_a x"))
specs["euler_explicit"] = dict(EXTRADOC="", EXTRAHYP="", PARAMS=PARAMS_ID,
  UPDATE=r'''(* the solved unknown x is the acceleration a^n *)
Theorem {A}_update_rule : forall x i,
  G {A}_up_u x i = fe_disp dt u_n v_n i /\
  G {A}_up_v x i = fe_vel dt v_n x i /\
  G {A}_up_a x i = x i /\
  ''' + none3("up", "uva") + r'''.
Proof. intros; repeat split; try reflexivity; vf. Qed.''',
  EVAL=r'''(* forces are evaluated at the current state n; no acceleration vector is returned (None): the
   acceleration of the equation of motion is the solved unknown itself *)
Theorem {A}_eval_consistent : forall x i,
  G {A}_ev_ut x i = u_n i /\
  G {A}_ev_vt x i = v_n i /\
  G {A}_ev_ut_none x = false /\ G {A}_ev_vt_none x = false /\ G {A}_ev_at_none x = true.
Proof. intros; repeat split; try reflexivity; vf. Qed.''',
  AT_D="(fun y : Vec => y)", NEWTON="", EXTRA=r'''
(* what one step returns: M a^n + C v^n + K u^n = load on every solved (free) dof, a^n being the returned acceleration *)
Theorem {A}_step_correct : forall x i,
  {A}_A x i = G {A}_rhs x i ->
  K u_n i + C v_n i + M (G {A}_up_a x) i = bN i + F i.
Proof using All.
  intros x i H. pose proof ({A}_discrete_eom x i H) as E. unfold {A}_lhs, vadd in E.
  assert (E1 : G {A}_ev_ut x = u_n) by (extensionality j; apply {A}_eval_consistent).
  assert (E2 : G {A}_ev_vt x = v_n) by (extensionality j; apply {A}_eval_consistent).
  assert (E3 : G {A}_up_a x = x) by (extensionality j; apply {A}_update_rule).
  rewrite E1, E2 in E. rewrite E3. lra.
Qed.
''')
specs["parabolic"] = dict(EXTRADOC=" and alpha <> 0", EXTRAHYP="Hypothesis Halpha : alpha <> 0.   (* the code divides by alpha *)",
  PARAMS=r'''Theorem {A}_params_stored :
  G {A}_stored_dt u_n = dt /\ G {A}_stored_alpha u_n = alpha.
Proof. repeat split; reflexivity. Qed.''',
  UPDATE=r'''(* generalized trapezoidal rule u^{{n+1}} = u^n + dt [(1-alpha) v^n + alpha v^{{n+1}}]; no acceleration *)
Theorem {A}_update_rule : forall x i,
  G {A}_up_u x i = x i /\
  x i = theta_disp dt alpha u_n v_n (G {A}_up_v x) i /\
  G {A}_up_u_none x = false /\ G {A}_up_v_none x = false /\ G {A}_up_a_none x = true.
Proof. intros; repeat split; try reflexivity; vf. Qed.''',
  EVAL=r'''Theorem {A}_eval_consistent : forall x i,
  G {A}_ev_ut x i = G {A}_up_u x i /\
  G {A}_ev_vt x i = G {A}_up_v x i /\
  G {A}_ev_ut_none x = false /\ G {A}_ev_vt_none x = false /\ G {A}_ev_at_none x = true.
Proof. intros; repeat split; try reflexivity; vf. Qed.''',
  AT_D="G {A}_ev_at", NEWTON=NEWTON, EXTRA=r'''
(* what one step returns: K u^{{n+1}} + C v^{{n+1}} = load on every solved (free) dof (no inertia term) *)
Theorem {A}_step_correct : forall x i,
  {A}_A x i = G {A}_rhs x i ->
  K (G {A}_up_u x) i + C (G {A}_up_v x) i = bN i + F i.
Proof using All.
  intros x i H. pose proof ({A}_discrete_eom x i H) as E. unfold {A}_lhs, vadd in E.
  assert (E1 : G {A}_up_u x = G {A}_ev_ut x) by (extensionality j; symmetry; apply {A}_eval_consistent).
  assert (E2 : G {A}_up_v x = G {A}_ev_vt x) by (extensionality j; symmetry; apply {A}_eval_consistent).
  assert (E3 : M (G {A}_ev_at x) i = 0) by (autounfold with c05gen; rewrite (lin_zero _ HM); reflexivity).
  rewrite E1, E2. lra.
Qed.
''')
import re
for A, sp in specs.items():
    d = dict(sp)
    d.setdefault("XT", "vscal (/ s ^ 2) x" if A == "euler_explicit" else "x")
    txt = TPL
    for k, v in d.items():
        txt = txt.replace("{%s}" % k, v)
    txt = txt.replace("{A}", A).replace("{{", "{").replace("}}", "}")
    thms = re.findall(r"^Theorem\s+(\w+)", txt, re.M)
    txt = txt.replace("{PRINTS}", "\n".join("Print Assumptions %s." % t for t in thms))
    open("/verif/coq/props/C05/C05_%s.v" % A, "w").write(txt)
    print(A, thms)
