"""C12: fail-closed ast translation of the formula-like parts of EasyFEA/FEM/_linalg.py.

Reads (never imports) the file and emits Gen_Linalg.v containing
  * gen_det{1,2,3}R / gen_inv{1,2,3}R  : the closed-form Det / Inv branches over R
  * gen_det{1,2,3}Q / gen_inv{1,2,3}Q  : the same text over Q (used to *compute* in the cases)
  * gen_keeps_axis                     : the per-axis test of _KeepsFeAxes over Z
  * gen_dot_table / gen_ddot_table     : _dot_subscript / _ddot_subscript partially evaluated
                                         on every rank pair of its (finite) _idx domain
  * gen_trace_labels, gen_matmul_vecmat, gen_matmul_matvec : einsum subscripts as label lists

Anything outside the accepted grammar raises TranslateError (the check then reports that the
property is no longer shown)."""
import ast
import os

from .pyexpr import TranslateError


def _src(repo):
    path = os.path.join(repo, "EasyFEA", "FEM", "_linalg.py")
    return path, ast.parse(open(path).read(), filename=path)


def _find_func(tree, name, cls=None):
    body = tree.body
    if cls:
        for n in body:
            if isinstance(n, ast.ClassDef) and n.name == cls:
                body = n.body
                break
        else:
            raise TranslateError("class %s not found" % cls)
    for n in body:
        if isinstance(n, ast.FunctionDef) and n.name == name:
            return n
    raise TranslateError("function %s not found" % name)


# ---------------------------------------------------------------------------------------
# arithmetic expressions over named entries -> Coq text
# ---------------------------------------------------------------------------------------
def expr_coq(n, names, where):
    if isinstance(n, ast.Name):
        if n.id not in names:
            raise TranslateError("%s: unbound name %s" % (where, n.id))
        return names[n.id]
    if isinstance(n, ast.Constant) and isinstance(n.value, int) and not isinstance(n.value, bool):
        return "(%d)" % n.value if n.value >= 0 else "(- (%d))" % -n.value
    if isinstance(n, ast.UnaryOp) and isinstance(n.op, ast.USub):
        return "(- %s)" % expr_coq(n.operand, names, where)
    if isinstance(n, ast.UnaryOp) and isinstance(n.op, ast.UAdd):
        return expr_coq(n.operand, names, where)
    if isinstance(n, ast.BinOp):
        ops = {ast.Add: "+", ast.Sub: "-", ast.Mult: "*", ast.Div: "/"}
        for t, s in ops.items():
            if isinstance(n.op, t):
                return "(%s %s %s)" % (expr_coq(n.left, names, where), s, expr_coq(n.right, names, where))
    raise TranslateError("%s: unsupported expression %s" % (where, ast.unparse(n)))


def _entry(n):
    """mat[..., i, j] -> (srcname, i, j) or None"""
    if (isinstance(n, ast.Subscript) and isinstance(n.value, ast.Name) and isinstance(n.slice, ast.Tuple)
            and len(n.slice.elts) == 3 and isinstance(n.slice.elts[0], ast.Constant) and n.slice.elts[0].value is Ellipsis
            and all(isinstance(e, ast.Constant) and isinstance(e.value, int) for e in n.slice.elts[1:])):
        return n.value.id, n.slice.elts[1].value, n.slice.elts[2].value
    return None


def _dim_branches(fn, where):
    """the `if dim == 1 / elif dim == 2 / elif dim == 3 / else` chain -> {k: [stmts]}"""
    chain = None
    for st in fn.body:
        if isinstance(st, ast.If) and isinstance(st.test, ast.Compare) and isinstance(st.test.left, ast.Name) and st.test.left.id == "dim":
            chain = st
            break
    if chain is None:
        raise TranslateError("%s: no `if dim == k` chain" % where)
    # dim must be the last axis length
    ok = any(isinstance(st, ast.Assign) and ast.unparse(st) == "dim = mat.shape[-1]" for st in fn.body)
    if not ok:
        raise TranslateError("%s: `dim = mat.shape[-1]` not found" % where)
    res = {}
    cur = chain
    while True:
        t = cur.test
        if not (isinstance(t, ast.Compare) and len(t.ops) == 1 and isinstance(t.ops[0], ast.Eq)
                and isinstance(t.left, ast.Name) and t.left.id == "dim"
                and isinstance(t.comparators[0], ast.Constant) and isinstance(t.comparators[0].value, int)):
            raise TranslateError("%s: unexpected branch test %s" % (where, ast.unparse(t)))
        res[t.comparators[0].value] = cur.body
        if len(cur.orelse) == 1 and isinstance(cur.orelse[0], ast.If):
            cur = cur.orelse[0]
        else:
            break
    for k in (1, 2, 3):
        if k not in res:
            raise TranslateError("%s: no closed-form branch for dim == %d" % (where, k))
    if sorted(res) != [1, 2, 3]:
        raise TranslateError("%s: closed-form branches for dims %s (expected exactly 1, 2, 3)" % (where, sorted(res)))
    # every other dimension must be delegated to numpy.linalg, unchanged
    name = {"Det": "det", "Inv": "inv"}[where]
    tail = [ast.unparse(s) for s in cur.orelse]
    if tail != ["%s = np.linalg.%s(mat)" % (name, name)]:
        raise TranslateError("%s: dims > 3 are not delegated to np.linalg.%s(mat): %r" % (where, name, tail))
    return res


class _Mat:
    """the input matrix (or its transpose): entries are read as m i j"""
    def __init__(self, transposed=False):
        self.transposed = transposed


class _Tab:
    """an array built entry by entry (np.zeros_like(mat) then item assignments, or the result of
    scaling such an array): (i, j) -> Coq text, missing entries are 0"""
    def __init__(self, ent=None):
        self.ent = dict(ent or {})


def _translate_branch(stmts, kind, dim, where, module=None):
    """Symbolic execution of one `dim == k` branch of Det / Inv.
    -> (lets: [(name, coqtext)], result: det text | {(i,j): text})

    Values are scalars (Coq text over the entries `m i j`), the matrix itself / its transpose
    (`Transpose(mat)`, `np.swapaxes(mat, -1, -2)`), and entry tables.  Accepted: names bound to
    any of these, entries read directly as `X[..., i, j]` anywhere in an expression, + - * / and
    unary minus on scalars, `Det(mat)`, `np.zeros_like(mat, ...)`, item assignment
    `T[..., i, j] = <scalar>`, `np.einsum('...,...ij->...ij', <scalar>, <table>)`, `1 / mat` for
    dim 1, and calls of module-level helper functions whose body is straight-line assignments
    followed by one `return` (inlined).  Dead stores are simply overwritten.  Everything else is
    rejected; the meaning of what is accepted is decided by the theorems, not here."""
    lets = []
    used = {}

    def fresh(name):
        used[name] = used.get(name, 0) + 1
        return name + "_" if used[name] == 1 else "%s_%d" % (name, used[name])

    def entry_text(M, i, j):
        if not (0 <= i < dim and 0 <= j < dim):
            raise TranslateError("%s: entry index out of range" % where)
        return "(m %d%%nat %d%%nat)" % ((j, i) if M.transposed else (i, j))

    def helper(name):
        if module is None:
            return None
        for n in module.body:
            if isinstance(n, ast.FunctionDef) and n.name == name:
                return n
        return None

    def scalar(v, what):
        if not isinstance(v, str):
            raise TranslateError("%s: %s is not a scalar expression" % (where, what))
        return v

    def ev(n, env, depth=0):
        if isinstance(n, ast.Name):
            if n.id not in env:
                raise TranslateError("%s: unbound name %s" % (where, n.id))
            return env[n.id]
        if isinstance(n, ast.Constant) and isinstance(n.value, int) and not isinstance(n.value, bool):
            return "(%d)" % n.value if n.value >= 0 else "(- (%d))" % -n.value
        if isinstance(n, ast.UnaryOp) and isinstance(n.op, (ast.USub, ast.UAdd)):
            v = scalar(ev(n.operand, env, depth), ast.unparse(n.operand))
            return "(- %s)" % v if isinstance(n.op, ast.USub) else v
        if isinstance(n, ast.BinOp):
            l, r = ev(n.left, env, depth), ev(n.right, env, depth)
            if isinstance(n.op, ast.Div) and isinstance(r, _Mat) and not r.transposed and isinstance(l, str) and dim == 1:
                return _Tab({(0, 0): "(%s / (m 0%%nat 0%%nat))" % l})      # scalar / (1 x 1 matrix)
            for tcls, sym in ((ast.Add, "+"), (ast.Sub, "-"), (ast.Mult, "*"), (ast.Div, "/")):
                if isinstance(n.op, tcls):
                    return "(%s %s %s)" % (scalar(l, ast.unparse(n.left)), sym, scalar(r, ast.unparse(n.right)))
            raise TranslateError("%s: unsupported operator in %s" % (where, ast.unparse(n)))
        if isinstance(n, ast.Subscript):
            base = ev(n.value, env, depth)
            sl = n.slice
            if not (isinstance(sl, ast.Tuple) and len(sl.elts) == 3 and isinstance(sl.elts[0], ast.Constant)
                    and sl.elts[0].value is Ellipsis
                    and all(isinstance(e, ast.Constant) and isinstance(e.value, int) and not isinstance(e.value, bool) for e in sl.elts[1:])):
                raise TranslateError("%s: unsupported subscript %s" % (where, ast.unparse(n)))
            i, jx = sl.elts[1].value, sl.elts[2].value
            if isinstance(base, _Mat):
                return entry_text(base, i, jx)
            if isinstance(base, _Tab):
                if not (0 <= i < dim and 0 <= jx < dim):
                    raise TranslateError("%s: entry index out of range" % where)
                return base.ent.get((i, jx), "0")
            raise TranslateError("%s: subscript of a scalar: %s" % (where, ast.unparse(n)))
        if isinstance(n, ast.Call):
            f = ast.unparse(n.func)
            args = n.args
            if f == "Det" and len(args) == 1 and not n.keywords:
                a = ev(args[0], env, depth)
                if isinstance(a, _Mat) and not a.transposed and kind == "inv":
                    return "(det m)"
                raise TranslateError("%s: Det of something else than mat" % where)
            if f == "Transpose" and len(args) == 1 and not n.keywords:
                a = ev(args[0], env, depth)
                if isinstance(a, _Mat):
                    return _Mat(not a.transposed)
                raise TranslateError("%s: Transpose of a non-matrix" % where)
            if f == "np.swapaxes" and len(args) == 3 and not n.keywords and sorted(ast.unparse(a) for a in args[1:]) == ["-1", "-2"]:
                a = ev(args[0], env, depth)
                if isinstance(a, _Mat):
                    return _Mat(not a.transposed)
                raise TranslateError("%s: swapaxes of a non-matrix" % where)
            if f == "np.zeros_like" and len(args) == 1 and isinstance(ev(args[0], env, depth), _Mat) \
                    and all(k.arg == "dtype" for k in n.keywords):
                return _Tab()
            if f == "np.einsum" and len(args) == 3 and not n.keywords and isinstance(args[0], ast.Constant) \
                    and args[0].value == "...,...ij->...ij":
                s = scalar(ev(args[1], env, depth), ast.unparse(args[1]))
                T = ev(args[2], env, depth)
                if not isinstance(T, _Tab):
                    raise TranslateError("%s: einsum scaling of something that is not an entry table" % where)
                return _Tab({(i, jx): "(%s * %s)" % (s, T.ent.get((i, jx), "0")) for i in range(dim) for jx in range(dim)})
            h = helper(f) if isinstance(n.func, ast.Name) else None
            if h is not None and not n.keywords:
                if depth >= 3:
                    raise TranslateError("%s: helper calls nested too deeply (%s)" % (where, f))
                a = h.args
                if a.vararg or a.kwarg or a.kwonlyargs or a.defaults or a.posonlyargs or len(a.args) != len(args):
                    raise TranslateError("%s: helper %s has an unsupported signature" % (where, f))
                local = {p.arg: ev(x, env, depth) for p, x in zip(a.args, args)}
                return run(h.body, local, depth + 1, "%s/%s" % (where, f))
            raise TranslateError("%s: unsupported call %s" % (where, ast.unparse(n)))
        raise TranslateError("%s: unsupported expression %s" % (where, ast.unparse(n)))

    def run(body, env, depth, wh):
        """execute statements; returns the value of `return` (helpers) or None"""
        for st in body:
            if isinstance(st, ast.Expr) and isinstance(st.value, ast.Constant):
                continue
            if isinstance(st, ast.Return) and depth > 0 and st.value is not None:
                return ev(st.value, env, depth)
            if not isinstance(st, ast.Assign) or len(st.targets) != 1:
                raise TranslateError("%s: unsupported statement `%s`" % (wh, ast.unparse(st)))
            tgt = st.targets[0]
            if isinstance(tgt, ast.Name):
                v = ev(st.value, env, depth)
                if isinstance(v, str) and v != "(det m)":
                    nm = fresh(tgt.id)          # bind scalars by a let, so the text stays linear
                    lets.append((nm, v))
                    v = nm
                env[tgt.id] = v
                continue
            if isinstance(tgt, ast.Subscript) and isinstance(tgt.value, ast.Name) and isinstance(env.get(tgt.value.id), _Tab):
                sl = tgt.slice
                if not (isinstance(sl, ast.Tuple) and len(sl.elts) == 3 and isinstance(sl.elts[0], ast.Constant)
                        and sl.elts[0].value is Ellipsis
                        and all(isinstance(e, ast.Constant) and isinstance(e.value, int) for e in sl.elts[1:])):
                    raise TranslateError("%s: unsupported item assignment `%s`" % (wh, ast.unparse(st)))
                i, jx = sl.elts[1].value, sl.elts[2].value
                if not (0 <= i < dim and 0 <= jx < dim):
                    raise TranslateError("%s: item index out of range" % wh)
                # a fresh table object: earlier aliases / scaled copies must not change
                T = _Tab(env[tgt.value.id].ent)
                T.ent[(i, jx)] = scalar(ev(st.value, env, depth), ast.unparse(st.value))
                env[tgt.value.id] = T
                continue
            raise TranslateError("%s: unsupported statement `%s`" % (wh, ast.unparse(st)))
        if depth > 0:
            raise TranslateError("%s: helper without return" % wh)
        return None

    env = {"mat": _Mat(False)}
    run(stmts, env, 0, where)
    res = env.get("det" if kind == "det" else "inv")
    if kind == "det":
        if not isinstance(res, str):
            raise TranslateError("%s: branch dim == %d assigns no scalar `det`" % (where, dim))
        return lets, res
    if not isinstance(res, _Tab):
        raise TranslateError("%s: branch dim == %d assigns no entry table `inv`" % (where, dim))
    return lets, {(i, jx): res.ent.get((i, jx), "0") for i in range(dim) for jx in range(dim)}


def _emit_formula(name, ty, scope, lets, body, extra_args=""):
    s = "Definition %s (m : nat -> nat -> %s)%s : %s :=\n" % (name, ty, extra_args, ty)
    for n, t in lets:
        s += "  let %s := %s%%%s in\n" % (n, t, scope)
    s += "  (%s)%%%s.\n" % (body, scope)
    return s


def translate_det_inv(tree):
    out = {}
    det = _find_func(tree, "Det")
    inv = _find_func(tree, "Inv")
    bd = _dim_branches(det, "Det")
    bi = _dim_branches(inv, "Inv")
    for fn, nm in ((det, "det"), (inv, "inv")):
        tail = [ast.unparse(s) for s in fn.body[-2:]]
        want = ["if isinstance(mat, FeArray):\n    %s = FeArray.asfearray(%s)" % (nm, nm), "return %s" % nm]
        if tail != want:
            raise TranslateError("%s: unexpected epilogue %r" % (nm, tail))
    for k in (1, 2, 3):
        out[("det", k)] = _translate_branch(bd[k], "det", k, "Det[dim=%d]" % k, tree)
        out[("inv", k)] = _translate_branch(bi[k], "inv", k, "Inv[dim=%d]" % k, tree)
    return out


def emit_det_inv(tr):
    s = ""
    for ty, scope, suf in (("R", "R", "R"), ("Q", "Q", "Q")):
        for k in (1, 2, 3):
            lets, body = tr[("det", k)]
            s += _emit_formula("gen_det%d%s" % (k, suf), ty, scope, lets, body)
        for k in (1, 2, 3):
            lets, ent = tr[("inv", k)]
            lets = [(n, t.replace("(det m)", "(gen_det%d%s m)" % (k, suf))) for n, t in lets]
            s += "Definition gen_inv%d%s (m : nat -> nat -> %s) (i j : nat) : %s :=\n" % (k, suf, ty, ty)
            for n, t in lets:
                s += "  let %s := %s%%%s in\n" % (n, t, scope)
            s += "  match i, j with\n"
            for (i, j), t in sorted(ent.items()):
                t = t.replace("(det m)", "(gen_det%d%s m)" % (k, suf))
                s += "  | %d, %d => (%s)%%%s\n" % (i, j, t, scope)
            s += "  | _, _ => 0%%%s\n  end.\n" % scope
        zero = "0%%%s" % scope
        s += ("Definition gen_det%s (n : nat) (m : nat -> nat -> %s) : %s :=\n"
              "  match n with 1 => gen_det1%s m | 2 => gen_det2%s m | 3 => gen_det3%s m | _ => %s end.\n"
              % (suf, ty, ty, suf, suf, suf, zero))
        s += ("Definition gen_inv%s (n : nat) (m : nat -> nat -> %s) (i j : nat) : %s :=\n"
              "  match n with 1 => gen_inv1%s m i j | 2 => gen_inv2%s m i j | 3 => gen_inv3%s m i j | _ => %s end.\n"
              % (suf, ty, ty, suf, suf, suf, zero))
    s += ("(* dims 1, 2, 3 are the closed forms above; every other dimension is `np.linalg.det(mat)` /\n"
          "   `np.linalg.inv(mat)` verbatim (checked by the translator), i.e. trusted numpy *)\n"
          "Definition gen_closed_form_dims : list nat := [1; 2; 3].\n"
          "Definition gen_other_dims_delegated_to_numpy : bool := true.\n")
    return s


# ---------------------------------------------------------------------------------------
# _KeepsFeAxes
# ---------------------------------------------------------------------------------------
def _zexpr(n, where):
    if isinstance(n, ast.Name) and n.id in ("a", "ndim"):
        return n.id
    if isinstance(n, ast.Constant) and isinstance(n.value, int) and not isinstance(n.value, bool):
        return "(%d)" % n.value
    if isinstance(n, ast.UnaryOp) and isinstance(n.op, ast.USub):
        return "(- %s)" % _zexpr(n.operand, where)
    if isinstance(n, ast.BinOp) and isinstance(n.op, (ast.Add, ast.Sub)):
        return "(%s %s %s)" % (_zexpr(n.left, where), "+" if isinstance(n.op, ast.Add) else "-", _zexpr(n.right, where))
    raise TranslateError("%s: unsupported integer expression %s" % (where, ast.unparse(n)))


def _zbool(n, where):
    if isinstance(n, ast.Compare) and len(n.ops) == 1:
        ops = {ast.GtE: ">=?", ast.Gt: ">?", ast.LtE: "<=?", ast.Lt: "<?", ast.Eq: "=?"}
        for t, s in ops.items():
            if isinstance(n.ops[0], t):
                return "(%s %s %s)" % (_zexpr(n.left, where), s, _zexpr(n.comparators[0], where))
    if isinstance(n, ast.IfExp):
        return "(if %s then %s else %s)" % (_zbool(n.test, where), _zbool(n.body, where), _zbool(n.orelse, where))
    if isinstance(n, ast.BoolOp):
        s = " && " if isinstance(n.op, ast.And) else " || "
        return "(" + s.join(_zbool(v, where) for v in n.values) + ")"
    if isinstance(n, ast.UnaryOp) and isinstance(n.op, ast.Not):
        return "(negb %s)" % _zbool(n.operand, where)
    raise TranslateError("%s: unsupported condition %s" % (where, ast.unparse(n)))


def translate_keeps(tree):
    fn = _find_func(tree, "_KeepsFeAxes")
    body = [s for s in fn.body if not (isinstance(s, ast.Expr) and isinstance(s.value, ast.Constant))]
    if [a.arg for a in fn.args.args] != ["axis", "ndim"]:
        raise TranslateError("_KeepsFeAxes: unexpected signature")
    if len(body) != 3:
        raise TranslateError("_KeepsFeAxes: expected 3 statements, found %d" % len(body))
    if ast.unparse(body[0]) != "if axis is None:\n    return False":
        raise TranslateError("_KeepsFeAxes: first statement is not `if axis is None: return False`")
    if ast.unparse(body[1]) != "axes = axis if isinstance(axis, tuple) else (axis,)":
        raise TranslateError("_KeepsFeAxes: unexpected normalisation of axis: " + ast.unparse(body[1]))
    r = body[2]
    if not (isinstance(r, ast.Return) and isinstance(r.value, ast.Call) and isinstance(r.value.func, ast.Name)
            and r.value.func.id == "all" and len(r.value.args) == 1 and isinstance(r.value.args[0], ast.GeneratorExp)):
        raise TranslateError("_KeepsFeAxes: return is not all(<test> for a in axes)")
    g = r.value.args[0]
    if not (len(g.generators) == 1 and ast.unparse(g.generators[0].target) == "a"
            and ast.unparse(g.generators[0].iter) == "axes" and not g.generators[0].ifs):
        raise TranslateError("_KeepsFeAxes: unexpected generator")
    return "Definition gen_keeps_axis (a ndim : Z) : bool := %s%%Z.\n" % _zbool(g.elt, "_KeepsFeAxes")


# ---------------------------------------------------------------------------------------
# _dot_subscript / _ddot_subscript: whitelisted partial evaluation over the _idx domain
# ---------------------------------------------------------------------------------------
class _Raise(Exception):
    pass


def _sev(n, env, where):
    """tiny evaluator for the string/int expressions used by the subscript builders"""
    if isinstance(n, ast.Constant) and isinstance(n.value, (int, str)) and not isinstance(n.value, bool):
        return n.value
    if isinstance(n, ast.Name):
        if n.id not in env:
            raise TranslateError("%s: unbound name %s" % (where, n.id))
        return env[n.id]
    if isinstance(n, ast.Dict):
        return {_sev(k, env, where): _sev(v, env, where) for k, v in zip(n.keys, n.values)}
    if isinstance(n, ast.UnaryOp) and isinstance(n.op, ast.USub):
        return -_sev(n.operand, env, where)
    if isinstance(n, ast.BinOp) and isinstance(n.op, (ast.Add, ast.Sub)):
        a, b = _sev(n.left, env, where), _sev(n.right, env, where)
        if type(a) is not type(b):
            raise TranslateError("%s: mixed-type + / -" % where)
        return a + b if isinstance(n.op, ast.Add) else a - b
    if isinstance(n, ast.Subscript):
        c, k = _sev(n.value, env, where), _sev(n.slice, env, where)
        try:
            return c[k]
        except (KeyError, IndexError) as ex:
            raise _Raise(type(ex).__name__)
    if isinstance(n, ast.Call):
        f = n.func
        if isinstance(f, ast.Name) and f.id in ("chr", "ord") and len(n.args) == 1 and not n.keywords:
            v = _sev(n.args[0], env, where)
            return chr(v) if f.id == "chr" else ord(v)
        if isinstance(f, ast.Attribute) and f.attr == "join" and len(n.args) == 1 and isinstance(n.args[0], ast.GeneratorExp):
            sep = _sev(f.value, env, where)
            g = n.args[0]
            if len(g.generators) != 1 or g.generators[0].ifs or not isinstance(g.generators[0].target, ast.Name):
                raise TranslateError("%s: unsupported generator" % where)
            it = _sev(g.generators[0].iter, env, where)
            var = g.generators[0].target.id
            return sep.join(_sev(g.elt, dict(env, **{var: x}), where) for x in it)
        if isinstance(f, ast.Attribute) and f.attr == "replace" and len(n.args) == 2 and not n.keywords:
            s = _sev(f.value, env, where)
            a, b = _sev(n.args[0], env, where), _sev(n.args[1], env, where)
            if not all(isinstance(x, str) for x in (s, a, b)):
                raise TranslateError("%s: replace on non-strings" % where)
            return s.replace(a, b)
    if isinstance(n, ast.JoinedStr):
        out = ""
        for v in n.values:
            if isinstance(v, ast.Constant):
                out += v.value
            elif isinstance(v, ast.FormattedValue) and v.conversion == -1 and v.format_spec is None:
                out += str(_sev(v.value, env, where))
            else:
                raise TranslateError("%s: unsupported f-string part" % where)
        return out
    raise TranslateError("%s: unsupported construct %s" % (where, ast.unparse(n)))


def parse_subscript(s, where):
    """'...ij,...jk->...ik' -> ([0,1],[1,2],[0,2]) (labels relative to 'i')"""
    try:
        lhs, rhs = s.split("->")
        ins = lhs.split(",")
    except ValueError:
        raise TranslateError("%s: malformed subscript %r" % (where, s))
    res = []
    for part in ins + [rhs]:
        if not part.startswith("..."):
            raise TranslateError("%s: operand without leading ellipsis in %r" % (where, s))
        labs = part[3:]
        if not all("i" <= ch <= "z" for ch in labs):
            raise TranslateError("%s: label outside i..z in %r" % (where, s))
        res.append([ord(ch) - ord("i") for ch in labs])
    return res[:-1], res[-1]


def translate_subscripts(tree):
    tables = {}
    for fname in ("_dot_subscript", "_ddot_subscript"):
        fn = _find_func(tree, fname, cls="FeArray")
        if [a.arg for a in fn.args.args] != ["ndim1", "ndim2"]:
            raise TranslateError(fname + ": unexpected signature")
        body = [s for s in fn.body if not (isinstance(s, ast.Expr) and isinstance(s.value, ast.Constant))]
        # domain = keys of the first dict literal bound in the body
        dom = None
        for st in body:
            if isinstance(st, ast.Assign) and isinstance(st.value, ast.Dict):
                dom = sorted(_sev(st.value, {}, fname).keys())
                break
        if dom is None or not all(isinstance(k, int) and 0 <= k <= 8 for k in dom):
            raise TranslateError(fname + ": no rank table (dict literal) found")
        tab = []
        for n1 in dom:
            for n2 in dom:
                env = {"ndim1": n1, "ndim2": n2}
                try:
                    ret = None
                    for st in body:
                        if isinstance(st, ast.Assign) and len(st.targets) == 1 and isinstance(st.targets[0], ast.Name):
                            env[st.targets[0].id] = _sev(st.value, env, fname)
                        elif isinstance(st, ast.Return):
                            ret = _sev(st.value, env, fname)
                            break
                        else:
                            raise TranslateError("%s: unsupported statement `%s`" % (fname, ast.unparse(st)))
                    if not isinstance(ret, str):
                        raise TranslateError(fname + ": does not return a string")
                    ins, out = parse_subscript(ret, fname)
                    if len(ins) != 2:
                        raise TranslateError(fname + ": not a two-operand subscript")
                    tab.append((n1, n2, (ins[0], ins[1], out), ret))
                except _Raise:
                    tab.append((n1, n2, None, None))
        tables[fname] = (dom, tab)
    return tables


def _labs(l):
    return "[" + "; ".join(str(x) for x in l) + "]"


def emit_subscripts(tables):
    s = ""
    for fname, cname in (("_dot_subscript", "gen_dot_table"), ("_ddot_subscript", "gen_ddot_table")):
        dom, tab = tables[fname]
        s += "Definition %s_domain : list nat := %s.\n" % (cname, _labs(dom))
        s += "Definition %s : list (nat * nat * option (list nat * list nat * list nat)) :=\n  [" % cname
        rows = []
        for n1, n2, e, txt in tab:
            if e is None:
                rows.append("(%d, %d, None)" % (n1, n2))
            else:
                rows.append("(%d, %d, Some (%s, %s, %s)) (* %s *)" % (n1, n2, _labs(e[0]), _labs(e[1]), _labs(e[2]), txt))
        s += ";\n   ".join(rows) + "].\n"
    return s


def translate_fixed_subscripts(tree):
    """einsum literals of __matmul__ (vector-matrix, matrix-vector) and Trace"""
    mm = _find_func(tree, "__matmul__", cls="FeArray")
    lits = []
    for n in ast.walk(mm):
        if (isinstance(n, ast.Call) and ast.unparse(n.func) == "np.einsum" and n.args
                and isinstance(n.args[0], ast.Constant) and isinstance(n.args[0].value, str)):
            lits.append((n.lineno, n.args[0].value, [ast.unparse(a) for a in n.args[1:]]))
    lits.sort()
    if len(lits) != 2 or any(a != ["self", "other"] for _, _, a in lits):
        raise TranslateError("__matmul__: expected two np.einsum(<literal>, self, other) calls")
    tr = _find_func(tree, "Trace")
    tl = [n.args[0].value for n in ast.walk(tr)
          if isinstance(n, ast.Call) and ast.unparse(n.func) == "np.einsum" and n.args
          and isinstance(n.args[0], ast.Constant) and [ast.unparse(a) for a in n.args[1:]] == ["mat"]]
    if len(tl) != 1:
        raise TranslateError("Trace: expected one np.einsum(<literal>, mat)")
    s = ""
    for name, lit in (("gen_matmul_vecmat", lits[0][1]), ("gen_matmul_matvec", lits[1][1]), ("gen_trace", tl[0])):
        ins, out = parse_subscript(lit, name)
        s += "Definition %s : list (list nat) * list nat := ([%s], %s). (* %s *)\n" % (name, "; ".join(_labs(i) for i in ins), _labs(out), lit)
    return s


# ---------------------------------------------------------------------------------------
# TensorProd: the einsum literals of the vector, matrix and symmetrised matrix products
# ---------------------------------------------------------------------------------------
def _canon(ins, out, where):
    """relabel so that the output reads 0,1,2,...: the triple is then independent of the letters"""
    if len(set(out)) != len(out) or any(l not in out for i in ins for l in i):
        raise TranslateError("%s: every label must appear exactly once in the output" % where)
    m = {l: k for k, l in enumerate(out)}
    return [[m[l] for l in i] for i in ins], list(range(len(out)))


def _letters(s, where):
    try:
        lhs, rhs = s.split("->")
        parts = lhs.split(",") + [rhs]
    except ValueError:
        raise TranslateError("%s: malformed subscript %r" % (where, s))
    res = []
    for part in parts:
        if not part.startswith("...") or not part[3:].isalpha() and part[3:] != "":
            raise TranslateError("%s: operand without leading ellipsis in %r" % (where, s))
        res.append(list(part[3:]))
    return res[:-1], res[-1]


def _tp_product(val, known, where):
    """np.einsum(<lit>, A, B) | np.einsum(<lit>, B, A) | np.swapaxes(<earlier product>, m, n)
    -> canonical (labels of A, labels of B, out)"""
    if isinstance(val, ast.Call) and ast.unparse(val.func) == "np.einsum" and len(val.args) == 3 and not val.keywords \
            and isinstance(val.args[0], ast.Constant) and isinstance(val.args[0].value, str):
        names = [ast.unparse(a) for a in val.args[1:]]
        ins, out = _letters(val.args[0].value, where)
        if len(ins) != 2 or sorted(names) != ["A", "B"]:
            raise TranslateError("%s: expected np.einsum(<literal>, A, B)" % where)
        if names == ["B", "A"]:
            ins = [ins[1], ins[0]]
        ins, out = _canon(ins, out, where)
        return (ins[0], ins[1], out)
    if isinstance(val, ast.Call) and ast.unparse(val.func) == "np.swapaxes" and len(val.args) == 3 and not val.keywords \
            and isinstance(val.args[0], ast.Name) and val.args[0].id in known:
        la, lb, out = known[val.args[0].id]
        try:
            m, n = (int(ast.literal_eval(a)) for a in val.args[1:])
        except (ValueError, SyntaxError):
            raise TranslateError("%s: swapaxes with non-literal axes" % where)
        k = len(out)
        if not (-k <= m < 0 and -k <= n < 0):
            raise TranslateError("%s: swapaxes must address tensor axes from the end" % where)
        o = list(out)
        o[m], o[n] = o[n], o[m]          # result[..., idx] = p[..., idx with m, n exchanged]
        ins, out2 = _canon([la, lb], o, where)
        return (ins[0], ins[1], out2)
    raise TranslateError("%s: unsupported product expression %s" % (where, ast.unparse(val)))


def translate_tensorprod(tree):
    fn = _find_func(tree, "TensorProd")
    chain = None
    for st in fn.body:
        if isinstance(st, ast.If) and ast.unparse(st.test) == "ndim == 1":
            chain = st
    if chain is None or len(chain.orelse) != 1 or not isinstance(chain.orelse[0], ast.If) or ast.unparse(chain.orelse[0].test) != "ndim == 2":
        raise TranslateError("TensorProd: no `if ndim == 1 / elif ndim == 2` chain")
    tail = [ast.unparse(s) for s in fn.body[-2:]]
    if tail != ["if useFeArray:\n    res = FeArray.asfearray(res)", "return res"]:
        raise TranslateError("TensorProd: unexpected epilogue %r" % tail)

    def single(body, where):
        if len(body) != 1 or not isinstance(body[0], ast.Assign) or ast.unparse(body[0].targets[0]) != "res":
            raise TranslateError("%s: expected `res = np.einsum(...)`" % where)
        return _tp_product(body[0].value, {}, where)
    vec = single(chain.body, "TensorProd[ndim=1]")
    b2 = chain.orelse[0].body
    if len(b2) != 1 or not isinstance(b2[0], ast.If) or ast.unparse(b2[0].test) != "symmetric":
        raise TranslateError("TensorProd[ndim=2]: expected `if symmetric: ... else: ...`")
    mat = single(b2[0].orelse, "TensorProd[ndim=2, not symmetric]")
    known = {}
    res = None
    for st in b2[0].body:
        if not isinstance(st, ast.Assign) or len(st.targets) != 1 or not isinstance(st.targets[0], ast.Name):
            raise TranslateError("TensorProd[symmetric]: unsupported statement `%s`" % ast.unparse(st))
        nm = st.targets[0].id
        if nm == "res":
            res = st.value
        else:
            known[nm] = _tp_product(st.value, known, "TensorProd[symmetric] %s" % nm)
    if res is None or len(known) != 2:
        raise TranslateError("TensorProd[symmetric]: expected two products and `res = 1/2 * (p + q)`")
    a, b = sorted(known)
    forms = set()
    for x, y in ((a, b), (b, a)):
        forms |= {"1 / 2 * (%s + %s)" % (x, y), "(%s + %s) / 2" % (x, y), "0.5 * (%s + %s)" % (x, y), "(%s + %s) * 0.5" % (x, y),
                  "1 / 2 * %s + 1 / 2 * %s" % (x, y), "0.5 * %s + 0.5 * %s" % (x, y)}
    if ast.unparse(res) not in forms:
        raise TranslateError("TensorProd[symmetric]: result is not half the sum of the two products: %s" % ast.unparse(res))
    return vec, mat, [known[a], known[b]]


def emit_tensorprod(tp):
    vec, mat, sym = tp

    def tri(x):
        return "(%s, %s, %s)" % (_labs(x[0]), _labs(x[1]), _labs(x[2]))
    s = "Definition gen_tp_vec : list nat * list nat * list nat := %s.\n" % tri(vec)
    s += "Definition gen_tp_mat : list nat * list nat * list nat := %s.\n" % tri(mat)
    s += "Definition gen_tp_sym : list (list nat * list nat * list nat) := [%s].\n" % "; ".join(tri(x) for x in sym)
    return s


def generate_tensorprod(repo):
    path, tree = _src(repo)
    s = "(* GENERATED by translator/C12_linalg.py (TensorProd) from %s -- do not edit *)\n" % path
    s += "From Coq Require Import List Arith.\nImport ListNotations.\n\n"
    return s + emit_tensorprod(translate_tensorprod(tree))


# hand-written stand-in used ONLY when Det/Inv cannot be translated, so that the correspondence
# case files still compile (the Det/Inv theorems then fail, which is reported)
FALLBACK_DET_INV = """
Definition gen_detQ (n : nat) (m : nat -> nat -> Q) : Q :=
  match n with
  | 1 => m 0%nat 0%nat
  | 2 => (m 0%nat 0%nat * m 1%nat 1%nat - m 0%nat 1%nat * m 1%nat 0%nat)%Q
  | 3 => (m 0%nat 0%nat * (m 1%nat 1%nat * m 2%nat 2%nat - m 1%nat 2%nat * m 2%nat 1%nat)
          - m 0%nat 1%nat * (m 1%nat 0%nat * m 2%nat 2%nat - m 1%nat 2%nat * m 2%nat 0%nat)
          + m 0%nat 2%nat * (m 1%nat 0%nat * m 2%nat 1%nat - m 1%nat 1%nat * m 2%nat 0%nat))%Q
  | _ => 0%Q
  end.
Definition minorQ (n : nat) (m : nat -> nat -> Q) (r c : nat) : nat -> nat -> Q :=
  fun i j => m (if i <? r then i else S i) (if j <? c then j else S j).
Definition gen_invQ (n : nat) (m : nat -> nat -> Q) (i j : nat) : Q :=
  let cof := match n with 1 => 1%Q | S k => gen_detQ k (minorQ n m j i) | 0 => 0%Q end in
  ((if Nat.even (i + j) then cof else - cof) / gen_detQ n m)%Q.
"""


def generate(repo):
    """-> (coq_text, info dict, errors).  Each part is translated on its own; a part that is
    rejected is listed in `errors` (and left out / replaced by a stand-in), the rest is emitted."""
    path, tree = _src(repo)
    errors = []
    s = "(* GENERATED by translator/C12_linalg.py from %s -- do not edit *)\n" % path
    s += "From Coq Require Import List Arith ZArith QArith Reals.\nImport ListNotations.\nLocal Open Scope nat_scope.\n\n"
    info = {}
    try:
        s += emit_det_inv(translate_det_inv(tree))
        info["det_inv_branches"] = 6
    except TranslateError as ex:
        errors.append(("Det/Inv", str(ex)))
        s += FALLBACK_DET_INV
    try:
        s += "\n" + translate_keeps(tree)
    except TranslateError as ex:
        errors.append(("_KeepsFeAxes", str(ex)))
    try:
        tabs = translate_subscripts(tree)
        s += "\n" + emit_subscripts(tabs)
        info["dot_pairs"] = len(tabs["_dot_subscript"][1])
        info["ddot_pairs"] = len(tabs["_ddot_subscript"][1])
    except TranslateError as ex:
        errors.append(("_dot_subscript/_ddot_subscript", str(ex)))
    try:
        s += "\n" + translate_fixed_subscripts(tree)
    except TranslateError as ex:
        errors.append(("__matmul__/Trace einsum literals", str(ex)))
    return s, info, errors


if __name__ == "__main__":
    import sys
    print(generate(sys.argv[1] if len(sys.argv) > 1 else "/repo")[0])
    print(generate_tensorprod(sys.argv[1] if len(sys.argv) > 1 else "/repo"))
