"""C11: translate EasyFEA/Models/_utils.py  KelvinMandel_Matrix, Get_Pmat (including its axis
"normalisation" line) and Apply_Pmat into rational-function trees / Coq definitions over R.

The homogeneous call shapes are modelled (axes of shape (dim,), matrices of shape (n,n)); the
per-element / per-Gauss-point shapes are the same formulas broadcast by numpy and are covered by
the correspondence runs only."""
import ast
import os
from fractions import Fraction
from . import c11_sym as S
from .c11_sym import TranslateError, Arr, Sym, Opaque

REL = "EasyFEA/Models/_utils.py"

EINSUM_MEANING = {            # canonicalised three-operand subscripts -> meaning
    "ab,bc,dc->ad": "PMPt",   # P M P^T
    "ab,ac,cd->bd": "PtMP",   # P^T M P
}


def _canon(spec):
    m, out = {}, ""
    for ch in spec:
        if ch.isalpha():
            if ch not in m:
                m[ch] = "abcdefgh"[len(m)]
            out += m[ch]
        else:
            out += ch
    return out


class _PmatInterp(S.Interp):
    def __init__(self, where, named):
        super().__init__(where)
        self.named = named      # list of (vector data, variable tree)

    def norm_of(self, vec):
        for d, v in self.named:
            if vec.data == d:
                return v
        return Opaque("norm of a vector that is not one of the input axes")


NOCOPY = ("np.asarray", "np.asanyarray", "np.ascontiguousarray", "np.atleast_1d", "np.atleast_2d", "np.squeeze", "np.ravel")


def check_no_inplace_on_arguments(fn, where):
    """fail-closed syntactic check: the function never modifies (augmented assignment, subscript assignment,
    `out=` keyword) a name that is — or may alias — one of its array arguments.  Aliases: the parameter itself,
    `x = <alias>`, `x = np.asarray(<alias>, ...)` and friends, views `<alias>.T / .transpose(...) / .reshape(...) /
    .view(...) / [<slice>]`.  Re-binding a name to anything else ends the aliasing."""
    alias = {a.arg for a in fn.args.args}

    def may_alias(e):
        if isinstance(e, ast.Name):
            return e.id in alias
        if isinstance(e, ast.Attribute) and e.attr in ("T", "real"):
            return may_alias(e.value)
        if isinstance(e, ast.Subscript):
            return may_alias(e.value)
        if isinstance(e, ast.Call):
            f = ast.unparse(e.func)
            if f in NOCOPY and e.args:
                return may_alias(e.args[0])
            if isinstance(e.func, ast.Attribute) and e.func.attr in ("transpose", "reshape", "view", "swapaxes", "squeeze", "ravel"):
                return may_alias(e.func.value)
        return False

    def walk(body):
        for st in body:
            if isinstance(st, ast.AugAssign):
                base = st.target
                while isinstance(base, (ast.Subscript, ast.Attribute)):
                    base = base.value
                if isinstance(base, ast.Name) and base.id in alias:
                    raise TranslateError("%s:%d: `%s` modifies in place an array that may be the caller's argument" % (where, st.lineno, ast.unparse(st)[:60]))
            elif isinstance(st, ast.Assign):
                for t in st.targets:
                    if isinstance(t, ast.Subscript):
                        base = t
                        while isinstance(base, (ast.Subscript, ast.Attribute)):
                            base = base.value
                        if isinstance(base, ast.Name) and base.id in alias:
                            raise TranslateError("%s:%d: `%s` writes into an array that may be the caller's argument" % (where, st.lineno, ast.unparse(st)[:60]))
                for t in st.targets:
                    if isinstance(t, ast.Name):
                        if may_alias(st.value):
                            alias.add(t.id)
                        else:
                            alias.discard(t.id)
            for n in ast.walk(st):
                if isinstance(n, ast.Call):
                    for k in n.keywords:
                        if k.arg == "out" and may_alias(k.value):
                            raise TranslateError("%s:%d: `out=` targets an array that may be the caller's argument" % (where, n.lineno))
            for sub in ("body", "orelse", "finalbody"):
                if hasattr(st, sub) and isinstance(getattr(st, sub), list) and not isinstance(st, ast.FunctionDef):
                    walk(getattr(st, sub))
    walk(fn.body)


def vars_mat(prefix, n):
    return Arr([[('v', "%s%d%d" % (prefix, i + 1, j + 1)) for j in range(n)] for i in range(n)])


def read_pmat(repo):
    path = os.path.join(repo, REL)
    mod = S.Module(path)
    out = {"file": REL, "lines": {}}
    for f in ("KelvinMandel_Matrix", "Get_Pmat", "Apply_Pmat"):
        if f not in mod.funcs:
            raise TranslateError("%s: function %s not found" % (REL, f))
        out["lines"][f] = mod.funcs[f].lineno
        todo, seen = [f], set()
        while todo:      # the function and every module-level helper it calls by name
            g = todo.pop()
            if g in seen or g not in mod.funcs:
                continue
            seen.add(g)
            check_no_inplace_on_arguments(mod.funcs[g], "%s %s" % (REL, g))
            for nd in ast.walk(mod.funcs[g]):
                if isinstance(nd, ast.Call) and isinstance(nd.func, ast.Name) and nd.func.id in mod.funcs:
                    todo.append(nd.func.id)
    # ---- KelvinMandel_Matrix ------------------------------------------------------------
    out["km"] = {}
    for dim, n in ((2, 3), (3, 6)):
        M = vars_mat("m", n)
        it = S.Interp("KelvinMandel_Matrix(dim=%d)" % dim)
        it.modfuncs = mod.funcs
        r = it.run(mod.funcs["KelvinMandel_Matrix"], {"dim": dim, "M": M})
        S.need(r, it.where)
        if not (isinstance(r, Arr) and r.shape == (n, n)):
            raise TranslateError("%s: result is not a %dx%d array" % (it.where, n, n))
        T = []
        for i in range(n):
            row = []
            for j in range(n):
                e = r.data[i][j]
                mij = M.data[i][j]
                if e == mij:
                    row.append(S.C(1))
                elif S.is_tree(e) and e[0] == '*' and e[1] == mij and not (S.tree_vars(e[2]) - {"r2"}):
                    row.append(e[2])
                elif S.is_tree(e) and e[0] == '*' and e[2] == mij and not (S.tree_vars(e[1]) - {"r2"}):
                    row.append(e[1])
                else:
                    raise TranslateError("%s: entry (%d,%d) is not M[i,j] times a constant" % (it.where, i, j))
            T.append(row)
        out["km"][dim] = T
    # ---- Get_Pmat -------------------------------------------------------------------------
    out["pmat"] = {}
    for dim in (2, 3):
        a = [('v', "a%d" % (i + 1)) for i in range(dim)]
        b = [('v', "b%d" % (i + 1)) for i in range(dim)]
        rec = {}
        for mandel in (True, False):
            it = _PmatInterp("Get_Pmat(dim=%d,useMandel=%s)" % (dim, mandel), [(list(a), ('v', 'n1')), (list(b), ('v', 'n2'))])
            it.modfuncs = mod.funcs
            r = it.run(mod.funcs["Get_Pmat"], {"axis_1": Arr(list(a)), "axis_2": Arr(list(b)), "useMandel": mandel})
            S.need(r, it.where)
            n = 3 if dim == 2 else 6
            if mandel:
                if not (isinstance(r, Arr) and r.shape == (n, n)):
                    raise TranslateError("%s: result is not a %dx%d array" % (it.where, n, n))
                rec["P"] = [[S.as_tree(x) for x in row] for row in r.data]
            else:
                if not (isinstance(r, tuple) and len(r) == 2 and all(isinstance(x, Arr) and x.shape == (n, n) for x in r)):
                    raise TranslateError("%s: result is not a pair of %dx%d arrays" % (it.where, n, n))
                rec["Ps"] = [[S.as_tree(x) for x in row] for row in r[0].data]
                rec["Pe"] = [[S.as_tree(x) for x in row] for row in r[1].data]
        allv = set()
        for k in ("P", "Ps", "Pe"):
            for row in rec[k]:
                for e in row:
                    allv |= S.tree_vars(e)
        extra = allv - set(x[1] for x in a + b) - {"n1", "n2", "r2"}
        if extra:
            raise TranslateError("Get_Pmat(dim=%d): unexpected free variables %s" % (dim, sorted(extra)))
        rec["uses_norm"] = bool(allv & {"n1", "n2"})
        out["pmat"][dim] = rec
    # ---- Apply_Pmat -------------------------------------------------------------------------
    out["apply"] = {}
    for tg in (True, False):
        P, M = vars_mat("p", 6), vars_mat("m", 6)
        it = S.Interp("Apply_Pmat(toGlobal=%s)" % tg)
        it.modfuncs = mod.funcs
        seen = {}

        def einsum(args, kw, seen=seen, P=P, M=M, it=it):
            if len(args) != 4 or not isinstance(args[0], str) or args[1] is not P or args[2] is not M or args[3] is not P:
                raise TranslateError("%s: einsum operands are not (subscripts, P, M, P)" % it.where)
            seen["spec"] = args[0]
            return Sym('apply', (args[0],), (6, 6))
        it.calls["einsum"] = einsum
        r = it.run(mod.funcs["Apply_Pmat"], {"P": P, "M": M, "toGlobal": tg})
        if not (isinstance(r, Sym) and r.op == 'apply'):
            raise TranslateError("%s: does not return the einsum result" % it.where)
        c = _canon(seen["spec"].replace(" ", ""))
        if c not in EINSUM_MEANING:
            raise TranslateError("%s: einsum subscripts %r not recognised" % (it.where, seen["spec"]))
        out["apply"][tg] = {"spec": seen["spec"], "meaning": EINSUM_MEANING[c]}
    return out


# ------------------------------------------------------------------------------------------
def emit_coq(pm):
    L = ["(* GENERATED from %s by translator/pmat.py — do not edit *)" % pm["file"],
         "From Coq Require Import Reals List.", "From EFLib Require Import C11_MatR.",
         "Import ListNotations.", "Open Scope R_scope.", ""]
    for dim in (2, 3):
        L.append("Definition km_T%d (r2 : R) : mat :=\n  %s." % (dim, S.coq_mat(pm["km"][dim])))
        L.append("Definition km%d (r2 : R) (M : mat) : mat := hadamard M (km_T%d r2)." % (dim, dim))
    for dim in (2, 3):
        av = " ".join("a%d" % (i + 1) for i in range(dim))
        bv = " ".join("b%d" % (i + 1) for i in range(dim))
        for k, nm in (("P", "pmat"), ("Ps", "pmat_s"), ("Pe", "pmat_e")):
            L.append("(* Get_Pmat, axes of dimension %d; n1 n2 stand for np.linalg.norm(axis_1), np.linalg.norm(axis_2) *)" % dim)
            L.append("Definition %s%d (%s %s n1 n2 r2 : R) : mat :=\n  %s." % (nm, dim, av, bv, S.coq_mat(pm["pmat"][dim][k])))
    for tg, nm in ((True, "apply_pmat_global"), (False, "apply_pmat_material")):
        body = "mmul n (mmul n P M) (mtrans n P)" if pm["apply"][tg]["meaning"] == "PMPt" else "mmul n (mmul n (mtrans n P) M) P"
        L.append("(* Apply_Pmat(toGlobal=%s): einsum %r *)" % (tg, pm["apply"][tg]["spec"]))
        L.append("Definition %s (n : nat) (P M : mat) : mat := %s." % (nm, body))
    return "\n".join(L) + "\n"


# ------------------------------------------------------------------------------------------
def eval_mat(rows, env, conv=Fraction):
    return [[S.ev_tree(e, env, conv) for e in r] for r in rows]
