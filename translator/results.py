"""C16 translator: fail-closed symbolic execution (python ast, no import of EasyFEA) of

  * every simulation class's `Results_Available()` -> concrete list of advertised names per
    configuration (dim / dof_n / dynamic / Timoshenko),
  * every `Result()` if/elif chain (incl. `__indexResult`/`_indexResult`, the guard
    `_Results_Check_Available`, the nested `field_e_pg` closure and the call into
    `Models/_utils.py::Result_strain_or_stress_field_e` ->
    `__Result_in_Strain_or_Stress_field`) -> for every name a *wiring entry*
    (which state vector u/v/a, which column; which tensor, which component, rescaled or not;
    von Mises formula tree; opaque; no branch; raises),
  * the von Mises formulas and the Kelvin-Mandel rescale of `Models/_utils.py`.

and the emission of `Gen_Results.v`.

Accepted subset: straight-line assignments, if/elif/else, return, raise, nested def, augmented
assignment on a tensor slice, expression statements; expressions over constants, lists, tuples,
dicts, f-strings, comparisons, boolean operators, subscripts, list comprehensions / generator
expressions over concrete iterables, and calls.  Every *control-flow decision* must evaluate to
a concrete bool (otherwise TranslateError).  Data the wiring does not depend on is carried as
('opaque', source-text)."""
import ast
import os
import types

from translator.pyexpr import TranslateError

SIM_FILES = {
    "Elastic": "EasyFEA/Simulations/_elastic.py",
    "WeakForms": "EasyFEA/Simulations/_weakforms.py",
    "HyperElastic": "EasyFEA/Simulations/_hyperelastic.py",
    "InElastic": "EasyFEA/Simulations/_inelastic.py",
    "Thermal": "EasyFEA/Simulations/_thermal.py",
    "Beam": "EasyFEA/Simulations/_beam.py",
    "PhaseField": "EasyFEA/Simulations/_phasefield.py",
}
UTILS = "EasyFEA/Models/_utils.py"

_SLOT = types.SimpleNamespace(start=0, stop=1)
_SLOT6 = types.SimpleNamespace(start=1, stop=7)

# configurations explored per class (finite; the bound is part of the theorem statement)
CONFIGS = {
    "Elastic": [dict(name="dim2", dim=2), dict(name="dim3", dim=3)],
    "WeakForms": [dict(name="dof1", dof_n=1, dim=2), dict(name="dof2", dof_n=2, dim=2), dict(name="dof3", dof_n=3, dim=3)],
    "HyperElastic": [dict(name="dim2_static", dim=2, dyn=False), dict(name="dim2_dynamic", dim=2, dyn=True),
                     dict(name="dim3_static", dim=3, dyn=False), dict(name="dim3_dynamic", dim=3, dyn=True)],
    "InElastic": [dict(name="dim2", dim=2, slots={}), dict(name="dim3", dim=3, slots={}),
                  dict(name="dim2_slots", dim=2, slots={"p": _SLOT, "epsP": _SLOT6}),
                  dict(name="dim3_slots", dim=3, slots={"p": _SLOT, "epsP": _SLOT6})],
    "Thermal": [dict(name="any", dim=2)],
    "Beam": [dict(name="dim1", dim=1, dof_n=1, timo=False), dict(name="dim2_EB", dim=2, dof_n=3, timo=False),
             dict(name="dim2_Timo", dim=2, dof_n=3, timo=True), dict(name="dim3_EB", dim=3, dof_n=6, timo=False),
             dict(name="dim3_Timo", dim=3, dof_n=6, timo=True)],
    "PhaseField": [dict(name="dim2", dim=2), dict(name="dim3", dim=3)],
}

# source text of configuration reads -> configuration key
LEAVES = {
    "self.dim": "dim",
    "self.structure.dim": "dim",
    "self.Get_dof_n(self.problemType)": "dof_n",
    "self.weakForms.field.dof_n": "dof_n",
    "self.structure.dof_n": "dof_n",
    "self.algo in AlgoType.Get_Hyperbolic_Types()": "dyn",
    "self.useTimoshenko": "timo",
    "self.material.layout.slots": "slots",
}
GETTERS = {"_Get_u_n": "u", "_Get_v_n": "v", "_Get_a_n": "a"}
STRAIN_CALLS = {"_Calc_Epsilon_e_pg", "_Calc_GreenLagrange"}
STRESS_CALLS = {"_Calc_Sigma_e_pg", "_Calc_SecondPiolaKirchhoff", "Compute_stress"}


def tensor_dim(cname, dim, kind):
    """dimension of the tensor a strain/stress array of class `cname` carries.  HyperElastic's
    Green-Lagrange strain is always the full 3x3 tensor (`Compute_GreenLagrange` pads to 3x3,
    `Project_Kelvin` gives 6 components); checked against the running code by the
    model-vs-implementation comparison of every run."""
    if cname == "HyperElastic" and kind == "strain":
        return 3
    return dim


def tensor_ncomp(cname, dim, kind):
    if cname == "Beam":
        return {"strain": {1: 1, 2: 2, 3: 4}, "stress": {1: 1, 2: 3, 3: 6}}[kind][dim]
    return {2: 3, 3: 6}[tensor_dim(cname, dim, kind)]


class PyRaise(Exception):
    """the interpreted code executes `raise`"""


class _Return(Exception):
    def __init__(self, v):
        self.v = v


class Tensor:
    """a per-element per-Gauss-point strain/stress vector the interpreted code manipulates"""

    def __init__(self, kind, ncomp):
        self.kind = kind
        self.ncomp = ncomp
        self.scale = [()] * ncomp    # tuple of factors applied in place to each component
        self.meaned = False

    def copy(self):
        t = Tensor(self.kind, self.ncomp)
        t.scale = list(self.scale)
        t.meaned = self.meaned
        return t


def opaque(src):
    return ("opaque", src)


def is_opaque(v):
    return isinstance(v, tuple) and len(v) == 2 and v[0] == "opaque"


def is_sym(v):
    return isinstance(v, Tensor) or (isinstance(v, tuple) and v and isinstance(v[0], str) and v[0] in
                                     ("opaque", "field", "reshaped", "col", "norm", "tcomp", "arith", "sqrt", "mean"))


class ClassInfo:
    def __init__(self, name, path, cls_node, module):
        self.name = name
        self.path = path
        self.node = cls_node
        self.module = module
        self.methods = {}
        self.props = {}
        for n in cls_node.body:
            if isinstance(n, ast.FunctionDef):
                isprop = any(isinstance(d, ast.Name) and d.id == "property" for d in n.decorator_list)
                if isprop:
                    self.props[n.name] = n
                else:
                    self.methods[n.name] = n

    def method(self, name):
        if name.startswith("__") and not name.endswith("__"):
            pass
        if name not in self.methods:
            raise TranslateError("%s: method %s not found in class %s" % (self.path, name, self.name))
        return self.methods[name]

    def field_of_property(self, prop):
        """@property def displacement(self): return self._Get_u_n(<ptype>)  ->  ('field','u',ptype_src,prop)"""
        n = self.props.get(prop)
        if n is None:
            return None
        body = [s for s in n.body if not (isinstance(s, ast.Expr) and isinstance(s.value, ast.Constant))]
        if len(body) == 1 and isinstance(body[0], ast.Return) and isinstance(body[0].value, ast.Call):
            c = body[0].value
            f = c.func
            if isinstance(f, ast.Attribute) and isinstance(f.value, ast.Name) and f.value.id == "self" and f.attr in GETTERS and len(c.args) == 1:
                return ("field", GETTERS[f.attr], ast.unparse(c.args[0]), prop)
        return None


def load_class(repo, cname):
    path = os.path.join(repo, SIM_FILES[cname])
    mod = ast.parse(open(path).read(), filename=path)
    for n in mod.body:
        if isinstance(n, ast.ClassDef) and n.name == cname:
            return ClassInfo(cname, SIM_FILES[cname], n, mod)
    raise TranslateError("%s: class %s not found" % (SIM_FILES[cname], cname))


def load_utils(repo):
    path = os.path.join(repo, UTILS)
    mod = ast.parse(open(path).read(), filename=path)
    fns = {n.name: n for n in mod.body if isinstance(n, ast.FunctionDef)}
    for need in ("Result_strain_or_stress_field_e", "__Result_in_Strain_or_Stress_field"):
        if need not in fns:
            raise TranslateError("%s: function %s not found" % (UTILS, need))
    # shape check of the group loop: concatenate([asarray(__Result_in...(field_e_pg(groupElem), result, coef).mean(1)) for groupElem in list_groupElem])
    outer = fns["Result_strain_or_stress_field_e"]
    src = ast.unparse(outer)
    calls = [n for n in ast.walk(outer) if isinstance(n, ast.Call) and isinstance(n.func, ast.Name) and n.func.id == "__Result_in_Strain_or_Stress_field"]
    if len(calls) != 1:
        raise TranslateError("%s: Result_strain_or_stress_field_e must call __Result_in_Strain_or_Stress_field exactly once" % UTILS)
    c = calls[0]
    if [ast.unparse(a) for a in c.args] != ["field_e_pg(groupElem)", "result", "coef"] or c.keywords:
        raise TranslateError("%s: unexpected arguments %s" % (UTILS, ast.unparse(c)))
    means = [n for n in ast.walk(outer) if isinstance(n, ast.Call) and isinstance(n.func, ast.Attribute) and n.func.attr == "mean" and n.func.value is c]
    if len(means) != 1 or [ast.unparse(a) for a in means[0].args] != ["1"]:
        raise TranslateError("%s: expected `.mean(1)` over Gauss points directly on the extracted field" % UTILS)
    if "for groupElem in list_groupElem" not in src or "np.concatenate" not in src:
        raise TranslateError("%s: expected concatenation over list_groupElem" % UTILS)
    return fns


# -------------------------------------------------------------------------------------------
class Interp:
    def __init__(self, cls, cfg, utils, advertised=None):
        self.cls = cls
        self.cfg = cfg
        self.utils = utils
        self.advertised = advertised
        self.depth = 0

    def err(self, node, msg):
        raise TranslateError("%s:%s: %s: %s" % (self.cls.path, getattr(node, "lineno", "?"), msg, ast.unparse(node)[:90]))

    # ---- calling interpreted functions -------------------------------------------------
    def call_def(self, fn, args, kwargs, closure=None, is_method=True):
        self.depth += 1
        if self.depth > 12:
            raise TranslateError("recursion too deep in %s" % fn.name)
        a = fn.args
        if a.vararg or a.kwarg or a.posonlyargs:
            self.err(fn, "signature")
        names = [x.arg for x in a.args]
        if is_method:
            names = names[1:]
        env = dict(closure or {})
        defaults = a.defaults
        dstart = len(a.args) - len(defaults) - (1 if is_method else 0)
        for i, nm in enumerate(names):
            if i < len(args):
                env[nm] = args[i]
            elif nm in kwargs:
                env[nm] = kwargs[nm]
            elif i >= dstart:
                env[nm] = self.ev(defaults[i - dstart], env)
            else:
                self.err(fn, "missing argument %s" % nm)
        for k in kwargs:
            if k not in names:
                self.err(fn, "unexpected keyword %s" % k)
        try:
            self.block(fn.body, env)
            r = None
        except _Return as ret:
            r = ret.v
        self.depth -= 1
        return r

    # ---- statements ----------------------------------------------------------------------
    def block(self, stmts, env):
        for s in stmts:
            self.stmt(s, env)

    def truth(self, v, node):
        if isinstance(v, (bool, int, str, list, tuple, dict)) and not is_sym(v):
            return bool(v)
        if v is None:
            return False
        self.err(node, "control flow depends on a value the translator cannot decide (%r)" % (v,))

    def stmt(self, s, env):
        if isinstance(s, ast.Expr):
            if isinstance(s.value, ast.Constant):
                return
            self.ev(s.value, env)
        elif isinstance(s, ast.Assign):
            v = self.ev(s.value, env)
            for t in s.targets:
                self.assign(t, v, env)
        elif isinstance(s, ast.AnnAssign):
            if s.value is not None:
                self.assign(s.target, self.ev(s.value, env), env)
        elif isinstance(s, ast.AugAssign):
            self.augassign(s, env)
        elif isinstance(s, ast.If):
            if self.truth(self.ev(s.test, env), s.test):
                self.block(s.body, env)
            else:
                self.block(s.orelse, env)
        elif isinstance(s, ast.Return):
            raise _Return(None if s.value is None else self.ev(s.value, env))
        elif isinstance(s, ast.Raise):
            raise PyRaise(ast.unparse(s))
        elif isinstance(s, ast.Assert):
            return   # checks only; cannot change the wiring
        elif isinstance(s, ast.FunctionDef):
            env[s.name] = ("closure", s, env)
        elif isinstance(s, ast.Pass):
            return
        elif isinstance(s, ast.For):
            it = self.ev(s.iter, env)
            if is_opaque(it):
                # loop over runtime data (e.g. beams of a structure): only opaque data may be produced
                sub = dict(env)
                self.assign(s.target, opaque(ast.unparse(s.target)), sub)
                for st in s.body:
                    if not isinstance(st, (ast.Assign, ast.If, ast.Expr)):
                        self.err(st, "statement in a loop over runtime data")
                return
            for x in it:
                self.assign(s.target, x, env)
                self.block(s.body, env)
        else:
            self.err(s, "statement %s" % type(s).__name__)

    def assign(self, t, v, env):
        if isinstance(t, ast.Name):
            env[t.id] = v
        elif isinstance(t, (ast.Tuple, ast.List)):
            if is_opaque(v):
                for i, e in enumerate(t.elts):
                    self.assign(e, opaque("%s[%d]" % (v[1], i)), env)
                return
            vs = list(v)
            if len(vs) != len(t.elts):
                self.err(t, "unpacking arity")
            for e, x in zip(t.elts, vs):
                self.assign(e, x, env)
        elif isinstance(t, ast.Subscript):
            base = self.ev(t.value, env)
            if is_opaque(base):
                return
            if isinstance(base, (list, dict)):
                base[self.ev(t.slice, env)] = v
                return
            self.err(t, "assignment target")
        else:
            self.err(t, "assignment target")

    def tensor_indices(self, T, sl, env, node):
        """indices addressed by T[:, :, k] / T[:, :, a:] / Tmean[:, k]"""
        if not isinstance(sl, ast.Tuple):
            self.err(node, "tensor subscript")
        nlead = 1 if T.meaned else 2
        if len(sl.elts) != nlead + 1:
            self.err(node, "tensor subscript rank")
        for e in sl.elts[:nlead]:
            if not (isinstance(e, ast.Slice) and e.lower is None and e.upper is None and e.step is None):
                self.err(node, "tensor subscript: leading axes must be `:`")
        last = sl.elts[-1]
        if isinstance(last, ast.Slice):
            lo = 0 if last.lower is None else self.ev(last.lower, env)
            hi = T.ncomp if last.upper is None else self.ev(last.upper, env)
            if last.step is not None or not isinstance(lo, int) or not isinstance(hi, int):
                self.err(node, "tensor slice")
            return list(range(lo, hi)), True
        k = self.ev(last, env)
        if not isinstance(k, int) or isinstance(k, bool):
            self.err(node, "tensor component index is not a concrete integer (%r)" % (k,))
        if k < 0:
            k += T.ncomp
        if not 0 <= k < T.ncomp:
            raise PyRaise("IndexError: component %d of a %d-component %s array" % (k, T.ncomp, T.kind))
        return [k], False

    def augassign(self, s, env):
        if isinstance(s.target, ast.Subscript):
            base = self.ev(s.target.value, env)
            if isinstance(base, Tensor):
                idx, _ = self.tensor_indices(base, s.target.slice, env, s)
                v = self.ev(s.value, env)
                if not isinstance(s.op, ast.Mult):
                    self.err(s, "in-place tensor update other than *=")
                for k in idx:
                    base.scale[k] = base.scale[k] + (v,)
                return
            if is_opaque(base):
                return
        if isinstance(s.target, ast.Name):
            cur = env.get(s.target.id)
            v = self.ev(s.value, env)
            if isinstance(cur, (int, float, str, list)) and isinstance(v, (int, float, str, list)) and isinstance(s.op, ast.Add):
                env[s.target.id] = cur + v
                return
            env[s.target.id] = opaque(ast.unparse(s))
            return
        self.err(s, "augmented assignment")

    # ---- expressions ---------------------------------------------------------------------
    def ev(self, n, env):
        src = ast.unparse(n)
        if src in LEAVES:
            key = LEAVES[src]
            if key not in self.cfg:
                self.err(n, "configuration value %s not available for class %s" % (key, self.cls.name))
            return self.cfg[key]
        if isinstance(n, ast.Constant):
            return n.value
        if isinstance(n, ast.Name):
            if n.id in env:
                return env[n.id]
            if n.id in ("True", "False", "None"):
                return {"True": True, "False": False, "None": None}[n.id]
            return opaque(n.id)
        if isinstance(n, ast.List):
            return [self.ev(e, env) for e in n.elts]
        if isinstance(n, ast.Tuple):
            return tuple(self.ev(e, env) for e in n.elts)
        if isinstance(n, ast.Dict):
            return {self.ev(k, env): self.ev(v, env) for k, v in zip(n.keys, n.values)}
        if isinstance(n, ast.JoinedStr):
            out = ""
            for p in n.values:
                if isinstance(p, ast.Constant):
                    out += str(p.value)
                elif isinstance(p, ast.FormattedValue) and p.format_spec is None and p.conversion == -1:
                    v = self.ev(p.value, env)
                    if is_sym(v):
                        return opaque(src)
                    out += str(v)
                else:
                    return opaque(src)
            return out
        if isinstance(n, ast.BoolOp):
            isand = isinstance(n.op, ast.And)
            v = None
            for e in n.values:
                v = self.ev(e, env)
                t = self.truth(v, e)
                if isand and not t:
                    return v
                if not isand and t:
                    return v
            return v
        if isinstance(n, ast.UnaryOp):
            v = self.ev(n.operand, env)
            if isinstance(n.op, ast.Not):
                return not self.truth(v, n.operand)
            if is_sym(v):
                if isinstance(n.op, ast.USub):
                    return self.arith("neg", v, None, src)
                return opaque(src)
            if isinstance(n.op, ast.USub):
                return -v
            if isinstance(n.op, ast.UAdd):
                return +v
            self.err(n, "unary operator")
        if isinstance(n, ast.Compare):
            return self.compare(n, env)
        if isinstance(n, ast.IfExp):
            return self.ev(n.body, env) if self.truth(self.ev(n.test, env), n.test) else self.ev(n.orelse, env)
        if isinstance(n, ast.BinOp):
            a, b = self.ev(n.left, env), self.ev(n.right, env)
            opn = {ast.Add: "+", ast.Sub: "-", ast.Mult: "*", ast.Div: "/", ast.Pow: "**", ast.MatMult: "@",
                   ast.FloorDiv: "//", ast.Mod: "%"}.get(type(n.op))
            if opn is None:
                self.err(n, "binary operator")
            if is_sym(a) or is_sym(b):
                return self.arith(opn, a, b, src)
            try:
                return {"+": lambda: a + b, "-": lambda: a - b, "*": lambda: a * b, "/": lambda: a / b, "**": lambda: a ** b,
                        "//": lambda: a // b, "%": lambda: a % b, "@": lambda: opaque(src)}[opn]()
            except Exception as ex:
                self.err(n, "arithmetic: %s" % ex)
        if isinstance(n, ast.Subscript):
            return self.subscript(n, env)
        if isinstance(n, ast.Attribute):
            return self.attribute(n, env)
        if isinstance(n, ast.Call):
            return self.call(n, env)
        if isinstance(n, (ast.ListComp, ast.GeneratorExp)):
            return self.comp(n, env)
        if isinstance(n, ast.Lambda):
            return opaque(src)
        self.err(n, "expression %s" % type(n).__name__)

    def arith(self, op, a, b, src):
        # out-of-place Kelvin-Mandel rescale of one component:  comp / coef,  comp * (1 / coef),  (1 / coef) * comp
        def is_comp(x):
            return isinstance(x, tuple) and len(x) == 5 and x[0] == "tcomp"
        if op == "/" and is_comp(a) and b == ("opaque", "COEF"):
            return ("tcomp", a[1], a[2], a[3] + (("arith", "/", 1, ("opaque", "COEF")),), a[4])
        if op == "*" and is_comp(a) and is_inv_coef(b):
            return ("tcomp", a[1], a[2], a[3] + (b,), a[4])
        if op == "*" and is_comp(b) and is_inv_coef(a):
            return ("tcomp", b[1], b[2], b[3] + (a,), b[4])
        ok = lambda x: isinstance(x, (int, float)) and not isinstance(x, bool) or (isinstance(x, tuple) and x and x[0] in ("tcomp", "arith", "opaque"))
        if op == "neg":
            return ("arith", "neg", a) if ok(a) and not is_opaque(a) else opaque(src)
        if ok(a) and ok(b) and op in ("+", "-", "*", "/", "**"):
            return ("arith", op, a, b)
        return opaque(src)

    def compare(self, n, env):
        left = self.ev(n.left, env)
        res = True
        for op, rn in zip(n.ops, n.comparators):
            right = self.ev(rn, env)
            if isinstance(op, (ast.Is, ast.IsNot)):
                if right is None or left is None:
                    r = (left is right) if isinstance(op, ast.Is) else (left is not right)
                else:
                    self.err(n, "`is` on non-None")
            else:
                if is_opaque(left) or is_opaque(right) or isinstance(left, Tensor) or isinstance(right, Tensor):
                    return opaque(ast.unparse(n))
                try:
                    if isinstance(op, ast.Eq):
                        r = left == right
                    elif isinstance(op, ast.NotEq):
                        r = left != right
                    elif isinstance(op, ast.In):
                        r = left in right
                    elif isinstance(op, ast.NotIn):
                        r = left not in right
                    elif isinstance(op, ast.Lt):
                        r = left < right
                    elif isinstance(op, ast.LtE):
                        r = left <= right
                    elif isinstance(op, ast.Gt):
                        r = left > right
                    elif isinstance(op, ast.GtE):
                        r = left >= right
                    else:
                        self.err(n, "comparison operator")
                except TypeError as ex:
                    self.err(n, "comparison: %s" % ex)
            res = res and r
            if not res:
                return False
            left = right
        return res

    def comp(self, n, env):
        out = []

        def rec(gens, e):
            if not gens:
                out.append(self.ev(n.elt, e))
                return
            g = gens[0]
            it = self.ev(g.iter, e)
            if is_sym(it):
                raise _OpaqueComp()
            for x in it:
                e2 = dict(e)
                self.assign(g.target, x, e2)
                if all(self.truth(self.ev(c, e2), c) for c in g.ifs):
                    rec(gens[1:], e2)
        try:
            rec(n.generators, dict(env))
        except _OpaqueComp:
            return opaque(ast.unparse(n))
        return out

    def subscript(self, n, env):
        base = self.ev(n.value, env)
        src = ast.unparse(n)
        if isinstance(base, Tensor):
            idx, issl = self.tensor_indices(base, n.slice, env, n)
            if issl:
                return opaque(src)
            k = idx[0]
            return ("tcomp", base.kind, k, base.scale[k], base.meaned)
        if isinstance(base, tuple) and base and base[0] == "reshaped":
            sl = n.slice
            if isinstance(sl, ast.Tuple) and len(sl.elts) == 2 and isinstance(sl.elts[0], ast.Slice) and sl.elts[0].lower is None and sl.elts[0].upper is None and sl.elts[0].step is None:
                k = self.ev(sl.elts[1], env)
                if isinstance(k, int) and not isinstance(k, bool):
                    return ("col", base[1], k)
            return opaque(src)
        if is_sym(base):
            return opaque(src)
        if isinstance(n.slice, ast.Slice):
            lo = None if n.slice.lower is None else self.ev(n.slice.lower, env)
            hi = None if n.slice.upper is None else self.ev(n.slice.upper, env)
            st = None if n.slice.step is None else self.ev(n.slice.step, env)
            return base[lo:hi:st]
        k = self.ev(n.slice, env)
        if is_sym(k):
            return opaque(src)
        try:
            return base[k]
        except (KeyError, IndexError, TypeError) as ex:
            raise PyRaise("%s: %s" % (type(ex).__name__, ex))

    def attribute(self, n, env):
        src = ast.unparse(n)
        if isinstance(n.value, ast.Name) and n.value.id == "self":
            f = self.cls.field_of_property(n.attr)
            if f is not None:
                return f
            return opaque(src)
        base = self.ev(n.value, env)
        if isinstance(base, Tensor) and n.attr == "shape":
            lead = (opaque("Ne"),) if base.meaned else (opaque("Ne"), opaque("nPg"))
            return lead + (base.ncomp,)
        if isinstance(base, types.SimpleNamespace):
            return getattr(base, n.attr)
        if is_sym(base) or base is None:
            return opaque(src)
        if isinstance(base, (list, dict, str, tuple)):
            return ("bound", base, n.attr)
        return opaque(src)

    def tensor_of(self, kind, method=""):
        return Tensor(kind, tensor_ncomp(self.cls.name, self.cfg["dim"], kind))

    def call(self, n, env):
        src = ast.unparse(n)
        f = n.func
        args = [self.ev(a, env) for a in n.args]
        if any(isinstance(a, ast.Starred) for a in n.args):
            return opaque(src)
        kwargs = {k.arg: self.ev(k.value, env) for k in n.keywords if k.arg is not None}
        # ---- self.method(...)
        if isinstance(f, ast.Attribute) and isinstance(f.value, ast.Name) and f.value.id == "self":
            m = f.attr
            if m == "_Results_Check_Available":
                if self.advertised is None:
                    self.err(n, "availability guard used before Results_Available was translated")
                return args[0] in self.advertised
            if m in ("__indexResult", "_indexResult"):
                return self.call_def(self.cls.method(m), args, kwargs)
            if m == "Results_Reshape_values":
                return ("reshape_values", args[0])
            if m == "Set_Iter":
                return None
            if m in STRAIN_CALLS:
                return self.tensor_of("strain")
            if m in STRESS_CALLS:
                return self.tensor_of("stress")
            return opaque(src)
        if isinstance(f, ast.Attribute) and f.attr in STRESS_CALLS and ast.unparse(f.value) == "self.material":
            return self.tensor_of("stress")
        # ---- plain names
        if isinstance(f, ast.Name):
            if f.id == "range":
                if all(isinstance(a, int) for a in args):
                    return list(range(*args))
                self.err(n, "range over a non-concrete bound")
            if f.id == "getattr" and len(n.args) == 2 and isinstance(n.args[0], ast.Name) and n.args[0].id == "self":
                # attribute of the simulation chosen through a table: same as self.<name>
                if not isinstance(args[1], str):
                    self.err(n, "getattr(self, <name>) with a name the translator cannot decide (%r)" % (args[1],))
                fld = self.cls.field_of_property(args[1])
                return fld if fld is not None else opaque("self." + args[1])
            if f.id == "len":
                if is_sym(args[0]):
                    return opaque(src)
                return len(args[0])
            if f.id in ("list", "tuple") and len(args) == 1 and not is_sym(args[0]):
                return list(args[0]) if f.id == "list" else tuple(args[0])
            if f.id in env and isinstance(env[f.id], tuple) and env[f.id][0] == "closure":
                _, fn, cenv = env[f.id]
                return self.call_def(fn, args, kwargs, closure=cenv, is_method=False)
            if f.id == "Result_strain_or_stress_field_e":
                return self.strain_stress(n, args, kwargs)
            if f.id in ("Exception", "ValueError", "TypeError"):
                return opaque(src)
            return opaque(src)
        # ---- methods of concrete containers
        if isinstance(f, ast.Attribute):
            base = self.ev(f.value, env)
            if isinstance(base, list) and f.attr in ("extend", "append", "reverse", "index"):
                if f.attr == "extend":
                    v = args[0]
                    if is_sym(v):
                        self.err(n, "list extended by runtime data")
                    base.extend(list(v))
                    return None
                if f.attr == "append":
                    base.append(args[0])
                    return None
                if f.attr == "index":
                    try:
                        return base.index(args[0])
                    except ValueError as ex:
                        raise PyRaise("ValueError: %s" % ex)
                base.reverse()
                return None
            if isinstance(base, str) and f.attr in ("index", "find", "startswith", "endswith", "lower", "upper", "count") and not any(is_sym(a) for a in args):
                try:
                    return getattr(base, f.attr)(*args)
                except ValueError as ex:
                    raise PyRaise("ValueError: %s" % ex)
            if isinstance(base, dict) and f.attr in ("items", "keys", "values", "get"):
                if f.attr == "get":
                    return base.get(*args)
                return list(getattr(base, f.attr)())
            if isinstance(base, tuple) and base and base[0] == "field" and f.attr == "reshape":
                if [ast.unparse(a) for a in n.args] in (["Nn", "-1"], ["(Nn, -1)"]) and env.get("Nn") == opaque("self.mesh.Nn"):
                    return ("reshaped", base)
                if [ast.unparse(a) for a in n.args] in (["self.mesh.Nn", "-1"], ["(self.mesh.Nn, -1)"]):
                    return ("reshaped", base)
                return opaque(src)
            if isinstance(base, Tensor) and f.attr == "mean":
                if [ast.unparse(a) for a in n.args] == ["1"] or {k.arg: ast.unparse(k.value) for k in n.keywords} == {"axis": "1"}:
                    if base.meaned:
                        return opaque(src)
                    t = base.copy()
                    t.meaned = True
                    return t
                return opaque(src)
            if isinstance(base, tuple) and base and base[0] in ("tcomp", "arith", "sqrt") and f.attr == "mean":
                if [ast.unparse(a) for a in n.args] == ["1"] or {k.arg: ast.unparse(k.value) for k in n.keywords} == {"axis": "1"}:
                    return ("mean", base)
                return opaque(src)
            fs = ast.unparse(f)
            if fs == "np.linalg.norm":
                if len(args) == 1 and isinstance(args[0], tuple) and args[0] and args[0][0] == "reshaped" and kwargs.get("axis") == 1:
                    return ("norm", args[0][1])
                return opaque(src)
            if fs in ("np.asarray", "FeArray.asfearray", "np.array") and len(args) == 1:
                return args[0]
            if fs == "np.sqrt" and len(args) == 1:
                a = args[0]
                if isinstance(a, tuple) and a and a[0] in ("arith", "tcomp"):
                    return ("sqrt", a)
                if isinstance(a, (int, float)):
                    return ("arith", "sqrtc", a)
                return opaque(src)
            if fs == "Terminal.MyPrintError":
                return None
            return opaque(src)
        return opaque(src)

    def strain_stress(self, n, args, kwargs):
        if args or set(kwargs) != {"field_e_pg", "list_groupElem", "result", "coef"}:
            self.err(n, "Result_strain_or_stress_field_e call shape")
        clo = kwargs["field_e_pg"]
        if not (isinstance(clo, tuple) and clo[0] == "closure"):
            self.err(n, "field_e_pg is not a local function")
        if ast.unparse([k.value for k in n.keywords if k.arg == "list_groupElem"][0]) != "self.mesh.Get_list_groupElem()":
            self.err(n, "list_groupElem is not mesh.Get_list_groupElem()")
        T = self.call_def(clo[1], [opaque("groupElem")], {}, closure=clo[2], is_method=False)
        if not isinstance(T, Tensor):
            self.err(n, "field_e_pg does not return a strain/stress array the translator recognises")
        fn = self.utils["__Result_in_Strain_or_Stress_field"]
        sub = Interp(self.cls, self.cfg, self.utils, self.advertised)
        r = sub.call_def(fn, [T, kwargs["result"], ("opaque", "COEF")], {}, is_method=False)
        if isinstance(r, Tensor):
            return ("mean", r)
        return ("mean", r)


class _OpaqueComp(Exception):
    pass


# -------------------------------------------------------------------------------------------
def is_inv_coef(v):
    """1 / coef"""
    return v == ("arith", "/", 1, ("opaque", "COEF"))


def entry_of(v):
    """final symbolic value of Result(name) -> wiring entry (python tuple)"""
    if isinstance(v, tuple) and v and v[0] == "reshape_values":
        v = v[1]
    else:
        # returned without Results_Reshape_values (scalars such as Wdef)
        if is_opaque(v):
            return ("opaque", v[1])
        if v is None:
            return ("nobranch",)
        return ("opaque", repr(v)[:60])
    if v is None:
        return ("nobranch",)
    if isinstance(v, Tensor) and v.meaned:
        v = ("mean", v)
    if isinstance(v, tuple) and v and v[0] == "arith" and v[1] == "*":
        return ("opaque", "scaled: %r" % (v,))
    if isinstance(v, tuple) and v:
        if v[0] == "col":
            return ("col", v[1][1], v[1][2], v[1][3], v[2])
        if v[0] == "field":
            return ("whole", v[1], v[2], v[3])
        if v[0] == "norm":
            return ("norm", v[1][1], v[1][2], v[1][3])
        if v[0] == "tcomp" and v[4]:
            return _tens_entry(v)
        if v[0] == "mean":
            w = v[1]
            if isinstance(w, Tensor):
                resc = [k for k in range(w.ncomp) if w.scale[k]]
                if all(len(w.scale[k]) == 1 and is_inv_coef(w.scale[k][0]) for k in resc):
                    return ("tensall", w.kind, w.ncomp, tuple(resc))
                return ("opaque", "tensor with unrecognised scaling")
            if isinstance(w, tuple) and w[0] == "tcomp" and not w[4]:
                return _tens_entry(w)
            if isinstance(w, tuple) and w[0] == "sqrt":
                kinds = set()
                tree = _formula(w[1], kinds)
                if tree is not None and len(kinds) == 1:
                    return ("vm", kinds.pop(), tree)
                return ("opaque", "sqrt formula not understood")
        if v[0] == "opaque":
            return ("opaque", v[1])
    return ("opaque", repr(v)[:60])


def _tens_entry(w):
    sc = w[3]
    if sc == ():
        return ("tens", w[1], w[2], False)
    if len(sc) == 1 and is_inv_coef(sc[0]):
        return ("tens", w[1], w[2], True)
    return ("opaque", "component with unrecognised scaling")


def _formula(t, kinds):
    """arith tree over tensor components -> ('c',number)|('x',k,resc)|(op,a,b)|('neg',a)|('pow',a,n)"""
    if isinstance(t, bool):
        return None
    if isinstance(t, (int, float)):
        return ("c", t)
    if isinstance(t, tuple) and t[0] == "tcomp":
        if t[4]:
            return None
        e = _tens_entry(t)
        if e[0] != "tens":
            return None
        kinds.add(t[1])
        return ("x", e[2], e[3])
    if isinstance(t, tuple) and t[0] == "arith":
        if t[1] == "neg":
            a = _formula(t[2], kinds)
            return None if a is None else ("neg", a)
        if t[1] == "**":
            a = _formula(t[2], kinds)
            if a is None or not isinstance(t[3], int) or isinstance(t[3], bool) or t[3] < 0:
                return None
            return ("pow", a, t[3])
        if t[1] in ("+", "-", "*"):
            a, b = _formula(t[2], kinds), _formula(t[3], kinds)
            return None if a is None or b is None else (t[1], a, b)
    return None


def branch_literals(fn):
    """names tested literally against `result` in the Result() chain (top-level if tests only)"""
    names = []

    def from_test(t):
        for c in ast.walk(t):
            if isinstance(c, ast.Compare) and isinstance(c.left, ast.Name) and c.left.id == "result" and len(c.ops) == 1:
                r = c.comparators[0]
                if isinstance(c.ops[0], ast.Eq) and isinstance(r, ast.Constant) and isinstance(r.value, str):
                    names.append(r.value)
                if isinstance(c.ops[0], ast.In) and isinstance(r, (ast.List, ast.Tuple)):
                    for e in r.elts:
                        if isinstance(e, ast.Constant) and isinstance(e.value, str):
                            names.append(e.value)

    def chain(node):
        from_test(node.test)
        if len(node.orelse) == 1 and isinstance(node.orelse[0], ast.If):
            chain(node.orelse[0])
    for s in fn.body:
        if isinstance(s, ast.If) and "result" in ast.unparse(s.test) and "_Results_Check_Available" not in ast.unparse(s.test):
            chain(s)
    out = []
    for x in names:
        if x not in out:
            out.append(x)
    return out


def translate(repo):
    """-> dict(classes={cls: dict(file, configs=[dict(cfg, dim, advertised, table{name: entry})], literals=[...])},
               vm={2: tree, 3: tree}, km={2: [resc idx], 3: [...]})"""
    utils = load_utils(repo)
    out = {"classes": {}, "vm": {}, "km": {}}
    for cname in SIM_FILES:
        cls = load_class(repo, cname)
        res_fn = cls.method("Result")
        av_fn = cls.method("Results_Available")
        lits = branch_literals(res_fn)
        rec = {"file": SIM_FILES[cname], "line": res_fn.lineno, "configs": [], "literals": lits}
        for cfg in CONFIGS[cname]:
            itp = Interp(cls, cfg, utils)
            try:
                adv = itp.call_def(av_fn, [], {})
            except PyRaise as ex:
                raise TranslateError("%s: Results_Available raises for %s: %s" % (cname, cfg["name"], ex))
            if not (isinstance(adv, list) and all(isinstance(x, str) for x in adv)):
                raise TranslateError("%s: Results_Available did not evaluate to a list of names for %s" % (cname, cfg["name"]))
            table = {}
            for name in adv:
                itp = Interp(cls, cfg, utils, advertised=adv)
                try:
                    v = itp.call_def(res_fn, [name], {})
                    e = entry_of(v)
                except PyRaise as ex:
                    e = ("raises", str(ex)[:80])
                table[name] = e
            rec["configs"].append({"cfg": cfg["name"], "dim": cfg["dim"], "edim": tensor_dim(cname, cfg["dim"], "strain"),
                                   "sdim": tensor_dim(cname, cfg["dim"], "stress"), "advertised": list(adv), "table": table})
        out["classes"][cname] = rec
    # von Mises formulas + Kelvin-Mandel rescale straight from Models/_utils.py
    dummy = load_class(repo, "Elastic")
    for dim in (2, 3):
        itp = Interp(dummy, {"dim": dim}, utils)
        T = Tensor("stress", {2: 3, 3: 6}[dim])
        r = itp.call_def(utils["__Result_in_Strain_or_Stress_field"], [T, "vm", ("opaque", "COEF")], {}, is_method=False)
        e = entry_of(("reshape_values", ("mean", r)))
        if e[0] != "vm":
            raise TranslateError("%s: von Mises formula (dim %d) not understood: %r" % (UTILS, dim, e))
        out["vm"][dim] = e[2]
        T2 = Tensor("stress", {2: 3, 3: 6}[dim])
        r2 = itp.call_def(utils["__Result_in_Strain_or_Stress_field"], [T2, "Stress", ("opaque", "COEF")], {}, is_method=False)
        e2 = entry_of(("reshape_values", ("mean", r2)))
        if e2[0] != "tensall":
            raise TranslateError("%s: Kelvin-Mandel rescale (dim %d) not understood: %r" % (UTILS, dim, e2))
        out["km"][dim] = list(e2[3])
    return out


# -------------------------------------------------------------------------------------------
SRC = {"u": "SU", "v": "SV", "a": "SA"}


def coq_str(s):
    return '"%s"' % s.replace('"', '""')


def coq_entry(e):
    k = e[0]
    if k == "col":
        return "(ECol %s %d)" % (SRC[e[1]], e[4])
    if k == "whole":
        return "(EWhole %s)" % SRC[e[1]]
    if k == "norm":
        return "(ENorm %s)" % SRC[e[1]]
    if k == "tens":
        return "(ETens %s %d %s)" % ("true" if e[1] == "stress" else "false", e[2], "true" if e[3] else "false")
    if k == "vm":
        return "(EVm %s)" % ("true" if e[1] == "stress" else "false")
    if k == "tensall":
        return "(ETensAll %s)" % ("true" if e[1] == "stress" else "false")
    if k == "opaque":
        return "EOpaque"
    if k == "nobranch":
        return "ENoBranch"
    if k == "raises":
        return "ERaises"
    raise TranslateError("entry %r" % (e,))


def coq_formula(t, names):
    k = t[0]
    if k == "c":
        v = t[1]
        if isinstance(v, float):
            from fractions import Fraction
            fr = Fraction(repr(v))
            return "(%d / %d)" % (fr.numerator, fr.denominator)
        return "%d" % v if v >= 0 else "(- %d)" % (-v)
    if k == "x":
        return names[t[1]]
    if k == "neg":
        return "(- %s)" % coq_formula(t[1], names)
    if k == "pow":
        return "(%s ^ %d)" % (coq_formula(t[1], names), t[2])
    return "(%s %s %s)" % (coq_formula(t[1], names), k, coq_formula(t[2], names))


def formula_resc(t, acc):
    if t[0] == "x":
        acc.setdefault(t[1], set()).add(t[2])
    elif t[0] in ("neg", "pow"):
        formula_resc(t[1], acc)
    elif t[0] in ("+", "-", "*"):
        formula_resc(t[1], acc)
        formula_resc(t[2], acc)


def emit_coq(tr):
    L = ["(* GENERATED by translator/results.py from the Result()/Results_Available() methods of",
         "   EasyFEA/Simulations/*.py and Models/_utils.py -- do not edit *)",
         "From Coq Require Import String List Bool Reals.", "Import ListNotations.", "Open Scope string_scope.", "",
         "Inductive src := SU | SV | SA.   (* _Get_u_n / _Get_v_n / _Get_a_n of the simulation *)",
         "Inductive entry :=",
         " | ECol (s : src) (k : nat)        (* column k of the (Nn,-1) reshape of the state vector *)",
         " | EWhole (s : src) | ENorm (s : src)",
         " | ETens (stress : bool) (k : nat) (resc : bool) (* Gauss-point mean of component k, times 1/coef iff resc *)",
         " | EVm (stress : bool) | ETensAll (stress : bool)",
         " | EOpaque | ENoBranch | ERaises.", "",
         "(* t_dim: space dimension; t_edim / t_sdim: dimension of the tensor carried by the strain / stress arrays *)",
         "Record simtab := { t_class : string; t_cfg : string; t_dim : nat; t_edim : nat; t_sdim : nat; t_adv : list string; t_tab : list (string * entry) }.", ""]
    names = []
    for cname, rec in tr["classes"].items():
        for c in rec["configs"]:
            ident = "tab_%s_%s" % (cname, c["cfg"])
            names.append(ident)
            L.append("Definition %s : simtab := {| t_class := %s; t_cfg := %s; t_dim := %d; t_edim := %d; t_sdim := %d;" % (
                ident, coq_str(cname), coq_str(c["cfg"]), c["dim"], c["edim"], c["sdim"]))
            L.append("  t_adv := [%s];" % "; ".join(coq_str(x) for x in c["advertised"]))
            L.append("  t_tab := [%s] |}." % ";\n    ".join("(%s, %s)" % (coq_str(k), coq_entry(v)) for k, v in c["table"].items()))
    L.append("")
    L.append("Definition all_tables : list simtab := [%s]." % "; ".join(names))
    L.append("Definition branch_literals : list (string * list string) := [%s]." % ";\n  ".join(
        "(%s, [%s])" % (coq_str(c), "; ".join(coq_str(x) for x in rec["literals"])) for c, rec in tr["classes"].items()))
    L.append("")
    L.append("Open Scope R_scope.")
    for dim, comps in ((2, ["xx", "yy", "xy"]), (3, ["xx", "yy", "zz", "yz", "xz", "xy"])):
        tree = tr["vm"][dim]
        L.append("(* argument of np.sqrt in the dim-%d von Mises branch; variables are the components after the in-place rescale *)" % dim)
        L.append("Definition vm%d_arg (%s : R) : R := %s." % (dim, " ".join(comps), coq_formula(tree, comps)))
        acc = {}
        formula_resc(tree, acc)
        L.append("Definition vm%d_rescaled : list (nat * bool) := [%s]." % (dim, "; ".join(
            "(%d%%nat, %s)" % (k, "true" if v == {True} else "false" if v == {False} else "false (* mixed *)") for k, v in sorted(acc.items()))))
        L.append("Definition km%d_rescaled : list nat := [%s]." % (dim, "; ".join("%d%%nat" % k for k in tr["km"][dim])))
    L.append("")
    return "\n".join(L)


if __name__ == "__main__":
    import sys
    import pprint
    tr = translate(sys.argv[1] if len(sys.argv) > 1 else "/repo")
    for c, rec in tr["classes"].items():
        print("==", c, rec["literals"])
        for cfg in rec["configs"]:
            print("  --", cfg["cfg"], cfg["advertised"])
            for k, v in cfg["table"].items():
                print("      ", k, v)
    pprint.pprint(tr["vm"])
    pprint.pprint(tr["km"])
