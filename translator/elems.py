"""Translate EasyFEA/FEM/Elems/_{seg,tri,quad,tetra,hexa,prism}.py (shape-function tables and
local coordinates) and GroupElemFactory.DICT_GMSH_DATA into python trees / Coq text.
Pure `ast`: EasyFEA is not imported.  Fail-closed: anything outside the accepted statement
forms raises TranslateError."""
import ast
import os
from fractions import Fraction
from . import pyexpr
from .pyexpr import TranslateError

FILES = ["_seg", "_tri", "_quad", "_tetra", "_hexa", "_prism"]
TABLES = ["_N", "_dN", "_ddN", "_dddN", "_ddddN"]


def _flatten(v):
    if isinstance(v, list):
        out = []
        for x in v:
            out.extend(_flatten(x))
        return out
    return [v]


class _Body:
    """Tiny interpreter for the straight-line bodies of the table methods."""

    def __init__(self, fn, where, nargs):
        self.env = {}
        self.where = where
        self.nargs = nargs
        self.result = None
        for st in fn.body:
            if isinstance(st, ast.Expr) and isinstance(st.value, ast.Constant) and isinstance(st.value.value, str):
                continue  # docstring
            if isinstance(st, ast.Assign):
                if len(st.targets) != 1 or not isinstance(st.targets[0], ast.Name):
                    raise TranslateError("%s: assignment target" % where)
                self.env[st.targets[0].id] = self.value(st.value)
            elif isinstance(st, ast.Return):
                self.result = self.value(st.value)
                return
            else:
                raise TranslateError("%s: statement %s" % (where, type(st).__name__))
        raise TranslateError("%s: no return" % where)

    def value(self, n):
        w = self.where
        if isinstance(n, ast.Lambda):
            cenv = {k: ('c', v) for k, v in self.env.items() if isinstance(v, Fraction)}
            return ('lam', pyexpr.lambda_tree(n, self.nargs, cenv, w))
        if isinstance(n, ast.List):
            return [self.value(e) for e in n.elts]
        if isinstance(n, ast.Name):
            if n.id not in self.env:
                raise TranslateError("%s: unbound %s" % (w, n.id))
            return self.env[n.id]
        if isinstance(n, ast.Call):
            f = n.func
            # super()._ddN()
            if (isinstance(f, ast.Attribute) and isinstance(f.value, ast.Call)
                    and isinstance(f.value.func, ast.Name) and f.value.func.id == "super"
                    and not n.args and not n.keywords):
                return ('super', f.attr)
            # np.array(x) / np.array(x, dtype=...)
            if isinstance(f, ast.Attribute) and isinstance(f.value, ast.Name) and f.value.id == "np" and f.attr == "array":
                if len(n.args) != 1:
                    raise TranslateError("%s: np.array args" % w)
                return self.value(n.args[0])
            # <x>.reshape(-1, 1)
            if isinstance(f, ast.Attribute) and f.attr == "reshape":
                v = self.value(f.value)
                a = [ast.literal_eval(x) for x in n.args]
                if a == [-1, 1]:
                    return [[x] for x in _flatten(v)]
                raise TranslateError("%s: reshape%s" % (w, a))
            raise TranslateError("%s: call %s" % (w, ast.unparse(n)[:50]))
        if isinstance(n, ast.Attribute) and n.attr == "T":
            v = self.value(n.value)
            if not (isinstance(v, list) and all(isinstance(r, list) for r in v) and len(set(len(r) for r in v)) == 1):
                raise TranslateError("%s: .T of a non-rectangular list" % w)
            return [list(c) for c in zip(*v)]
        # constant arithmetic (local coordinates)
        t = pyexpr.to_tree(n, [], None, w)
        c = pyexpr.fold(t)
        if c is None:
            raise TranslateError("%s: non-constant %s" % (w, ast.unparse(n)))
        return c


def read_gmsh_data(repo):
    """ElemType name -> (nPe, dim, order) from DICT_GMSH_DATA (ast literal)."""
    path = os.path.join(repo, "EasyFEA/FEM/_group_elem.py")
    tree = ast.parse(open(path).read())
    for c in tree.body:
        if isinstance(c, ast.ClassDef) and c.name == "GroupElemFactory":
            for st in c.body:
                tgt = None
                if isinstance(st, ast.AnnAssign) and isinstance(st.target, ast.Name):
                    tgt, val = st.target.id, st.value
                elif isinstance(st, ast.Assign) and isinstance(st.targets[0], ast.Name):
                    tgt, val = st.targets[0].id, st.value
                if tgt == "DICT_GMSH_DATA":
                    if not isinstance(val, ast.Dict):
                        raise TranslateError("DICT_GMSH_DATA is not a dict literal")
                    res = {}
                    for k, v in zip(val.keys, val.values):
                        if not (isinstance(v, ast.Tuple) and isinstance(v.elts[0], ast.Attribute)):
                            raise TranslateError("DICT_GMSH_DATA entry")
                        name = v.elts[0].attr
                        nums = [ast.literal_eval(e) for e in v.elts[1:4]]
                        res[name] = tuple(nums)
                    return res
    raise TranslateError("DICT_GMSH_DATA not found")


def read_base_tables(repo):
    """From class _GroupElem: the integer n of `return self._Init_Functions(n)` for each inherited
    table, after checking that _Init_Functions has the expected shape:
        if self.dim == 1 and self.order < order: zeros (1 column) ... elif dim 2 ... elif dim 3 ...
        else: raise
    Returns {table name: n}."""
    path = os.path.join(repo, "EasyFEA/FEM/_group_elem.py")
    tree = ast.parse(open(path).read())
    cls = [c for c in tree.body if isinstance(c, ast.ClassDef) and c.name == "_GroupElem"]
    if not cls:
        raise TranslateError("_GroupElem not found")
    meths = {m.name: m for m in cls[0].body if isinstance(m, ast.FunctionDef)}
    init = meths.get("_Init_Functions")
    if init is None or [a.arg for a in init.args.args] != ["self", "order"]:
        raise TranslateError("_Init_Functions signature")
    body = [st for st in init.body if not (isinstance(st, ast.Expr) and isinstance(st.value, ast.Constant))]
    if not (len(body) >= 1 and isinstance(body[0], ast.If)):
        raise TranslateError("_Init_Functions: expected an if-chain")
    node, dims = body[0], []
    while True:
        t = ast.unparse(node.test).replace(" ", "")
        ok = False
        for d in (1, 2, 3):
            if t == "self.dim==%dandself.order<order" % d:
                # the branch must build d zero-lambdas per node
                src = ast.unparse(node.body[0]).replace(" ", "")
                if src.count(":0") != d or "*self.nPe" not in src:
                    raise TranslateError("_Init_Functions branch dim %d: %s" % (d, src[:80]))
                dims.append(d)
                ok = True
        if not ok:
            raise TranslateError("_Init_Functions guard: %s" % t)
        if len(node.orelse) == 1 and isinstance(node.orelse[0], ast.If):
            node = node.orelse[0]
        else:
            if not (len(node.orelse) == 1 and isinstance(node.orelse[0], ast.Raise)):
                raise TranslateError("_Init_Functions: else branch must raise")
            break
    if sorted(dims) != [1, 2, 3]:
        raise TranslateError("_Init_Functions dims %s" % dims)
    rest = body[1:]
    srcs = [ast.unparse(x).replace(" ", "") for x in rest]
    if srcs != ["functions=np.reshape(functions,(self.nPe,-1))", "returnfunctions"]:
        raise TranslateError("_Init_Functions tail: %s" % srcs)
    out = {}
    for t in TABLES[1:]:
        m = meths.get(t)
        if m is None:
            raise TranslateError("_GroupElem.%s missing" % t)
        b = [st for st in m.body if not (isinstance(st, ast.Expr) and isinstance(st.value, ast.Constant))]
        if len(b) != 1 or not isinstance(b[0], ast.Return):
            raise TranslateError("_GroupElem.%s body" % t)
        src = ast.unparse(b[0].value).replace(" ", "")
        if not (src.startswith("self._Init_Functions(") and src.endswith(")") and src[len("self._Init_Functions("):-1].isdigit()):
            raise TranslateError("_GroupElem.%s returns %s" % (t, src))
        out[t] = int(src[len("self._Init_Functions("):-1])
    return out


def read_elems(repo):
    """-> dict name -> {dim, order, nPe, nodes:[[Fraction]], tables:{'_N': [[tree]] | None (raises) }}
    Tables have shape (nPe, ncols).  Inherited tables follow _Init_Functions: zeros of width
    dim (1/2/3 columns) when order < k, else 'raises'."""
    data = read_gmsh_data(repo)
    base = read_base_tables(repo)
    out = {}
    for f in FILES:
        path = os.path.join(repo, "EasyFEA/FEM/Elems", f + ".py")
        tree = ast.parse(open(path).read())
        for c in tree.body:
            if not isinstance(c, ast.ClassDef):
                continue
            if c.name not in data:
                raise TranslateError("class %s not in DICT_GMSH_DATA" % c.name)
            nPe, dim, order = data[c.name]
            meths = {m.name: m for m in c.body if isinstance(m, ast.FunctionDef)}
            rec = {"dim": dim, "order": order, "nPe": nPe, "file": f + ".py", "tables": {}, "lines": {}}
            if "Get_Local_Coords" not in meths:
                raise TranslateError("%s: no Get_Local_Coords" % c.name)
            nodes = _Body(meths["Get_Local_Coords"], c.name + ".Get_Local_Coords", None).result
            if not (isinstance(nodes, list) and len(nodes) == nPe and all(isinstance(r, list) and len(r) == dim for r in nodes)):
                raise TranslateError("%s: local coords shape" % c.name)
            rec["nodes"] = nodes
            for k, tname in enumerate(TABLES):
                if tname not in meths:
                    raise TranslateError("%s: no %s" % (c.name, tname))
                rec["lines"][tname] = meths[tname].lineno
                v = _Body(meths[tname], "%s.%s" % (c.name, tname), dim).result
                if isinstance(v, tuple) and v[0] == 'super':
                    if v[1] != tname:
                        raise TranslateError("%s.%s returns super().%s()" % (c.name, tname, v[1]))
                    if k == 0:
                        raise TranslateError("%s._N is abstract" % c.name)
                    if order < base[tname]:
                        z = ('c', Fraction(0))
                        rec["tables"][tname] = [[z] * dim for _ in range(nPe)]
                    else:
                        rec["tables"][tname] = None   # _Init_Functions raises TypeError
                    continue
                if not (isinstance(v, list) and len(v) == nPe):
                    raise TranslateError("%s.%s: %s rows, expected nPe=%d" % (c.name, tname, len(v) if isinstance(v, list) else '?', nPe))
                rows = []
                for r in v:
                    if not isinstance(r, list):
                        raise TranslateError("%s.%s: row is not a list" % (c.name, tname))
                    row = []
                    for x in r:
                        if not (isinstance(x, tuple) and x[0] == 'lam'):
                            raise TranslateError("%s.%s: entry is not a lambda" % (c.name, tname))
                        row.append(x[1])
                    rows.append(row)
                ncol = 1 if k == 0 else dim
                if any(len(r) != ncol for r in rows):
                    raise TranslateError("%s.%s: row width != %d" % (c.name, tname, ncol))
                rec["tables"][tname] = rows
            out[c.name] = rec
    missing = [n for n in data if n != "POINT" and n not in out]
    if missing:
        raise TranslateError("element types without class: %s" % missing)
    return out


def emit_coq(elems):
    L = []
    L.append("(* GENERATED from EasyFEA/FEM/Elems/*.py and DICT_GMSH_DATA by translator/elems.py — do not edit *)")
    L.append("From Coq Require Import QArith List String Ring_polynom.")
    L.append("From EFLib Require Import PolyQ ElemDefs.")
    L.append("Import ListNotations.")
    L.append("Open Scope string_scope.")
    names = []
    for name, r in elems.items():
        def tab(t):
            if t is None:
                return "None"
            return "Some [" + ";\n    ".join("[" + "; ".join(pyexpr.coq(x) for x in row) + "]" for row in t) + "]"
        nodes = "[" + "; ".join("[" + "; ".join(pyexpr.qlit(x) for x in row) + "]" for row in r["nodes"]) + "]"
        L.append("Definition el_%s : elem := {| ename := \"%s\"; edim := %d; eorder := %d; enPe := %d;\n  enodes := %s;\n  eN := %s;\n  edN := %s;\n  eddN := %s;\n  edddN := %s;\n  eddddN := %s |}." % (
            name, name, r["dim"], r["order"], r["nPe"], nodes,
            "[" + "; ".join(pyexpr.coq(row[0]) for row in r["tables"]["_N"]) + "]",
            tab(r["tables"]["_dN"]), tab(r["tables"]["_ddN"]), tab(r["tables"]["_dddN"]), tab(r["tables"]["_ddddN"])))
        names.append("el_" + name)
    L.append("Definition all_elems : list elem := [%s]." % "; ".join(names))
    return "\n".join(L) + "\n"
