"""C02: the re-orthogonalisation of the beam's vertical axis (`_Beam.yAxis` setter,
EasyFEA/Models/Beam/_beam.py) as polynomial expressions, pure ast, fail-closed.

Variables: PEX 1..3 = xAxis (fibre direction), PEX 4..6 = the user value, PEX 7.. = one free real
scale per `Normalize(...)` call (Normalize(v) = v * s with s = 1/|v|; orthogonality statements do
not depend on the value of s).  Every branch of the setter yields the vector finally stored in
`self.__yAxis`; the theorem (coq/props/C02/C02_beam.v) is  yAxis_stored . xAxis = 0  identically.
"""
import ast
import os
from fractions import Fraction

from .pyexpr import TranslateError, coq

REL = "EasyFEA/Models/Beam/_beam.py"


def _find_setter(tree):
    for c in tree.body:
        if isinstance(c, ast.ClassDef) and c.name == "_Beam":
            for m in c.body:
                if isinstance(m, ast.FunctionDef) and m.name == "yAxis" and any(
                        isinstance(d, ast.Attribute) and d.attr == "setter" for d in m.decorator_list):
                    return m
    raise TranslateError("_Beam.yAxis setter not found")


OPAQUE = object()


class _Interp:
    def __init__(self, argname):
        self.nscale = 0
        self.argname = argname

    def fresh(self):
        self.nscale += 1
        return ('x', 6 + self.nscale)

    def ev(self, n, env):
        if isinstance(n, ast.Name):
            if n.id in env:
                if env[n.id] is OPAQUE:
                    raise TranslateError("yAxis setter: the stored axis depends on %s, whose definition is outside the vector grammar" % n.id)
                return env[n.id]
            raise TranslateError("yAxis setter: unbound name %s" % n.id)
        if isinstance(n, ast.Attribute) and isinstance(n.value, ast.Name) and n.value.id == "self" and n.attr == "xAxis":
            return [('x', 1), ('x', 2), ('x', 3)]
        if isinstance(n, ast.Constant) and isinstance(n.value, (int, float)) and not isinstance(n.value, bool):
            return ('c', Fraction(repr(n.value)))
        if isinstance(n, (ast.List, ast.Tuple)):
            v = [self.ev(e, env) for e in n.elts]
            if len(v) != 3 or any(isinstance(x, list) for x in v):
                raise TranslateError("yAxis setter: vector literal %s" % ast.unparse(n))
            return v
        if isinstance(n, ast.UnaryOp) and isinstance(n.op, ast.USub):
            a = self.ev(n.operand, env)
            return [('neg', x) for x in a] if isinstance(a, list) else ('neg', a)
        if isinstance(n, ast.BinOp) and isinstance(n.op, (ast.Add, ast.Sub, ast.Mult)):
            a, b = self.ev(n.left, env), self.ev(n.right, env)
            op = {ast.Add: '+', ast.Sub: '-', ast.Mult: '*'}[type(n.op)]
            va, vb = isinstance(a, list), isinstance(b, list)
            if op in '+-':
                if va != vb:
                    raise TranslateError("yAxis setter: vector +- scalar in %s" % ast.unparse(n))
                return [(op, x, y) for x, y in zip(a, b)] if va else (op, a, b)
            if va and vb:
                return [('*', x, y) for x, y in zip(a, b)]      # numpy element-wise product
            if va:
                return [('*', x, b) for x in a]
            if vb:
                return [('*', a, y) for y in b]
            return ('*', a, b)
        if isinstance(n, ast.Call):
            f = ast.unparse(n.func)
            args = [self.ev(a, env) for a in n.args]
            if n.keywords:
                raise TranslateError("yAxis setter: keyword arguments in %s" % ast.unparse(n))
            if f == "AsCoords" and len(args) == 1 and isinstance(args[0], list):
                return args[0]
            if f == "Normalize" and len(args) == 1 and isinstance(args[0], list):
                s = self.fresh()
                return [('*', x, s) for x in args[0]]
            if f == "np.cross" and len(args) == 2 and all(isinstance(a, list) for a in args):
                a, b = args
                return [('-', ('*', a[1], b[2]), ('*', a[2], b[1])),
                        ('-', ('*', a[2], b[0]), ('*', a[0], b[2])),
                        ('-', ('*', a[0], b[1]), ('*', a[1], b[0]))]
            if f == "np.dot" and len(args) == 2 and all(isinstance(a, list) for a in args):
                a, b = args
                return ('+', ('+', ('*', a[0], b[0]), ('*', a[1], b[1])), ('*', a[2], b[2]))
            raise TranslateError("yAxis setter: call %s" % ast.unparse(n)[:80])
        raise TranslateError("yAxis setter: expression %s" % ast.unparse(n)[:80])

    def run(self, stmts, env, out):
        """executes straight-line statements; an `if` forks (its test is not interpreted); the value
        assigned to self.__yAxis / self._Beam__yAxis is appended to out."""
        env = dict(env)
        for k, st in enumerate(stmts):
            if isinstance(st, (ast.Expr, ast.Pass, ast.Assert)):
                continue                                   # print(...), self.Need_Update(), docstrings, asserts
            if isinstance(st, ast.Assign) and len(st.targets) == 1:
                t = st.targets[0]
                if isinstance(t, ast.Name):
                    # a local whose value is outside the vector grammar (a norm, a comparison, a named
                    # boolean condition, a string ...) is bound to OPAQUE: harmless as long as it only
                    # feeds branch tests / messages; using it in the stored axis is a TranslateError
                    saved = self.nscale
                    try:
                        env[t.id] = self.ev(st.value, env)
                    except TranslateError:
                        self.nscale = saved
                        env[t.id] = OPAQUE
                    continue
                if isinstance(t, ast.Attribute) and isinstance(t.value, ast.Name) and t.value.id == "self" and t.attr.endswith("__yAxis"):
                    v = self.ev(st.value, env)
                    if not isinstance(v, list):
                        raise TranslateError("yAxis setter stores a scalar")
                    out.append(v)
                    continue
                raise TranslateError("yAxis setter: assignment target %s" % ast.unparse(t))
            if isinstance(st, ast.If):
                rest = stmts[k + 1:]
                self.run(list(st.body) + rest, env, out)
                self.run(list(st.orelse) + rest, env, out)
                return
            raise TranslateError("yAxis setter: statement %s" % type(st).__name__)


def read_yaxis(repo):
    path = os.path.join(repo, REL)
    fn = _find_setter(ast.parse(open(path).read(), filename=path))
    names = [a.arg for a in fn.args.args]
    if len(names) != 2:
        raise TranslateError("yAxis setter signature")
    it = _Interp(names[1])
    out = []
    it.run(fn.body, {names[1]: [('x', 4), ('x', 5), ('x', 6)]}, out)
    if not out:
        raise TranslateError("yAxis setter never stores self.__yAxis")
    return {"branches": out, "nscale": it.nscale, "line": fn.lineno}


def emit_coq(info):
    L = ["(* GENERATED from the yAxis setter of EasyFEA/Models/Beam/_beam.py by translator/C02_beamaxis.py — do not edit *)",
         "From Coq Require Import QArith List Ring_polynom.", "Import ListNotations.",
         "(* PEX 1..3 = fibre direction xAxis, PEX 4..6 = user value, PEX 7.. = scales of Normalize calls *)",
         "Definition beam_xaxis : list (PExpr Q) := [PEX Q 1; PEX Q 2; PEX Q 3].",
         "Definition beam_yaxis_branches : list (list (PExpr Q)) := [%s]." % ";\n  ".join(
             "[" + "; ".join(coq(t) for t in v) + "]" for v in info["branches"])]
    return "\n".join(L) + "\n"
