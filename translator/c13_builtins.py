"""C13: regenerate the built-in operators from their source -> Gen_Builtins.v

Reads (ast, fail-closed) FEM/Operators/Bilinear.py (GradUGradV, UV, LinearizedElasticity),
FEM/Operators/Linear.py (V), and the cached factors of FEM/_group_elem.py they use
(Get_DiffusePart_e_pg, Get_ReactionPart_e_pg, Get_SourcePart_e_pg, Get_leftDispPart_e_pg,
Get_B_e_pg, Get_N_pg_rep) and turns the array expressions -- products with per-point scalars,
`.T`, `@`, `.integrate()`, and the einsum literals -- into index expressions over R for ONE
element (the leading `e` axis is elementwise in every operation).

Arrays are functions  p i j -> R  (p = Gauss point); each carries symbolic (rows, cols) so that
contractions know their range.  Atoms: w p (weight*|J|), dN p k a, N p a, C a b."""
import ast
import os

from translator.pyexpr import TranslateError

GE = "EasyFEA/FEM/_group_elem.py"
BIL = "EasyFEA/FEM/Operators/Bilinear.py"
LIN = "EasyFEA/FEM/Operators/Linear.py"


class Arr:
    def __init__(self, fn, rows, cols):
        self.fn, self.rows, self.cols = fn, rows, cols     # fn: python callable (p,i,j strings) -> coq text


class Sca:
    def __init__(self, fn):
        self.fn = fn                                        # p -> coq text


class Mat2:
    def __init__(self, fn):
        self.fn = fn                                        # (i, j) -> coq text   (integrated result)


_counter = [0]


def fresh(base):
    _counter[0] += 1
    return "%s%d" % (base, _counter[0])


def einsum(lit, ops, where):
    if "->" not in lit:
        raise TranslateError("%s: einsum without explicit output: %s" % (where, lit))
    ins, out = lit.replace(" ", "").split("->")
    ins = ins.split(",")
    if len(ins) != len(ops):
        raise TranslateError("%s: einsum arity %s" % (where, lit))
    for s in ins + [out]:
        if not s.startswith("e"):
            raise TranslateError("%s: einsum operand without the element axis: %s" % (where, lit))
    ins = [s[1:] for s in ins]
    out = out[1:]
    if len(out) != 2 or "p" in out:
        raise TranslateError("%s: einsum output %s not supported" % (where, out))
    dims = {}
    for s, o in zip(ins, ops):
        if isinstance(o, Sca):
            if s != "p":
                raise TranslateError("%s: scalar operand with subscripts %s" % (where, s))
            continue
        if len(s) != 3 or s[0] != "p":
            raise TranslateError("%s: operand subscripts %s not supported" % (where, s))
        for ch, d in ((s[1], o.rows), (s[2], o.cols)):
            if dims.setdefault(ch, d) != d:
                raise TranslateError("%s: einsum index %s ranges over %s and %s" % (where, ch, dims[ch], d))
    summed = [ch for ch in dims if ch not in out]

    def fn(i, j):
        names = {out[0]: i, out[1]: j, "p": fresh("p")}
        for ch in summed:
            names[ch] = fresh(ch)
        terms = []
        for s, o in zip(ins, ops):
            terms.append(o.fn(names["p"]) if isinstance(o, Sca) else o.fn(names["p"], names[s[1]], names[s[2]]))
        body = " * ".join("(%s)" % t for t in terms)
        for ch in reversed(summed):
            body = "sumn %s (fun %s => %s)" % (dims[ch], names[ch], body)
        return "sumn nP (fun %s => %s)" % (names["p"], body)
    return Mat2(fn)


class Ev:
    def __init__(self, repo):
        self.ge = ast.parse(open(os.path.join(repo, GE)).read())
        self.cls = [n for n in self.ge.body if isinstance(n, ast.ClassDef) and n.name == "_GroupElem"]
        if not self.cls:
            raise TranslateError("%s: class _GroupElem not found" % GE)
        self.cls = self.cls[0]
        self.parts = {}
        self.dof = "1"

    def method(self, name):
        for n in self.cls.body:
            if isinstance(n, ast.FunctionDef) and n.name == name:
                return n
        raise TranslateError("%s: method %s not found" % (GE, name))

    def atom(self, name, args, where):
        if name == "Get_weightedJacobian_e_pg":
            return Sca(lambda p: "w %s" % p)
        if name == "Get_dN_e_pg":
            return Arr(lambda p, i, j: "dN %s %s %s" % (p, i, j), "ndim", "nPe")
        if name == "Get_B_e_pg":
            return Arr(lambda p, i, j: "B %s %s %s" % (p, i, j), "ns", "nd")
        if name == "Get_N_pg_rep":
            return Arr(lambda p, i, j: "Nrep %s %s %s" % (p, i, j), "ndof", "nd")
        if name in ("Get_DiffusePart_e_pg", "Get_ReactionPart_e_pg", "Get_SourcePart_e_pg", "Get_leftDispPart_e_pg"):
            if name not in self.parts:
                self.parts[name] = self.run(self.method(name), GE + ":" + name)
            return self.parts[name]
        raise TranslateError("%s: unknown factor %s" % (where, name))

    def run(self, fn, where, extra=None):
        env = dict(extra or {})
        for s in fn.body:
            if isinstance(s, ast.Expr) and isinstance(s.value, ast.Constant):
                continue
            if isinstance(s, ast.Assign) and len(s.targets) == 1:
                t = s.targets[0]
                if isinstance(t, ast.Name):
                    env[t.id] = self.ev(s.value, env, where)
                    continue
                if isinstance(t, ast.Tuple) and ast.unparse(s.value).endswith(".shape[:2]"):
                    continue
            if isinstance(s, ast.Return):
                return self.ev(s.value, env, where)
            raise TranslateError("%s: statement `%s` not supported" % (where, ast.unparse(s)[:80]))
        raise TranslateError("%s: no return" % where)

    def ev(self, n, env, where):
        if isinstance(n, ast.Name):
            if n.id in env:
                return env[n.id]
            raise TranslateError("%s: unbound %s" % (where, n.id))
        if isinstance(n, ast.Attribute) and n.attr == "T":
            a = self.ev(n.value, env, where)
            if not isinstance(a, Arr):
                raise TranslateError("%s: .T of a non-array" % where)
            return Arr(lambda p, i, j, a=a: a.fn(p, j, i), a.cols, a.rows)
        if isinstance(n, ast.Subscript) and ast.unparse(n.slice) == "np.newaxis":
            return self.ev(n.value, env, where)
        if isinstance(n, ast.BinOp) and isinstance(n.op, ast.Mult):
            a, b = self.ev(n.left, env, where), self.ev(n.right, env, where)
            if isinstance(a, Arr) and isinstance(b, Sca):
                a, b = b, a
            if isinstance(a, Sca) and isinstance(b, Arr):
                return Arr(lambda p, i, j, a=a, b=b: "%s * (%s)" % (a.fn(p), b.fn(p, i, j)), b.rows, b.cols)
            if isinstance(a, Sca) and isinstance(b, Sca):
                return Sca(lambda p, a=a, b=b: "%s * %s" % (a.fn(p), b.fn(p)))
            raise TranslateError("%s: product `%s` not supported" % (where, ast.unparse(n)))
        if isinstance(n, ast.BinOp) and isinstance(n.op, ast.MatMult):
            a, b = self.ev(n.left, env, where), self.ev(n.right, env, where)
            if not (isinstance(a, Arr) and isinstance(b, Arr)) or a.cols != b.rows:
                raise TranslateError("%s: matmul `%s` shapes" % (where, ast.unparse(n)))

            def fn(p, i, k, a=a, b=b):
                j = fresh("m")
                return "sumn %s (fun %s => (%s) * (%s))" % (a.cols, j, a.fn(p, i, j), b.fn(p, j, k))
            return Arr(fn, a.rows, b.cols)
        if isinstance(n, ast.Call):
            f = n.func
            fs = ast.unparse(f)
            if fs in ("FeArray.asfearray", "np.asarray"):
                return self.ev(n.args[0], env, where)
            if fs == "FeArray.broadcast":
                return self.ev(n.args[0], env, where)
            if fs == "einsum" and isinstance(n.args[0], ast.Constant):
                return einsum(n.args[0].value, [self.ev(a, env, where) for a in n.args[1:]], where)
            if isinstance(f, ast.Attribute) and f.attr == "integrate" and not n.args:
                a = self.ev(f.value, env, where)
                if not isinstance(a, Arr):
                    raise TranslateError("%s: integrate of a non-array" % where)

                def fn(i, j, a=a):
                    p = fresh("p")
                    return "sumn nP (fun %s => %s)" % (p, a.fn(p, i, j))
                return Mat2(fn)
            if isinstance(f, ast.Attribute) and ast.unparse(f.value) in ("groupElem", "self") and f.attr.startswith("Get_"):
                return self.atom(f.attr, n.args, where)
        raise TranslateError("%s: expression `%s` not supported" % (where, ast.unparse(n)[:80]))


def _fn(mod, name, path):
    for n in mod.body:
        if isinstance(n, ast.FunctionDef) and n.name == name:
            return n
    raise TranslateError("%s: %s not found" % (path, name))


def b_layout(ev):
    """Get_B_e_pg -> {dim: [(row, dof, deriv, scaled)]}, from the stores of the partially evaluated
    function for self.dim = 2 and 3 (hoisted / named sub-expressions do not matter)"""
    from translator.peval import PEval
    fn = ev.method("Get_B_e_pg")
    out = {}
    cm = "1/np.sqrt(2)"
    for dim in (2, 3):
        ret, eff = PEval(ev.ge, ev.cls, leaves={"self.dim": dim}, where=GE + ":Get_B_e_pg").evaluate(fn)
        ns = {2: 3, 3: 6}[dim]
        rows = []
        base = None
        for e in eff:
            if e[0] != "store":
                raise TranslateError("%s:Get_B_e_pg: unexpected effect %r" % (GE, e))
            base = base or e[1]
            if e[1] != base:
                raise TranslateError("%s:Get_B_e_pg: stores into several arrays" % GE)
            it = e[2].strip()
            it = it[1:-1] if it.startswith("(") and it.endswith(")") else it
            idx = ast.parse("x[%s]" % it, mode="eval").body.slice
            if not (isinstance(idx, ast.Tuple) and len(idx.elts) == 4 and all(isinstance(x, ast.Slice) and x.lower is None and x.upper is None for x in idx.elts[:2])
                    and isinstance(idx.elts[2], ast.Constant)):
                raise TranslateError("%s:Get_B_e_pg: store index %s" % (GE, e[2]))
            col = idx.elts[3]
            if not (isinstance(col, ast.Call) and ast.unparse(col.func) == "np.arange" and len(col.args) == 3 and isinstance(col.args[0], ast.Constant)
                    and ast.unparse(col.args[2]) == str(dim) and ast.unparse(col.args[1]).replace(" ", "") in ("self.nPe*%d" % dim, "%d*self.nPe" % dim)):
                raise TranslateError("%s:Get_B_e_pg: column set %s" % (GE, ast.unparse(col)))
            v = ast.parse(e[3], mode="eval").body
            scaled = False
            if isinstance(v, ast.BinOp) and isinstance(v.op, ast.Mult):
                l, r = ast.unparse(v.left).replace(" ", ""), ast.unparse(v.right).replace(" ", "")
                if r == cm:
                    v, scaled = v.left, True
                elif l == cm:
                    v, scaled = v.right, True
            if not (isinstance(v, ast.Subscript) and ast.unparse(v.value) == "self.Get_dN_e_pg(matrixType)" and isinstance(v.slice, ast.Tuple)
                    and len(v.slice.elts) == 3 and isinstance(v.slice.elts[2], ast.Constant)):
                raise TranslateError("%s:Get_B_e_pg: stored value %s" % (GE, e[3]))
            rows.append((idx.elts[2].value, col.args[0].value, v.slice.elts[2].value, scaled))
        if base is None or ("%d,self.nPe*%d" % (ns, dim)) not in base.replace(" ", "") or (ret or "").replace(" ", "") != ("FeArray.asfearray(%s)" % base).replace(" ", ""):
            raise TranslateError("%s:Get_B_e_pg: array %s / return %s" % (GE, base, ret))
        if len(set((r, d) for r, d, _, _ in rows)) != len(rows):
            raise TranslateError("%s:Get_B_e_pg: an entry is stored twice" % GE)
        out[dim] = rows
    return out


def nrep_layout(ev):
    """Get_N_pg_rep(matrixType, repeat): repeat <= 1 returns N_pg; otherwise the block layout
    N_vect[:, r, arange(r, nPe*repeat, repeat)] = N_pg[:, 0, :] for r < repeat -- read off the partially
    evaluated function for repeat = 1, 2, 3 (the layout of the code does not matter)"""
    from translator.peval import PEval
    fn = ev.method("Get_N_pg_rep")
    N = "self.Get_N_pg(matrixType)"

    def flat(eff, out):
        for e in eff:
            if e[0] == "if":
                flat(e[2], out)
                flat(e[3], out)
            else:
                out.append(e)
        return out
    for q in (1, 2, 3):
        ret, eff = PEval(ev.ge, ev.cls, leaves={"self.dim": 2}, where=GE + ":Get_N_pg_rep").evaluate(fn, args={"repeat": q})
        r = (ret or "").replace(" ", "")
        effs = flat(eff, [])
        if q == 1:
            if effs or not (r == N or r.endswith("else" + N)):
                raise TranslateError("%s:Get_N_pg_rep(repeat=1) is not N_pg: %s %r" % (GE, ret, effs[:1]))
            continue
        base = "np.zeros((%s.shape[0],%d,%s.shape[2]*%d))" % (N, q, N, q)
        loops = [e for e in effs if e[0] == "for"]
        if len(loops) != 1 or len(effs) != 1 or loops[0][2].replace(" ", "") != str(list(range(q))).replace(" ", "") or len(loops[0][3]) != 1:
            raise TranslateError("%s:Get_N_pg_rep(repeat=%d): expected one loop over range(repeat) with one store: %r" % (GE, q, effs[:2]))
        st = loops[0][3][0]
        v = loops[0][1]
        want = ("store", base, "(:,%s,np.arange(%s,%s.shape[2]*%d,%d))" % (v, v, N, q, q), N + "[:,0,:]")
        got = tuple(x.replace(" ", "") for x in st)
        if got != want or not (r == base or r.endswith("else" + base)):
            raise TranslateError("%s:Get_N_pg_rep(repeat=%d): block layout not recognised: %r / return %s" % (GE, q, st, ret))
    return True


THERMAL = "EasyFEA/Simulations/_thermal.py"
WEAK = "EasyFEA/Simulations/_weakforms.py"


def _find_method(mod, cname, mname, path):
    for c in mod.body:
        if isinstance(c, ast.ClassDef) and c.name == cname:
            for n in c.body:
                if isinstance(n, ast.FunctionDef) and n.name == mname:
                    return c, n
    raise TranslateError("%s: %s.%s not found" % (path, cname, mname))


def simulation_facts(repo):
    """how the dedicated Thermal simulation and the WeakForms simulation build their element
    arrays, read off the partially evaluated Construct_local_matrix_system (translator/peval.py:
    locals / hoisted invariants / local closures inlined, the dimension tests decided per
    configuration), so the layout of the code does not matter"""
    from translator.peval import PEval
    tm = ast.parse(open(os.path.join(repo, THERMAL)).read())
    cls, fn = _find_method(tm, "Thermal", "Construct_local_matrix_system", THERMAL)
    K0 = "Operators.Bilinear.GradUGradV(_L0, coef=self.thermalModel.k)"
    C0 = "Operators.Bilinear.UV(_L0, coef=self.rho * self.thermalModel.c, dof_n=1)"
    t = "self.thermalModel.thickness"
    with_t = set()
    for dim in (1, 2, 3):
        ret, eff = PEval(tm, cls, leaves={"self.mesh.dim": dim}, where=THERMAL).evaluate(fn)
        loops = [e for e in eff if e[0] == "for"]
        if len(loops) != 1 or len(eff) != 1 or loops[0][2] != "self.mesh.Get_list_groupElem()":
            raise TranslateError("%s: expected one loop over self.mesh.Get_list_groupElem(): %r" % (THERMAL, eff))
        body = loops[0][3]
        if len(body) != 1 or body[0][0] != "store" or body[0][2] != "_L0":
            raise TranslateError("%s: loop body is not `out[groupElem] = (...)`: %r" % (THERMAL, body))
        val = body[0][3].replace(" ", "")
        plain = ("(%s, %s, None, None)" % (K0, C0)).replace(" ", "")
        scaled = [("(%s * %s, %s * %s, None, None)" % (a, b, c, d)).replace(" ", "") for a, b, c, d in
                  ((K0, t, C0, t), (t, K0, t, C0))]
        if val == plain:
            pass
        elif val in scaled:
            with_t.add(dim)
        else:
            raise TranslateError("%s: element arrays for mesh.dim=%d not recognised: %s" % (THERMAL, dim, body[0][3]))
    if with_t != {2}:
        raise TranslateError("%s: the thickness is applied for mesh.dim in %s (model: {2})" % (THERMAL, sorted(with_t)))
    wm = ast.parse(open(os.path.join(repo, WEAK)).read())
    cls, fn = _find_method(wm, "WeakForms", "Construct_local_matrix_system", WEAK)
    roles = ["self.weakForms.compute%s" % r for r in "KCMF"]
    unit = set()
    for ind in (1, 2, 3):
        ret, eff = PEval(wm, cls, leaves={"self.mesh.inDim": ind}, optional=roles, where=WEAK).evaluate(fn)
        if eff:
            raise TranslateError("%s: unexpected side effects %r" % (WEAK, eff[:2]))
        got = (ret or "").replace(" ", "")
        ok = None
        for fac, tag in (("self.weakForms.thickness", "t"), ("1.0", "1")):
            exp = "{self.mesh.groupElem: (%s)}" % ", ".join("None if %s is None else %s.Integrate_e(self.weakForms.field) * %s" % (r, r, fac) for r in roles)
            if got == exp.replace(" ", ""):
                ok = tag
        if ok is None:
            raise TranslateError("%s: element arrays for mesh.inDim=%d not recognised: %s" % (WEAK, ind, ret))
        if ok == "1":
            unit.add(ind)
    if unit != {3}:
        raise TranslateError("%s: the thickness is dropped for mesh.inDim in %s (model: {3})" % (WEAK, sorted(unit)))
    return {"thermal_thickness_rule": "dim==2", "weak_thickness_rule": "inDim==3->1"}


def translate(repo):
    _counter[0] = 0
    ev = Ev(repo)
    bm = ast.parse(open(os.path.join(repo, BIL)).read())
    lm = ast.parse(open(os.path.join(repo, LIN)).read())
    coef = {"coef": Sca(lambda p: "coef %s" % p), "f": Sca(lambda p: "coef %s" % p),
            "C": Arr(lambda p, i, j: "C %s %s" % (i, j), "ns", "ns"), "matrixType": None, "dof_n": None, "groupElem": None}
    res = {"ops": {}}
    for name, mod, path in (("GradUGradV", bm, BIL), ("UV", bm, BIL), ("LinearizedElasticity", bm, BIL), ("V", lm, LIN)):
        r = ev.run(_fn(mod, name, path), path + ":" + name, extra=coef)
        if not isinstance(r, Mat2):
            raise TranslateError("%s:%s does not reduce to an integrated element array" % (path, name))
        res["ops"][name] = r.fn("i", "k")
    res["B"] = b_layout(ev)
    res["nrep"] = nrep_layout(ev)
    res["simu"] = simulation_facts(repo)
    return res


def bcol_coq(B):
    """Coq text of the B column layout read from Get_B_e_pg"""
    L = []
    for dim, rows in B.items():
        L.append("(* Get_B_e_pg, dim %d: column of the dof (node gradient g, component d), row r; c = cM *)" % dim)
        L.append("Definition gen_Bcol%d (c : R) (g : nat -> R) (d r : nat) : R :=" % dim)
        L.append("  match d, r with")
        for (row, dof, der, scaled) in sorted(rows, key=lambda t: (t[1], t[0])):
            L.append("  | %d%%nat, %d%%nat => %sg %d%%nat" % (dof, row, "c * " if scaled else "", der))
        L.append("  | _, _ => 0")
        L.append("  end.")
    return L


def emit_coq(res):
    L = ["(* GENERATED by translator/c13_builtins.py from FEM/Operators/*.py and FEM/_group_elem.py -- do not edit *)",
         "From Coq Require Import Reals Arith.", "From EFP Require Import C13_forms.", "Open Scope R_scope.", "",
         "Section GenBuiltins.",
         "Variables (nP ndim nPe ndof nd ns : nat).",
         "Variables (w coef : nat -> R) (dN Nrep B : nat -> nat -> nat -> R) (C : nat -> nat -> R).", ""]
    for name, txt in res["ops"].items():
        L.append("Definition gen_%s (i k : nat) : R := %s." % (name, txt))
    L += ["End GenBuiltins.", ""]
    L.append("(* Get_N_pg_rep: repeat <= 1 returns N_pg; otherwise N_vect[:, r, arange(r, size, repeat)] = N_pg[:, 0, :] *)")
    L.append("Definition gen_Nrep (q : nat) (N : nat -> nat -> R) (p r col : nat) : R :=")
    L.append("  if (q <=? 1)%nat then N p col else if Nat.eqb (col mod q)%nat r then N p (col / q)%nat else 0.")
    L += bcol_coq(res["B"])
    L.append("(* thickness factors of the element arrays: Simulations/_thermal.py (`if self.mesh.dim == 2`) and")
    L.append("   Simulations/_weakforms.py (`1.0 if self.mesh.inDim == 3 else weakForms.thickness`) *)")
    L.append("Definition thermal_tfac (dim inDim : nat) (t : R) : R := if Nat.eqb dim 2 then t else 1.")
    L.append("Definition weak_tfac (dim inDim : nat) (t : R) : R := if Nat.eqb inDim 3 then 1 else t.")
    L.append("")
    return "\n".join(L)


if __name__ == "__main__":
    import sys
    print(emit_coq(translate(sys.argv[1] if len(sys.argv) > 1 else "/repo")))
