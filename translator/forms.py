"""C13 translator: fail-closed ast reading of the few facts of FEM/_forms.py and FEM/_field.py
the Coq model of the activation loop depends on -> Gen_Forms.v.

  * BiLinearForm.Integrate_e: node table, activation (nodes[i], i % dof_n) of u then v,
    data[:, i, j] = (form(u, v) * dX).integrate()
  * LinearForm.Integrate_e: same with one field
  * Assemble of both classes: where rows / columns come from
  * Field.__call__: does the returned array depend on the active dof?
  * Field.grad layout (newArray[..., :, dof] = dN[..., node]); Sym_Grad
"""
import ast
import os

from translator.pyexpr import TranslateError

FORMS = "EasyFEA/FEM/_forms.py"
FIELD = "EasyFEA/FEM/_field.py"


def _cls(mod, name, path):
    for n in mod.body:
        if isinstance(n, ast.ClassDef) and n.name == name:
            return n
    raise TranslateError("%s: class %s not found" % (path, name))


def _fn(node, name, path):
    for n in node.body:
        if isinstance(n, ast.FunctionDef) and n.name == name:
            return n
    raise TranslateError("%s: function %s not found" % (path, name))


def _stmts(fn):
    """flattened source lines of all simple statements (comments/docstrings dropped)"""
    out = []
    for n in ast.walk(fn):
        if isinstance(n, (ast.Assign, ast.AugAssign, ast.Return, ast.Assert)) or (isinstance(n, ast.Expr) and not isinstance(n.value, ast.Constant)):
            out.append(ast.unparse(n))
    return out


def _need(lines, wanted, where):
    for w in wanted:
        if w not in lines:
            raise TranslateError("%s: expected statement `%s` not found (the loop model no longer matches the source)" % (where, w))


def translate(repo):
    pf = os.path.join(repo, FORMS)
    mod = ast.parse(open(pf).read())
    res = {}
    # ---- BiLinearForm.Integrate_e
    bl = _cls(mod, "BiLinearForm", FORMS)
    li = _stmts(_fn(bl, "Integrate_e", FORMS))
    _need(li, ["data = np.zeros((groupElem.Ne, nPe * dof_n, nPe * dof_n), dtype=float)", "form = self._form",
               "u = field", "v = field.copy()", "dofs = np.arange(nPe * dof_n)",
               "nodes = np.arange(nPe).reshape(nPe, 1).repeat(dof_n, axis=1).ravel()",
               "dX_e_pg = groupElem.Get_weightedJacobian_e_pg(field.matrixType)",
               "u._Set_current_active_node(nodes[i])", "u._Set_current_active_dof(i % dof_n)",
               "v._Set_current_active_node(nodes[j])", "v._Set_current_active_dof(j % dof_n)",
               "values_e_pg = form(u, v)", "values_e = (values_e_pg * dX_e_pg).integrate()", "data[:, i, j] = values_e",
               "return data"], FORMS + ":BiLinearForm.Integrate_e")
    fn = _fn(bl, "Integrate_e", FORMS)
    loops = [n for n in ast.walk(fn) if isinstance(n, ast.For)]
    if [ast.unparse(l.target) + " in " + ast.unparse(l.iter) for l in loops] != ["i in dofs", "j in dofs"]:
        raise TranslateError("%s: BiLinearForm.Integrate_e loops are not `for i in dofs: for j in dofs`" % FORMS)
    # ---- LinearForm.Integrate_e
    ll = _cls(mod, "LinearForm", FORMS)
    li = _stmts(_fn(ll, "Integrate_e", FORMS))
    _need(li, ["data = np.zeros((groupElem.Ne, nPe * dof_n, 1), dtype=float)", "v = field", "dofs = np.arange(nPe * dof_n)",
               "nodes = np.arange(nPe).reshape(nPe, 1).repeat(dof_n, axis=1).ravel()",
               "v._Set_current_active_node(nodes[i])", "v._Set_current_active_dof(i % dof_n)",
               "values_e_pg = form(v)", "values_e = (values_e_pg * dX_e_pg).integrate()"],
          FORMS + ":LinearForm.Integrate_e")
    if not any(x in li for x in ("data[:, i] = values_e", "data[:, i] = np.asarray(values_e).reshape(-1, 1)", "data[:, i, 0] = np.asarray(values_e).reshape(-1)")):
        raise TranslateError("%s: LinearForm.Integrate_e does not store values_e in data[:, i]" % FORMS)
    # ---- Assemble
    def assemble(cls, name):
        fn = _fn(cls, "Assemble", FORMS)
        rows = cols = shape = None
        for n in ast.walk(fn):
            if isinstance(n, ast.Assign) and len(n.targets) == 1 and isinstance(n.targets[0], ast.Name):
                t, v = n.targets[0].id, ast.unparse(n.value)
                if t == "rows":
                    rows = v
                if t == "columns":
                    cols = v
                if t == "shape":
                    shape = v
        lines = _stmts(fn)
        _need(lines, ["values = self.Integrate_e(field=field).ravel()", "Ndof = groupElem.Ncoords * dof_n",
                      "matrix = csr_matrix((values.ravel(), (rows, columns)), shape=shape)", "return matrix"], FORMS + ":%s.Assemble" % name)
        rk = {"groupElem.Get_rows_e(dof_n).ravel()": "RowsE", "groupElem.Get_assembly_e(dof_n).ravel()": "AssemblyE"}.get(rows)
        ck = {"groupElem.Get_columns_e(dof_n).ravel()": "ColumnsE", "np.ones_like(rows)": "Ones", "np.zeros_like(rows)": "Zeros"}.get(cols)
        if rk is None or ck is None:
            raise TranslateError("%s: %s.Assemble rows=%s columns=%s not recognised" % (FORMS, name, rows, cols))
        return rk, ck, shape
    res["bil_rows"], res["bil_cols"], res["bil_shape"] = assemble(bl, "BiLinearForm")
    res["lin_rows"], res["lin_cols"], res["lin_shape"] = assemble(ll, "LinearForm")
    if res["bil_shape"] != "(Ndof, Ndof)" or res["lin_shape"] != "(Ndof, 1)":
        raise TranslateError("%s: Assemble shapes %s / %s" % (FORMS, res["bil_shape"], res["lin_shape"]))
    # ---- Field
    pfi = os.path.join(repo, FIELD)
    fmod = ast.parse(open(pfi).read())
    fc = _cls(fmod, "Field", FIELD)
    call = _fn(fc, "__call__", FIELD)
    src = ast.unparse(call)
    lines = _stmts(call)
    if "node = self._Get_current_active_node()" not in lines or "N_pg = self.groupElem.Get_N_pg(self.__matrixType)" not in lines:
        raise TranslateError("%s: Field.__call__ does not read the active node / N_pg as modelled" % FIELD)
    uses = ("_Get_current_active_dof" in src) or ("self.__dof" in src and "self.__dof_n" != "self.__dof")
    uses = "_Get_current_active_dof()" in src or any("self.__dof]" in l or "self.__dof " in l for l in lines)
    if not uses:
        if "array = FeArray.asfearray(N_pg[..., node].reshape(1, nPg, 1))" not in lines:
            raise TranslateError("%s: Field.__call__ not recognised" % FIELD)
    else:
        ok = any(("[..., dof] = " in l and "N_pg[..., node]" in l) for l in lines) and any("dof_n == 1" in ast.unparse(n.test) for n in ast.walk(call) if isinstance(n, ast.If))
        if not ok:
            raise TranslateError("%s: Field.__call__ uses the active dof in a way the model does not recognise" % FIELD)
    res["call_uses_dof"] = bool(uses)
    grad = None
    for n in fc.body:
        if isinstance(n, ast.FunctionDef) and n.name == "grad":
            grad = n
    if grad is None:
        raise TranslateError("%s: Field.grad not found" % FIELD)
    _need(_stmts(grad), ["node = self._Get_current_active_node()", "dof = self._Get_current_active_dof()",
                         "dN_e_pg = self.groupElem.Get_dN_e_pg(self.__matrixType)", "array = FeArray.asfearray(dN_e_pg[..., node])",
                         "newArray = FeArray.zeros(Ne, nPg, dim, dof_n, dtype=float)", "newArray[..., :, dof] = array"], FIELD + ":Field.grad")
    sg = None
    for n in fmod.body:
        if isinstance(n, ast.FunctionDef) and n.name == "Sym_Grad":
            sg = n
    if sg is None:
        raise TranslateError("%s: Sym_Grad not found" % FIELD)
    l = _stmts(sg)
    if "grad = u.grad" not in l or not any(x in l for x in ("return 0.5 * (grad.T + grad)", "return 0.5 * (grad + grad.T)", "return (grad.T + grad) / 2", "return (grad + grad.T) / 2")):
        raise TranslateError("%s: Sym_Grad is not 1/2 (grad.T + grad)" % FIELD)
    return res


def emit_coq(res):
    return "\n".join([
        "(* GENERATED by translator/forms.py from FEM/_forms.py and FEM/_field.py -- do not edit *)",
        "Inductive rows_src := RowsE | AssemblyE.",
        "Inductive cols_src := ColumnsE | Ones | Zeros.",
        "(* does Field.__call__ place N in the slot of the active dof of a vector field? *)",
        "Definition call_uses_dof : bool := %s." % ("true" if res["call_uses_dof"] else "false"),
        "Definition bil_rows : rows_src := %s." % res["bil_rows"],
        "Definition bil_cols : cols_src := %s." % res["bil_cols"],
        "Definition lin_rows : rows_src := %s." % res["lin_rows"],
        "Definition lin_cols : cols_src := %s." % res["lin_cols"], ""])


if __name__ == "__main__":
    import sys
    r = translate(sys.argv[1] if len(sys.argv) > 1 else "/repo")
    print(r)
    print(emit_coq(r))
