"""C13 translator: fail-closed ast reading of the few facts of FEM/_forms.py and FEM/_field.py
the Coq model of the activation loop depends on -> Gen_Forms.v.

  * BiLinearForm.Integrate_e: node table, activation (nodes[i], i % dof_n) of u then v,
    data[:, i, j] = (form(u, v) * dX).integrate()
  * LinearForm.Integrate_e: same with one field
  * Assemble of both classes: where rows / columns come from
  * Field.__call__: does the returned array depend on the active dof?
  * Field.grad layout (newArray[..., :, dof] = dN[..., node]); Sym_Grad

The comparison is not textual.  Each function is reduced to a canonical *effect tree*:
single-assignment locals are inlined into their uses (so renaming a local, introducing or
removing a temporary, reordering independent assignments, dropping a dead assignment do not
matter), loop variables are renamed by nesting depth, and only the observable statements
remain (calls made for their effect, stores into arrays, returns, loops, branches).  The tree
of the source must equal the tree of one of the reference bodies written below (the code the
Coq model was written against, plus accepted variants).  Anything else is a translation
failure (fail-closed)."""
import ast
import copy
import os
import textwrap

from translator.pyexpr import TranslateError

FORMS = "EasyFEA/FEM/_forms.py"
FIELD = "EasyFEA/FEM/_field.py"


# ------------------------------------------------------------------------------------------
# canonical effect trees
# ------------------------------------------------------------------------------------------
class _Subst(ast.NodeTransformer):
    def __init__(self, env):
        self.env = env

    def visit_Name(self, n):
        if isinstance(n.ctx, ast.Load) and n.id in self.env:
            return copy.deepcopy(self.env[n.id])
        return n


def _is_arange(n):
    return isinstance(n, ast.Call) and ast.unparse(n.func) == "np.arange" and len(n.args) == 1 and not n.keywords


class _NodeDof(ast.NodeTransformer):
    """normal form of the (node, component) tables of the local dofs, however spelled:
         np.arange(nPe).reshape(nPe, 1).repeat(d, axis=1).ravel()[I]   ->  I // d
         np.divmod(np.arange(N), d)[0][I]  /  (np.arange(N) // d)[I]   ->  I // d
         np.divmod(np.arange(N), d)[1][I]  /  (np.arange(N) % d)[I]    ->  I % d
       (entry I of np.arange(N) is I)"""

    def visit_Subscript(self, n):
        self.generic_visit(n)
        v, idx = n.value, n.slice
        if isinstance(idx, (ast.Slice, ast.Tuple)):
            return n
        # repeat table
        if isinstance(v, ast.Call) and isinstance(v.func, ast.Attribute) and v.func.attr == "ravel" and not v.args:
            r = v.func.value
            if isinstance(r, ast.Call) and isinstance(r.func, ast.Attribute) and r.func.attr == "repeat" and len(r.args) == 1 \
                    and [(k.arg, ast.unparse(k.value)) for k in r.keywords] == [("axis", "1")]:
                rs = r.func.value
                if isinstance(rs, ast.Call) and isinstance(rs.func, ast.Attribute) and rs.func.attr == "reshape" and _is_arange(rs.func.value):
                    npe = ast.unparse(rs.func.value.args[0])
                    if [ast.unparse(a) for a in rs.args] in ([npe, "1"], ["(%s, 1)" % npe]):
                        return ast.BinOp(left=idx, op=ast.FloorDiv(), right=r.args[0])
        # divmod tables
        if isinstance(v, ast.Subscript) and isinstance(v.slice, ast.Constant) and v.slice.value in (0, 1):
            c = v.value
            if isinstance(c, ast.Call) and ast.unparse(c.func) in ("np.divmod", "divmod") and len(c.args) == 2 and _is_arange(c.args[0]):
                return ast.BinOp(left=idx, op=ast.FloorDiv() if v.slice.value == 0 else ast.Mod(), right=c.args[1])
        if isinstance(v, ast.BinOp) and isinstance(v.op, (ast.FloorDiv, ast.Mod)) and _is_arange(v.left):
            return ast.BinOp(left=idx, op=v.op, right=v.right)
        return n


def _assigned_counts(fn):
    cnt = {}

    def add(t):
        if isinstance(t, ast.Name):
            cnt[t.id] = cnt.get(t.id, 0) + 1
        elif isinstance(t, (ast.Tuple, ast.List)):
            for e in t.elts:
                add(e)
    for n in ast.walk(fn):
        if isinstance(n, ast.Assign):
            for t in n.targets:
                add(t)
        elif isinstance(n, (ast.AugAssign, ast.AnnAssign)):
            add(n.target)
            add(n.target)          # never inline
        elif isinstance(n, ast.For):
            add(n.target)
            add(n.target)
    return cnt


def canon(fn, where, module=None, cls=None):
    """FunctionDef -> canonical effect tree (translator/peval.py: locals inlined, helpers and local
    closures inlined at the call, decided branches removed, loop variables renamed by depth), with
    the node/component tables of the local dofs in normal form (_NodeDof)."""
    from translator.peval import PEval
    pe = PEval(module or ast.Module(body=[], type_ignores=[]), cls, where=where, post=_NodeDof())
    ret, eff = pe.evaluate(fn, is_method=bool(fn.args.args and fn.args.args[0].arg == "self"))
    return (tuple(eff), ret)


def _ref(src, module=None, cls=None):
    """the reference body, reduced in the SAME module / class context as the source (so that
    helpers are inlined identically on both sides)"""
    fn = ast.parse(textwrap.dedent(src)).body[0]
    return canon(fn, "reference", module, cls)


def _cls(mod, name, path):
    for n in mod.body:
        if isinstance(n, ast.ClassDef) and n.name == name:
            return n
    raise TranslateError("%s: class %s not found" % (path, name))


def _fn(node, name, path):
    for n in node.body:
        if isinstance(n, ast.FunctionDef) and n.name == name:
            return n
    raise TranslateError("%s: function %s not found" % (path, name))


def _match(fn, refs, where, module=None, cls=None):
    """-> key of the first reference whose effect tree equals the function's"""
    got = canon(fn, where, module, cls)
    for key, src in refs:
        if got == _ref(src, module, cls):
            return key
    raise TranslateError("%s: the body is none of the %d shapes the model was written against; canonical effects: %s" % (where, len(refs), repr(got)[:700]))


# ------------------------------------------------------------------------------------------
# reference bodies
# ------------------------------------------------------------------------------------------
REF_BIL_INTEGRATE = '''
def Integrate_e(self, field):
    dof_n = field.dof_n
    groupElem = field.groupElem
    nPe = groupElem.nPe
    data = np.zeros((groupElem.Ne, nPe * dof_n, nPe * dof_n), dtype=float)
    form = self._form
    u = field
    v = field.copy()
    dofs = np.arange(nPe * dof_n)
    nodes = np.arange(nPe).reshape(nPe, 1).repeat(dof_n, axis=1).ravel()
    dX_e_pg = groupElem.Get_weightedJacobian_e_pg(field.matrixType)
    for i in dofs:
        u._Set_current_active_node(nodes[i])
        u._Set_current_active_dof(i % dof_n)
        for j in dofs:
            v._Set_current_active_node(nodes[j])
            v._Set_current_active_dof(j % dof_n)
            values_e_pg = form(u, v)
            values_e = (values_e_pg * dX_e_pg).integrate()
            data[:, i, j] = values_e
    return data
'''

_LIN_HEAD = '''
def Integrate_e(self, field):
    dof_n = field.dof_n
    groupElem = field.groupElem
    nPe = groupElem.nPe
    data = np.zeros((groupElem.Ne, nPe * dof_n, 1), dtype=float)
    form = self._form
    v = field
    dofs = np.arange(nPe * dof_n)
    nodes = np.arange(nPe).reshape(nPe, 1).repeat(dof_n, axis=1).ravel()
    dX_e_pg = groupElem.Get_weightedJacobian_e_pg(field.matrixType)
    for i in dofs:
        v._Set_current_active_node(nodes[i])
        v._Set_current_active_dof(i % dof_n)
        values_e_pg = form(v)
        values_e = (values_e_pg * dX_e_pg).integrate()
        @STORE@
    return data
'''
REF_LIN_INTEGRATE = [("plain", _LIN_HEAD.replace("@STORE@", "data[:, i] = values_e")),
                     ("reshape", _LIN_HEAD.replace("@STORE@", "data[:, i] = np.asarray(values_e).reshape(-1, 1)")),
                     ("reshape0", _LIN_HEAD.replace("@STORE@", "data[:, i, 0] = np.asarray(values_e).reshape(-1)"))]

_ASM = '''
def Assemble(self, field):
    dof_n = field.dof_n
    groupElem = field.groupElem
    values = self.Integrate_e(field=field).ravel()
    rows = %s
    columns = %s
    Ndof = groupElem.Ncoords * dof_n
    shape = %s
    matrix = csr_matrix((values.ravel(), (rows, columns)), shape=shape)
    return matrix
'''
ROWS = {"RowsE": "groupElem.Get_rows_e(dof_n).ravel()", "AssemblyE": "groupElem.Get_assembly_e(dof_n).ravel()"}
COLS = {"ColumnsE": "groupElem.Get_columns_e(dof_n).ravel()", "Ones": "np.ones_like(rows)", "Zeros": "np.zeros_like(rows)"}


def _asm_refs(shape):
    return [((rk, ck), _ASM % (rv, cv, shape)) for rk, rv in ROWS.items() for ck, cv in COLS.items()]


REF_CALL = [(False, '''
def __call__(self):
    node = self._Get_current_active_node()
    N_pg = self.groupElem.Get_N_pg(self.__matrixType)
    nPg, _, _ = N_pg.shape
    array = FeArray.asfearray(N_pg[..., node].reshape(1, nPg, 1))
    return array
'''), (True, '''
def __call__(self):
    node = self._Get_current_active_node()
    N_pg = self.groupElem.Get_N_pg(self.__matrixType)
    nPg, _, _ = N_pg.shape
    dof_n = self.__dof_n
    if dof_n == 1:
        array = FeArray.asfearray(N_pg[..., node].reshape(1, nPg, 1))
    else:
        dof = self._Get_current_active_dof()
        array = FeArray.zeros(1, nPg, dof_n, dtype=float)
        array[..., dof] = N_pg[..., node].reshape(1, nPg)
    return array
''')]

REF_GRAD = [("ok", '''
def grad(self):
    dof_n = self.__dof_n
    if self.__is_currently_evaluated:
        return self.groupElem.Get_Gradient_e_pg(self._Get_dofsValues(), self.matrixType)[..., :dof_n, :dof_n]
    node = self._Get_current_active_node()
    dof = self._Get_current_active_dof()
    dN_e_pg = self.groupElem.Get_dN_e_pg(self.__matrixType)
    Ne, nPg, dim, _ = dN_e_pg.shape
    array = FeArray.asfearray(dN_e_pg[..., node])
    if dof_n == 1:
        return array
    else:
        newArray = FeArray.zeros(Ne, nPg, dim, dof_n, dtype=float)
        newArray[..., :, dof] = array
        return newArray
''')]

REF_SYMGRAD = [("ok", "def Sym_Grad(u):\n    grad = u.grad\n    return %s\n" % e) for e in
               ("0.5 * (grad.T + grad)", "0.5 * (grad + grad.T)", "(grad.T + grad) / 2", "(grad + grad.T) / 2", "(grad.T + grad) * 0.5", "(grad + grad.T) * 0.5")]


# ------------------------------------------------------------------------------------------
def translate(repo):
    mod = ast.parse(open(os.path.join(repo, FORMS)).read())
    res = {}
    bl = _cls(mod, "BiLinearForm", FORMS)
    ll = _cls(mod, "LinearForm", FORMS)
    res["bil_store"] = _match(_fn(bl, "Integrate_e", FORMS),
                              [("plain", REF_BIL_INTEGRATE),
                               ("reshape", REF_BIL_INTEGRATE.replace("data[:, i, j] = values_e", "data[:, i, j] = np.asarray(values_e).reshape(-1)"))],
                              FORMS + ":BiLinearForm.Integrate_e", mod, bl)
    res["lin_store"] = _match(_fn(ll, "Integrate_e", FORMS), REF_LIN_INTEGRATE, FORMS + ":LinearForm.Integrate_e", mod, ll)
    res["bil_rows"], res["bil_cols"] = _match(_fn(bl, "Assemble", FORMS), _asm_refs("(Ndof, Ndof)"), FORMS + ":BiLinearForm.Assemble", mod, bl)
    res["lin_rows"], res["lin_cols"] = _match(_fn(ll, "Assemble", FORMS), _asm_refs("(Ndof, 1)"), FORMS + ":LinearForm.Assemble", mod, ll)
    fmod = ast.parse(open(os.path.join(repo, FIELD)).read())
    fc = _cls(fmod, "Field", FIELD)
    res["call_uses_dof"] = _match(_fn(fc, "__call__", FIELD), REF_CALL, FIELD + ":Field.__call__", fmod, fc)
    _match(_fn(fc, "grad", FIELD), REF_GRAD, FIELD + ":Field.grad", fmod, fc)
    _match(_fn(fmod, "Sym_Grad", FIELD), REF_SYMGRAD, FIELD + ":Sym_Grad", fmod, None)
    return res


def emit_coq(res):
    return "\n".join([
        "(* GENERATED by translator/forms.py from FEM/_forms.py and FEM/_field.py -- do not edit *)",
        "Inductive rows_src := RowsE | AssemblyE.",
        "Inductive cols_src := ColumnsE | Ones | Zeros.",
        "(* does Field.__call__ place N in the slot of the active dof of a vector field? *)",
        "Definition call_uses_dof : bool := %s." % ("true" if res["call_uses_dof"] else "false"),
        "Definition bil_rows : rows_src := %s." % res["bil_rows"],
        "Definition bil_cols : cols_src := %s." % res["bil_cols"],
        "Definition lin_rows : rows_src := %s." % res["lin_rows"],
        "Definition lin_cols : cols_src := %s." % res["lin_cols"], ""])


if __name__ == "__main__":
    import sys
    r = translate(sys.argv[1] if len(sys.argv) > 1 else "/repo")
    print(r)
    print(emit_coq(r))
