"""C14 translator: re-derives from the source tree WHICH public mutator notifies / clears WHAT.

Pure `ast` pass (EasyFEA is not imported).  For every flag of the Coq record `table`
(coq/model/C14_Cache.v) this module looks at the *current* body of the responsible method and
decides the flag; the result is emitted as Gen_Notify.v (`gen_table`).  Fail-closed: when the
method is missing or has a shape the pass does not understand (e.g. a notification under an
unknown guard) a TranslateError is raised and the check reports the property as not shown.

The pass is deliberately structural, not textual: renaming locals, reordering independent
statements, adding comments or logging does not change the table.
"""
import ast
import os


class TranslateError(Exception):
    pass


# ---------------------------------------------------------------------------------------------
# generic helpers
# ---------------------------------------------------------------------------------------------
def _parse(repo, rel):
    path = os.path.join(repo, "EasyFEA", rel)
    try:
        return ast.parse(open(path).read(), filename=path)
    except (OSError, SyntaxError) as ex:
        raise TranslateError("cannot parse %s: %s" % (rel, ex))


def _classes(tree):
    return {n.name: n for n in ast.walk(tree) if isinstance(n, ast.ClassDef)}


def _is_setter(fn, name):
    for d in fn.decorator_list:
        if isinstance(d, ast.Attribute) and d.attr == "setter" and isinstance(d.value, ast.Name) and d.value.id == name:
            return True
    return False


def _method(cls, name, setter=False, rel="?"):
    """FunctionDef of cls.name (the property setter when setter=True).  Name-mangled private
    methods are looked up by their source name (`__Update_mesh`)."""
    for n in cls.body:
        if isinstance(n, ast.FunctionDef) and n.name == name:
            if setter == _is_setter(n, name):
                return n
    raise TranslateError("%s: method %s.%s%s not found" % (rel, cls.name, name, " (setter)" if setter else ""))


def _body(fn):
    """statements of a function without the docstring"""
    b = list(fn.body)
    if b and isinstance(b[0], ast.Expr) and isinstance(getattr(b[0], "value", None), ast.Constant) and isinstance(b[0].value.value, str):
        b = b[1:]
    return b


def _src(node):
    return ast.unparse(node)


def _is_call(node, recv, meth):
    """node is the expression `recv.meth(...)` (recv: dotted source text, or None for a bare name)"""
    if isinstance(node, ast.Expr):
        node = node.value
    if not isinstance(node, ast.Call):
        return False
    f = node.func
    if recv is None:
        return isinstance(f, ast.Name) and f.id == meth
    return isinstance(f, ast.Attribute) and f.attr == meth and _src(f.value) == recv


def _stmts_calling(stmts, recv, meth, args=None):
    """indices of top-level statements that are exactly the call recv.meth(<args>)"""
    out = []
    for i, s in enumerate(stmts):
        if isinstance(s, ast.Expr) and _is_call(s, recv, meth):
            if args is None or [_src(a) for a in s.value.args] == args:
                out.append(i)
    return out


def _contains_call(node, recv, meth):
    return any(_is_call(n, recv, meth) for n in ast.walk(node) if isinstance(n, ast.Call))


def _need_update_true(call):
    """`self.Need_Update()` or `Need_Update(True)`/`Need_Update(value=True)` (raises the flag)"""
    c = call.value if isinstance(call, ast.Expr) else call
    if c.args:
        return isinstance(c.args[0], ast.Constant) and c.args[0].value is True
    for k in c.keywords:
        if k.arg == "value":
            return isinstance(k.value, ast.Constant) and k.value.value is True
    return True


def _raises(stmts, recv="self"):
    """top-level, unconditional `recv.Need_Update()` with a true argument"""
    return any(_need_update_true(stmts[i]) for i in _stmts_calling(stmts, recv, "Need_Update"))


def _assigns(stmts, target_src, value_src=None):
    """indices of top-level `target = value` statements"""
    out = []
    for i, s in enumerate(stmts):
        if isinstance(s, ast.Assign) and len(s.targets) == 1 and _src(s.targets[0]) == target_src:
            if value_src is None or _src(s.value) == value_src:
                out.append(i)
        if isinstance(s, ast.AnnAssign) and s.value is not None and _src(s.target) == target_src:
            if value_src is None or _src(s.value) == value_src:
                out.append(i)
    return out


def _mentions(node, text):
    return text in _src(node)


def _mode(stmts, lagrange_attr_hint, where, reset_targets=()):
    """Need_Update mode of a BC mutator body: 'NAlways' | 'NIfLag' | 'NNever'.
    NIfLag = `if <test on the Lagrange list>: self.Need_Update()`, evaluated before the list is
    reset (when the mutator resets it)."""
    if _raises(stmts):
        return "NAlways"
    first_reset = min([i for t in reset_targets for i in _assigns(stmts, t)] or [len(stmts)])
    for i, s in enumerate(stmts):
        if isinstance(s, ast.If) and _contains_call(s, "self", "Need_Update"):
            body_ok = _raises(s.body) and not s.orelse
            test = _src(s.test)
            lists = ["self.__%s" % lagrange_attr_hint, "self.%s" % lagrange_attr_hint]
            accepted = [x for l in lists for x in (l, "len(%s) > 0" % l, "len(%s) >= 1" % l, "len(%s) != 0" % l, "0 < len(%s)" % l)]
            lag_test = test in accepted
            if body_ok and lag_test and i < first_reset:
                return "NIfLag"
            raise TranslateError("%s: Need_Update under a guard the translator cannot classify: `if %s`" % (where, test))
    for s in stmts:
        if not isinstance(s, (ast.If,)) and _contains_call(s, "self", "Need_Update"):
            raise TranslateError("%s: Need_Update inside a compound statement the translator cannot classify" % where)
    return "NNever"


# ---------------------------------------------------------------------------------------------
# the derivation
# ---------------------------------------------------------------------------------------------
def derive(repo):
    """returns (flags: dict name -> bool | mode string | dict mop->bool, lines: dict name -> 'file:line')"""
    F, L = {}, {}

    def note(name, val, rel, node):
        F[name] = val
        L[name] = "%s:%d" % (rel, getattr(node, "lineno", 0))

    # ---- Utilities/_params.py -----------------------------------------------------------
    rel = "Utilities/_params.py"
    C = _classes(_parse(repo, rel))
    for k in ("Updatable", "_Parameter"):
        if k not in C:
            raise TranslateError("%s: class %s not found" % (rel, k))
    nu = _method(C["Updatable"], "Need_Update", rel=rel)
    if not any(isinstance(s, ast.Assign) and _src(s.targets[0]) == "self.__needUpdate" and _src(s.value) == nu.args.args[1].arg for s in _body(nu)):
        raise TranslateError("%s: Updatable.Need_Update does not store its argument in self.__needUpdate" % rel)
    st = _method(C["_Parameter"], "__set__", rel=rel)
    inst = st.args.args[1].arg
    ok = False
    stores = False
    for s in _body(st):
        if isinstance(s, ast.Assign) and _src(s.targets[0]).startswith(inst + ".__dict__["):
            stores = True
        if isinstance(s, ast.If) and _src(s.test) == "isinstance(%s, Updatable)" % inst and _raises(s.body, inst):
            ok = True
    if _raises(_body(st), inst):
        ok = True
    note("t_param_need", ok and stores, rel, st)
    # identity vs contents: no path of __set__ may skip the notification depending on the value already stored
    # (`if value is old: return`, `if np.array_equal(...)`): any `return` other than `return super().__set__(...)`,
    # any comparison with instance.__dict__[...] makes the entry false
    def _set_unconditional(fn):
        for n in ast.walk(fn):
            if isinstance(n, ast.Return) and n.value is not None and not _contains_call(n, "super()", "__set__"):
                return False
            if isinstance(n, ast.Return) and n.value is None:
                return False
            if isinstance(n, (ast.If, ast.IfExp)) and ".__dict__" in _src(n.test):
                return False
        return True
    # aliasing between objects: the descriptor must never hand out the stored mutable object itself (then `a.p *= 3`
    # -- get, in-place multiply, set -- edits an array another simulation / model may hold): __get__ returns a copy
    # (copy.copy / copy.deepcopy / .copy() / np.array(...)) or __set__ stores one
    gt = _method(C["_Parameter"], "__get__", rel=rel)

    def _is_copy_expr(e):
        t = _src(e)
        return isinstance(e, ast.Call) and (t.startswith("copy.copy(") or t.startswith("copy.deepcopy(") or t.endswith(".copy()")
                                            or t.startswith("np.array(") or t.startswith("np.copy("))
    rets = [n for n in ast.walk(gt) if isinstance(n, ast.Return)]
    get_copies = bool(rets) and all(r.value is not None and _is_copy_expr(r.value) for r in rets)
    set_copies = any(isinstance(n, ast.Assign) and ".__dict__[" in _src(n.targets[0]) and _is_copy_expr(n.value) for n in ast.walk(st))
    F["t_param_get_copies"] = get_copies or set_copies
    L["t_param_get_copies"] = "%s:%d" % (rel, gt.lineno)
    uncond = _set_unconditional(st)
    L["t_param_set_unconditional"] = "%s:%d" % (rel, st.lineno)
    # subclasses overriding __set__ must go through super().__set__
    param_classes = {"_Parameter"}
    changed = True
    while changed:
        changed = False
        for n, c in C.items():
            if n not in param_classes and any(isinstance(b, ast.Name) and b.id in param_classes for b in c.bases):
                param_classes.add(n)
                changed = True
    for n in param_classes - {"_Parameter"}:
        for m in C[n].body:
            if isinstance(m, ast.FunctionDef) and m.name == "__set__" and not _contains_call(m, "super()", "__set__"):
                F["t_param_need"] = False
                L["t_param_need"] = "%s:%d" % (rel, m.lineno)
            if isinstance(m, ast.FunctionDef) and m.name == "__get__":
                rets_ = [x for x in ast.walk(m) if isinstance(x, ast.Return)]
                if not (rets_ and all(r.value is not None and (_is_copy_expr(r.value) or _contains_call(r, "super()", "__get__")) for r in rets_)):
                    F["t_param_get_copies"] = False
                    L["t_param_get_copies"] = "%s:%d" % (rel, m.lineno)
            if isinstance(m, ast.FunctionDef) and m.name == "__set__" and not _set_unconditional(m):
                uncond = False
                L["t_param_set_unconditional"] = "%s:%d" % (rel, m.lineno)
    F["t_param_set_unconditional"] = uncond

    # ---- Utilities/_observers.py ----------------------------------------------------------
    rel = "Utilities/_observers.py"
    C = _classes(_parse(repo, rel))
    if "Observable" not in C:
        raise TranslateError("%s: class Observable not found" % rel)
    nf = _method(C["Observable"], "_Notify", rel=rel)
    delivers = False
    for n in ast.walk(nf):
        if isinstance(n, (ast.ListComp, ast.For)):
            gens = n.generators if isinstance(n, ast.ListComp) else [n]
            it = gens[0].iter if isinstance(n, ast.ListComp) else n.iter
            var = gens[0].target if isinstance(n, ast.ListComp) else n.target
            if _src(it) == "self.observers" and any(_is_call(c, _src(var), "_Update") for c in ast.walk(n) if isinstance(c, ast.Call)):
                delivers = True
    ad = _method(C["Observable"], "_Add_observer", rel=rel)
    registers = any(isinstance(c, ast.Call) and isinstance(c.func, ast.Attribute) and c.func.attr == "append" and "observers" in _src(c.func.value) for c in ast.walk(ad))
    observers_ok = delivers and registers

    # ---- Utilities/_cache.py ----------------------------------------------------------------
    rel = "Utilities/_cache.py"
    T = _parse(repo, rel)
    key_uses_args = False
    for n in ast.walk(T):
        if isinstance(n, ast.Assign) and _src(n.targets[0]) == "key" and isinstance(n.value, ast.Tuple):
            key_uses_args = any(_src(e) == "args" for e in n.value.elts)
    clears = False
    for n in ast.walk(T):
        if isinstance(n, ast.FunctionDef) and n.name == "clear_cached_computed_values":
            clears = any(isinstance(c, ast.Call) and isinstance(c.func, ast.Attribute) and c.func.attr == "clear" for c in ast.walk(n))
    if not clears:
        raise TranslateError("%s: clear_cached_computed_values does not clear the cache dict" % rel)

    # ---- Models/_utils.py ---------------------------------------------------------------------
    rel = "Models/_utils.py"
    C = _classes(_parse(repo, rel))
    if "_IModel" not in C:
        raise TranslateError("%s: class _IModel not found" % rel)
    bases = [_src(b).split(".")[-1] for b in C["_IModel"].bases]
    mn = _method(C["_IModel"], "Need_Update", rel=rel)
    b = _body(mn)
    val = mn.args.args[1].arg
    sup = bool(_stmts_calling(b, "super()", "Need_Update"))
    notif = bool(_stmts_calling(b, "self", "_Notify"))
    for s in b:
        if isinstance(s, ast.If) and _src(s.test) == val and _stmts_calling(s.body, "self", "_Notify"):
            notif = True
    note("t_model_notify", sup and notif and "Observable" in bases and "Updatable" in bases and observers_ok, rel, mn)

    # ---- FEM/_group_elem.py : coord setter -> _InitMatrix -> clear -----------------------------------
    rel = "FEM/_group_elem.py"
    C = _classes(_parse(repo, rel))
    if "_GroupElem" not in C:
        raise TranslateError("%s: class _GroupElem not found" % rel)
    cs = _method(C["_GroupElem"], "coord", setter=True, rel=rel)
    im = _method(C["_GroupElem"], "_InitMatrix", rel=rel)
    group_clear = (bool(_stmts_calling(_body(cs), "self", "_InitMatrix")) and bool(_stmts_calling(_body(im), None, "clear_cached_computed_values", ["self"]))) \
        or bool(_stmts_calling(_body(cs), None, "clear_cached_computed_values", ["self"]))
    note("group_coord_clear", group_clear, rel, cs)

    # ---- FEM/_mesh.py -----------------------------------------------------------------------------------
    rel = "FEM/_mesh.py"
    C = _classes(_parse(repo, rel))
    if "Mesh" not in C:
        raise TranslateError("%s: class Mesh not found" % rel)
    mesh_observable = any(_src(b).split(".")[-1] == "Observable" for b in C["Mesh"].bases)
    clear, notify = {}, {}
    def mesh_effects(fn, seen):
        """(assigns groupElem.coord for ALL groups, notifies) for the body of a Mesh method, following -- transitively,
        like helper calls -- unconditional `self.<prop> = ...` into the setter of a property of the same class and
        unconditional `self.<helper>(...)` calls into that method"""
        if fn.name + str(_is_setter(fn, fn.name)) in seen:
            return False, False
        seen = seen | {fn.name + str(_is_setter(fn, fn.name))}
        allg = noti = False
        for s in _body(fn):
            if isinstance(s, ast.For) and _src(s.iter) == "self.dict_groupElem.values()":
                v = _src(s.target)
                if any(isinstance(t, ast.Assign) and _src(t.targets[0]) == v + ".coord" for t in s.body):
                    allg = True
            if isinstance(s, ast.Expr) and _is_call(s, "self", "_Notify"):
                noti = True
            callee = None
            if isinstance(s, ast.Assign) and len(s.targets) == 1 and isinstance(s.targets[0], ast.Attribute) \
                    and _src(s.targets[0].value) == "self":
                try:
                    callee = _method(C["Mesh"], s.targets[0].attr, setter=True, rel=rel)
                except TranslateError:
                    callee = None
            elif isinstance(s, ast.Expr) and isinstance(s.value, ast.Call) and isinstance(s.value.func, ast.Attribute) \
                    and _src(s.value.func.value) == "self" and s.value.func.attr != "_Notify":
                try:
                    callee = _method(C["Mesh"], s.value.func.attr, rel=rel)
                except TranslateError:
                    callee = None
            if callee is not None:
                a2, n2 = mesh_effects(callee, seen)
                allg, noti = allg or a2, noti or n2
        return allg, noti

    for mop, (name, setter) in {"MTranslate": ("Translate", False), "MRotate": ("Rotate", False),
                                "MSymmetry": ("Symmetry", False), "MCoordSet": ("coord", True)}.items():
        fn = _method(C["Mesh"], name, setter=setter, rel=rel)
        allgroups, notifies = mesh_effects(fn, frozenset())
        clear[mop] = allgroups and group_clear
        notify[mop] = notifies and mesh_observable and observers_ok
        L["t_mesh_clear." + mop] = L["t_mesh_notify." + mop] = "%s:%d" % (rel, fn.lineno)
    F["t_mesh_clear"], F["t_mesh_notify"] = clear, notify

    # ---- Simulations/_simu.py ------------------------------------------------------------------------------
    rel = "Simulations/_simu.py"
    C = _classes(_parse(repo, rel))
    if "_Simu" not in C:
        raise TranslateError("%s: class _Simu not found" % rel)
    S = C["_Simu"]
    simu_updatable = any(_src(b).split(".")[-1] == "Updatable" for b in S.bases)

    def update_flags(cls, relname):
        up = _method(cls, "_Update", rel=relname)
        obs = up.args.args[1].arg
        model_need = mesh_need = mesh_clear = False
        # a notification must perform its clears WHATEVER the current flags: an early exit placed before the
        # dispatch (e.g. `if self.needUpdate: return`) makes every effect of the dispatch conditional
        guarded = None
        for s in _body(up):
            if isinstance(s, ast.If) and "isinstance(" not in _src(s.test) and any(isinstance(n, (ast.Return, ast.Raise)) for n in ast.walk(s)):
                guarded = _src(s.test)
            if isinstance(s, (ast.Return, ast.Raise)):
                guarded = "unconditional exit"
            if isinstance(s, ast.If) and "isinstance(" in _src(s.test):
                break
        for s in _body(up):
            node = s
            while isinstance(node, ast.If):
                t = _src(node.test)
                if t == "isinstance(%s, _IModel)" % obs:
                    model_need = _raises(node.body)
                elif t == "isinstance(%s, Mesh)" % obs:
                    mesh_need = _raises(node.body)
                    mesh_clear = bool(_stmts_calling(node.body, None, "clear_cached_computed_values", ["self"]))
                node = node.orelse[0] if len(node.orelse) == 1 else None
        if guarded is not None:
            # raising a flag that is already up is idempotent, so `if self.needUpdate: return` keeps the two
            # Need_Update entries; the cache clear is lost on that path.  Any other guard: nothing is guaranteed.
            mesh_clear = False
            if guarded != "self.needUpdate":
                model_need = mesh_need = False
        return model_need, mesh_need, mesh_clear, up

    m1, m2, m3, up = update_flags(S, rel)
    note("t_upd_model_need", m1, rel, up)
    note("t_upd_mesh_need", m2, rel, up)
    note("t_upd_mesh_clear", m3, rel, up)

    ini = _method(S, "__init__", rel=rel)
    margs = [a.arg for a in ini.args.args]
    note("t_init_sub_model", bool(_stmts_calling(_body(ini), "model", "_Add_observer", ["self"])) and "model" in margs and observers_ok, rel, ini)
    note("t_init_sub_mesh", bool(_stmts_calling(_body(ini), "mesh", "_Add_observer", ["self"])) and "mesh" in margs and observers_ok, rel, ini)

    rho_desc = None
    for s in S.body:
        if isinstance(s, (ast.Assign, ast.AnnAssign)) and _src(s.targets[0] if isinstance(s, ast.Assign) else s.target) == "rho":
            v = s.value
            rho_desc = (_src(v.func).split(".")[-1] if isinstance(v, ast.Call) else "<not a descriptor>", s)
    if rho_desc is None:
        raise TranslateError("%s: _Simu.rho is not a class-level descriptor" % rel)
    note("t_rho_need", rho_desc[0] in param_classes and simu_updatable and F["t_param_need"], rel, rho_desc[1])

    ms = _method(S, "mesh", setter=True, rel=rel)
    marg = ms.args.args[1].arg
    b = _body(ms)
    inner = None
    if len(b) == 1 and isinstance(b[0], ast.If) and _src(b[0].test) == "isinstance(%s, Mesh)" % marg:
        inner = b[0].body
    elif b and isinstance(b[0], ast.If) and _src(b[0].test) == "not isinstance(%s, Mesh)" % marg and len(b[0].body) == 1 \
            and isinstance(b[0].body[0], ast.Return) and not b[0].orelse and not any(isinstance(s, ast.If) for s in b[1:]):
        inner = b[1:]   # early-return form of the same guard
    elif not any(isinstance(s, ast.If) for s in b):
        inner = b
    if inner is None:
        raise TranslateError("%s: mesh setter has a shape the translator does not understand" % rel)
    note("t_meshset_need", _raises(inner), rel, ms)
    note("t_meshset_clear", bool(_stmts_calling(inner, None, "clear_cached_computed_values", ["self"])), rel, ms)
    note("t_meshset_sub", bool(_stmts_calling(inner, marg, "_Add_observer", ["self"])) and observers_ok, rel, ms)
    note("t_meshset_initsols", bool(_stmts_calling(inner, "self", "__Init_Sols_n", [])), rel, ms)
    # the meshes of the history can become current again (Set_Iter -> __Update_mesh): the simulation must still observe
    # them then -- either it never unsubscribes, or __Update_mesh subscribes again
    removes = any(isinstance(n, ast.Call) and isinstance(n.func, ast.Attribute) and n.func.attr == "_Remove_observer" for n in ast.walk(ms))
    _um = _method(S, "__Update_mesh", rel=rel)
    readds = any(isinstance(n, ast.Call) and isinstance(n.func, ast.Attribute) and n.func.attr == "_Add_observer"
                 and [_src(a) for a in n.args] == ["self"] for st_ in _body(_um) for n in ast.walk(st_) if isinstance(st_, ast.Expr))
    note("t_meshset_keeps_old", (not removes) or readds, rel, ms)
    # history-dependent INTERNAL variables of the subclasses (phase-field history, material state): whatever a
    # subclass restores in its Set_Iter override beyond the base fields (private attributes, minus the flags its own
    # Need_Update handles) belongs to the mesh and must be reset on the mesh-replacement path as well, through a
    # method the base setter calls unconditionally and the subclass overrides
    hooks = [st_.value.func.attr for st_ in inner if isinstance(st_, ast.Expr) and isinstance(st_.value, ast.Call)
             and isinstance(st_.value.func, ast.Attribute) and _src(st_.value.func.value) == "self" and not st_.value.args]
    sroot = os.path.join(repo, "EasyFEA", "Simulations")

    def _priv_assigned(fn):
        out = set()
        for n in ast.walk(fn):
            if isinstance(n, (ast.Assign, ast.AnnAssign)):
                for t in (n.targets if isinstance(n, ast.Assign) else [n.target]):
                    if _src(t).startswith("self.__"):
                        out.add(_src(t))
        return out
    for fn_ in sorted(os.listdir(sroot)):
        if not fn_.endswith(".py") or fn_ == "_simu.py":
            continue
        rel2 = "Simulations/" + fn_
        for cls in _classes(_parse(repo, rel2)).values():
            if not any(_src(b).split(".")[-1] == "_Simu" for b in cls.bases):
                continue
            meths = {m.name: m for m in cls.body if isinstance(m, ast.FunctionDef)}
            if "Set_Iter" not in meths:
                continue
            restored = _priv_assigned(meths["Set_Iter"]) - (_priv_assigned(meths["Need_Update"]) if "Need_Update" in meths else set())
            if not restored:
                continue
            reset = set()
            for h in hooks:
                if h in meths:
                    reset |= _priv_assigned(meths[h])
            if not restored <= reset:
                F["t_meshset_initsols"] = False
                L["t_meshset_initsols"] = "%s:%d" % (rel2, meths["Set_Iter"].lineno)
    if not _assigns(inner, "self.__mesh", marg):
        raise TranslateError("%s: mesh setter does not store the mesh" % rel)

    um = _method(S, "__Update_mesh", rel=rel)
    si = _method(S, "Set_Iter", rel=rel)
    calls_um = False
    for s in _body(si):
        if isinstance(s, ast.If) and "indexMesh" in _src(s.test) and "!=" in _src(s.test) and _stmts_calling(s.body, "self", "__Update_mesh"):
            calls_um = True
    calls_um = calls_um or bool(_stmts_calling(_body(si), "self", "__Update_mesh"))
    note("t_updmesh_need", _raises(_body(um)) and calls_um, rel, um)
    note("t_updmesh_clear", bool(_stmts_calling(_body(um), None, "clear_cached_computed_values", ["self"])), rel, um)

    bi = _method(S, "Bc_Init", rel=rel)
    note("t_bcinit", _mode(_body(bi), "Bc_Lagrange", "_Simu.Bc_Init", reset_targets=("self.__Bc_Lagrange",)), rel, bi)
    if not _assigns(_body(bi), "self.__Bc_Lagrange") or not _assigns(_body(bi), "self.__Bc_Dirichlet"):
        raise TranslateError("%s: Bc_Init does not reset the condition lists" % rel)
    adi = _method(S, "add_dirichlet", rel=rel)
    bad = _method(S, "_Bc_Add_Dirichlet", rel=rel)
    if not _contains_call(adi, "self", "_Bc_Add_Dirichlet"):
        raise TranslateError("%s: add_dirichlet no longer goes through _Bc_Add_Dirichlet" % rel)
    m_a = _mode(_body(adi), "Bc_Lagrange", "_Simu.add_dirichlet")
    m_b = _mode(_body(bad), "Bc_Lagrange", "_Simu._Bc_Add_Dirichlet")
    order = ["NNever", "NIfLag", "NAlways"]
    # add_dirichlet has early `return`s before the helper call only for rejected inputs
    note("t_dirichlet", max(m_a, m_b, key=order.index), rel, bad)
    bne = _method(S, "_Bc_Add_Neumann", rel=rel)
    note("t_neumann", _mode(_body(bne), "Bc_Lagrange", "_Simu._Bc_Add_Neumann"), rel, bne)
    bla = _method(S, "_Bc_Add_Lagrange", rel=rel)
    note("t_lagrange", _mode(_body(bla), "Bc_Lagrange", "_Simu._Bc_Add_Lagrange"), rel, bla)

    gk = _method(S, "Get_K_C_M_F", rel=rel)
    reset = None
    for s in _body(gk):
        if isinstance(s, ast.If):
            if _src(s.test) != "self.needUpdate" or s.orelse:
                raise TranslateError("%s: Get_K_C_M_F guard is `if %s` (expected `if self.needUpdate`)" % (rel, _src(s.test)))
            if not any(isinstance(t, ast.Assign) and _contains_call(t, "self", "Assembly") for t in s.body):
                raise TranslateError("%s: Get_K_C_M_F does not assemble under `if self.needUpdate`" % rel)
            reset = any(isinstance(t, ast.Expr) and _is_call(t, "self", "Need_Update") and not _need_update_true(t) for t in s.body)
    if reset is None:
        raise TranslateError("%s: Get_K_C_M_F has no `if self.needUpdate` block" % rel)
    note("t_getk_reset", reset, rel, gk)

    nr = _method(S, "_Solver_Solve_Newton_Raphson", rel=rel)
    newton = False
    for s in _body(nr):
        if isinstance(s, ast.While):
            idx_need = [i for i in _stmts_calling(s.body, "self", "Need_Update") if _need_update_true(s.body[i])]
            idx_solve = [i for i, t in enumerate(s.body) if _contains_call(t, None, "Solve_simu")]
            newton = bool(idx_need) and bool(idx_solve) and min(idx_need) < min(idx_solve)
    note("t_newton_need", newton, rel, nr)

    asm = _method(S, "__Assemble_csr", rel=rel)
    gm = _method(S, "__Get_csr_map", rel=rel)
    decorated = any(_src(d) == "cache_computed_values" for d in gm.decorator_list)
    params = [a.arg for a in gm.args.args]
    call = [c for c in ast.walk(asm) if _is_call(c, "self", "__Get_csr_map")]
    if not call:
        raise TranslateError("%s: __Assemble_csr no longer calls __Get_csr_map" % rel)
    passed = [_src(a) for a in call[0].args] + [k.arg for k in call[0].keywords]
    positional = not call[0].keywords
    note("t_csr_key_groups", (not decorated) or (key_uses_args and positional and "groups" in params and "groups" in passed), rel, gm)
    note("t_csr_key_ndof", (not decorated) or (key_uses_args and positional and "Ndof" in params and "Ndof" in passed), rel, gm)

    # ---- Simulations/_elastic.py ---------------------------------------------------------------------------------
    rel = "Simulations/_elastic.py"
    C = _classes(_parse(repo, rel))
    if "Elastic" not in C:
        raise TranslateError("%s: class Elastic not found" % rel)
    rd = _method(C["Elastic"], "Set_Rayleigh_Damping_Coefs", rel=rel)
    note("t_ray_need", _raises(_body(rd)), rel, rd)

    # ---- Simulations/_phasefield.py -----------------------------------------------------------------------------------
    rel = "Simulations/_phasefield.py"
    C = _classes(_parse(repo, rel))
    if "PhaseField" not in C:
        raise TranslateError("%s: class PhaseField not found" % rel)
    P = C["PhaseField"]
    if any(isinstance(m, ast.FunctionDef) and m.name == "_Update" for m in P.body):
        p1, p2, p3, pup = update_flags(P, rel)
        for name, v in (("t_upd_model_need", p1), ("t_upd_mesh_need", p2), ("t_upd_mesh_clear", p3)):
            if F[name] and not v:
                note(name, False, rel, pup)
    pini = _method(P, "__init__", rel=rel)
    pf_sub = bool(_stmts_calling(_body(pini), "self.phaseFieldModel.material", "_Add_observer", ["self"]))
    pn = _method(P, "Need_Update", rel=rel)
    v = pn.args.args[1].arg
    note("t_pf_need_d", bool(_assigns(_body(pn), "self.__updatedDamage", "not " + v)), rel, pn)
    note("t_pf_need_u", bool(_assigns(_body(pn), "self.__updatedDisplacement", "not " + v)), rel, pn)
    psi = _method(P, "Set_Iter", rel=rel)
    note("t_pf_setiter_d", bool(_assigns(_body(psi), "self.__updatedDamage", "False")), rel, psi)
    note("t_pf_setiter_u", bool(_assigns(_body(psi), "self.__updatedDisplacement", "False")), rel, psi)
    pso = _method(P, "Solve", rel=rel)
    dmg_inval_u = el_inval_d = False
    for s in _body(pso):
        if isinstance(s, ast.While):
            wb = s.body
            i_d = [i for i, t in enumerate(wb) if _contains_call(t, "self", "__Solve_damage")]
            i_e = [i for i, t in enumerate(wb) if _contains_call(t, "self", "__Solve_elastic")]
            if len(i_d) != 1 or len(i_e) != 1 or i_d[0] > i_e[0]:
                raise TranslateError("%s: staggered loop no longer solves damage then displacement" % rel)
            dmg_inval_u = any(i_d[0] < i < i_e[0] for i in _assigns(wb, "self.__updatedDisplacement", "False"))
            el_inval_d = any(i > i_e[0] for i in _assigns(wb, "self.__updatedDamage", "False"))
    note("t_pf_dmg_inval_u", dmg_inval_u, rel, pso)
    note("t_pf_el_inval_d", el_inval_d, rel, pso)
    pgk = _method(P, "Get_K_C_M_F", rel=rel)
    guards = [_src(n.test) for n in ast.walk(pgk) if isinstance(n, ast.If)]
    if "not self.__updatedDisplacement" not in guards or "not self.__updatedDamage" not in guards:
        raise TranslateError("%s: PhaseField.Get_K_C_M_F guards changed: %s" % (rel, guards))
    pnp = _method(P, "needUpdate", rel=rel)
    if "self.__updatedDamage" not in _src(pnp) or "self.__updatedDisplacement" not in _src(pnp):
        raise TranslateError("%s: PhaseField.needUpdate no longer reads both flags" % rel)

    # ---- Simulations/_beam.py : beams are sub-models, the simulation must observe each ------------------------------
    rel = "Simulations/_beam.py"
    C = _classes(_parse(repo, rel))
    if "Beam" not in C:
        raise TranslateError("%s: class Beam not found" % rel)
    bini = _method(C["Beam"], "__init__", rel=rel)
    beam_sub = False
    for n in ast.walk(bini):
        if isinstance(n, (ast.ListComp, ast.For)):
            it = n.generators[0].iter if isinstance(n, ast.ListComp) else n.iter
            var = n.generators[0].target if isinstance(n, ast.ListComp) else n.target
            if _src(it) == "model.beams" and any(_is_call(c, _src(var), "_Add_observer") for c in ast.walk(n) if isinstance(c, ast.Call)):
                beam_sub = True
    note("t_pf_sub_material", pf_sub and beam_sub and observers_ok, "Simulations/_phasefield.py", pini)

    # ---- Simulations/_hyperelastic.py ---------------------------------------------------------------------------------
    rel = "Simulations/_hyperelastic.py"
    C = _classes(_parse(repo, rel))
    if "HyperElastic" not in C:
        raise TranslateError("%s: class HyperElastic not found" % rel)
    try:
        me = _method(C["HyperElastic"], "__Mass_e", rel=rel)
        dec = any(_src(d) == "cache_computed_values" for d in me.decorator_list)
        note("t_mass_key_group", (not dec) or (key_uses_args and "groupElem" in [a.arg for a in me.args.args]), rel, me)
    except TranslateError:
        # no cached mass block at all: nothing can be stale
        F["t_mass_key_group"] = True
        L["t_mass_key_group"] = rel + ":0"
    # ---- Models/**: derived quantities cached ON a model and reset only through a property setter ------------------
    # pattern: a property setter stores `self.__x = None` (invalidation), the lazily-updated properties (`if
    # self.needUpdate: self._Update(); ...`) call those setters; every OTHER reader of `self.__x` must therefore
    # trigger the lazy update (read one of those properties, or test self.needUpdate) BEFORE it looks at the cache.
    refresh_ok, where = True, "Models:0"
    mroot = os.path.join(repo, "EasyFEA", "Models")
    for dirpath, _, files in sorted(os.walk(mroot)):
        for fn in sorted(files):
            if not fn.endswith(".py"):
                continue
            rel = os.path.relpath(os.path.join(dirpath, fn), os.path.join(repo, "EasyFEA"))
            for cls in _classes(_parse(repo, rel)).values():
                funcs = [m for m in cls.body if isinstance(m, ast.FunctionDef)]
                setters = [m for m in funcs if any(isinstance(d, ast.Attribute) and d.attr == "setter" for d in m.decorator_list)]
                invalidated = set()
                for m in setters:
                    for n in ast.walk(m):
                        if isinstance(n, ast.Assign) and isinstance(n.value, ast.Constant) and n.value.value is None:
                            t = _src(n.targets[0])
                            if t.startswith("self.__"):
                                invalidated.add(t)
                if not invalidated:
                    continue
                lazy = set()
                for m in funcs:
                    if any(_src(d) == "property" for d in m.decorator_list):
                        for n in ast.walk(m):
                            if isinstance(n, ast.If) and "self.needUpdate" in _src(n.test) and _contains_call(n, "self", "_Update"):
                                lazy.add("self." + m.name)
                triggers = lazy | {"self.needUpdate"}

                def loads(node, names):
                    return any(isinstance(n, ast.Attribute) and isinstance(n.ctx, ast.Load) and _src(n) in names for n in ast.walk(node))
                for m in funcs:
                    if m in setters or m.name == "__init__":
                        continue
                    b = _body(m)
                    first_read = next((i for i, st_ in enumerate(b) if loads(st_, invalidated)), None)
                    if first_read is None:
                        continue
                    if not any(loads(b[i], triggers) for i in range(first_read)):
                        refresh_ok = False
                        where = "%s:%d" % (rel, m.lineno)
                if refresh_ok and where == "Models:0":
                    where = "%s:%d" % (rel, cls.lineno)
    # ... and quantities derived AT CONSTRUCTION from a parameter object (a sub-model: `elastic.C`,
    # `elastic.Get_sqrt_C_S()`), stored on a private attribute that no other method ever re-assigns: they cannot follow
    # a later change of that sub-model's parameters
    for dirpath, _, files in sorted(os.walk(mroot)):
        for fn in sorted(files):
            if not fn.endswith(".py"):
                continue
            rel = os.path.relpath(os.path.join(dirpath, fn), os.path.join(repo, "EasyFEA"))
            for cls in _classes(_parse(repo, rel)).values():
                if not any(_src(b).split(".")[-1] in ("_IModel", "Updatable") for b in cls.bases):
                    continue
                funcs = [m for m in cls.body if isinstance(m, ast.FunctionDef)]
                ini = next((m for m in funcs if m.name == "__init__"), None)
                if ini is None:
                    continue
                params = {a.arg for a in ini.args.args[1:]}
                for n in ast.walk(ini):
                    if not (isinstance(n, ast.Assign) and len(n.targets) == 1 and _src(n.targets[0]).startswith("self.__")):
                        continue
                    derived = any(isinstance(x, ast.Attribute) and isinstance(x.value, ast.Name) and x.value.id in params
                                  and (x.attr in ("C", "S") or x.attr.startswith("Get_")) for x in ast.walk(n.value))
                    if not derived:
                        continue
                    tgt = _src(n.targets[0])
                    reassigned = any(isinstance(x, (ast.Assign, ast.AugAssign)) and tgt in [_src(t) for t in (x.targets if isinstance(x, ast.Assign) else [x.target])]
                                     for m in funcs if m is not ini for x in ast.walk(m))
                    if not reassigned:
                        refresh_ok = False
                        where = "%s:%d" % (rel, n.lineno)
    # ... and memoised methods of the SIMULATIONS: the simulation-level cache is cleared by mesh events only, so every
    # input of a `cache_computed_values` method must be one of its arguments (part of the key); a body that reads
    # `self.<anything>` (a model parameter, rho, ...) caches a quantity whose invalidation is not shown
    sroot2 = os.path.join(repo, "EasyFEA", "Simulations")
    for fn_ in sorted(os.listdir(sroot2)):
        if not fn_.endswith(".py"):
            continue
        rel3 = "Simulations/" + fn_
        for cls in _classes(_parse(repo, rel3)).values():
            for m in cls.body:
                if isinstance(m, ast.FunctionDef) and any(_src(d) == "cache_computed_values" for d in m.decorator_list):
                    selfname = m.args.args[0].arg
                    reads_self = any(isinstance(n, ast.Name) and n.id == selfname for st_ in _body(m) for n in ast.walk(st_))
                    if reads_self:
                        refresh_ok = False
                        where = "%s:%d" % (rel3, m.lineno)
    F["t_model_cache_refresh"] = refresh_ok
    L["t_model_cache_refresh"] = where
    return F, L


ORDER = ["t_param_need", "t_model_notify", "t_upd_model_need", "t_upd_mesh_need", "t_upd_mesh_clear",
         "t_init_sub_model", "t_init_sub_mesh", "t_pf_sub_material", "t_rho_need", "t_ray_need",
         "t_mesh_clear", "t_mesh_notify", "t_meshset_need", "t_meshset_clear", "t_meshset_sub", "t_meshset_keeps_old", "t_meshset_initsols",
         "t_updmesh_need", "t_updmesh_clear", "t_bcinit", "t_dirichlet", "t_neumann", "t_lagrange",
         "t_getk_reset", "t_newton_need", "t_pf_need_d", "t_pf_need_u", "t_pf_setiter_d", "t_pf_setiter_u",
         "t_pf_dmg_inval_u", "t_pf_el_inval_d", "t_csr_key_groups", "t_csr_key_ndof", "t_mass_key_group",
         "t_param_get_copies", "t_param_set_unconditional", "t_model_cache_refresh"]

MOPS = ["MTranslate", "MRotate", "MSymmetry", "MCoordSet"]


def emit_coq(F, L):
    def b(x):
        return "true" if x else "false"
    out = ["(* GENERATED by translator/notify.py from the source tree -- do not edit *)",
           "From EFModel Require Import C14_Cache.", "",
           "Definition gen_table : table :=", "  mkTable"]
    for name in ORDER:
        v = F[name]
        if isinstance(v, dict):
            fn = "(fun k => match k with " + " | ".join("%s => %s" % (m, b(v[m])) for m in MOPS) + " end)"
            out.append("    %s (* %s : %s *)" % (fn, name, ", ".join("%s %s" % (m, L[name + "." + m]) for m in MOPS)))
        elif isinstance(v, str):
            out.append("    %s (* %s : %s *)" % (v, name, L[name]))
        else:
            out.append("    %s (* %s : %s *)" % (b(v), name, L[name]))
    out[-1] += "."
    return "\n".join(out) + "\n"


if __name__ == "__main__":
    import json
    import sys
    F, L = derive(sys.argv[1] if len(sys.argv) > 1 else "/repo")
    print(json.dumps(F, indent=1))
    print(emit_coq(F, L))
