"""C18 — fail-closed ast translator for the hyperelastic laws and the invariant tables.

Reads (never imports) `<repo>/EasyFEA/Models/HyperElastic/_laws.py`, `_state.py` and
`<repo>/EasyFEA/FEM/Operators/NonLinear.py` (the discrete-gradient stress of
`GonzalezStressTensor`) and returns python trees; `emit_*` print Coq text.

Rich expression tree ("rtree"):
  ('c', Fraction) | ('v', name) | ('+',a,b) | ('-',a,b) | ('*',a,b) | ('/',a,b) | ('neg',a)
  | ('pow', a, Fraction q) | ('exp',a) | ('ln',a) | ('sqrt',a)

What is extracted
  laws   : per class deriving from _HyperElastic with hand-typed formulas
             params (self.X reads), invariants used (k, direction args),
             W                                  rtree over params + I1..I8
             dW   : {k: coefficient rtree of dIkdC in the returned stress}       (2*dWdIk)
             d2W1 : {k: coefficient rtree of d2IkdC in the returned tangent}     (4*dWdIk)
             d2W2 : {(j,k): coefficient rtree of TensorProd(dIjdC, dIkdC)}       (4*d2WdIjdIk)
           Local names (dWdI3, I3_43, eC1 ...) are inlined, so the model does not depend on
           them; what counts is which coefficient multiplies which tensor.
  state  : invariant polynomials I1, I2, I3, Ianiso(A,B) in the six components of C,
           their hand-typed first/second derivative tables in Kelvin-Mandel components
           (np.sqrt(2) is the symbol r2), the 1D/2D slices, C = F^T F, E = (C - I)/2.
  gonzalez: the five assignments defining S_hat in GonzalezStressTensor.
Anything outside the accepted grammar raises TranslateError (the check reports it)."""
import ast
import os
from fractions import Fraction

from translator.pyexpr import TranslateError

INV = [1, 2, 3, 4, 6, 8]
COMP = ["cxx", "cyy", "czz", "cyz", "cxz", "cxy"]          # Kelvin-Mandel order
POS9 = ["cxx", "cxy", "cxz", "cxy", "cyy", "cyz", "cxz", "cyz", "czz"]   # row-major, symmetric
PVARS = COMP + ["r2", "Ax", "Ay", "Az", "Bx", "By", "Bz"]  # PExpr variable order (1-based)

ZERO = ('c', Fraction(0))
ONE = ('c', Fraction(1))


def C(x):
    return ('c', Fraction(x))


# ----------------------------------------------------------------------------------------
# expressions
# ----------------------------------------------------------------------------------------
def _const_fold(t):
    """Fraction value of a constant rtree or None."""
    k = t[0]
    if k == 'c':
        return t[1]
    if k == 'v' or k in ('exp', 'ln', 'sqrt'):
        return None
    if k == 'neg':
        a = _const_fold(t[1])
        return None if a is None else -a
    if k == 'pow':
        a = _const_fold(t[1])
        if a is None or t[2].denominator != 1:
            return None
        if a == 0 and t[2] < 0:
            return None
        return a ** int(t[2])
    a, b = _const_fold(t[1]), _const_fold(t[2])
    if a is None or b is None:
        return None
    if k == '+':
        return a + b
    if k == '-':
        return a - b
    if k == '*':
        return a * b
    if k == '/':
        return None if b == 0 else a / b
    return None


def expr(node, env, where):
    """ast expression -> rtree; env: name -> rtree."""
    def rec(n):
        if isinstance(n, ast.Constant):
            v = n.value
            if isinstance(v, bool) or not isinstance(v, (int, float)):
                raise TranslateError("%s: constant %r" % (where, v))
            return ('c', Fraction(v) if isinstance(v, int) else Fraction(repr(v)))
        if isinstance(n, ast.Name):
            if n.id in env:
                return env[n.id]
            raise TranslateError("%s: unbound name %s (line %d)" % (where, n.id, n.lineno))
        if isinstance(n, ast.UnaryOp):
            if isinstance(n.op, ast.USub):
                return ('neg', rec(n.operand))
            if isinstance(n.op, ast.UAdd):
                return rec(n.operand)
            raise TranslateError("%s: unary operator line %d" % (where, n.lineno))
        if isinstance(n, ast.BinOp):
            op = type(n.op)
            if op in (ast.Add, ast.Sub, ast.Mult, ast.Div):
                return ({ast.Add: '+', ast.Sub: '-', ast.Mult: '*', ast.Div: '/'}[op], rec(n.left), rec(n.right))
            if op is ast.Pow:
                q = _const_fold(rec(n.right))
                if q is None:
                    raise TranslateError("%s: non-constant exponent %s (line %d)" % (where, ast.unparse(n.right), n.lineno))
                return ('pow', rec(n.left), q)
            raise TranslateError("%s: operator %s line %d" % (where, op.__name__, n.lineno))
        if isinstance(n, ast.Call) and isinstance(n.func, ast.Attribute) and isinstance(n.func.value, ast.Name) \
                and n.func.value.id == "np" and n.func.attr in ("exp", "log", "sqrt") and len(n.args) == 1 and not n.keywords:
            return ({"exp": 'exp', "log": 'ln', "sqrt": 'sqrt'}[n.func.attr], rec(n.args[0]))
        raise TranslateError("%s: expression %s (line %d)" % (where, ast.unparse(n)[:70], getattr(n, "lineno", 0)))
    return rec(node)


def free_vars(t, acc=None):
    acc = set() if acc is None else acc
    if t[0] == 'v':
        acc.add(t[1])
    elif t[0] != 'c':
        for s in t[1:]:
            if isinstance(s, tuple):
                free_vars(s, acc)
    return acc


def subst(t, m):
    if t[0] == 'v':
        return m.get(t[1], t)
    if t[0] == 'c':
        return t
    return tuple(subst(s, m) if isinstance(s, tuple) else s for s in t)


def smul(a, b):
    if a == ONE:
        return b
    if b == ONE:
        return a
    return ('*', a, b)


# --- Coq (real functions) ------------------------------------------------------------------
def coqR(t):
    k = t[0]
    if k == 'c':
        q = t[1]
        if q.denominator == 1:
            return "%d" % q.numerator if q >= 0 else "(-%d)" % (-q.numerator)
        return "(%d/%d)" % (q.numerator, q.denominator) if q >= 0 else "(-%d/%d)" % (-q.numerator, q.denominator)
    if k == 'v':
        return t[1]
    if k == 'neg':
        return "(- %s)" % coqR(t[1])
    if k == 'pow':
        q = t[2]
        if q.denominator == 1 and q >= 0:
            return "(%s ^ %d)" % (coqR(t[1]), q.numerator)
        return "(Rpower %s %s)" % (coqR(t[1]), coqR(('c', q)))
    if k in ('exp', 'ln', 'sqrt', 'cos'):
        return "(%s %s)" % (k, coqR(t[1]))
    return "(%s %s %s)" % (coqR(t[1]), k, coqR(t[2]))


# --- evaluation (python side: correspondence + search) ------------------------------------
def ev(t, env, num):
    """num: number system object with .const(Fraction) .exp .ln .sqrt .pow(x, Fraction)."""
    k = t[0]
    if k == 'c':
        return num.const(t[1])
    if k == 'v':
        return env[t[1]]
    if k == 'neg':
        return -ev(t[1], env, num)
    if k == 'pow':
        return num.pow(ev(t[1], env, num), t[2])
    if k == 'exp':
        return num.exp(ev(t[1], env, num))
    if k == 'ln':
        return num.ln(ev(t[1], env, num))
    if k == 'sqrt':
        return num.sqrt(ev(t[1], env, num))
    a, b = ev(t[1], env, num), ev(t[2], env, num)
    return a + b if k == '+' else a - b if k == '-' else a * b if k == '*' else a / b


class DecNum:
    """decimal.Decimal arithmetic with `prec` digits (mpmath-free high precision)."""
    def __init__(self, prec=60):
        import decimal
        self.d = decimal
        self.ctx = decimal.Context(prec=prec)
        decimal.getcontext().prec = prec

    def const(self, q):
        return self.d.Decimal(q.numerator) / self.d.Decimal(q.denominator)

    def of_float(self, x):
        return self.d.Decimal(x)

    def exp(self, x):
        return x.exp()

    def ln(self, x):
        return x.ln()

    def sqrt(self, x):
        return x.sqrt()

    def pow(self, x, q):
        if q.denominator == 1:
            return x ** int(q)
        return (x.ln() * self.const(q)).exp()


class FracNum:
    """exact rationals; raises on transcendental operations."""
    def const(self, q):
        return q

    def of_float(self, x):
        return Fraction(x)

    def exp(self, x):
        raise ArithmeticError("exp")

    ln = sqrt = exp

    def pow(self, x, q):
        if q.denominator != 1:
            raise ArithmeticError("rational power")
        return x ** int(q)


# --- polynomial (PExpr Q) conversion ---------------------------------------------------------
def to_poly(t, where):
    """rtree -> pyexpr-style polynomial tree over PVARS (fails on non-polynomial)."""
    k = t[0]
    if k == 'c':
        return t
    if k == 'v':
        if t[1] not in PVARS:
            raise TranslateError("%s: variable %s not allowed in an invariant table" % (where, t[1]))
        return ('x', PVARS.index(t[1]) + 1)
    if k == 'neg':
        return ('neg', to_poly(t[1], where))
    if k == 'pow':
        if t[2].denominator != 1 or t[2] < 0:
            raise TranslateError("%s: exponent %s in an invariant table" % (where, t[2]))
        return ('pow', to_poly(t[1], where), int(t[2]))
    if k in '+-*':
        return (k, to_poly(t[1], where), to_poly(t[2], where))
    if k == '/':
        c = _const_fold(t[2])
        if c is None or c == 0:
            raise TranslateError("%s: division by a non-constant in an invariant table" % where)
        return ('*', to_poly(t[1], where), ('c', 1 / c))
    if k == 'sqrt':
        c = _const_fold(t[1])
        if c == 2:
            return ('x', PVARS.index("r2") + 1)
    raise TranslateError("%s: %s is not polynomial" % (where, k))


# dict-of-monomials arithmetic (exact) used for cofactors mod r2^2 - 2 and the search
def pnorm(t, nvars=len(PVARS)):
    k = t[0]
    if k == 'c':
        return {(0,) * nvars: t[1]} if t[1] != 0 else {}
    if k == 'x':
        m = [0] * nvars
        m[t[1] - 1] = 1
        return {tuple(m): Fraction(1)}
    if k == 'neg':
        return {m: -c for m, c in pnorm(t[1], nvars).items()}
    if k == 'pow':
        r = {(0,) * nvars: Fraction(1)}
        b = pnorm(t[1], nvars)
        for _ in range(t[2]):
            r = pmul(r, b)
        return r
    a, b = pnorm(t[1], nvars), pnorm(t[2], nvars)
    if k == '+':
        return padd(a, b)
    if k == '-':
        return padd(a, {m: -c for m, c in b.items()})
    return pmul(a, b)


def padd(a, b):
    r = dict(a)
    for m, c in b.items():
        v = r.get(m, 0) + c
        if v == 0:
            r.pop(m, None)
        else:
            r[m] = v
    return r


def pmul(a, b):
    r = {}
    for m1, c1 in a.items():
        for m2, c2 in b.items():
            m = tuple(x + y for x, y in zip(m1, m2))
            v = r.get(m, 0) + c1 * c2
            if v == 0:
                r.pop(m, None)
            else:
                r[m] = v
    return r


def pdiff(a, i):
    """partial derivative of a monomial dict w.r.t. variable index i (0-based)."""
    r = {}
    for m, c in a.items():
        if m[i] > 0:
            mm = list(m)
            mm[i] -= 1
            r[tuple(mm)] = r.get(tuple(mm), 0) + c * m[i]
    return {m: c for m, c in r.items() if c != 0}


R2 = PVARS.index("r2")


def reduce_r2(a):
    """(remainder, cofactor) with a = remainder + cofactor * (r2^2 - 2), deg_r2(remainder) <= 1."""
    rem, cof = {}, {}
    work = dict(a)
    while work:
        m, c = work.popitem()
        if m[R2] >= 2:
            mm = list(m)
            mm[R2] -= 2
            mm = tuple(mm)
            cof = padd(cof, {mm: c})
            work = padd(work, {mm: 2 * c})
        else:
            rem = padd(rem, {m: c})
    return rem, cof


def poly_of_dict(a):
    """monomial dict -> pyexpr polynomial tree."""
    terms = []
    for m, c in sorted(a.items()):
        t = ('c', c)
        for i, e in enumerate(m):
            if e == 1:
                t = ('*', t, ('x', i + 1))
            elif e > 1:
                t = ('*', t, ('pow', ('x', i + 1), e))
        terms.append(t)
    if not terms:
        return ZERO
    r = terms[0]
    for t in terms[1:]:
        r = ('+', r, t)
    return r


# ----------------------------------------------------------------------------------------
# _state.py
# ----------------------------------------------------------------------------------------
def _body(fn):
    b = fn.body
    if b and isinstance(b[0], ast.Expr) and isinstance(b[0].value, ast.Constant) and isinstance(b[0].value.value, str):
        b = b[1:]
    return b


def _is_self_call(n, name=None):
    return isinstance(n, ast.Call) and isinstance(n.func, ast.Attribute) and isinstance(n.func.value, ast.Name) \
        and n.func.value.id == "self" and (name is None or n.func.attr == name)


def _int(n, where):
    if isinstance(n, ast.Constant) and isinstance(n.value, int) and not isinstance(n.value, bool):
        return n.value
    raise TranslateError("%s: expected an integer literal, got %s" % (where, ast.unparse(n)))


class StateReader:
    def __init__(self, path):
        self.path = path
        src = open(path).read()
        mod = ast.parse(src)
        cls = [n for n in mod.body if isinstance(n, ast.ClassDef) and n.name == "HyperElasticState"]
        if len(cls) != 1:
            raise TranslateError("_state.py: class HyperElasticState not found")
        self.fn = {}
        for n in cls[0].body:
            if isinstance(n, ast.FunctionDef):
                self.fn[n.name] = n
        self.lines = {k: v.lineno for k, v in self.fn.items()}
        self.slices = self._read_slices()
        self.zeroed = self._read_normalized_components()

    # -- _Slice_Vector / _Slice_Matrix : {dim: [indices]} ---------------------------------
    def _read_slices(self):
        res = {}
        for name in ("_Slice_Vector", "_Slice_Matrix"):
            fn = self._get(name)
            sl = {}
            seen_if = False
            for st in _body(fn):
                if isinstance(st, ast.Assert):
                    continue
                if isinstance(st, ast.Assign) and len(st.targets) == 1 and isinstance(st.targets[0], ast.Name) and st.targets[0].id == "dim":
                    continue
                if isinstance(st, ast.If):
                    seen_if = True
                    cur = st
                    while True:
                        t = cur.test
                        if not (isinstance(t, ast.Compare) and isinstance(t.left, ast.Name) and t.left.id == "dim"
                                and len(t.ops) == 1 and isinstance(t.ops[0], ast.Eq)):
                            raise TranslateError("_state.py %s: unexpected test %s" % (name, ast.unparse(t)))
                        d = _int(t.comparators[0], name)
                        if len(cur.body) != 1 or not isinstance(cur.body[0], ast.Assign):
                            raise TranslateError("_state.py %s: unexpected branch body" % name)
                        idx = self._slice_indices(cur.body[0].value, name)
                        sl[d] = idx
                        if not cur.orelse:
                            break
                        if len(cur.orelse) == 1 and isinstance(cur.orelse[0], ast.If):
                            cur = cur.orelse[0]
                        else:
                            raise TranslateError("_state.py %s: unexpected else" % name)
                    continue
                if isinstance(st, ast.Return) and isinstance(st.value, ast.Name):
                    continue
                raise TranslateError("_state.py %s: unexpected statement line %d" % (name, st.lineno))
            if not seen_if:
                raise TranslateError("_state.py %s: no dim dispatch" % name)
            sl[3] = list(range(6))
            res[name] = sl
        self.slices_mat = res["_Slice_Matrix"]
        return res["_Slice_Vector"]

    def _slice_indices(self, v, name):
        # vector[..., [0, 1, 5]]   or   matrix[..., [0,1,5], :][..., [0,1,5]]
        def one(sub):
            if not (isinstance(sub, ast.Subscript) and isinstance(sub.slice, ast.Tuple)):
                raise TranslateError("_state.py %s: unexpected slice %s" % (name, ast.unparse(sub)))
            el = sub.slice.elts
            lists = [e for e in el if isinstance(e, ast.List)]
            if len(lists) != 1 or not isinstance(el[0], ast.Constant) or el[0].value is not Ellipsis:
                raise TranslateError("_state.py %s: unexpected slice %s" % (name, ast.unparse(sub)))
            return [_int(e, name) for e in lists[0].elts], sub.value, el.index(lists[0]), len(el)
        idx, inner, pos, n = one(v)
        if isinstance(inner, ast.Name):
            if (pos, n) != (1, 2):
                raise TranslateError("_state.py %s: unexpected vector slice" % name)
            return idx
        idx2, inner2, pos2, n2 = one(inner)
        if not isinstance(inner2, ast.Name) or idx2 != idx or (pos, n) != (1, 2) or (pos2, n2) != (1, 3):
            raise TranslateError("_state.py %s: row/column slices differ or are misplaced" % name)
        return idx

    # -- _Get_normalized_components: which components are zeroed per dim ----------------------
    def _read_normalized_components(self):
        fn = self._get("_Get_normalized_components")
        names = None
        zeroed = {}
        for st in _body(fn):
            if isinstance(st, ast.Assign) and isinstance(st.targets[0], ast.Tuple) and isinstance(st.value, ast.Tuple) \
                    and all(isinstance(e, ast.Subscript) for e in st.value.elts):
                names = [e.id for e in st.targets[0].elts]
                for i, e in enumerate(st.value.elts):
                    s = e.slice
                    if not (isinstance(s, ast.Tuple) and len(s.elts) == 2 and _int(s.elts[1], "T comp") == i):
                        raise TranslateError("_state.py _Get_normalized_components: component order")
            elif isinstance(st, ast.If) and isinstance(st.test, ast.Compare) and isinstance(st.test.left, ast.Name) and st.test.left.id == "dim":
                cur = st
                while True:
                    d = _int(cur.test.comparators[0], "dim")
                    z = []
                    for a in cur.body:
                        if not (isinstance(a, ast.Assign) and isinstance(a.value, ast.Constant) and a.value.value == 0
                                and all(isinstance(t, ast.Name) for t in a.targets)):
                            raise TranslateError("_state.py _Get_normalized_components: branch")
                        z += [t.id for t in a.targets]
                    zeroed[d] = z
                    if not cur.orelse:
                        break
                    if len(cur.orelse) == 1 and isinstance(cur.orelse[0], ast.If):
                        cur = cur.orelse[0]
                    else:
                        raise TranslateError("_state.py _Get_normalized_components: else")
            elif isinstance(st, ast.Return):
                if not (isinstance(st.value, ast.Tuple) and names and [e.id for e in st.value.elts] == names):
                    raise TranslateError("_state.py _Get_normalized_components: return")
            # other statements (type checks, astype, dim = ...) do not change the values
            elif isinstance(st, (ast.Expr, ast.If, ast.Assign)):
                continue
            else:
                raise TranslateError("_state.py _Get_normalized_components: statement line %d" % st.lineno)
        if names is None or len(names) != 3:
            raise TranslateError("_state.py _Get_normalized_components: components not found")
        return {d: [names.index(n) for n in z] for d, z in zeroed.items()}   # {1:[1,2], 2:[2]}

    def _get(self, name):
        if name not in self.fn:
            raise TranslateError("_state.py: method %s not found" % name)
        return self.fn[name]

    # -- symbolic execution of a Compute_* method --------------------------------------------
    def run(self, name, args=(), depth=0):
        """args: list of direction symbols ('A'/'B').  Returns
           ('scalar', rtree) | ('vec', [rtree]*6) | ('mat', [[rtree]*6]*6)  — always the
           unsliced 3-D objects; slices are applied by the consumer."""
        if depth > 4:
            raise TranslateError("_state.py: delegation too deep at %s" % name)
        fn = self._get(name)
        where = "_state.py:%s" % name
        params = [a.arg for a in fn.args.args[1:]]
        if len(params) != len(args):
            raise TranslateError("%s: takes %d direction(s), got %d" % (where, len(params), len(args)))
        dirs = dict(zip(params, args))
        env = {}
        tabs = {}
        ienv = {}       # loop variables bound to integer literals
        lits = {}       # name -> literal list of tuples (ints / rtrees), for table-plus-loop fills

        def index(e):
            if isinstance(e, ast.Name) and e.id in ienv:
                return ienv[e.id]
            return _int(e, where)

        def item(e):
            """element of a literal tuple: an integer literal stays an int, anything else is a scalar expression"""
            if isinstance(e, ast.Constant) and isinstance(e.value, int) and not isinstance(e.value, bool):
                return e.value
            return expr(e, env, where)

        def literal_rows(v):
            if isinstance(v, ast.Name) and v.id in lits:
                return lits[v.id]
            if isinstance(v, (ast.List, ast.Tuple)) and v.elts and all(isinstance(e, ast.Tuple) for e in v.elts):
                n = len(v.elts[0].elts)
                if any(len(e.elts) != n for e in v.elts):
                    raise TranslateError("%s: ragged literal table line %d" % (where, v.lineno))
                return [[item(x) for x in e.elts] for e in v.elts]
            return None

        def do(st, in_loop):
            if isinstance(st, ast.Assign):
                v = st.value
                tg = st.targets
                # tuple unpack
                if len(tg) == 1 and isinstance(tg[0], ast.Tuple):
                    names = [e.id if isinstance(e, ast.Name) else None for e in tg[0].elts]
                    if None in names:
                        raise TranslateError("%s: unpack target line %d" % (where, st.lineno))
                    if _is_self_call(v, "_Compute_C") and len(names) == 9:
                        for nm, comp in zip(names, POS9):
                            if nm != "_":
                                env[nm] = ('v', comp)
                        return None
                    if _is_self_call(v, "_Get_normalized_components") and len(names) == 3 and len(v.args) == 1 \
                            and isinstance(v.args[0], ast.Name) and v.args[0].id in dirs:
                        d = dirs[v.args[0].id]
                        for nm, ax in zip(names, "xyz"):
                            env[nm] = ('v', d + ax)
                        return None
                    if _is_self_call(v, "_GetDims") or (isinstance(v, ast.Attribute) and v.attr == "shape"):
                        return None
                    raise TranslateError("%s: unpack of %s line %d" % (where, ast.unparse(v)[:50], st.lineno))
                # table creation
                if len(tg) == 1 and isinstance(tg[0], ast.Name):
                    nm = tg[0].id
                    shape = self._zeros_shape(v)
                    if shape is not None:
                        tabs[nm] = self._zeros(shape)
                        return None
                    if isinstance(v, ast.Call) and ast.unparse(v.func) == "np.array" and len(v.args) == 1 and not v.keywords:
                        tabs[nm] = self._literal(v.args[0], env, where)
                        return None
                    rows = literal_rows(v) if isinstance(v, (ast.List, ast.Tuple)) else None
                    if rows is not None:
                        lits[nm] = rows
                        return None
                    ienv.pop(nm, None)
                    env[nm] = expr(v, env, where)
                    return None
                # table stores (possibly chained)
                if all(isinstance(t, ast.Subscript) for t in tg):
                    val = expr(v, env, where)
                    for t in tg:
                        if not isinstance(t.value, ast.Name) or t.value.id not in tabs:
                            raise TranslateError("%s: store into unknown table line %d" % (where, st.lineno))
                        el = t.slice.elts if isinstance(t.slice, ast.Tuple) else [t.slice]
                        if len(el) < 3 or not all(isinstance(e, ast.Slice) and e.lower is None and e.upper is None for e in el[:2]):
                            raise TranslateError("%s: store index line %d" % (where, st.lineno))
                        idx = [index(e) for e in el[2:]]
                        if any(not 0 <= k < 6 for k in idx):
                            raise TranslateError("%s: store index out of range line %d" % (where, st.lineno))
                        tab = tabs[t.value.id]
                        if len(idx) == 1 and not isinstance(tab[0], list):
                            tab[idx[0]] = val
                        elif len(idx) == 2 and isinstance(tab[0], list):
                            tab[idx[0]][idx[1]] = val
                        else:
                            raise TranslateError("%s: store rank line %d" % (where, st.lineno))
                    return None
                raise TranslateError("%s: assignment line %d" % (where, st.lineno))
            if isinstance(st, ast.For) and not in_loop and not st.orelse:
                # table-plus-loop fill: `for i, j, value in <literal list of tuples>:` with a body of stores
                rows = literal_rows(st.iter)
                tgt = st.target
                names = [e.id for e in tgt.elts] if isinstance(tgt, ast.Tuple) and all(isinstance(e, ast.Name) for e in tgt.elts) else None
                if rows is None or names is None or any(len(r) != len(names) for r in rows):
                    raise TranslateError("%s: for-loop line %d is not a fill from a literal table of tuples" % (where, st.lineno))
                if any(nm in tabs or nm in dirs for nm in names):
                    raise TranslateError("%s: loop variable shadows a table line %d" % (where, st.lineno))
                for r in rows:
                    for nm, val in zip(names, r):
                        if isinstance(val, int):
                            ienv[nm] = val
                            env[nm] = ('c', Fraction(val))
                        else:
                            ienv.pop(nm, None)
                            env[nm] = val
                    for b in st.body:
                        if not isinstance(b, ast.Assign):
                            raise TranslateError("%s: statement %s inside a fill loop line %d" % (where, type(b).__name__, b.lineno))
                        do(b, True)
                for nm in names:
                    ienv.pop(nm, None)
                return None
            if isinstance(st, ast.Return) and not in_loop:
                return self._ret(st.value, env, tabs, dirs, where, depth)
            raise TranslateError("%s: statement %s line %d" % (where, type(st).__name__, st.lineno))

        for st in _body(fn):
            r = do(st, False)
            if r is not None:
                return r
        raise TranslateError("%s: no return" % where)

    def _zeros_shape(self, v):
        if isinstance(v, ast.Call) and ast.unparse(v.func) == "FeArray.zeros":
            tail = []
            for a in v.args[2:]:
                tail.append(_int(a, "FeArray.zeros"))
            if tail in ([6], [6, 6]) and len(v.args) >= 3:
                return tail
            raise TranslateError("_state.py: FeArray.zeros shape %s" % ast.unparse(v))
        return None

    def _zeros(self, shape):
        return [ZERO] * 6 if shape == [6] else [[ZERO] * 6 for _ in range(6)]

    def _literal(self, n, env, where):
        if not isinstance(n, ast.List):
            raise TranslateError("%s: np.array literal" % where)
        if all(isinstance(e, ast.List) for e in n.elts):
            rows = [[expr(x, env, where) for x in e.elts] for e in n.elts]
            if len(rows) != 6 or any(len(r) != 6 for r in rows):
                raise TranslateError("%s: literal shape" % where)
            return rows
        v = [expr(x, env, where) for x in n.elts]
        if len(v) != 6:
            raise TranslateError("%s: literal shape" % where)
        return v

    def _ret(self, v, env, tabs, dirs, where, depth):
        # delegation to another method of self
        if _is_self_call(v) and v.func.attr not in ("_Slice_Vector", "_Slice_Matrix"):
            a = []
            for x in v.args:
                if not (isinstance(x, ast.Name) and x.id in dirs):
                    raise TranslateError("%s: delegation argument %s" % (where, ast.unparse(x)))
                a.append(dirs[x.id])
            return self.run(v.func.attr, a, depth + 1)
        if _is_self_call(v, "_Slice_Vector") or _is_self_call(v, "_Slice_Matrix"):
            kind = 'vec' if v.func.attr == "_Slice_Vector" else 'mat'
            x = v.args[0]
            if isinstance(x, ast.Call) and ast.unparse(x.func) == "FeArray.asfearray" and isinstance(x.args[0], ast.Name):
                x = x.args[0]
            if isinstance(x, ast.Name) and x.id in tabs:
                tab = tabs[x.id]
            else:
                shape = self._zeros_shape(x)
                if shape is None:
                    raise TranslateError("%s: sliced object %s" % (where, ast.unparse(x)[:50]))
                tab = self._zeros(shape)
            if (kind == 'mat') != isinstance(tab[0], list):
                raise TranslateError("%s: slice kind does not match table rank" % where)
            return (kind, tab)
        return ('scalar', expr(v, env, where))


def read_state(repo):
    path = os.path.join(repo, "EasyFEA", "Models", "HyperElastic", "_state.py")
    sr = StateReader(path)
    S = {"file": "EasyFEA/Models/HyperElastic/_state.py", "lines": sr.lines, "slices": sr.slices, "slices_mat": sr.slices_mat, "zeroed": sr.zeroed,
         "inv": {}, "reader": sr}
    # kinematics: C = F^T F, E = (C - I)/2, F = I + grad
    S["kin"] = _read_kinematics(sr)
    return S


def state_invariant(S, k, args):
    """tables of invariant k with direction symbols args -> dict(I=rtree, d1=[6], d2=[[6]*6])."""
    key = (k, tuple(args))
    if key in S["inv"]:
        return S["inv"][key]
    sr = S["reader"]
    kind, I = sr.run("Compute_I%d" % k, list(args))
    if kind != 'scalar':
        raise TranslateError("_state.py Compute_I%d: not a scalar" % k)
    kind, d1 = sr.run("Compute_dI%ddC" % k, list(args))
    if kind != 'vec':
        raise TranslateError("_state.py Compute_dI%ddC: not a sliced vector" % k)
    kind, d2 = sr.run("Compute_d2I%ddC" % k, [])
    if kind != 'mat':
        raise TranslateError("_state.py Compute_d2I%ddC: not a sliced matrix" % k)
    rec = {"k": k, "args": tuple(args), "I": I, "d1": d1, "d2": d2,
           "pI": to_poly(I, "I%d" % k), "pd1": [to_poly(t, "dI%ddC[%d]" % (k, i)) for i, t in enumerate(d1)],
           "pd2": [[to_poly(t, "d2I%ddC[%d][%d]" % (k, i, j)) for j, t in enumerate(r)] for i, r in enumerate(d2)]}
    S["inv"][key] = rec
    return rec


def _read_kinematics(sr):
    """check the three defining lines and return their meaning (fail-closed on rewrites)."""
    def last_assign_value(name, target):
        for st in _body(sr._get(name)):
            if isinstance(st, ast.Assign) and len(st.targets) == 1 and isinstance(st.targets[0], ast.Name) and st.targets[0].id == target:
                return st.value
        raise TranslateError("_state.py %s: assignment to %s not found" % (name, target))
    f = ast.unparse(last_assign_value("Compute_F", "F_e_pg")).replace(" ", "")
    if f not in ("np.eye(3)+grad_e_pg", "grad_e_pg+np.eye(3)"):
        raise TranslateError("_state.py Compute_F: F_e_pg = %s is not I + grad" % f)
    c = ast.unparse(last_assign_value("Compute_C", "C_e_pg")).replace(" ", "")
    if c != "Transpose(F_e_pg)@F_e_pg":
        raise TranslateError("_state.py Compute_C: C_e_pg = %s is not Transpose(F) @ F" % c)
    e = ast.unparse(last_assign_value("Compute_GreenLagrange", "E_e_pg")).replace(" ", "")
    if e not in ("1/2*(C_e_pg-np.eye(3))", "0.5*(C_e_pg-np.eye(3))", "(C_e_pg-np.eye(3))/2"):
        raise TranslateError("_state.py Compute_GreenLagrange: E_e_pg = %s is not (C - I)/2" % e)
    return {"F": "I + grad", "C": "F^T F", "E": "(C - I)/2"}


# ----------------------------------------------------------------------------------------
# _laws.py
# ----------------------------------------------------------------------------------------
def _is_state_call(v):
    return isinstance(v, ast.Call) and isinstance(v.func, ast.Attribute) and isinstance(v.func.value, ast.Name) \
        and v.func.value.id == "hyperElasticState"


def _read_method(fn, cls, dirparams):
    """Symbolically run one Compute_* method of a law.  Returns (params, invs, atoms, retnode, env)."""
    where = "_laws.py:%s.%s" % (cls, fn.name)
    if [a.arg for a in fn.args.args] != ["self", "hyperElasticState"]:
        raise TranslateError("%s: signature" % where)
    env = {}        # scalar name -> rtree
    params = []     # scalar parameter names (Coq variables)
    dirs = {}       # local name -> 'A'/'B'
    invs = {}       # k -> args tuple
    tens = {}       # local name -> ('d1', k, args) | ('d2', k)
    ret = None
    stmts = _body(fn)
    for st in stmts:
        if isinstance(st, ast.Return):
            ret = st.value
            if st is not stmts[-1]:
                raise TranslateError("%s: return is not the last statement" % where)
            break
        if not (isinstance(st, ast.Assign) and len(st.targets) == 1 and isinstance(st.targets[0], ast.Name)):
            raise TranslateError("%s: statement %s line %d" % (where, type(st).__name__, st.lineno))
        nm, v = st.targets[0].id, st.value
        if isinstance(v, ast.Attribute) and isinstance(v.value, ast.Name) and v.value.id == "self":
            attr = v.attr
            if attr.startswith("__"):
                attr = attr[2:]
            if attr in dirparams:
                dirs[nm] = dirparams[attr]
            else:
                if attr not in params:
                    params.append(attr)
                env[nm] = ('v', attr)
            continue
        if _is_state_call(v):
            meth = v.func.attr
            a = []
            for x in v.args:
                if not (isinstance(x, ast.Name) and x.id in dirs):
                    raise TranslateError("%s: argument %s of %s is not a direction parameter" % (where, ast.unparse(x), meth))
                a.append(dirs[x.id])
            if v.keywords:
                raise TranslateError("%s: keywords in %s" % (where, meth))
            import re
            m = re.fullmatch(r"Compute_I(\d)", meth)
            if m:
                k = int(m.group(1))
                if k not in INV:
                    raise TranslateError("%s: invariant I%d" % (where, k))
                if k in invs and invs[k] != tuple(a):
                    raise TranslateError("%s: I%d used with two different direction arguments" % (where, k))
                invs[k] = tuple(a)
                env[nm] = ('v', "I%d" % k)
                continue
            m = re.fullmatch(r"Compute_dI(\d)dC", meth)
            if m:
                tens[nm] = ('d1', int(m.group(1)), tuple(a))
                continue
            m = re.fullmatch(r"Compute_d2I(\d)dC", meth)
            if m:
                if a:
                    raise TranslateError("%s: %s takes no direction" % (where, meth))
                tens[nm] = ('d2', int(m.group(1)))
                continue
            raise TranslateError("%s: unknown state method %s" % (where, meth))
        # scalar expression
        if nm in tens:
            raise TranslateError("%s: %s rebound" % (where, nm))
        try:
            env[nm] = expr(v, env, where)
        except TranslateError:
            # maybe the tensor-valued final combination (dW = ..., d2W = ...): keep the ast
            env_t = ('tensor', v)
            env[nm] = env_t
    if ret is None:
        raise TranslateError("%s: no return" % where)
    return params, invs, tens, ret, env, where


def _lin(node, env, tens, where):
    """tensor-valued expression -> list of (coef rtree, atom)."""
    def is_scalar(n):
        try:
            t = expr(n, {k: v for k, v in env.items() if v[0] != 'tensor'}, where)
            return t
        except TranslateError:
            return None

    def rec(n):
        if isinstance(n, ast.Name):
            if n.id in tens:
                return [(ONE, tens[n.id])]
            if n.id in env and env[n.id][0] == 'tensor':
                return rec(env[n.id][1])
            raise TranslateError("%s: %s is not a tensor (line %d)" % (where, n.id, n.lineno))
        if isinstance(n, ast.Call) and isinstance(n.func, ast.Name) and n.func.id == "TensorProd":
            if len(n.args) != 2 or n.keywords or not all(isinstance(a, ast.Name) and a.id in tens and tens[a.id][0] == 'd1' for a in n.args):
                raise TranslateError("%s: TensorProd arguments %s" % (where, ast.unparse(n)))
            return [(ONE, ('tp', tens[n.args[0].id], tens[n.args[1].id]))]
        if isinstance(n, ast.UnaryOp) and isinstance(n.op, ast.USub):
            return [(('neg', c), a) for c, a in rec(n.operand)]
        if isinstance(n, ast.BinOp):
            if isinstance(n.op, ast.Add):
                return rec(n.left) + rec(n.right)
            if isinstance(n.op, ast.Sub):
                return rec(n.left) + [(('neg', c), a) for c, a in rec(n.right)]
            if isinstance(n.op, ast.Mult):
                s = is_scalar(n.left)
                if s is not None:
                    return [(smul(s, c), a) for c, a in rec(n.right)]
                s = is_scalar(n.right)
                if s is not None:
                    return [(smul(c, s), a) for c, a in rec(n.left)]
                raise TranslateError("%s: product of two tensors %s" % (where, ast.unparse(n)[:60]))
            if isinstance(n.op, ast.Div):
                s = is_scalar(n.right)
                if s is not None:
                    return [(('/', c, s), a) for c, a in rec(n.left)]
        raise TranslateError("%s: tensor expression %s (line %d)" % (where, ast.unparse(n)[:60], getattr(n, "lineno", 0)))
    return rec(node)


def _collect(terms):
    out = {}
    for c, a in terms:
        out[a] = ('+', out[a], c) if a in out else c
    return out


def read_laws(repo, S):
    path = os.path.join(repo, "EasyFEA", "Models", "HyperElastic", "_laws.py")
    mod = ast.parse(open(path).read())
    laws = {}
    skipped = {}
    for cls in mod.body:
        if not isinstance(cls, ast.ClassDef):
            continue
        bases = [ast.unparse(b) for b in cls.bases]
        if "_HyperElastic" not in bases:
            continue
        fns = {n.name: n for n in cls.body if isinstance(n, ast.FunctionDef)}
        if not all(m in fns for m in ("Compute_W", "Compute_dWde", "Compute_d2Wde")):
            raise TranslateError("_laws.py:%s lacks one of Compute_W/dWde/d2Wde" % cls.name)
        # laws defined by automatic differentiation have no hand-typed table
        if all(isinstance(_body(fns[m])[0], ast.Return) and "self.__" in ast.unparse(_body(fns[m])[0]) for m in ("Compute_W", "Compute_dWde", "Compute_d2Wde")):
            skipped[cls.name] = "delegates to closures (automatic differentiation): correspondence only"
            continue
        # direction parameters: class attributes declared with _params.VectorParameter()
        dirparams = {}
        for n in cls.body:
            if isinstance(n, ast.Assign) and isinstance(n.value, ast.Call) and ast.unparse(n.value.func).endswith("VectorParameter"):
                for t in n.targets:
                    dirparams[t.id] = "AB"[len(dirparams)] if len(dirparams) < 2 else None
        if None in dirparams.values():
            raise TranslateError("_laws.py:%s: more than two direction parameters" % cls.name)
        L = {"name": cls.name, "line": cls.lineno, "dirparams": dirparams, "lines": {m: fns[m].lineno for m in fns}}
        # W
        params, invs, tens, ret, env, where = _read_method(fns["Compute_W"], cls.name, dirparams)
        W = expr(ret, {k: v for k, v in env.items() if v[0] != 'tensor'}, where)
        L["W"] = W
        allparams = list(params)
        allinvs = dict(invs)
        # dW
        params, invs, tens, ret, env, where = _read_method(fns["Compute_dWde"], cls.name, dirparams)
        for p in params:
            if p not in allparams:
                allparams.append(p)
        _merge_invs(allinvs, invs, where)
        terms = _collect(_lin(ret, env, tens, where))
        dW = {}
        for a, c in terms.items():
            if a[0] != 'd1':
                raise TranslateError("%s: the stress sums %s, expected first derivatives of invariants only" % (where, a[0]))
            key = (a[1], a[2])
            dW[key] = c
        L["dW"] = dW
        # d2W
        params, invs, tens, ret, env, where = _read_method(fns["Compute_d2Wde"], cls.name, dirparams)
        for p in params:
            if p not in allparams:
                allparams.append(p)
        _merge_invs(allinvs, invs, where)
        terms = _collect(_lin(ret, env, tens, where))
        d2W1, d2W2 = {}, {}
        for a, c in terms.items():
            if a[0] == 'd2':
                d2W1[a[1]] = c
            elif a[0] == 'tp':
                d2W2[((a[1][1], a[1][2]), (a[2][1], a[2][2]))] = c
            else:
                raise TranslateError("%s: first-derivative tensor alone in the tangent" % where)
        L["d2W1"], L["d2W2"] = d2W1, d2W2
        L["params"] = allparams
        L["invs"] = allinvs
        # every tensor atom must be the derivative of an invariant the law reads, same direction
        for (k, a) in list(dW) + [x for p in d2W2 for x in p]:
            if k not in INV:
                raise TranslateError("_laws.py:%s uses dI%ddC" % (cls.name, k))
        for k in INV:
            if k in allinvs:
                state_invariant(S, k, allinvs[k])
        for (k, a) in list(dW) + [x for p in d2W2 for x in p]:
            state_invariant(S, k, a)
        for k in d2W1:
            state_invariant(S, k, allinvs.get(k, _default_args(k)))
        # free variables of all scalar trees must be parameters or invariants
        ok = set(allparams) | set("I%d" % k for k in INV)
        for t in [W] + list(dW.values()) + list(d2W1.values()) + list(d2W2.values()):
            bad = free_vars(t) - ok
            if bad:
                raise TranslateError("_laws.py:%s: free names %s" % (cls.name, sorted(bad)))
        laws[cls.name] = L
    if not laws:
        raise TranslateError("_laws.py: no hyperelastic law found")
    return laws, skipped


def _default_args(k):
    return {4: ("A",), 6: ("B",), 8: ("A", "B")}.get(k, ())


def _merge_invs(allinvs, invs, where):
    for k, a in invs.items():
        if k in allinvs and allinvs[k] != a:
            raise TranslateError("%s: I%d read with directions %s, elsewhere %s" % (where, k, a, allinvs[k]))
        allinvs[k] = a


def law_coef(L, which, key):
    """coefficient tree with the outer factor removed:
       'dW'  k      -> (coef of dIkdC in dW)/2       ( = dW/dIk if the law is right)
       'd2W1' k     -> (coef of d2IkdC in d2W)/4
       'd2W2' (j,k) -> (coef of dIjdC (x) dIkdC)/4   ( = d2W/dIjdIk )"""
    if which == 'dW':
        a = L["invs"].get(key, _default_args(key))
        c = L["dW"].get((key, a))
        # a derivative tensor taken in another direction than the invariant is not this invariant's
        return ZERO if c is None else ('/', c, C(2))
    if which == 'd2W1':
        c = L["d2W1"].get(key)
        return None if c is None else ('/', c, C(4))
    j, k = key
    aj = L["invs"].get(j, _default_args(j))
    ak = L["invs"].get(k, _default_args(k))
    c = L["d2W2"].get(((j, aj), (k, ak)))
    return ZERO if c is None else ('/', c, C(4))


def stray_atoms(L):
    """tensor atoms whose direction does not match the invariant read by the law."""
    bad = []
    for (k, a) in L["dW"]:
        if L["invs"].get(k, _default_args(k)) != a:
            bad.append("dI%ddC%s in the stress" % (k, list(a)))
    for (p, q) in L["d2W2"]:
        for (k, a) in (p, q):
            if L["invs"].get(k, _default_args(k)) != a:
                bad.append("dI%ddC%s in the tangent" % (k, list(a)))
    return bad


# ----------------------------------------------------------------------------------------
# GonzalezStressTensor: the discrete-gradient stress
# ----------------------------------------------------------------------------------------
def read_gonzalez(repo):
    path = os.path.join(repo, "EasyFEA", "FEM", "Operators", "NonLinear.py")
    mod = ast.parse(open(path).read())
    fn = [n for n in mod.body if isinstance(n, ast.FunctionDef) and n.name == "GonzalezStressTensor"]
    if len(fn) != 1:
        raise TranslateError("NonLinear.py: GonzalezStressTensor not found")
    fn = fn[0]
    got = {}
    for st in ast.walk(fn):
        if isinstance(st, ast.Assign) and len(st.targets) == 1 and isinstance(st.targets[0], ast.Name):
            nm = st.targets[0].id
            if nm in ("eps0", "s_mid", "E_n", "E_np1", "dE", "N", "dEdE", "inv_dEdE", "alpha", "S_hat"):
                if nm in got:
                    raise TranslateError("NonLinear.py GonzalezStressTensor: %s assigned twice" % nm)
                got[nm] = (ast.unparse(st.value).replace(" ", ""), st.lineno)
    want = {
        "s_mid": ["material.Compute_dWde(state_mid)"],
        "E_n": ["Project_matrix_to_vector(state_n.Compute_GreenLagrange())"],
        "E_np1": ["Project_matrix_to_vector(state_np1.Compute_GreenLagrange())"],
        "dE": ["state_mid._Slice_Vector(E_np1-E_n)"],
        "N": ["material.Compute_W(state_np1)-material.Compute_W(state_n)-s_mid.dot(dE)",
              "(material.Compute_W(state_np1)-material.Compute_W(state_n))-s_mid.dot(dE)"],
        "dEdE": ["dE.dot(dE)"],
        "inv_dEdE": ["np.divide(1.0,dEdE,out=np.zeros_like(dEdE),where=dEdE>eps0)"],
        "alpha": ["N*inv_dEdE", "inv_dEdE*N"],
        "S_hat": ["s_mid+alpha*dE", "s_mid+dE*alpha", "alpha*dE+s_mid"],
    }
    for k, alts in want.items():
        if k not in got:
            raise TranslateError("NonLinear.py GonzalezStressTensor: assignment to %s not found" % k)
        if got[k][0] not in alts:
            raise TranslateError("NonLinear.py GonzalezStressTensor line %d: %s = %s is not the discrete-gradient formula (%s)"
                                 % (got[k][1], k, got[k][0], alts[0]))
    if "eps0" not in got:
        raise TranslateError("NonLinear.py GonzalezStressTensor: eps0 not found")
    try:
        eps0 = Fraction(got["eps0"][0])
    except ValueError:
        raise TranslateError("NonLinear.py GonzalezStressTensor: eps0 = %s" % got["eps0"][0])
    if eps0 < 0:
        raise TranslateError("NonLinear.py GonzalezStressTensor: negative eps0")
    # the residual must be built from S_hat
    src = ast.unparse(fn).replace(" ", "")
    if "__second_piola_block(wJ_e_pg,state_mid,S_hat,C_mid)" not in src:
        raise TranslateError("NonLinear.py GonzalezStressTensor: the residual is not assembled from S_hat at state_mid")
    return {"eps0": eps0, "lines": {k: v[1] for k, v in got.items()}}


def read_all(repo):
    S = read_state(repo)
    laws, skipped = read_laws(repo, S)
    return {"state": S, "laws": laws, "skipped": skipped}


# ----------------------------------------------------------------------------------------
# Coq emission
# ----------------------------------------------------------------------------------------
IV = ["I%d" % k for k in INV]
HDR = "(* GENERATED by translator/hyper.py from %s — do not edit *)\n"


def _sig(L):
    ps = " ".join(L["params"])
    return ("(%s : R) " % ps if ps else "") + "(%s : R)" % " ".join(IV)


def _args(L, repl=None):
    repl = repl or {}
    return " ".join(L["params"] + [repl.get(v, v) for v in IV])


def law_defs(L):
    """name -> rtree of every scalar function of the law (outer factors 2 / 4 removed)."""
    n = L["name"]
    d = {n + "_W": L["W"]}
    for k in INV:
        d["%s_S%d" % (n, k)] = law_coef(L, 'dW', k)
        t = law_coef(L, 'd2W1', k)
        if t is not None:
            d["%s_T%d" % (n, k)] = t
        for j in INV:
            d["%s_H%d%d" % (n, j, k)] = law_coef(L, 'd2W2', (j, k))
    return d


def emit_laws(M):
    out = [HDR % "EasyFEA/Models/HyperElastic/_laws.py",
           "From Coq Require Import Reals List.", "Import ListNotations.", "Open Scope R_scope.", ""]
    for L in M["laws"].values():
        out.append("(* ---- %s (line %d): W; S_k = (coefficient of dIkdC in Compute_dWde)/2; T_k = (coefficient of d2IkdC in Compute_d2Wde)/4; H_jk = (coefficient of dIjdC (x) dIkdC)/4 *)" % (L["name"], L["line"]))
        for nm, t in law_defs(L).items():
            out.append("Definition %s %s : R := %s." % (nm, _sig(L), coqR(t)))
        used = [k for k in INV if k in L["invs"]]
        out.append("Definition %s_used : list nat := [%s]." % (L["name"], "; ".join("%d%%nat" % k for k in used)))
        out.append("Definition %s_first_present : list nat := [%s]." % (L["name"], "; ".join("%d%%nat" % k for k in INV if k in L["d2W1"])))
        out.append("")
    return "\n".join(out) + "\n"


def emit_law_thms(L):
    """per-law generated lemma file: statements are fixed by the scheme, proofs by C18_tac."""
    n = L["name"]
    ps = " ".join(L["params"])
    fa = "forall %s %s," % (ps, " ".join(IV))
    out = [HDR % ("EasyFEA/Models/HyperElastic/_laws.py class " + n),
           "From Coq Require Import Reals Lra List.", "From Coquelicot Require Import Coquelicot.",
           "From EFModel Require Import C18_tac.", "From EFP Require Import Gen_HyperLaws.", "Open Scope R_scope.", ""]
    names = []
    for k in INV:
        x = {"I%d" % k: "x"}
        out.append("Lemma %s_dWdI%d_correct : %s 0 < I3 ->\n  is_derive (fun x => %s_W %s) I%d (%s_S%d %s)." % (n, k, fa, n, _args(L, x), k, n, k, _args(L)))
        out.append("Proof. intros %s %s H3. unfold %s_W, %s_S%d. dsolve H3. Qed." % (ps, " ".join(IV), n, n, k))
        names.append("%s_dWdI%d_correct" % (n, k))
    for j in INV:
        for k in INV:
            x = {"I%d" % k: "x"}
            out.append("Lemma %s_d2WdI%ddI%d_correct : %s 0 < I3 ->\n  is_derive (fun x => %s_S%d %s) I%d (%s_H%d%d %s)." % (n, j, k, fa, n, j, _args(L, x), k, n, j, k, _args(L)))
            out.append("Proof. intros %s %s H3. unfold %s_S%d, %s_H%d%d. dsolve H3. Qed." % (ps, " ".join(IV), n, j, n, j, k))
            names.append("%s_d2WdI%ddI%d_correct" % (n, j, k))
    for k in INV:
        if k in L["d2W1"]:
            out.append("Lemma %s_first_term_I%d : %s 0 < I3 -> %s_T%d %s = %s_S%d %s." % (n, k, fa, n, k, _args(L), n, k, _args(L)))
            out.append("Proof. intros %s %s H3. unfold %s_T%d, %s_S%d. esolve H3. Qed." % (ps, " ".join(IV), n, k, n, k))
            names.append("%s_first_term_I%d" % (n, k))
    # one summary theorem per law (conjunction) so that Print Assumptions covers all pieces
    out.append("")
    out.append("Theorem %s_tables_correct : %s 0 < I3 ->" % (n, fa))
    conj = []
    for k in INV:
        x = {"I%d" % k: "x"}
        conj.append("  is_derive (fun x => %s_W %s) I%d (%s_S%d %s)" % (n, _args(L, x), k, n, k, _args(L)))
    for j in INV:
        for k in INV:
            x = {"I%d" % k: "x"}
            conj.append("  is_derive (fun x => %s_S%d %s) I%d (%s_H%d%d %s)" % (n, j, _args(L, x), k, n, j, k, _args(L)))
    out.append(" /\\\n".join(conj) + ".")
    pf = [x for x in names if "first_term" not in x]
    a = _args(L)
    term = "(%s %s H3)" % (pf[-1], a)
    for x in reversed(pf[:-1]):
        term = "(conj (%s %s H3)\n  %s)" % (x, a, term)
    out.append("Proof. intros %s %s H3. exact %s. Qed." % (ps, " ".join(IV), term))
    out.append("Print Assumptions %s_tables_correct." % n)
    return "\n".join(out) + "\n"


# --- invariant tables -------------------------------------------------------------------
from translator import pyexpr as _px


def km_fac_dict(k):
    n = len(PVARS)
    if k < 3:
        return {(0,) * n: Fraction(1)}
    m = [0] * n
    m[R2] = 1
    return {tuple(m): Fraction(1, 2)}


def inv_identities(rec):
    """exact python-side decision of the derivative identities of one invariant record.
       returns dict(cof1=[6 dicts], cof2=[[...]], bad=[(kind, j, k, remainder dict)])"""
    I = pnorm(rec["pI"])
    d1 = [pnorm(t) for t in rec["pd1"]]
    bad = []
    cof1, cof2 = [], []
    for k in range(6):
        diff = padd(d1[k], {m: -c for m, c in pmul(km_fac_dict(k), pdiff(I, k)).items()})
        rem, cof = reduce_r2(diff)
        cof1.append(cof)
        if rem:
            bad.append(("d1", None, k, rem))
    for j in range(6):
        row = []
        for k in range(6):
            h = pnorm(rec["pd2"][j][k])
            diff = padd(h, {m: -c for m, c in pmul(km_fac_dict(k), pdiff(d1[j], k)).items()})
            rem, cof = reduce_r2(diff)
            row.append(cof)
            if rem:
                bad.append(("d2", j, k, rem))
        cof2.append(row)
    return {"cof1": cof1, "cof2": cof2, "bad": bad}


def inv_name(key):
    k, a = key
    return "inv_I%d%s" % (k, "_" + "".join(a) if a else "")


def emit_inv(M):
    S = M["state"]
    out = [HDR % S["file"],
           "From Coq Require Import QArith List Ring_polynom.", "From EFLib Require Import PolyQ.",
           "From EFModel Require Import C18_InvDefs.", "Import ListNotations.", ""]
    names = []
    for key in sorted(S["inv"]):
        rec = S["inv"][key]
        ids = inv_identities(rec)
        rec["ids"] = ids
        nm = inv_name(key)
        names.append(nm)

        def lst(ts):
            return "[" + "; ".join(_px.coq(t) for t in ts) + "]"
        out.append("Definition %s : invtab := {| it_k := %d; it_dirs := %d;\n  it_I := %s;\n  it_d1 := %s;\n  it_d2 := [%s];\n  it_cof1 := %s;\n  it_cof2 := [%s] |}." % (
            nm, key[0], len(key[1]), _px.coq(rec["pI"]), lst(rec["pd1"]),
            ";\n    ".join(lst(r) for r in rec["pd2"]),
            lst([poly_of_dict(c) for c in ids["cof1"]]),
            ";\n    ".join(lst([poly_of_dict(c) for c in r]) for r in ids["cof2"])))
    out.append("Definition all_invs : list invtab := [%s]." % "; ".join(names))
    for d, idx in sorted(S["slices"].items()):
        out.append("Definition slice_dim%d : list nat := [%s]." % (d, "; ".join("%d%%nat" % i for i in idx)))
        out.append("Definition mslice_dim%d : list nat := [%s]." % (d, "; ".join("%d%%nat" % i for i in S["slices_mat"].get(d, []))))
    for d, z in sorted(S["zeroed"].items()):
        out.append("Definition dir_zeroed_dim%d : list nat := [%s]." % (d, "; ".join("%d%%nat" % i for i in z)))
    # per law: invariants the law depends on whose d2IkdC term is left out of the tangent
    for L in M["laws"].values():
        absent = [k for k in INV if k in L["invs"] and k not in L["d2W1"]]
        out.append("Definition %s_first_absent : list nat := [%s]." % (L["name"], "; ".join("%d%%nat" % k for k in absent)))
    out.append("Definition all_first_absent : list (list nat) := [%s]." % "; ".join(L["name"] + "_first_absent" for L in M["laws"].values()))
    return "\n".join(out) + "\n"


# --- composite functions of C, reference state, objectivity per law ---------------------------
CV = COMP + ["Ax", "Ay", "Az", "Bx", "By", "Bz"]
R2T = ('sqrt', C(2))


def _inv_trees(M, L):
    """per invariant k: (I rtree, [6 first-derivative rtrees]) over CV (np.sqrt(2) kept), or None."""
    S = M["state"]
    res = {}
    ks = set(L["invs"]) | set(k for (k, a) in L["dW"])
    for k in INV:
        if k in ks:
            rec = state_invariant(S, k, L["invs"].get(k, _default_args(k)))
            res[k] = (rec["I"], rec["d1"])
    return res


MODULI_OF = {"NeoHookean": ["K"], "MooneyRivlin": ["K", "K1", "K2"], "CiarletGeymonat": ["K", "K1", "K2"],
             "SaintVenantKirchhoff": ["lmbda", "mu", "K"], "HolzapfelOgden": ["C0", "C2", "C4", "C6", "K", "Mu1", "Mu2"]}


def emit_ref(M):
    comp = [HDR % "EasyFEA/Models/HyperElastic/_laws.py + _state.py",
            "From Coq Require Import Reals List.", "From EFP Require Import Gen_HyperLaws.", "Open Scope R_scope.", ""]
    out = [HDR % "EasyFEA/Models/HyperElastic/_laws.py + _state.py",
           "From Coq Require Import Reals Lra Psatz List.", "From EFModel Require Import C18_tac C18_kinematics.", "From EFP Require Import Gen_HyperLaws Gen_HyperComp.",
           "Open Scope R_scope.", "",
           "Lemma rp_one : forall q, Rpower 1 q = 1.",
           "Proof. intro q. unfold Rpower. rewrite ln_1, Rmult_0_r. apply exp_0. Qed.",
           "Ltac exp_one := repeat match goal with |- context [exp ?a] => replace (exp a) with 1 by (symmetry; transitivity (exp 0); [ f_equal; field | apply exp_0 ]) end.",
           "Ltac refsolve := repeat (rewrite ?rp_one, ?sqrt_1, ?ln_1); exp_one; field.", ""]
    ident = {"cxx": ONE, "cyy": ONE, "czz": ONE, "cyz": ZERO, "cxz": ZERO, "cxy": ZERO}
    refI = {1: "3", 2: "3", 3: "1", 4: "1", 6: "1", 8: "0"}
    for L in M["laws"].values():
        n = L["name"]
        ps = " ".join(L["params"])
        T = _inv_trees(M, L)
        cvsig = "(%s : R)" % " ".join(CV)
        Iarg = " ".join(coqR(T[k][0]) if k in T else "0" for k in INV)
        comp.append("(* ---- %s as a function of the components of C (and of the unit directions A, B) *)" % n)
        comp.append("Definition %s_W_C (%s : R) %s : R := %s_W %s %s." % (n, ps, cvsig, n, ps, Iarg))
        for m in range(6):
            terms = ["2 * %s_S%d %s %s * %s" % (n, k, ps, Iarg, coqR(T[k][1][m])) for k in INV if k in T]
            comp.append("Definition %s_stress%d (%s : R) %s : R := %s." % (n, m, ps, cvsig, " + ".join(terms)))
        out.append("Definition %s_W_F (%s : R) (F : M3) (%s : R) : R :=\n  %s_W_C %s (m11 (Cof F)) (m22 (Cof F)) (m33 (Cof F)) (m23 (Cof F)) (m13 (Cof F)) (m12 (Cof F)) %s."
                   % (n, ps, " ".join(CV[6:]), n, ps, " ".join(CV[6:])))
        out.append("Theorem %s_objectivity : forall %s Q F %s, mmul (mtr Q) Q = mid3 ->\n  %s_W_F %s (mmul Q F) %s = %s_W_F %s F %s."
                   % (n, ps, " ".join(CV[6:]), n, ps, " ".join(CV[6:]), n, ps, " ".join(CV[6:])))
        out.append("Proof. intros. unfold %s_W_F. now rewrite objectivity_C. Qed." % n)
        # scalar facts at the reference invariants
        free = ["u%d" % k for k in INV if k not in T]
        ra = " ".join(refI[k] if k in T else "u%d" % k for k in INV)
        iso = " + ".join(x for x in ["%s_S1 %s %s" % (n, ps, ra), "2 * %s_S2 %s %s" % (n, ps, ra), "%s_S3 %s %s" % (n, ps, ra)])
        out.append("Lemma %s_ref_scalars : forall %s %s,\n  %s_W %s %s = 0 /\\ %s = 0 /\\ %s_S4 %s %s = 0 /\\ %s_S6 %s %s = 0 /\\ %s_S8 %s %s = 0."
                   % (n, ps, " ".join(free), n, ps, ra, iso, n, ps, ra, n, ps, ra, n, ps, ra))
        out.append("Proof. intros. unfold %s. repeat split; refsolve. Qed." % ", ".join(["%s_W" % n] + ["%s_S%d" % (n, k) for k in INV]))
        # homogeneity in the moduli (change of the unit of stress): W and every tabulated coefficient are linear in them
        mod = [q for q in MODULI_OF.get(n, []) if q in L["params"]]
        if mod:
            sargs = " ".join("(s * %s)" % q if q in mod else q for q in L["params"])
            conj = ["%s_W %s %s = s * %s_W %s %s" % (n, sargs, " ".join(IV), n, ps, " ".join(IV))]
            conj += ["%s_S%d %s %s = s * %s_S%d %s %s" % (n, k, sargs, " ".join(IV), n, k, ps, " ".join(IV)) for k in INV if k in T]
            out.append("Theorem %s_moduli_homogeneous : forall s %s %s, 0 < I3 ->\n  %s." % (n, ps, " ".join(IV), " /\\\n  ".join(conj)))
            out.append("Proof. intros s %s %s H3. unfold %s. repeat split; field; conds; try (apply sqrt_lt_R0; assumption); try (apply Rgt_not_eq; apply sqrt_lt_R0; assumption). Qed."
                       % (ps, " ".join(IV), ", ".join(["%s_W" % n] + ["%s_S%d" % (n, k) for k in INV if k in T])))
        # composite theorem
        hyps = []
        if 4 in T:
            hyps.append("Ax * Ax + Ay * Ay + Az * Az = 1")
        if 6 in T:
            hyps.append("Bx * Bx + By * By + Bz * Bz = 1")
        if 8 in T:
            hyps.append("Ax * Bx + Ay * By + Az * Bz = 0")
        hy = "".join(h + " ->\n  " for h in hyps)
        ia = "1 1 1 0 0 0 " + " ".join(CV[6:])
        concl = " /\\\n  ".join(["%s_W_C %s %s = 0" % (n, ps, ia)] + ["%s_stress%d %s %s = 0" % (n, m, ps, ia) for m in range(6)])
        out.append("Theorem %s_reference_state : forall %s %s,\n  %s%s." % (n, ps, " ".join(CV[6:]), hy, concl))
        pf = ["intros %s %s%s." % (ps, " ".join(CV[6:]), "".join(" H%d" % i for i in range(len(hyps))))]
        pf.append("destruct (%s_ref_scalars %s %s) as [HW [Hiso [H4 [H6 H8]]]]." % (n, ps, " ".join("0" for k in INV if k not in T)))
        pf.append("unfold %s_W_C, %s." % (n, ", ".join("%s_stress%d" % (n, m) for m in range(6))))
        unused = [k for k in INV if k not in T]
        if unused:
            pf.append("unfold %s in *." % ", ".join("%s_S%d" % (n, k) for k in unused))
        for k in INV:
            if k in T:
                e = coqR(subst(T[k][0], ident))
                by = "ring" if k < 4 else "nra"
                pf.append("replace %s with %s by %s." % (e, refI[k], by))
        pf.append("repeat split; [ exact HW | .. ]; nra.")
        out.append("Proof.\n  " + "\n  ".join(pf) + "\nQed.")
        out.append("Print Assumptions %s_objectivity.\nPrint Assumptions %s_reference_state.\n" % (n, n))
    # hypotheses of the anisotropic reference theorem are satisfiable
    out.append("Example unit_orthogonal_directions_exist : let Ax := 1 in let Ay := 0 in let Az := 0 in let Bx := 0 in let By_ := 1 in let Bz := 0 in\n  Ax * Ax + Ay * Ay + Az * Az = 1 /\\ Bx * Bx + By_ * By_ + Bz * Bz = 1 /\\ Ax * Bx + Ay * By_ + Az * Bz = 0.")
    out.append("Proof. simpl. repeat split; ring. Qed.")
    return {"Gen_HyperComp.v": "\n".join(comp) + "\n", "Gen_HyperRef.v": "\n".join(out) + "\n"}


# ----------------------------------------------------------------------------------------
# midpoint scheme lines of _simu.py (hypotheses H-update of C18_energy.v)
# ----------------------------------------------------------------------------------------
def read_midpoint(repo):
    path = os.path.join(repo, "EasyFEA", "Simulations", "_simu.py")
    mod = ast.parse(open(path).read())
    fn = [n for n in ast.walk(mod) if isinstance(n, ast.FunctionDef) and n.name == "_Solver_Evaluate_u_v_a_for_time_scheme"]
    if len(fn) != 1:
        raise TranslateError("_simu.py: _Solver_Evaluate_u_v_a_for_time_scheme not found")
    branch = None
    for n in ast.walk(fn[0]):
        if isinstance(n, ast.If) and ast.unparse(n.test).replace(" ", "") == "self.algo==AlgoType.midpoint":
            branch = n.body
    if branch is None:
        raise TranslateError("_simu.py: midpoint branch of _Solver_Evaluate_u_v_a_for_time_scheme not found")
    got = {}
    for st in branch:
        if isinstance(st, ast.Assign) and len(st.targets) == 1 and isinstance(st.targets[0], ast.Name):
            got[st.targets[0].id] = ast.unparse(st.value).replace(" ", "")
    want = {"v_np1": "2/dt*(u_np1-u_n)-v_n", "a_np1": "2/dt*(v_np1-v_n)-a_n",
            "u_t": "(u_np1+u_n)/2", "a_t": "(a_np1+a_n)/2"}
    for k, v in want.items():
        if got.get(k) != v:
            raise TranslateError("_simu.py midpoint branch: %s = %s, expected %s" % (k, got.get(k), v))
    return want


# ----------------------------------------------------------------------------------------
# Clenshaw-Curtis rule of TimeQuadratureStressTensor: symbolic execution of __clenshaw_curtis
# for a concrete nPoints.  Values: Fraction-free rtrees with ('v','PI') and ('cos', a);
# arrays are python lists of rtrees.  Accepted: the numpy subset the function uses.
# ----------------------------------------------------------------------------------------
import math as _math


def _num(t):
    """float value of a CC rtree (used only to decide the np.where snap and loop-free guards)."""
    k = t[0]
    if k == 'c':
        return float(t[1])
    if k == 'v':
        if t[1] == 'PI':
            return _math.pi
        raise TranslateError("clenshaw_curtis: free variable %s" % t[1])
    if k == 'neg':
        return -_num(t[1])
    if k == 'cos':
        return _math.cos(_num(t[1]))
    if k == 'pow':
        return _num(t[1]) ** float(t[2])
    a, b = _num(t[1]), _num(t[2])
    return a + b if k == '+' else a - b if k == '-' else a * b if k == '*' else a / b


def read_clenshaw_curtis(repo, nPoints):
    path = os.path.join(repo, "EasyFEA", "FEM", "Operators", "NonLinear.py")
    mod = ast.parse(open(path).read())
    fn = [n for n in mod.body if isinstance(n, ast.FunctionDef) and n.name == "__clenshaw_curtis"]
    if len(fn) != 1:
        raise TranslateError("NonLinear.py: __clenshaw_curtis not found")
    fn = fn[0]
    if [a.arg for a in fn.args.args] != ["nPoints"]:
        raise TranslateError("NonLinear.py __clenshaw_curtis: signature")
    where = "NonLinear.py:__clenshaw_curtis"
    env = {"nPoints": nPoints}

    class Ret(Exception):
        pass

    def is_arr(x):
        return isinstance(x, list)

    def lift(x):
        if isinstance(x, bool):
            raise TranslateError("%s: boolean used as a number" % where)
        if isinstance(x, int):
            return ('c', Fraction(x))
        if isinstance(x, float):
            return ('c', Fraction(repr(x)))
        return x

    def bin(op, a, b):
        if is_arr(a) or is_arr(b):
            if is_arr(a) and is_arr(b):
                if len(a) != len(b):
                    raise TranslateError("%s: array shapes" % where)
                return [bin(op, x, y) for x, y in zip(a, b)]
            if is_arr(a):
                return [bin(op, x, b) for x in a]
            return [bin(op, a, y) for y in b]
        if isinstance(a, int) and isinstance(b, int) and not isinstance(a, bool) and not isinstance(b, bool):
            if op == '+':
                return a + b
            if op == '-':
                return a - b
            if op == '*':
                return a * b
            if op == '//':
                return a // b
            if op == '%':
                return a % b
            if op == '**' and b >= 0:
                return a ** b
        if op in ('//', '%'):
            raise TranslateError("%s: integer operator on non-integers" % where)
        if op == '**':
            if isinstance(b, int):
                return ('pow', lift(a), Fraction(b))
            raise TranslateError("%s: exponent" % where)
        return (op, lift(a), lift(b))

    def ev_(n):
        if isinstance(n, ast.Constant):
            if isinstance(n.value, (int, float)) and not isinstance(n.value, bool):
                return n.value
            raise TranslateError("%s: constant %r" % (where, n.value))
        if isinstance(n, ast.Name):
            if n.id in env:
                return env[n.id]
            raise TranslateError("%s: unbound %s" % (where, n.id))
        if isinstance(n, ast.Attribute) and ast.unparse(n) == "np.pi":
            return ('v', 'PI')
        if isinstance(n, ast.UnaryOp) and isinstance(n.op, ast.USub):
            v = ev_(n.operand)
            if is_arr(v):
                return [('neg', lift(x)) for x in v]
            return -v if isinstance(v, (int, float)) else ('neg', v)
        if isinstance(n, ast.BinOp):
            ops = {ast.Add: '+', ast.Sub: '-', ast.Mult: '*', ast.Div: '/', ast.FloorDiv: '//', ast.Mod: '%', ast.Pow: '**'}
            if type(n.op) not in ops:
                raise TranslateError("%s: operator line %d" % (where, n.lineno))
            return bin(ops[type(n.op)], ev_(n.left), ev_(n.right))
        if isinstance(n, ast.Compare) and len(n.ops) == 1:
            a, b = ev_(n.left), ev_(n.comparators[0])
            if is_arr(a) or is_arr(b):
                if isinstance(n.ops[0], ast.Lt) and is_arr(a) and not is_arr(b):
                    return [_num(lift(x)) < _num(lift(b)) for x in a]
                raise TranslateError("%s: array comparison line %d" % (where, n.lineno))
            if isinstance(a, int) and isinstance(b, int):
                o = n.ops[0]
                return a == b if isinstance(o, ast.Eq) else a != b if isinstance(o, ast.NotEq) else a < b if isinstance(o, ast.Lt) \
                    else a >= b if isinstance(o, ast.GtE) else a > b if isinstance(o, ast.Gt) else a <= b
            raise TranslateError("%s: comparison line %d" % (where, n.lineno))
        if isinstance(n, ast.Subscript):
            base = ev_(n.value)
            if not is_arr(base):
                raise TranslateError("%s: subscript of a scalar" % where)
            sl = n.slice
            if isinstance(sl, ast.Slice):
                if sl.lower is None and sl.upper is None and sl.step is not None and ev_(sl.step) == -1:
                    return base[::-1]
                raise TranslateError("%s: slice line %d" % (where, n.lineno))
            idx = ev_(sl)
            if is_arr(idx):
                return [base[i] for i in idx]
            if isinstance(idx, int):
                return base[idx]
            raise TranslateError("%s: index line %d" % (where, n.lineno))
        if isinstance(n, ast.Tuple):
            return tuple(ev_(e) for e in n.elts)
        if isinstance(n, ast.Call):
            f = ast.unparse(n.func)
            a = [ev_(x) for x in n.args]
            if n.keywords:
                raise TranslateError("%s: keywords in %s" % (where, f))
            if f == "np.arange" and all(isinstance(x, int) for x in a):
                return list(range(*a))
            if f == "np.cos" and len(a) == 1:
                return [('cos', lift(x)) for x in a[0]] if is_arr(a[0]) else ('cos', lift(a[0]))
            if f == "np.zeros" and len(a) == 1 and isinstance(a[0], int):
                return [0] * a[0]
            if f == "np.ones" and len(a) == 1 and isinstance(a[0], int):
                return [1] * a[0]
            if f == "np.abs" and len(a) == 1 and is_arr(a[0]):
                return [('c', Fraction(repr(abs(_num(lift(x)))))) for x in a[0]]     # only feeds the snap test below
            if f == "np.where" and len(a) == 3 and is_arr(a[0]) and is_arr(a[2]):
                return [lift(a[1]) if c else x for c, x in zip(a[0], a[2])]
            if f == "tuple" and len(a) == 1 and is_arr(a[0]):
                return list(a[0])
            if f == "range" and all(isinstance(x, int) for x in a):
                return list(range(*a))
            raise TranslateError("%s: call %s line %d" % (where, f, n.lineno))
        raise TranslateError("%s: expression %s" % (where, ast.unparse(n)[:60]))

    def run(stmts):
        for st in stmts:
            if isinstance(st, ast.Expr) and isinstance(st.value, ast.Constant):
                continue
            if isinstance(st, ast.Assert):
                if ev_(st.test) is not True:
                    raise TranslateError("%s: assertion fails for nPoints=%d" % (where, nPoints))
                continue
            if isinstance(st, ast.If):
                c = ev_(st.test)
                if not isinstance(c, bool):
                    raise TranslateError("%s: non-boolean test line %d" % (where, st.lineno))
                run(st.body if c else st.orelse)
                continue
            if isinstance(st, ast.For) and isinstance(st.target, ast.Name) and not st.orelse:
                for v in ev_(st.iter):
                    env[st.target.id] = v
                    run(st.body)
                continue
            if isinstance(st, ast.Assign):
                val = ev_(st.value)
                for t in st.targets:
                    if isinstance(t, ast.Name):
                        env[t.id] = list(val) if is_arr(val) else val
                    elif isinstance(t, ast.Subscript) and isinstance(t.value, ast.Name) and is_arr(env.get(t.value.id)):
                        idx = ev_(t.slice)
                        arr = env[t.value.id]
                        if is_arr(idx):
                            if not is_arr(val) or len(val) != len(idx):
                                raise TranslateError("%s: store shapes line %d" % (where, st.lineno))
                            for i, x in zip(idx, val):
                                arr[i] = x
                        else:
                            arr[idx] = val
                    else:
                        raise TranslateError("%s: assignment target line %d" % (where, st.lineno))
                continue
            if isinstance(st, ast.AugAssign) and isinstance(st.target, ast.Name) and isinstance(st.op, (ast.Sub, ast.Add)):
                env[st.target.id] = bin('-' if isinstance(st.op, ast.Sub) else '+', env[st.target.id], ev_(st.value))
                continue
            if isinstance(st, ast.Return):
                env["__ret__"] = ev_(st.value)
                raise Ret()
            raise TranslateError("%s: statement %s line %d" % (where, type(st).__name__, st.lineno))
    try:
        run(_body(fn))
    except Ret:
        pass
    r = env.get("__ret__")
    if isinstance(r, tuple):
        r = tuple(list(x) if isinstance(x, tuple) else x for x in r)
    if not (isinstance(r, tuple) and len(r) == 2 and all(is_arr(x) for x in r) and len(r[0]) == len(r[1]) == nPoints):
        raise TranslateError("%s: does not return (nodes, weights) of length nPoints=%d" % (where, nPoints))
    return [lift(x) for x in r[0]], [lift(x) for x in r[1]]


CC_ALL = list(range(1, 34))


def cc_degree(nPoints):
    """polynomial degree the rule must integrate exactly: a Clenshaw-Curtis rule on n+1 points is
       interpolatory (degree n) and symmetric (one more degree when n is even); 1 point = midpoint."""
    if nPoints == 1:
        return 1
    n = nPoints - 1
    return n + 1 if n % 2 == 0 else n


def emit_cc(repo, tier="quick"):
    """dict filename -> text: Gen_CC_defs.v (nodes/weights of every rule 1..33 as real expressions in PI, cos),
       Gen_CC_sum.v (weights sum to 1, nodes in [0,1]), Gen_CC_mom<i>.v (exactness on monomials)."""
    pre = ["From Coq Require Import Reals List.", "Import ListNotations.", "Open Scope R_scope."]
    defs = [HDR % "EasyFEA/FEM/Operators/NonLinear.py __clenshaw_curtis"] + pre + [
        "Fixpoint rsum (l : list R) : R := match l with [] => 0 | x :: l' => x + rsum l' end.",
        "Fixpoint moment (d : nat) (ws xs : list R) : R := match ws, xs with w :: ws', x :: xs' => w * x ^ d + moment d ws' xs' | _, _ => 0 end.", ""]
    for N in CC_ALL:
        xs, ws = read_clenshaw_curtis(repo, N)
        defs.append("Definition cc_x_%d : list R := [%s]." % (N, "; ".join(coqR(t) for t in xs)))
        defs.append("Definition cc_w_%d : list R := [%s]." % (N, "; ".join(coqR(t) for t in ws)))
    head = [HDR % "EasyFEA/FEM/Operators/NonLinear.py __clenshaw_curtis"] + pre + ["From Interval Require Import Tactic.", "From EFP Require Import Gen_CC_defs.", ""]
    sm = list(head)
    SUMS = CC_ALL if tier != "quick" else [N for N in CC_ALL if N <= 17 or N == 33]   # quick: every rule up to 17 points and the cap
    for N in SUMS:
        sm.append("Lemma cc_%d_weights_sum : Rabs (rsum cc_w_%d - 1) <= 1 / 10 ^ 12." % (N, N))
        sm.append("Proof. unfold cc_w_%d, rsum. interval with (i_prec 80). Qed." % N)
    sm.append("(* the finite set of rules the code can use: nPoints = 1..33 (adaptive chain 1,3,5,9,17,33, capped by maxPoints = 33);")
    sm.append("   thorough tier: all of 1..33; quick tier: 1..17 and 33 *)")
    sm.append("Theorem clenshaw_curtis_weights_sum :\n  " + " /\\\n  ".join("Rabs (rsum cc_w_%d - 1) <= 1 / 10 ^ 12" % N for N in SUMS) + ".")
    sm.append("Proof. repeat split; [ %s ]. Qed." % " | ".join("exact cc_%d_weights_sum" % N for N in SUMS))
    sm.append("Print Assumptions clenshaw_curtis_weights_sum.")
    # exactness on monomials x^d, d = 1 .. degree (quick: rules up to 9 points; thorough: all, thinned for 18..32)
    jobs = []
    for N in CC_ALL:
        deg = cc_degree(N)
        if tier == "quick":
            ds = list(range(1, deg + 1)) if N <= 9 else []
        elif N <= 17 or N == 33:
            ds = list(range(1, deg + 1))
        else:
            ds = sorted(set([1, 2, 3, 4, deg]))
        jobs += [(N, d) for d in ds]
    nfiles = 1 if tier == "quick" else 3
    cost = lambda j: j[0] * j[0]
    files = [[] for _ in range(nfiles)]
    for j in sorted(jobs, key=cost, reverse=True):
        min(files, key=lambda f: sum(cost(x) for x in f)).append(j)
    texts = {"Gen_CC_defs.v": "\n".join(defs) + "\n", "Gen_CC_sum.v": "\n".join(sm) + "\n"}
    for i, f in enumerate(files):
        m = list(head)
        names = []
        for N, d in sorted(f):
            m.append("Lemma cc_%d_moment_%d : Rabs (moment %d cc_w_%d cc_x_%d - 1 / %d) <= 1 / 10 ^ 10." % (N, d, d, N, N, d + 1))
            m.append("Proof. unfold cc_w_%d, cc_x_%d, moment. interval with (i_prec 80). Qed." % (N, N))
            names.append("cc_%d_moment_%d" % (N, d))
        m.append("Theorem clenshaw_curtis_exactness_%d : %s." % (i, " /\\\n  ".join(
            "Rabs (moment %d cc_w_%d cc_x_%d - 1 / %d) <= 1 / 10 ^ 10" % (d, N, N, d + 1) for N, d in sorted(f))))
        m.append("Proof. repeat split; [ %s ]. Qed." % " | ".join("exact %s" % x for x in names))
        m.append("Print Assumptions clenshaw_curtis_exactness_%d." % i)
        texts["Gen_CC_mom%d.v" % i] = "\n".join(m) + "\n"
    return texts


# --- composite chain rule: assembled stress = gradient of e |-> W(I1(e), I2(e), I3(e), ...) ------------
def _km_arg(m, var):
    """tensor component of C as a function of the m-th Kelvin-Mandel coordinate e of E = (C - I)/2:
       c = 2 e + 1 (normal), c = (sqrt 2 / 2) (2 e) (shear: c = v / sqrt 2 with v the Kelvin-Mandel coordinate of C)."""
    e = ('v', var)
    if m < 3:
        return ('+', ('*', C(2), e), C(1))
    return ('*', ('/', R2T, C(2)), ('+', ('*', C(2), e), C(0)))


def law_tangent_trees(M, L):
    """assembled tangent entries d2W[j][m] as rtrees over params, CV (np.sqrt(2) kept), exactly as the code sums them."""
    S = M["state"]
    T = _inv_trees(M, L)
    Iarg = {"I%d" % k: (T[k][0] if k in T else ZERO) for k in INV}

    def at(tree):
        return subst(tree, Iarg)
    ent = [[ZERO] * 6 for _ in range(6)]
    for k, c in L["d2W1"].items():
        rec = state_invariant(S, k, L["invs"].get(k, _default_args(k)))
        for j in range(6):
            for m in range(6):
                ent[j][m] = ('+', ent[j][m], ('*', at(c), rec["d2"][j][m]))
    for ((ja, aa), (kb, ab)), c in L["d2W2"].items():
        ga = state_invariant(S, ja, aa)["d1"]
        gb = state_invariant(S, kb, ab)["d1"]
        for j in range(6):
            for m in range(6):
                ent[j][m] = ('+', ent[j][m], ('*', ('*', at(c), ga[j]), gb[m]))
    return ent


def emit_grad(M, L, tangent_block=True, rows=(0, 1, 2, 3, 4, 5), with_stress=True):
    """Gen_HyperGrad_<law>.v: for every Kelvin-Mandel coordinate m of the Green-Lagrange strain, the assembled stress
       component (the code's sum of coefficient x dIkdC[m]) is the derivative of the composite energy; and the
       normal-normal block of the assembled tangent is the derivative of the assembled stress."""
    n = L["name"]
    ps = " ".join(L["params"])
    T = _inv_trees(M, L)
    if 3 not in T:
        I3 = None
    else:
        I3 = T[3][0]
    dirs = " ".join(CV[6:])
    out = [HDR % ("EasyFEA/Models/HyperElastic/_laws.py class %s + _state.py" % n),
           "From Coq Require Import Reals Lra Psatz List.", "From Coquelicot Require Import Coquelicot.",
           "From EFModel Require Import C18_tac C18_gradtac.", "From EFP Require Import Gen_HyperLaws Gen_HyperComp.", "Open Scope R_scope.", ""]
    names = []
    for m in (range(6) if with_stress else []):
        others = [c for i, c in enumerate(COMP) if i != m]
        def args(var):
            return " ".join("(%s)" % coqR(_km_arg(m, var)) if i == m else c for i, c in enumerate(COMP))
        hyp = ""
        if I3 is not None:
            hyp = "0 < %s ->\n  " % coqR(subst(I3, {COMP[m]: _km_arg(m, "e0")}))
        nm = "%s_stress_is_energy_gradient_%d" % (n, m)
        out.append("Lemma %s : forall %s %s %s e0,\n  %sis_derive (fun e => %s_W_C %s %s %s) e0 (%s_stress%d %s %s %s)."
                   % (nm, ps, " ".join(others), dirs, hyp, n, ps, args("e"), dirs, n, m, ps, args("e0"), dirs))
        unf = ", ".join(["%s_W_C" % n, "%s_stress%d" % (n, m), "%s_W" % n] + ["%s_S%d" % (n, k) for k in INV])
        out.append("Proof. intros %s %s %s e0%s. unfold %s. gsolve %s. Qed." % (ps, " ".join(others), dirs, " H" if I3 is not None else "", unf, "H" if I3 is not None else "I"))
        names.append(nm)
    if tangent_block:
        ent = law_tangent_trees(M, L)
        sig = "(%s : R) (%s : R)" % (ps, " ".join(CV))
        for j in rows:
            for m in range(6):
                out.append("Definition %s_tangent%d%d %s : R := %s." % (n, j, m, sig, coqR(ent[j][m])))
        for j in rows:
            for m in range(6):
                others = [c for i, c in enumerate(COMP) if i != m]
                def args(var):
                    return " ".join("(%s)" % coqR(_km_arg(m, var)) if i == m else c for i, c in enumerate(COMP))
                hyp = ""
                if I3 is not None:
                    hyp = "0 < %s ->\n  " % coqR(subst(I3, {COMP[m]: _km_arg(m, "e0")}))
                nm = "%s_tangent_is_stress_derivative_%d%d" % (n, j, m)
                out.append("Lemma %s : forall %s %s %s e0,\n  %sis_derive (fun e => %s_stress%d %s %s %s) e0 (%s_tangent%d%d %s %s %s)."
                           % (nm, ps, " ".join(others), dirs, hyp, n, j, ps, args("e"), dirs, n, j, m, ps, args("e0"), dirs))
                unf = ", ".join(["%s_stress%d" % (n, j), "%s_tangent%d%d" % (n, j, m)] + ["%s_S%d" % (n, k) for k in INV]
                                + ["%s_T%d" % (n, k) for k in INV if k in L["d2W1"]] + ["%s_H%d%d" % (n, a, b) for a in INV for b in INV])
                tac = "gsolve" if (j < 3 and m < 3) or I3 is None else "gsolve2"
                out.append("Proof. intros %s %s %s e0%s. unfold %s. %s %s. Qed." % (ps, " ".join(others), dirs, " H" if I3 is not None else "", unf, tac, "H" if I3 is not None else "I"))
                names.append(nm)
    if names:
        out.append("Print Assumptions %s." % names[-1])
    return "\n".join(out) + "\n"


# ----------------------------------------------------------------------------------------
# HyperElasticState.__Build_De: the rows of the operator flat(grad w) -> Kelvin-Mandel sym(G^T grad w)
# ----------------------------------------------------------------------------------------
def read_build_de(repo):
    path = os.path.join(repo, "EasyFEA", "Models", "HyperElastic", "_state.py")
    mod = ast.parse(open(path).read())
    cls = [n for n in mod.body if isinstance(n, ast.ClassDef) and n.name == "HyperElasticState"][0]
    fn = [n for n in cls.body if isinstance(n, ast.FunctionDef) and n.name.endswith("__Build_De")]
    if len(fn) != 1:
        raise TranslateError("_state.py: __Build_De not found")
    fn = fn[0]
    where = "_state.py:__Build_De"
    # the helper Add(line, values, coef=1.0) must store value*coef into D[:, :, line, column]
    add = [n for n in fn.body if isinstance(n, ast.FunctionDef) and n.name == "Add"]
    if len(add) != 1:
        raise TranslateError("%s: helper Add not found" % where)
    src = ast.unparse(add[0]).replace(" ", "")
    if "D_e_pg[:,:,line,column]=value*coef" not in src or "forcolumn,valueinenumerate(values)" not in src:
        raise TranslateError("%s: helper Add is not `D[:, :, line, column] = value * coef` over enumerate(values)" % where)
    cM = None
    for st in fn.body:
        if isinstance(st, ast.Assign) and isinstance(st.targets[0], ast.Name) and st.targets[0].id == "cM":
            if ast.unparse(st.value).replace(" ", "") not in ("2**(-1/2)", "1/np.sqrt(2)", "np.sqrt(2)/2"):
                raise TranslateError("%s: cM = %s" % (where, ast.unparse(st.value)))
            cM = True
    if not cM:
        raise TranslateError("%s: cM not found" % where)
    branch = [n for n in fn.body if isinstance(n, ast.If) and ast.unparse(n.test).replace(" ", "") == "dim==2"]
    if len(branch) != 1:
        raise TranslateError("%s: dim dispatch" % where)
    res = {}
    for dim, stmts in ((2, branch[0].body), (3, branch[0].orelse)):
        names = {}
        rows = {}
        for st in stmts:
            if isinstance(st, ast.Assign) and isinstance(st.targets[0], ast.Tuple) and isinstance(st.value, ast.GeneratorExp):
                g = st.value
                elt = ast.unparse(g.elt).replace(" ", "")
                it = ast.unparse(g.generators[0].iter).replace(" ", "")
                import re
                m = re.fullmatch(r"G\[:,:,(\d),i\]", elt)
                if not m or it != "range(%d)" % dim or len(st.targets[0].elts) != dim:
                    raise TranslateError("%s: binding %s" % (where, ast.unparse(st)))
                for j, t in enumerate(st.targets[0].elts):
                    names[t.id] = (int(m.group(1)), j)
                continue
            if isinstance(st, ast.Expr) and isinstance(st.value, ast.Call) and isinstance(st.value.func, ast.Name) and st.value.func.id == "Add":
                a = st.value.args
                if st.value.keywords or len(a) not in (2, 3) or not isinstance(a[1], ast.List):
                    raise TranslateError("%s: Add call line %d" % (where, st.lineno))
                r = _int(a[0], where)
                scaled = False
                if len(a) == 3:
                    if not (isinstance(a[2], ast.Name) and a[2].id == "cM"):
                        raise TranslateError("%s: Add coefficient line %d" % (where, st.lineno))
                    scaled = True
                vals = []
                for e in a[1].elts:
                    if isinstance(e, ast.Constant) and e.value == 0:
                        vals.append(None)
                    elif isinstance(e, ast.Name) and e.id in names:
                        vals.append(names[e.id])
                    else:
                        raise TranslateError("%s: Add entry %s line %d" % (where, ast.unparse(e), st.lineno))
                if len(vals) != dim * dim or r in rows:
                    raise TranslateError("%s: Add row shape line %d" % (where, st.lineno))
                rows[r] = (scaled, vals)
                continue
            raise TranslateError("%s: statement line %d" % (where, st.lineno))
        nrow = 3 if dim == 2 else 6
        if sorted(rows) != list(range(nrow)):
            raise TranslateError("%s: rows %s for dim %d" % (where, sorted(rows), dim))
        res[dim] = [rows[r] for r in range(nrow)]
    return res


def emit_de(repo):
    D = read_build_de(repo)
    out = [HDR % "EasyFEA/Models/HyperElastic/_state.py __Build_De",
           "From Coq Require Import Reals List.", "From EFModel Require Import C18_kinematics.", "Import ListNotations.", "Open Scope R_scope.", ""]
    for dim, rows in sorted(D.items()):
        txt = []
        for scaled, vals in rows:
            ent = []
            for v in vals:
                if v is None:
                    ent.append("0")
                else:
                    ent.append("%sm%d%d G" % ("cM * " if scaled else "", v[0] + 1, v[1] + 1))
            txt.append("[" + "; ".join(ent) + "]")
        out.append("Definition De%d (cM : R) (G : M3) : list (list R) :=\n  [%s]." % (dim, ";\n   ".join(txt)))
    return "\n".join(out) + "\n"


# ----------------------------------------------------------------------------------------
# Newton coefficients vs evaluation point of every time scheme (trees from C05's translator/timeschemes.py):
# coefK, coefC, coefM of _Solver_Get_K_C_M_coefs_for_time_scheme must be d(u_t, v_t, a_t)/d(u_{n+1}) of
# _Solver_Evaluate_u_v_a_for_time_scheme, otherwise coefK K + coefC C + coefM M is not the derivative of the residual.
# ----------------------------------------------------------------------------------------
def _ts_scalar(t):
    """C05 typed tree -> rtree, vectors read as scalars (the evaluation trees are built from +, -, scalar multiples only)."""
    op = t[0]
    if op == 'c':
        return ('c', t[2])
    if op == 'v':
        return ('v', {"x": "x"}.get(t[2], t[2]))
    if op == 'neg':
        return ('neg', _ts_scalar(t[2]))
    if op in ('+', '-', '*', '/'):
        return (op, _ts_scalar(t[2]), _ts_scalar(t[3]))
    if op == 'pow':
        return ('pow', _ts_scalar(t[2]), Fraction(t[3]))
    if op == 'smul':
        return ('*', _ts_scalar(t[2]), _ts_scalar(t[3]))
    if op == 'sdiv':
        return ('/', _ts_scalar(t[2]), _ts_scalar(t[3]))
    raise TranslateError("time scheme: operator %s in an evaluation tree (not affine in the unknown)" % op)


def _denoms(t, acc):
    if t[0] == '/':
        acc.append(t[2])
    if t[0] not in ('c', 'v'):
        for s in t[1:]:
            if isinstance(s, tuple):
                _denoms(s, acc)
    return acc


def read_newton_coefs(repo):
    """{algo: {"ev": [u_t, v_t, a_t] rtrees or None, "coefs": [K, C, M] rtrees}} for the schemes a nonlinear simulation accepts."""
    from translator import timeschemes as ts
    try:
        T = ts.read_schemes(repo)
        members, lists, _ = ts.read_algotype(repo)
    except ts.TranslateError as ex:
        raise TranslateError("time schemes: %s" % ex)
    hyp = lists["Get_Hyperbolic_Types"]
    res = {}
    for algo in hyp:
        r = T["schemes"][algo]
        if r["ev"][2] is None and algo == "euler_explicit":
            continue            # rejected for nonlinear simulations by Solver_Set_Hyperbolic_Algorithm
        res[algo] = {"ev": [None if t is None else _ts_scalar(t) for t in r["ev"]], "coefs": [_ts_scalar(c) for c in r["coefs"]]}
    if not res:
        raise TranslateError("time schemes: no hyperbolic scheme found")
    return res, hyp


def newton_coef_defects(NC):
    """exact search: schemes whose coefficient differs from the slope of the evaluation tree in u_{n+1}."""
    bad = []
    num = FracNum()
    base = {"dt": Fraction(1, 20), "beta": Fraction(3, 10), "gamma": Fraction(3, 5), "alpha": Fraction(1, 5),
            "u_n": Fraction(1, 3), "v_n": Fraction(-2, 7), "a_n": Fraction(5, 11)}
    for algo, r in NC.items():
        for nm, t, c in zip(("u_t/coefK", "v_t/coefC", "a_t/coefM"), r["ev"], r["coefs"]):
            if t is None:
                continue
            f = lambda x: ev(t, dict(base, x=x), num)
            slope = f(Fraction(1)) - f(Fraction(0))
            lin = f(Fraction(3)) - f(Fraction(0)) == 3 * slope
            cv = ev(c, base, num)
            if slope != cv or not lin:
                bad.append((algo, nm, slope, cv))
    return bad


def emit_newton_coefs(NC):
    out = [HDR % "EasyFEA/Simulations/_simu.py (_Solver_Evaluate_u_v_a_for_time_scheme, _Solver_Get_K_C_M_coefs_for_time_scheme) via translator/timeschemes.py",
           "From Coq Require Import Reals Lra.", "From Coquelicot Require Import Coquelicot.", "From EFModel Require Import C18_tac.", "Open Scope R_scope.", ""]
    sig = "(dt beta gamma alpha u_n v_n a_n x : R)"
    args = "dt beta gamma alpha u_n v_n a_n"
    for algo, r in NC.items():
        den = []
        for t in [x for x in r["ev"] if x is not None] + r["coefs"]:
            _denoms(t, den)
        hv = sorted(set(v for d in den for v in free_vars(d)))
        hyps = "".join("%s <> 0 -> " % v for v in hv)
        names = []
        for nm, t, c in zip(("u_t", "v_t", "a_t"), r["ev"], r["coefs"]):
            cn = {"u_t": "coefK", "v_t": "coefC", "a_t": "coefM"}[nm]
            out.append("Definition ts_%s_%s %s : R := %s." % (algo, cn, sig, coqR(c)))
            if t is None:
                continue
            out.append("Definition ts_%s_%s %s : R := %s." % (algo, nm, sig, coqR(t)))
            out.append("Lemma ts_%s_%s_slope : forall %s x0, %sis_derive (fun x => ts_%s_%s %s x) x0 (ts_%s_%s %s x0)."
                       % (algo, nm, args, hyps, algo, nm, args, algo, cn, args))
            out.append("Proof. intros %s x0 %s. unfold ts_%s_%s, ts_%s_%s. auto_derive; [ repeat split; auto; try (apply Rmult_integral_contrapositive_currified; auto) | field; repeat split; auto ]. Qed."
                       % (args, " ".join("H%s" % v for v in hv), algo, nm, algo, cn))
            names.append("ts_%s_%s_slope" % (algo, nm))
        out.append("")
    out.append("(* hence d/du_{n+1} [ R_int(u_t) + C(u_t) v_t + M a_t ] = coefK (K + Kgeo) + coefC C + coefM M : the matrix the Newton loop assembles *)")
    out.append("Print Assumptions ts_%s." % names[-1][3:] if names else "")
    return "\n".join(out) + "\n"


# --- termwise composite chain rule (laws whose whole-expression proof is too heavy: HolzapfelOgden) -----------------
def rdiff(t, var):
    """symbolic derivative of an rtree w.r.t. the variable name `var` (only a WITNESS: Coq re-proves it by is_derive)."""
    k = t[0]
    if k == 'c':
        return ZERO
    if k == 'v':
        return ONE if t[1] == var else ZERO
    if var not in free_vars(t):
        return ZERO
    if k == 'neg':
        return ('neg', rdiff(t[1], var))
    if k in '+-':
        return (k, rdiff(t[1], var), rdiff(t[2], var))
    if k == '*':
        return ('+', ('*', rdiff(t[1], var), t[2]), ('*', t[1], rdiff(t[2], var)))
    if k == '/':
        return ('/', ('-', ('*', rdiff(t[1], var), t[2]), ('*', t[1], rdiff(t[2], var))), ('*', t[2], t[2]))
    if k == 'pow':
        q = t[2]
        return ('*', ('*', ('c', q), ('pow', t[1], q - 1)), rdiff(t[1], var))
    if k == 'exp':
        return ('*', t, rdiff(t[1], var))
    if k == 'ln':
        return ('/', rdiff(t[1], var), t[1])
    if k == 'sqrt':
        return ('/', rdiff(t[1], var), ('*', C(2), t))
    raise TranslateError("rdiff: %s" % k)


def _plus_terms(t):
    return _plus_terms(t[1]) + [t[2]] if t[0] == '+' else [t]


def emit_grad_termwise(M, L):
    """Gen_HyperGradT_<law>.v: assembled stress = gradient of the composite energy, proved term by term of W
       (is_derive is additive), the tabulated S_k being identified with the sum of the termwise derivatives through
       uniqueness of the derivative and the already proved <law>_dWdIk_correct."""
    n = L["name"]
    ps = " ".join(L["params"])
    T = _inv_trees(M, L)
    terms = _plus_terms(L["W"])
    dirs = " ".join(CV[6:])
    sigI = _sig(L)
    argsI = _args(L)
    used = [k for k in INV if k in T]
    out = [HDR % ("EasyFEA/Models/HyperElastic/_laws.py class %s + _state.py" % n),
           "From Coq Require Import Reals Lra Psatz List.", "From Coquelicot Require Import Coquelicot.",
           "From EFModel Require Import C18_tac C18_gradtac.", "From EFP Require Import Gen_HyperLaws Gen_HyperComp Gen_Law_%s." % n, "Open Scope R_scope.", "",
           "Lemma is_derive_sum2 (f g : R -> R) (x a b : R) : is_derive f x a -> is_derive g x b -> is_derive (fun y => f y + g y) x (a + b).",
           "Proof. intros. now apply @is_derive_plus. Qed.", ""]
    nt = len(terms)
    for i, t in enumerate(terms):
        out.append("Definition %s_term%d %s : R := %s." % (n, i, sigI, coqR(t)))
        for k in used:
            out.append("Definition %s_dterm%d_%d %s : R := %s." % (n, i, k, sigI, coqR(rdiff(t, "I%d" % k))))
    out.append("Lemma %s_W_terms : forall %s %s, %s_W %s = %s." % (n, ps, " ".join(IV), n, argsI, " + ".join("%s_term%d %s" % (n, i, argsI) for i in range(nt))))
    out.append("Proof. intros. unfold %s_W, %s. reflexivity. Qed." % (n, ", ".join("%s_term%d" % (n, i) for i in range(nt))))
    fa = "forall %s %s," % (ps, " ".join(IV))
    # A: single-variable derivative of each term
    for i in range(nt):
        for k in used:
            x = {"I%d" % k: "x"}
            out.append("Lemma %s_term%d_dI%d : %s 0 < I3 -> is_derive (fun x => %s_term%d %s) I%d (%s_dterm%d_%d %s)."
                       % (n, i, k, fa, n, i, _args(L, x), k, n, i, k, argsI))
            out.append("Proof. intros %s %s H3. unfold %s_term%d, %s_dterm%d_%d. dsolve H3. Qed." % (ps, " ".join(IV), n, i, n, i, k))
    # B: the tabulated S_k is the sum of the termwise derivatives (uniqueness of the derivative)
    for k in used:
        x = {"I%d" % k: "x"}
        ssum = " + ".join("%s_dterm%d_%d %s" % (n, i, k, argsI) for i in range(nt))
        out.append("Lemma %s_S%d_terms : %s 0 < I3 -> %s_S%d %s = %s." % (n, k, fa, n, k, argsI, ssum))
        pf = ["intros %s %s H3." % (ps, " ".join(IV)),
              "rewrite <- (is_derive_unique (fun x => %s_W %s) I%d _ (%s_dWdI%d_correct %s H3))." % (n, _args(L, x), k, n, k, argsI),
              "apply is_derive_unique.",
              "apply (is_derive_ext (fun x => %s))." % " + ".join("%s_term%d %s" % (n, i, _args(L, x)) for i in range(nt)),
              "{ intro x. symmetry. apply %s_W_terms. }" % n]
        nest = "(%s_term%d_dI%d %s H3)" % (n, 0, k, argsI)
        body = "%s_term%d %s" % (n, 0, _args(L, x))
        for i in range(1, nt):
            nest = "(is_derive_sum2 (fun x => %s) (fun x => %s_term%d %s) _ _ _ %s (%s_term%d_dI%d %s H3))" % (body, n, i, _args(L, x), nest, n, i, k, argsI)
            body = "%s + %s_term%d %s" % (body, n, i, _args(L, x))
        pf.append("exact %s." % nest)
        out.append("Proof.\n  " + "\n  ".join(pf) + "\nQed.")
    # C: composite derivative of each term along each Kelvin-Mandel coordinate of E, then the sum
    I3 = T[3][0]
    for m in range(6):
        others = [c for i, c in enumerate(COMP) if i != m]
        sub = lambda var: {COMP[m]: _km_arg(m, var)}
        def Iargs(var):
            return " ".join("(%s)" % coqR(subst(T[k][0], sub(var))) if k in T else "0" for k in INV)
        def gk(k, var):
            return "(%s)" % coqR(subst(T[k][1][m], sub(var)))
        def cargs(var):
            return " ".join("(%s)" % coqR(_km_arg(m, var)) if i == m else c for i, c in enumerate(COMP))
        hyp = "0 < %s" % coqR(subst(I3, sub("e0")))
        intro = "intros %s %s %s e0 H." % (ps, " ".join(others), dirs)
        fah = "forall %s %s %s e0, %s ->" % (ps, " ".join(others), dirs, hyp)
        vars_ = "%s %s %s e0" % (ps, " ".join(others), dirs)
        for i in range(nt):
            dsum = " + ".join("2 * %s_dterm%d_%d %s %s * %s" % (n, i, k, ps, Iargs("e0"), gk(k, "e0")) for k in used)
            out.append("Lemma %s_term%d_grad%d : %s\n  is_derive (fun e => %s_term%d %s %s) e0 (%s)." % (n, i, m, fah, n, i, ps, Iargs("e"), dsum))
            out.append("Proof. %s unfold %s_term%d, %s. gsolve H. Qed." % (intro, n, i, ", ".join("%s_dterm%d_%d" % (n, i, k) for k in used)))
        out.append("Theorem %s_stress_is_energy_gradient_%d : %s\n  is_derive (fun e => %s_W_C %s %s %s) e0 (%s_stress%d %s %s %s)."
                   % (n, m, fah, n, ps, cargs("e"), dirs, n, m, ps, cargs("e0"), dirs))
        body = "%s_term%d %s %s" % (n, 0, ps, Iargs("e"))
        nest = "(%s_term%d_grad%d %s H)" % (n, 0, m, vars_)
        for i in range(1, nt):
            nest = "(is_derive_sum2 (fun e => %s) (fun e => %s_term%d %s %s) _ _ _ %s (%s_term%d_grad%d %s H))" % (body, n, i, ps, Iargs("e"), nest, n, i, m, vars_)
            body = "%s + %s_term%d %s %s" % (body, n, i, ps, Iargs("e"))
        pf = [intro,
              "apply (is_derive_ext (fun e => %s))." % body,
              "{ intro e. unfold %s_W_C. rewrite %s_W_terms. reflexivity. }" % (n, n),
              "evar_last. exact %s." % nest,
              "unfold %s_stress%d." % (n, m)]
        for k in used:
            pf.append("rewrite (%s_S%d_terms %s %s H)." % (n, k, ps, Iargs("e0")))
        pf.append("ring.")
        out.append("Proof.\n  " + "\n  ".join(pf) + "\nQed.")
    out.append("Print Assumptions %s_stress_is_energy_gradient_5." % n)
    return "\n".join(out) + "\n", terms


def emit_tangent_termwise(M, L, rows=(0, 1, 2, 3, 4, 5), cols=(0, 1, 2, 3, 4, 5)):
    """Gen_HyperTanT_<law>_<rows>.v: assembled tangent entry [j][m] = derivative of the assembled stress component j along the
       m-th Kelvin-Mandel coordinate, proved piecewise: stress_j = sum_k 2 S_k(I(e)) dIkdC[j](e), one is_derive per k, then
       is_derive is additive and the sum is the code's tangent by `ring` + <law>_first_term_Ik.  A coefficient S_k that depends
       on its own invariant only (fibre terms) is handled by the one-variable chain rule (is_derive_comp) on the already proved
       <law>_d2WdIkdIk_correct, the others by gsolve2."""
    n = L["name"]
    ps = " ".join(L["params"])
    S = M["state"]
    T = _inv_trees(M, L)
    used = [k for k in INV if k in T]
    recs = {k: state_invariant(S, k, L["invs"].get(k, _default_args(k))) for k in used}
    dirs = " ".join(CV[6:])
    I3 = T[3][0]
    out = [HDR % ("EasyFEA/Models/HyperElastic/_laws.py class %s + _state.py" % n),
           "From Coq Require Import Reals Lra Psatz List.", "From Coquelicot Require Import Coquelicot.",
           "From EFModel Require Import C18_tac C18_gradtac.", "From EFP Require Import Gen_HyperLaws Gen_HyperComp Gen_Law_%s." % n, "Open Scope R_scope.", "",
           "Lemma is_derive_sum2 (f g : R -> R) (x a b : R) : is_derive f x a -> is_derive g x b -> is_derive (fun y => f y + g y) x (a + b).",
           "Proof. intros. now apply @is_derive_plus. Qed.",
           "Lemma is_derive_affine (f : R -> R) (x d a b : R) : is_derive f x d -> is_derive (fun y => a * f y * b) x (a * d * b).",
           "Proof. intro H. evar_last. apply (is_derive_ext (fun y => (a * b) * f y)). { intro t. simpl. ring. } { apply is_derive_scal. exact H. } simpl. ring. Qed.", ""]
    sig = "(%s : R) (%s : R)" % (ps, " ".join(CV))
    # S_k depending on its own invariant only, with a constant first-derivative table
    def single(k):
        fv = set(v for v in free_vars(law_coef(L, 'dW', k)) if v.startswith("I") and v[1:].isdigit())
        const_g = all(not (free_vars(t) & set(COMP)) for t in T[k][1])
        return fv <= {"I%d" % k} and const_g
    last = None
    for j in rows:
        for m in cols:
            others = [c for i, c in enumerate(COMP) if i != m]
            sub = lambda var: {COMP[m]: _km_arg(m, var)}
            def Iarg1(k, var):
                return "(%s)" % coqR(subst(T[k][0], sub(var))) if k in T else "0"
            def Iargs(var):
                return " ".join(Iarg1(k, var) for k in INV)
            def g(k, comp, var):
                return "(%s)" % coqR(subst(T[k][1][comp], sub(var)))
            def cargs(var):
                return " ".join("(%s)" % coqR(_km_arg(m, var)) if i == m else c for i, c in enumerate(COMP))
            hyp = "0 < %s" % coqR(subst(I3, sub("e0")))
            vars_ = "%s %s %s e0" % (ps, " ".join(others), dirs)
            fah = "forall %s, %s ->" % (vars_, hyp)
            # the code's assembly in terms of the named coefficients T_k = coef(d2IkdC)/4, H_ab = coef(dIadC (x) dIbdC)/4
            tt = ["4 * %s_T%d %s %s * (%s)" % (n, k, ps, " ".join(CV and [Iarg1(q, "@") for q in INV]), coqR(recs[k]["d2"][j][m])) for k in INV if k in L["d2W1"] and k in T]
            tdef = []
            for k in INV:
                if k in L["d2W1"] and k in T:
                    tdef.append("4 * %s_T%d %s %s * (%s)" % (n, k, ps, " ".join("(%s)" % coqR(T[q][0]) if q in T else "0" for q in INV), coqR(recs[k]["d2"][j][m])))
            for ((ja, aa), (kb, ab)) in L["d2W2"]:
                tdef.append("4 * %s_H%d%d %s %s * (%s) * (%s)" % (n, ja, kb, ps, " ".join("(%s)" % coqR(T[q][0]) if q in T else "0" for q in INV),
                                                             coqR(state_invariant(S, ja, aa)["d1"][j]), coqR(state_invariant(S, kb, ab)["d1"][m])))
            out.append("Definition %s_tangent%d%d %s : R := %s." % (n, j, m, sig, " + ".join(tdef) if tdef else "0"))
            for k in used:
                d2 = "(%s)" % coqR(subst(recs[k]["d2"][j][m], sub("e0")))
                dsum = " + ".join(["4 * %s_H%d%d %s %s * %s * %s" % (n, k, l, ps, Iargs("e0"), g(l, m, "e0"), g(k, j, "e0")) for l in used]
                                  + ["4 * %s_S%d %s %s * %s" % (n, k, ps, Iargs("e0"), d2)])
                out.append("Lemma %s_tan%d%d_piece%d : %s\n  is_derive (fun e => 2 * %s_S%d %s %s * %s) e0 (%s)." % (n, j, m, k, fah, n, k, ps, Iargs("e"), g(k, j, "e"), dsum))
                if single(k):
                    xargs = " ".join(("x" if q == k else Iarg1(q, "e0")) for q in INV)
                    pf = ["intros %s H." % vars_,
                          "assert (HI : is_derive (fun e => %s) e0 (2 * %s)) by (auto_derive; [ exact I | field ])." % (coqR(subst(T[k][0], sub("e"))), g(k, m, "e0")),
                          "pose proof (%s_d2WdI%ddI%d_correct %s %s H) as HS." % (n, k, k, ps, Iargs("e0")),
                          "pose proof (is_derive_comp (fun x => %s_S%d %s %s) (fun e => %s) e0 _ _ HS HI) as HC." % (n, k, ps, xargs, coqR(subst(T[k][0], sub("e")))),
                          "evar_last. exact (is_derive_affine _ _ _ 2 %s HC)." % g(k, j, "e0"),
                          "unfold %s. unfold scal, mult; simpl. unfold mult; simpl. ring." % ", ".join("%s_H%d%d" % (n, k, l) for l in used if l != k)]
                    out.append("Proof.\n  " + "\n  ".join(pf) + "\nQed.")
                else:
                    out.append("Proof. intros %s H. unfold %s. gsolve2 H. Qed." % (vars_, ", ".join(["%s_S%d" % (n, k)] + ["%s_H%d%d" % (n, k, l) for l in used])))
            out.append("Theorem %s_tangent_is_stress_derivative_%d%d : %s\n  is_derive (fun e => %s_stress%d %s %s %s) e0 (%s_tangent%d%d %s %s %s)."
                       % (n, j, m, fah, n, j, ps, cargs("e"), dirs, n, j, m, ps, cargs("e0"), dirs))
            body = "2 * %s_S%d %s %s * %s" % (n, used[0], ps, Iargs("e"), g(used[0], j, "e"))
            nest = "(%s_tan%d%d_piece%d %s H)" % (n, j, m, used[0], vars_)
            for k in used[1:]:
                nest = "(is_derive_sum2 (fun e => %s) (fun e => 2 * %s_S%d %s %s * %s) _ _ _ %s (%s_tan%d%d_piece%d %s H))" % (body, n, k, ps, Iargs("e"), g(k, j, "e"), nest, n, j, m, k, vars_)
                body = "%s + 2 * %s_S%d %s %s * %s" % (body, n, k, ps, Iargs("e"), g(k, j, "e"))
            pf = ["intros %s H." % vars_,
                  "apply (is_derive_ext (fun e => %s))." % body,
                  "{ intro e. unfold %s_stress%d. reflexivity. }" % (n, j),
                  "evar_last. exact %s." % nest,
                  "unfold %s_tangent%d%d." % (n, j, m)]
            for k in used:
                if k in L["d2W1"]:
                    pf.append("rewrite (%s_first_term_I%d %s %s H)." % (n, k, ps, Iargs("e0")))
            absent = ["%s_H%d%d" % (n, a, b) for a in used for b in used if ((a, L["invs"].get(a, _default_args(a))), (b, L["invs"].get(b, _default_args(b)))) not in L["d2W2"]]
            if absent:
                pf.append("unfold %s." % ", ".join(absent))
            pf.append("ring.")
            out.append("Proof.\n  " + "\n  ".join(pf) + "\nQed.")
            last = "%s_tangent_is_stress_derivative_%d%d" % (n, j, m)
    out.append("Print Assumptions %s." % last)
    return "\n".join(out) + "\n"
