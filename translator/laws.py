"""C11: translate EasyFEA/Models/Elastic/_laws.py (Isotropic, TransverselyIsotropic,
Orthotropic, Anisotropic, _Elastic._Apply_basis_transformation) and the parameter descriptors
of EasyFEA/Utilities/_params.py into rational-function trees and Coq definitions over R.

Every law class is interpreted (translator/c11_sym.py) under the three configurations
3d / ps (dim 2, plane stress) / pe (dim 2, plane strain) with homogeneous (scalar) parameters."""
import ast
import os
from collections import OrderedDict
from fractions import Fraction
from . import c11_sym as S
from .c11_sym import TranslateError, Arr, Sym, Opaque

REL = "EasyFEA/Models/Elastic/_laws.py"
REL_PARAMS = "EasyFEA/Utilities/_params.py"
CFGS = OrderedDict([("3d", (3, False)), ("ps", (2, True)), ("pe", (2, False))])
CLASSES = OrderedDict([("Isotropic", "iso"), ("TransverselyIsotropic", "ti"), ("Orthotropic", "ortho")])
N_OF_DIM = {2: 3, 3: 6}


# ------------------------------------------------------------------ descriptors
def read_descriptor_semantics(repo):
    """descriptor class name -> function(kwargs) -> list of (op, bound Fraction) meaning `value op bound`
    on the SCALAR path of the checker.  The checker functions are interpreted symbolically (value = a real
    variable, `isinstance(value, (int, float))` true, every other isinstance false), private helper
    functions are inlined, `operator.ge/gt/le/lt` are understood; the asserted comparisons are collected."""
    path = os.path.join(repo, REL_PARAMS)
    mod = S.Module(path)
    sem = {}
    for cname, c in mod.classes.items():
        meths, _, _ = S.class_members(c)
        if "_checker" not in meths:
            continue
        called = []
        for st in meths["_checker"].body:
            if isinstance(st, ast.Expr) and isinstance(st.value, ast.Call) and isinstance(st.value.func, ast.Name):
                called.append(st.value)
            elif isinstance(st, ast.Expr) and isinstance(st.value, ast.Constant):
                continue
            elif isinstance(st, ast.Raise):
                called = None
                break
            else:
                called = None
                break
        sem[cname] = (called, meths.get("__init__"))

    def scalar_hook(node_args, env):
        if len(node_args) != 2:
            return None
        t = ast.unparse(node_args[1])
        return ("int" in t.replace("np.integer", "")) or ("float" in t.replace("np.floating", ""))

    def constraints(cname, call_kwargs, where):
        if cname not in sem or sem[cname][0] is None:
            raise TranslateError("%s: descriptor class %s has no straight-line _checker" % (where, cname))
        called, init = sem[cname]
        attr = {}
        if init is not None:
            names = [a.arg for a in init.args.args[1:]]
            for st in init.body:
                if isinstance(st, ast.Assign) and isinstance(st.targets[0], ast.Attribute) and isinstance(st.value, ast.Name) and st.value.id in names:
                    if st.value.id not in call_kwargs:
                        raise TranslateError("%s: descriptor argument %s missing" % (where, st.value.id))
                    attr[st.targets[0].attr.lstrip("_")] = call_kwargs[st.value.id]
        out = []
        for call in called:
            fname = call.func.id
            if fname not in mod.funcs:
                raise TranslateError("%s: checker %s not found" % (where, fname))
            fn = mod.funcs[fname]
            env = {}
            for k in call.keywords:
                v = k.value
                if isinstance(v, ast.Attribute) and v.attr.lstrip("_") in attr:
                    env[k.arg] = attr[v.attr.lstrip("_")]
                else:
                    raise TranslateError("%s: checker argument %s" % (where, ast.unparse(v)))
            pnames = [a.arg for a in fn.args.args]
            if not pnames:
                raise TranslateError("%s: checker %s takes no argument" % (where, fname))
            env[pnames[0]] = ('v', 'value')
            it = S.Interp("%s -> %s" % (where, fname))
            it.modfuncs = mod.funcs
            it.isinstance_hook = scalar_hook
            it.run(fn, env)
            for (_, chain) in it.assert_values:
                for (o, l, r) in chain:
                    if l == ('v', 'value') and S.is_num(r):
                        out.append((o, Fraction(r)))
                    elif r == ('v', 'value') and S.is_num(l):
                        out.append(({'<': '>', '<=': '>=', '>': '<', '>=': '<='}[o], Fraction(l)))
                    else:
                        raise TranslateError("%s: %s asserts a comparison that is not `value <op> constant`" % (where, fname))
        return out
    return constraints


def class_params(cnode, constraints, where):
    _, _, descr = S.class_members(cnode)
    out = OrderedDict()
    for name, call in descr.items():
        if not (isinstance(call, ast.Call) and isinstance(call.func, ast.Attribute) and isinstance(call.func.value, ast.Name) and call.func.value.id == "_params"):
            continue
        kw = {}
        for k in call.keywords:
            try:
                v = ast.literal_eval(k.value)
            except Exception:
                raise TranslateError("%s.%s: descriptor argument %s" % (where, name, ast.unparse(k.value)))
            kw[k.arg] = Fraction(repr(v)) if isinstance(v, float) else Fraction(v)
        if call.args:
            raise TranslateError("%s.%s: positional descriptor arguments" % (where, name))
        out[name] = constraints(call.func.attr, kw, "%s.%s" % (where, name))
    return out


# ------------------------------------------------------------------ lazy-update wiring
def _n(node):
    return "".join(ast.unparse(node).split())


def read_lazy_wiring(repo):
    """Checks (fail-closed) the control flow the hand model EFModel.C11_Lazy assumes:
    * `_Parameter.__set__`: checker, store, then `Need_Update()` guarded ONLY by
      `isinstance(instance, Updatable)` — no data-dependent condition, no early return;
    * `Updatable.Need_Update` stores its argument; `needUpdate` defaults to True;
    * `_Elastic.C` / `.S` getters: `if self.needUpdate: self._Update(); self.Need_Update(False)`
      then return a copy of the stored matrix."""
    pm = S.Module(os.path.join(repo, REL_PARAMS))
    prm = pm.cls("_Parameter")
    meths, _, _ = S.class_members(prm)
    if "__set__" not in meths:
        raise TranslateError("_Parameter.__set__ not found")
    fn = meths["__set__"]
    args = [a.arg for a in fn.args.args]
    if len(args) != 3:
        raise TranslateError("_Parameter.__set__ signature")
    inst, val = args[1], args[2]
    body = [st for st in fn.body if not (isinstance(st, ast.Expr) and isinstance(st.value, ast.Constant))]
    where = "%s:%d _Parameter.__set__" % (REL_PARAMS, fn.lineno)
    stored = notified = False
    for st in body:
        t = _n(st)
        if t == "self._checker(%s)" % val:
            if stored:
                raise TranslateError("%s: the checker runs after the value is stored" % where)
            continue
        if isinstance(st, ast.Assign) and _n(st.targets[0]).startswith("%s.__dict__[" % inst) and _n(st.value) == val:
            stored = True
            continue
        if isinstance(st, ast.If) and _n(st.test) == "isinstance(%s,Updatable)" % inst and not st.orelse \
                and [_n(x) for x in st.body] == ["%s.Need_Update()" % inst]:
            if not stored:
                raise TranslateError("%s: Need_Update() is called before the value is stored" % where)
            notified = True
            continue
        raise TranslateError("%s: statement `%s` is outside the modelled shape (checker; store; "
                             "`if isinstance(instance, Updatable): instance.Need_Update()`) — a data-dependent guard or shortcut "
                             "around Need_Update() breaks the lazy-update model" % (where, ast.unparse(st).splitlines()[0][:90]))
    if not (stored and notified):
        raise TranslateError("%s: the value is not stored or Need_Update() is not reached" % where)
    um, up, _ = S.class_members(pm.cls("Updatable"))
    if "Need_Update" not in um or "self.__needUpdate=value" not in [_n(x) for x in um["Need_Update"].body]:
        raise TranslateError("Updatable.Need_Update does not store its argument")
    if "needUpdate" not in up or "self.__needUpdate=True" not in _n(up["needUpdate"]):
        raise TranslateError("Updatable.needUpdate does not default to True")
    lm = S.Module(os.path.join(repo, REL))
    _, props, _ = S.class_members(lm.cls("_Elastic"))
    for name in ("C", "S"):
        if name not in props:
            raise TranslateError("_Elastic.%s getter not found" % name)
        body = [st for st in props[name].body if not (isinstance(st, ast.Expr) and isinstance(st.value, ast.Constant))]
        ok = (len(body) == 2 and isinstance(body[0], ast.If) and _n(body[0].test) == "self.needUpdate" and not body[0].orelse
              and [_n(x) for x in body[0].body] == ["self._Update()", "self.Need_Update(False)"]
              and isinstance(body[1], ast.Return) and _n(body[1].value) == "self.__%s.copy()" % name)
        if not ok:
            raise TranslateError("%s:%d _Elastic.%s getter is not `if self.needUpdate: self._Update(); self.Need_Update(False)` + return of a copy"
                                 % (REL, props[name].lineno, name))
    # derived cache: Get_sqrt_C_S must read self.C (which processes a pending update and, through the C
    # setter, resets the cache) BEFORE it looks at its own cache
    em, _, _ = S.class_members(lm.cls("_Elastic"))
    if "Get_sqrt_C_S" in em:
        g = em["Get_sqrt_C_S"]
        body = [st for st in g.body if not (isinstance(st, ast.Expr) and isinstance(st.value, ast.Constant))]
        first = body[0] if body else None
        if not (isinstance(first, (ast.Assign, ast.Expr)) and _n(first.value) in ("self.C", "self.S")):
            raise TranslateError("%s:%d _Elastic.Get_sqrt_C_S does not read self.C before consulting its cache (a pending needUpdate "
                                 "would not be processed when the cache is populated)" % (REL, g.lineno))
        for st in body[1:]:
            pass
    # every other public getter must not keep private caches: only __C/__S/__sqrt_C/__sqrt_S are stored
    stored = set()
    for node in ast.walk(lm.cls("_Elastic")):
        if isinstance(node, (ast.Assign, ast.AnnAssign)):
            for t in (node.targets if isinstance(node, ast.Assign) else [node.target]):
                if isinstance(t, ast.Attribute) and isinstance(t.value, ast.Name) and t.value.id == "self" and t.attr.startswith("__"):
                    stored.add(t.attr)
    extra = stored - {"__C", "__S", "__sqrt_C", "__sqrt_S"}
    if extra:
        raise TranslateError("_Elastic stores additional private state %s that the lazy-update model does not know" % sorted(extra))
    return {"set_line": fn.lineno, "unconditional": True}


# ------------------------------------------------------------------ class interpretation
class ClassRun:
    def __init__(self, mod, umod, cname, cfg):
        self.mod, self.cname, self.cfg = mod, cname, cfg
        self.dim, self.ps = CFGS[cfg]
        self.node = mod.cls(cname)
        self.base = mod.cls("_Elastic")
        self.meths, self.props, self.descr = S.class_members(self.node)
        self.bmeths, self.bprops, _ = S.class_members(self.base)
        self.params = [k for k, v in self.descr.items() if isinstance(v, ast.Call)]
        self.derived = OrderedDict()
        self.axes = OrderedDict()
        self.stack = []
        self.named = OrderedDict()

    def pretty(self, name):
        p = "_%s__" % self.cname
        if name.startswith(p):
            name = name[len(p):]
        return name.lstrip("_")

    def interp(self, fn, where):
        it = S.Interp("%s.%s[%s]" % (self.cname, where, self.cfg), selfobj=self.selfattr, mangled_cls=self.cname)
        it.calls.update(self.calls())
        return it

    def scalar_member(self, key, fn):
        nm = self.pretty(key)
        if nm in self.derived:
            return ('v', nm)
        if key in self.stack:
            raise TranslateError("%s: recursive member %s" % (self.cname, key))
        self.stack.append(key)
        it = self.interp(fn, key)
        r = it.run(fn, {})
        self.stack.pop()
        if isinstance(r, Arr) and len(r.shape) == 1 and "axis" in key:
            return r
        if S.is_tree(r) or S.is_num(r):
            S.need(r, it.where)
            self.derived[nm] = S.as_tree(r)
            return ('v', nm)
        return r  # lists etc. pass through

    def selfattr(self, name, raw):
        if name == "dim":
            return self.dim
        if name == "planeStress":
            return self.ps
        if name in self.params:
            return ('v', name)
        if name in self.props:
            return self.scalar_member(name, self.props[name])
        if "axis" in name.lower():
            key = self.pretty(name)
            if key not in self.axes:
                self.axes[key] = Arr([('v', "%s_%d" % (key, i + 1)) for i in range(3)])
            return self.axes[key]
        return Opaque("self.%s" % name)

    def calls(self):
        d = {}
        for key, fn in self.meths.items():
            full = key if not (key.startswith("__") and not key.endswith("__")) else "_%s%s" % (self.cname, key)
            if key in ("__init__", "__str__", "_Update", "Walpole_Decomposition", "_Behavior"):
                continue
            if len(fn.args.args) == 1:
                d["self." + full] = (lambda args, kw, full=full, fn=fn: self.scalar_member(full, fn))
        d["self._Apply_basis_transformation"] = self.apply_basis
        d["Heterogeneous_Array"] = lambda args, kw: args[0]
        def km(args, kw):
            if isinstance(args[1], Arr):
                self.named.setdefault("cVoigt", args[1])
            return Sym('km', (args[0], args[1]), getattr(args[1], "shape", None))
        d["KelvinMandel_Matrix"] = km
        d["Get_Pmat"] = self.get_pmat
        d["Apply_Pmat"] = self.apply_pmat
        return d

    def get_pmat(self, args, kw):
        names = ["axis_1", "axis_2", "useMandel"]
        a = dict(zip(names, args))
        a.update(kw)
        a.setdefault("useMandel", True)
        return Sym('pmat', (a["axis_1"], a["axis_2"], a["useMandel"]), (6, 6))

    def apply_pmat(self, args, kw):
        names = ["P", "M", "toGlobal"]
        a = dict(zip(names, args))
        a.update(kw)
        a.setdefault("toGlobal", True)
        return Sym('apply', (a["P"], a["M"], a["toGlobal"]), (6, 6))

    def apply_basis(self, args, kw):
        fn = self.bmeths.get("_Apply_basis_transformation")
        if fn is None:
            raise TranslateError("_Elastic._Apply_basis_transformation not found")
        names = [a.arg for a in fn.args.args[1:]]
        env = dict(zip(names, args))
        env.update(kw)
        for k, v in env.items():
            if k.startswith("material_") and isinstance(v, Arr):
                self.named.setdefault(k[len("material_"):], v)
        it = S.Interp("_Elastic._Apply_basis_transformation[%s]" % self.cfg, selfobj=self.selfattr, mangled_cls="_Elastic")
        it.calls.update({"Get_Pmat": self.get_pmat, "Apply_Pmat": self.apply_pmat})
        return it.run(fn, env)

    def behavior(self):
        fn = self.meths.get("_Behavior")
        if fn is None:
            raise TranslateError("%s._Behavior not found" % self.cname)
        it = self.interp(fn, "_Behavior")
        r = it.run(fn, {"dim": None})
        if not (isinstance(r, tuple) and len(r) == 2):
            raise TranslateError("%s: does not return (c, s)" % it.where)
        S.need(r, it.where)
        self.asserts = it.asserts
        return r


def _strip_ellipsis(ix):
    return tuple(i for i in ix if i is not Ellipsis) if isinstance(ix, tuple) else ix


def _sub_pattern(v):
    """Sym sub(sub(M,(idx,:)),(:,idx)) -> (M, idx) or None; a leading `...` (any number of
    leading field axes) is ignored: the homogeneous (6,6) case is what is modelled"""
    if isinstance(v, Sym) and v.op == 'sub':
        inner, i2 = v.args
        if isinstance(inner, Sym) and inner.op == 'sub':
            M, i1 = inner.args
            i1, i2 = _strip_ellipsis(i1), _strip_ellipsis(i2)
            # leading `:` over the field axes (per-element / per-Gauss-point arrays)
            while isinstance(i1, tuple) and isinstance(i2, tuple) and len(i1) > 2 and len(i2) > 2 \
                    and i1[0] == slice(None, None, None) and i2[0] == slice(None, None, None):
                i1, i2 = i1[1:], i2[1:]
            if (isinstance(i1, tuple) and len(i1) == 2 and isinstance(i1[0], list) and i1[1] == slice(None, None, None)
                    and isinstance(i2, tuple) and len(i2) == 2 and i2[0] == slice(None, None, None) and i2[1] == i1[0]):
                return M, [int(k) for k in i1[0]]
    return None


def _describe(v, mats, where):
    """structure of a returned matrix -> nested description tuple; literal matrices are stored in mats."""
    if isinstance(v, Arr):
        for k, m in mats.items():
            if m is v or m.data == v.data:
                return ('lit', k)
        raise TranslateError("%s: unnamed literal matrix" % where)
    if isinstance(v, Sym):
        if v.op == 'km':
            return ('km', v.args[0], _describe(v.args[1], mats, where))
        if v.op == 'inv':
            return ('inv', _describe(v.args[0], mats, where))
        if v.op == 'apply':
            P, M, tg = v.args
            if not (isinstance(P, Sym) and P.op == 'pmat'):
                raise TranslateError("%s: Apply_Pmat is not fed with Get_Pmat(...)" % where)
            a1, a2, um = P.args
            if um is not True:
                raise TranslateError("%s: Get_Pmat(useMandel=%r)" % (where, um))
            if not (isinstance(a1, Arr) and isinstance(a2, Arr)):
                raise TranslateError("%s: Get_Pmat axes are not the stored axes" % where)
            return ('apply', (a1.data[0][1][:-2], a2.data[0][1][:-2]), _describe(M, mats, where), bool(tg))
        sp = _sub_pattern(v)
        if sp:
            return ('sub', sp[1], _describe(sp[0], mats, where))
    raise TranslateError("%s: unrecognised structure %r" % (where, v))


def read_laws(repo):
    path = os.path.join(repo, REL)
    mod = S.Module(path)
    constraints = read_descriptor_semantics(repo)
    out = {"file": REL, "classes": OrderedDict(), "lines": {}}
    for cname, short in CLASSES.items():
        cnode = mod.cls(cname)
        out["lines"][cname] = cnode.lineno
        rec = {"short": short, "params": class_params(cnode, constraints, cname), "cfg": OrderedDict()}
        for cfg in CFGS:
            run = ClassRun(mod, None, cname, cfg)
            c, s = run.behavior()
            mats = run.named
            dc = _describe(c, mats, "%s[%s].C" % (cname, cfg))
            ds = _describe(s, mats, "%s[%s].S" % (cname, cfg))
            for k, m in mats.items():
                n = m.shape
                if n[0] != n[1]:
                    raise TranslateError("%s[%s]: literal matrix of shape %s" % (cname, cfg, n))
            lits = OrderedDict((k, [[S.as_tree(x) for x in row] for row in m.data]) for k, m in mats.items())
            extra = None
            if cname == "Isotropic":
                # bulk modulus helper
                it = run.interp(run.meths["get_bulk"], "get_bulk")
                b = it.run(run.meths["get_bulk"], {})
                S.need(b, it.where)
                run.derived["get_bulk"] = S.as_tree(b)
            rec["cfg"][cfg] = {"derived": run.derived, "C": dc, "S": ds, "lits": lits,
                               "asserts": [ast.unparse(a.test) for a in run.asserts]}
        out["classes"][cname] = rec
    out["aniso"] = read_aniso(mod)
    return out


# ------------------------------------------------------------------ Anisotropic
def read_aniso(mod):
    cnode = mod.cls("Anisotropic")
    meths, props, _ = S.class_members(cnode)
    fn = meths.get("_Behavior")
    if fn is None:
        raise TranslateError("Anisotropic._Behavior not found")
    res = OrderedDict()
    for dim in (2, 3):
        n = N_OF_DIM[dim]
        for voigt, rank in [(v_, r_) for v_ in (True, False) for r_ in (2, 3, 4)]:
            # rank 2: one (n,n) matrix; rank 3: per-element field (Ne,n,n); rank 4: per-Gauss-point field
            # (Ne,nPg,n,n) — the fields are interpreted with ONE entry (Ne = nPg = 1) carrying the same symbols
            C2 = [[('v', "c%d%d" % (i + 1, j + 1)) for j in range(n)] for i in range(n)]
            Cin = Arr(C2 if rank == 2 else [C2] if rank == 3 else [[C2]])
            axes = {}

            def selfattr(name, raw, dim=dim, axes=axes):
                if name == "dim":
                    return dim
                if "axis" in name.lower():
                    if name not in axes:
                        axes[name] = Arr([('v', "%s_%d" % (name.split("__")[-1], i + 1)) for i in range(3)])
                    return axes[name]
                return Opaque("self.%s" % name)
            it = S.Interp("Anisotropic._Behavior[dim=%d,voigt=%s,C.ndim=%d]" % (dim, voigt, rank), selfobj=selfattr, mangled_cls="Anisotropic")
            it.calls["KelvinMandel_Matrix"] = lambda args, kw, Cin=Cin: (
                Arr(S.arr_map(lambda x: ('v', "K" + x[1]) if S.is_tree(x) and x[0] == 'v' else None, args[1].data))
                if isinstance(args[1], Arr) and args[1].data == Cin.data else Opaque("KelvinMandel_Matrix of something else"))
            it.calls["Get_Pmat"] = lambda args, kw: Sym('pmat', tuple(args), (6, 6))
            it.calls["Apply_Pmat"] = lambda args, kw: Sym('apply', tuple(args) + (kw.get("toGlobal", True),), (6, 6))
            r = it.run(fn, {"C": Cin, "useVoigtNotation": voigt})
            where = it.where
            S.need(r, where)
            idx = None
            sp = _sub_pattern(r)
            if sp:
                r, idx = sp
            if not (isinstance(r, Sym) and r.op == 'apply' and isinstance(r.args[0], Sym) and r.args[0].op == 'pmat' and r.args[-1] is True):
                raise TranslateError("%s: result is not Apply_Pmat(Get_Pmat(axis1, axis2), X)" % where)
            X = r.args[1]
            lead = (1,) * (rank - 2)
            if not (isinstance(X, Arr) and X.shape == lead + (6, 6)):
                raise TranslateError("%s: the rotated matrix is not of shape %s" % (where, lead + (6, 6)))
            for _ in lead:
                X = Arr(X.data[0])
            # describe X: each entry is 0, c_ij (raw input) or Kc_ij (Kelvin-Mandel-scaled input)
            desc = []
            for row in X.data:
                drow = []
                for e in row:
                    if S.is_num(e) and e == 0:
                        drow.append(None)
                    elif S.is_tree(e) and e[0] == 'v' and e[1].startswith("Kc"):
                        drow.append(('km', int(e[1][2]) - 1, int(e[1][3]) - 1))
                    elif S.is_tree(e) and e[0] == 'v' and e[1].startswith("c"):
                        drow.append(('raw', int(e[1][1]) - 1, int(e[1][2]) - 1))
                    else:
                        raise TranslateError("%s: entry %r of the rotated matrix" % (where, e))
                desc.append(drow)
            if (dim == 2) != (idx is not None):
                raise TranslateError("%s: final plane extraction %r" % (where, idx))
            if rank == 2:
                res[(dim, voigt)] = {"inner": desc, "idx": idx, "line": fn.lineno}
            elif desc != res[(dim, voigt)]["inner"] or idx != res[(dim, voigt)]["idx"]:
                raise TranslateError("%s: the %s branch does not build the same law as the single-matrix branch"
                                     % (where, "per-element" if rank == 3 else "per-Gauss-point"))
    return res


# ------------------------------------------------------------------ Coq emission
def _op(o):
    return {'>=': '<=', '>': '<', '<=': '>=', '<': '>'}[o]


def coq_constraint(name, o, b):
    bt = S.coq_tree(('c', b))
    if o in ('>=', '>'):
        return "%s %s %s" % (bt, '<=' if o == '>=' else '<', name)
    return "%s %s %s" % (name, o, bt)


def coq_struct(d, short, cfg, args):
    k = d[0]
    if k == 'lit':
        return "(%s_%s_%s %s)" % (short, cfg, d[1], args)
    if k == 'km':
        return "(km%d r2 %s)" % (d[1], coq_struct(d[2], short, cfg, args))
    if k == 'apply':
        return "(apply_pmat_%s 6 P %s)" % ("global" if d[3] else "material", coq_struct(d[2], short, cfg, args))
    if k == 'sub':
        return "(submat [%s] %s)" % ("; ".join("%d%%nat" % i for i in d[1]), coq_struct(d[2], short, cfg, args))
    raise TranslateError("emit: structure %r" % (d,))


def uses(d, kind):
    return d[0] == kind or any(isinstance(x, tuple) and x and isinstance(x[0], str) and uses(x, kind) for x in d[1:] if isinstance(x, tuple))


def emit_coq(lw):
    L = ["(* GENERATED from %s by translator/laws.py — do not edit *)" % lw["file"],
         "From Coq Require Import Reals List.", "From EFLib Require Import C11_MatR.",
         "From EFP Require Import Gen_Pmat.",
         "Import ListNotations.", "Open Scope R_scope.", ""]
    for cname, rec in lw["classes"].items():
        sh = rec["short"]
        ps = list(rec["params"].keys())
        args = " ".join(ps)
        cons = [coq_constraint(p, o, b) for p, cs in rec["params"].items() for (o, b) in cs]
        L.append("(* ---- %s: parameters %s; ranges enforced by the descriptors *)" % (cname, ", ".join(ps)))
        L.append("Definition %s_admissible (%s : R) : Prop :=\n  %s." % (sh, args, " /\\ ".join(cons) if cons else "True"))
        for cfg, r in rec["cfg"].items():
            for nm, t in r["derived"].items():
                lets = "".join("let %s := %s_%s_%s %s in " % (d, sh, cfg, d, args) for d in r["derived"] if d != nm and d in S.tree_vars(t))
                L.append("Definition %s_%s_%s (%s : R) : R := %s%s." % (sh, cfg, nm, args, lets, S.coq_tree(t)))
            for k, rows in r["lits"].items():
                vs = set()
                for row in rows:
                    for e in row:
                        vs |= S.tree_vars(e)
                lets = "".join("let %s := %s_%s_%s %s in " % (d, sh, cfg, d, args) for d in r["derived"] if d in vs)
                L.append("Definition %s_%s_%s (%s : R) : mat := %s\n  %s." % (sh, cfg, k, args, lets, S.coq_mat(rows)))
            for which in ("C", "S"):
                d = r[which]
                if d[0] == 'inv':
                    L.append("(* %s[%s].%s = np.linalg.inv(%s): not modelled, see its argument *)" % (cname, cfg, which, "S" if which == "C" else "C"))
                    continue
                extra = ("r2 " if uses(d, 'km') else "") + ("(P : mat) " if uses(d, 'apply') else "")
                if d[0] == 'apply' or (d[0] == 'sub' and d[2][0] == 'apply'):
                    ax = d[1] if d[0] == 'apply' else d[2][1]
                    L.append("(* P = Get_Pmat(self.%s, self.%s, useMandel=True) *)" % ax)
                L.append("Definition %s_%s_%s %s(%s : R) : mat := %s." % (sh, cfg, which, extra, args, coq_struct(d, sh, cfg, args)))
    # Anisotropic
    L.append("(* ---- Anisotropic._Behavior: the matrix handed to Apply_Pmat, as a function of the input C *)")
    for (dim, voigt), r in lw["aniso"].items():
        n = N_OF_DIM[dim]
        rows = []
        for row in r["inner"]:
            es = []
            for e in row:
                if e is None:
                    es.append("0")
                elif e[0] == 'raw':
                    es.append("entry C %d %d" % (e[1], e[2]))
                else:
                    es.append("entry (km%d r2 C) %d %d" % (dim, e[1], e[2]))
            rows.append("[" + "; ".join(es) + "]")
        L.append("Definition aniso_inner_%dd_%s (r2 : R) (C : mat) : mat :=\n  [%s]." % (dim, "voigt" if voigt else "kelvin", ";\n   ".join(rows)))
        L.append("Definition aniso_idx_%dd_%s : list nat := [%s]." % (dim, "voigt" if voigt else "kelvin", "; ".join("%d%%nat" % i for i in (r["idx"] or []))))
    return "\n".join(L) + "\n"
